"""C04 — only coherent, untampered file sets open as a record.

Valid records are produced by real histories through the API (IH5Record and IH5MFRecord,
several patches, committed and uncommitted newest container, a second record with the same
history, forks made by copying a file set and patching it differently, a stub and a patch
built on the stub).  Every structural mutation of those file sets (all subsets, all
substitutions and additions from the other records / forks, duplicates, permutations,
every user-block field rewrite from a catalogue, every manifest edit) and byte corruptions of
the container files (flips stratified over HDF5 superblock / body / tail, truncations,
extensions, inserted and deleted bytes; user-block flips separately) are materialised and
opened with the real ``IH5Record(files, 'r')`` / ``IH5MFRecord(files, 'r')``.

Compared per case: raising vs. returning, the container order on success, and the failing
test (kind + container position) when the implementation's own message identifies it —
against ``open_res`` of coq/Rec/Chain.v run on the abstraction of the mutated set (the harness
reads the user blocks with its own parser and hashes payloads / manifests with hashlib).

Oracle (code alone): the declarative ``coherent`` predicate, implemented independently in
Python by following predecessor links (reclib.coherent), must be true exactly when the real
open returns; a corrupted committed payload must always be refused.

Not demanded (counted in the evidence, never a violation): corruptions of an *uncommitted*
newest payload, flips in the NUL padding of the user block, user-block text flips that leave
valid JSON outside the strict canonical form, edits of sidecar manifests of non-newest
containers (only the newest container's manifest belongs to the opened set).
"""
from __future__ import annotations

import itertools
import json
import uuid
from pathlib import Path
from typing import Any, Dict, List, Optional

import gentie
import reclib
import vlib

PLAIN_SETS = ["A", "Au", "B", "F", "A1c", "A1u"]
MF_SETS = ["M", "Mu", "N", "G", "S", "MS"]
ZERO_HASH = "sha256:" + "0" * 64


# ---------------------------------------------------------------------------- workers

def w_family(arg):
    try:
        return reclib.build_family(arg)
    except BaseException as e:  # noqa: BLE001
        return {"error": f"{type(e).__name__}: {e}"[:300]}


def w_case(case):
    try:
        return reclib.eval_case(case)
    except BaseException as e:  # noqa: BLE001
        import traceback
        return {"harness_error": f"{type(e).__name__}: {e}"[:300], "tb": traceback.format_exc()[-1500:]}


def _wrong(case) -> Optional[Dict[str, Any]]:
    """Property oracle on one case: None if fine / not decidable, else a description."""
    r = reclib.eval_case(case)
    real = r["real"]
    if real[0] == "timeout":
        return None
    ok = real[0] == "ok"
    demanded = demanded_verdict(case, r)
    if demanded is None or demanded == ok:
        return None
    return {"demanded": "accept" if demanded else "refuse", "real": real[:4]}


def demanded_verdict(case, r) -> Optional[bool]:
    """What the property demands for this case (True accept / False refuse / None nothing)."""
    k = case.get("klass", "")
    if k in ("payload:uncommitted", "ublock:padding"):
        return None
    if k == "payload:committed":
        return False
    if any(s == "unsure" for s in r["sts"]):
        return None
    if any(s == "bad" for s in r["sts"]):
        return None if k.startswith("ublock:") else False
    return bool(r["coh"])


def w_shrink(case):
    """Drop containers while the oracle still fails."""
    if case is None:
        return None
    try:
        base = dict(case)

        def fails(files):
            c = dict(base, files=_reindex(files))
            return _wrong(c) is not None
        files = vlib.ddmin(list(case["files"]), fails, budget=60)
        small = dict(base, files=_reindex(files))
        return {"case": reclib.freeze(small), "why": _wrong(small)}
    except BaseException as e:  # noqa: BLE001
        return {"case": reclib.freeze(case), "why": _wrong(case), "shrink_error": str(e)[:200]}


def _reindex(files):
    """same_as references do not survive dropping entries: turn them into plain copies."""
    out = []
    for e in files:
        e = dict(e)
        if "same_as" in e:
            e.pop("same_as")
        out.append(e)
    return out


# ---------------------------------------------------------------------------- case generation

def _fresh(rng) -> str:
    return str(uuid.UUID(int=rng.getrandbits(128), version=1))


def _mk(cls, files, klass, bl=False, **extra):
    return dict({"cls": cls, "bl": bl, "files": files, "klass": klass}, **extra)


def _with_mut(e, *muts):
    e2 = dict(e)
    e2["muts"] = list(e.get("muts", [])) + list(muts)
    return e2


def gen_structural(fam, rng, quick: bool) -> List[Dict[str, Any]]:
    S = fam["sets"]
    cases: List[Dict[str, Any]] = []
    info = {e["src"]: reclib.abstract_file(Path(e["src"])) for k in S for e in S[k]}

    def universe(names):
        seen, out = set(), []
        for k in names:
            for e in S.get(k, []):
                if e["src"] not in seen:
                    seen.add(e["src"])
                    out.append(e)
        return out

    uni = {"plain": universe(PLAIN_SETS), "mf": universe(MF_SETS)}
    cases.append(_mk("IH5Record", [], "empty"))
    cases.append(_mk("IH5MFRecord", [], "empty"))

    for name in PLAIN_SETS + MF_SETS:
        if name not in S:
            continue
        X = S[name]
        is_mf = name in MF_SETS
        classes = ["IH5MFRecord", "IH5Record"] if is_mf else ["IH5Record", "IH5MFRecord"]
        n = len(X)
        for ci, cls in enumerate(classes):
            primary = ci == 0
            # all non-empty subsets, listed in order and shuffled; also with baseless allowed
            for mask in range(1, 2 ** n):
                sub = [X[i] for i in range(n) if mask >> i & 1]
                cases.append(_mk(cls, sub, "subset"))
                if len(sub) > 1:
                    sh = list(sub)
                    rng.shuffle(sh)
                    cases.append(_mk(cls, sh, "subset"))
                if primary:
                    cases.append(_mk(cls, list(reversed(sub)), "subset-baseless", bl=True))
            # permutations of the whole set
            perms = list(itertools.permutations(range(n)))
            if len(perms) > 24:
                perms = rng.sample(perms, 24)
            for pm in perms:
                cases.append(_mk(cls, [X[i] for i in pm], "perm"))
            if not primary and quick and name not in ("A", "M", "MS"):
                continue
            others = [o for o in uni["mf" if is_mf else "plain"] if all(o["src"] != e["src"] for e in X)]
            if primary:
                others = others + [o for o in uni["plain" if is_mf else "mf"]][:3]
            for o in others:
                for i in range(n):
                    cases.append(_mk(cls, X[:i] + [o] + X[i + 1:], "subst"))
                cases.append(_mk(cls, X + [o], "add"))
                cases.append(_mk(cls, [o] + X, "add"))
            for i in range(n):
                cases.append(_mk(cls, X + [{"role": X[i]["role"], "same_as": i}], "dup-samepath"))
                cases.append(_mk(cls, X[:i + 1] + [dict(X[i])] + X[i + 1:], "dup-copy"))
            # user-block field rewrites
            ubs = [info[e["src"]] for e in X]
            foreign = info[(S["N"] if is_mf else S["B"])[0]["src"]]["rec"]
            for i in range(n):
                u = ubs[i]
                muts: List[Dict[str, Any]] = [
                    {"rec": _fresh(rng)}, {"rec": foreign},
                    {"idx": u["idx"] + 100}, {"idx": 0 if u["idx"] else 5},
                    {"pid": _fresh(rng)}, {"prev": _fresh(rng)}, {"prev": u["pid"]},
                    {"prev": None}, {"hash": None}, {"hash": ZERO_HASH},
                    {"hash": (u["hash"] or ZERO_HASH)[:-1] + ("0" if (u["hash"] or ZERO_HASH)[-1] != "0" else "1")},
                    {"ext": None}, {"ext": {"stub": True, "id": _fresh(rng), "hash": ZERO_HASH}},
                    {"ext": {"stub": False, "id": _fresh(rng), "hash": ZERO_HASH}},
                    {"ext.stub": True}, {"ext.hash": ZERO_HASH}, {"ext.id": _fresh(rng)},
                    {"pid": _fresh(rng), "prev": _fresh(rng)},
                ]
                for j in range(n):
                    if j != i:
                        muts += [{"pid": ubs[j]["pid"]}, {"prev": ubs[j]["pid"]}, {"idx": ubs[j]["idx"]},
                                 {"hash": ubs[j]["hash"]}]
                        if ubs[j]["idx"] + 1 != u["idx"]:
                            muts.append({"idx": ubs[j]["idx"] + 1})
                for m in muts:
                    if any(k.startswith("ext.") for k in m) and u["ext"] is None:
                        continue
                    if all((u.get(k) == v) for k, v in m.items() if not k.startswith("ext.")) and \
                            not any(k.startswith("ext.") for k in m):
                        continue    # no change
                    fld = "+".join(sorted(m))
                    cases.append(_mk(cls, X[:i] + [_with_mut(X[i], {"k": "ub", "set": m})] + X[i + 1:], "ub:" + fld))
            # manifest edits
            if is_mf:
                for i in range(n):
                    if not X[i].get("mf"):
                        continue
                    size = Path(X[i]["mf"]).stat().st_size
                    kl = "mf:newest" if i == n - 1 else "mf:older"
                    mm: List[Dict[str, Any]] = [{"k": "mf-del"}, {"k": "mf-append", "hex": "0a"},
                                                {"k": "mf-append", "hex": "20"}, {"k": "mf-trunc", "to": 0},
                                                {"k": "mf-trunc", "to": size - 1}]
                    for off in sorted({0, size - 1, size // 2, rng.randrange(size), rng.randrange(size)}):
                        mm.append({"k": "mf-flip", "off": off, "xor": rng.choice([1, 0x20, 0x80, 0xFF])})
                    for j in range(n):
                        if j != i and X[j].get("mf"):
                            mm.append({"k": "mf-replace", "src": X[j]["mf"]})
                    for m in mm:
                        cases.append(_mk(cls, X[:i] + [_with_mut(X[i], m)] + X[i + 1:], kl))
    return cases


def gen_bytes(fam, rng, per_file: int, every_byte_limit: int, ub_text: int, ub_pad: int) -> List[Dict[str, Any]]:
    """Byte corruptions.  per_file: flips per container; every_byte_limit: containers with a
    payload up to that many bytes get every payload byte flipped once (0 = off)."""
    S = fam["sets"]
    cases: List[Dict[str, Any]] = []
    plan = [("A", "IH5Record"), ("Au", "IH5Record"), ("F", "IH5Record"), ("A1c", "IH5Record"), ("A1u", "IH5Record"),
            ("M", "IH5MFRecord"), ("Mu", "IH5MFRecord"), ("MS", "IH5MFRecord"), ("S", "IH5MFRecord"),
            ("M", "IH5Record")]
    done_every = set()
    for name, cls in plan:
        if name not in S:
            continue
        X = S[name]
        for i, e in enumerate(X):
            data = Path(e["src"]).read_bytes()
            size = len(data)
            committed = reclib.parse_ublock(data)["ub"]["hash"] is not None
            kl = "payload:committed" if committed else "payload:uncommitted"

            def one(mut, klass=kl):
                cases.append(_mk(cls, X[:i] + [_with_mut(e, mut)] + X[i + 1:], klass, target=e["role"]))

            lo = reclib.UB_SIZE
            offs = set()
            q = max(4, per_file // 4)
            offs.update(rng.sample(range(lo, min(size, lo + 96)), min(q, max(0, min(size, lo + 96) - lo))))
            if size - 256 > lo + 96:
                offs.update(rng.sample(range(lo + 96, size - 256), min(per_file - 2 * q, size - 256 - lo - 96)))
            offs.update(rng.sample(range(max(lo, size - 256), size), min(q, size - max(lo, size - 256))))
            offs.update({lo, size - 1})
            if every_byte_limit and size - lo <= every_byte_limit and (e["src"], cls) not in done_every and name in ("A", "Mu") and committed:
                done_every.add((e["src"], cls))
                offs.update(range(lo, size))
            for off in sorted(offs):
                one({"k": "flip", "off": off, "xor": rng.choice([1, 2, 0x10, 0x80, 0xFF, rng.randrange(1, 256)])})
            for to in sorted({size - 1, size - rng.randrange(2, 200), (lo + size) // 2, lo + 1, lo,
                              lo - rng.randrange(1, 400), 0}):
                if 0 <= to < size:
                    one({"k": "trunc", "to": to})
            for hx in ("00", "%02x" % rng.randrange(256), bytes(rng.randrange(256) for _ in range(64)).hex(), "00" * 4096):
                one({"k": "extend", "hex": hx})
            for _ in range(2):
                one({"k": "insert", "off": rng.randrange(lo, size), "hex": "%02x" % rng.randrange(256)})
                one({"k": "delete", "off": rng.randrange(lo, size - 1), "n": 1})
            # user block: text and padding
            if name in ("A", "Mu", "S", "A1u"):
                tl = reclib.text_len(data)
                toffs = range(tl) if ub_text <= 0 else sorted(rng.sample(range(tl), min(ub_text, tl)))
                for off in toffs:
                    for x in ([1, 0x80] if ub_text <= 0 else [rng.choice([1, 2, 4, 8, 0x10, 0x20, 0x40, 0x80])]):
                        one({"k": "flip", "off": off, "xor": x}, "ublock:text")
                for off in sorted(rng.sample(range(tl, lo), min(ub_pad, lo - tl)) + [tl, lo - 1]):
                    one({"k": "flip", "off": off, "xor": rng.choice([1, 0x0a, 0x22, 0x7d, 0x80, 0xFF])}, "ublock:padding")
    return cases


def gen_abstract(rng) -> Dict[str, Any]:
    """A random abstract file set near a valid chain (no files involved): exercises the
    equivalence model <-> declarative oracle far beyond what real histories produce
    (index ties, predecessor cycles in baseless mode, stubs, several faults at once)."""
    n = rng.randint(1, 5)
    idx = sorted(rng.sample(range(8), n))
    files = []
    for i in range(n):
        d = f"d{i}"
        ext = None
        mf = None
        if rng.random() < 0.5:
            ext = {"stub": i == 0 and rng.random() < 0.2, "id": f"m{i}", "hash": f"h{i}"}
            mf = [f"m{i}", f"h{i}"]
        files.append({"st": "ok", "rec": "r1", "idx": idx[i], "pid": f"u{i}", "prev": None if i == 0 else f"u{i - 1}",
                      "hash": d if (i < n - 1 or rng.random() < 0.5) else None, "ext": ext, "dig": d, "mf": mf})
    for _ in range(rng.choice([0, 0, 1, 1, 1, 2, 3])):
        k = rng.randrange(12)
        f = rng.choice(files)
        if k == 0:
            f["rec"] = rng.choice(["r1", "r2"])
        elif k == 1:
            f["idx"] = rng.randrange(8)
        elif k == 2:
            f["pid"] = f"u{rng.randrange(6)}"
        elif k == 3:
            f["prev"] = rng.choice([None] + [f"u{j}" for j in range(6)])
        elif k == 4:
            f["hash"] = rng.choice([None, f["dig"], "dx"])
        elif k == 5:
            f["dig"] = rng.choice([f["dig"], "dy"])
        elif k == 6:
            f["ext"] = rng.choice([None, {"stub": rng.random() < 0.5, "id": "m9", "hash": rng.choice(["h9", f"h{rng.randrange(5)}"])}])
        elif k == 7:
            f["mf"] = rng.choice([None, ["m9", rng.choice(["h9", f"h{rng.randrange(5)}"])]])
        elif k == 8 and len(files) > 1:
            files.remove(f)
        elif k == 9:
            files.append(dict(f))
        elif k == 10:
            g = dict(rng.choice(files))
            g.update(pid="u7", prev=f["pid"], idx=rng.randrange(9), dig="dz", hash=rng.choice([None, "dz"]))
            files.append(g)
        elif k == 11 and f["ext"] is not None:
            f["ext"] = dict(f["ext"], stub=not f["ext"]["stub"])
    rng.shuffle(files)
    return {"mfm": rng.random() < 0.5, "bl": rng.random() < 0.25, "files": files}


def abstract_sweep(ctx, n) -> Dict[str, Any]:
    sets = [gen_abstract(ctx.rng) for _ in range(n)]
    mcases = [reclib.to_model_case(a["mfm"], a["bl"], a["files"])[0] for a in sets]
    mres = vlib.run_model("c04", mcases)
    acc = 0
    for a, mc, m in zip(sets, mcases, mres):
        coh = reclib.coherent(a["files"], a["mfm"], a["bl"])
        acc += coh
        if (m[0] == "ok") != coh:
            ctx.violation("model open_check and the harness's declarative coherent oracle differ on an abstract file set "
                          "(contradicts C04_accept_iff: harness or model defect)",
                          {"kind": "spec-mismatch", "theorem": "C04_accept_iff", "abstract": a, "model_case": mc,
                           "model": m, "coherent": coh}, found_input=False)
            break
    return {"abstract_sets": n, "distinct": len({json.dumps(m) for m in mcases}), "coherent": acc}


# ---------------------------------------------------------------------------- large containers

BIG_CHUNKS = [1 << b for b in range(12, 21)]


def big_apply(P: bytes, m: Dict[str, Any]) -> bytes:
    """Structural tampering of a payload with material copied from the payload itself."""
    op = m["op"]
    if op == "append":
        return P + P[m["a"]:m["b"]]
    if op == "append_zero":
        return P + bytes(m["n"])
    if op == "insert":
        return P[:m["at"]] + P[m["a"]:m["b"]] + P[m["at"]:]
    if op == "replace":
        n = m["b"] - m["a"]
        return P[:m["at"]] + P[m["a"]:m["b"]] + P[m["at"] + n:]
    if op == "trunc":
        return P[:m["to"]]
    if op == "delete":
        return P[:m["a"]] + P[m["b"]:]
    if op == "swap":
        a, b, n = m["a"], m["b"], m["n"]
        return P[:a] + P[b:b + n] + P[a + n:b] + P[a:a + n] + P[b + n:]
    raise ValueError(op)


def big_mutations(L: int, rng) -> List[Dict[str, Any]]:
    """Chunk-aligned mutations of a payload of L bytes for chunk sizes 2^12 .. 2^20."""
    out: List[Dict[str, Any]] = []
    for c in BIG_CHUNKS:
        k, r = divmod(L, c)
        if k < 1:
            continue
        out.append({"op": "trunc", "to": k * c, "c": c})
        if k >= 2:
            out.append({"op": "trunc", "to": (k - 1) * c, "c": c})
        out.append({"op": "append", "a": (k - 1) * c, "b": k * c, "c": c})          # duplicate last full chunk
        out.append({"op": "append", "a": 0, "b": c, "c": c})                        # first chunk again
        if r:
            out.append({"op": "append", "a": (k - 1) * c + r, "b": k * c, "c": c})  # previous chunk's tail: pads to a multiple
            out.append({"op": "append", "a": r, "b": c, "c": c})                    # first chunk's tail: pads to a multiple
            out.append({"op": "append", "a": k * c, "b": L, "c": c})                # duplicate last partial chunk
            out.append({"op": "append_zero", "n": c - r, "c": c})                   # zero padding to a multiple
            out.append({"op": "insert", "at": k * c, "a": (k - 1) * c + r, "b": k * c, "c": c})
            out.append({"op": "insert", "at": k * c, "a": k * c, "b": L, "c": c})
            out.append({"op": "replace", "at": k * c, "a": (k - 1) * c, "b": (k - 1) * c + r, "c": c})
            out.append({"op": "delete", "a": k * c, "b": L - 1, "c": c})
        i = rng.randrange(k)
        out.append({"op": "delete", "a": i * c, "b": (i + 1) * c, "c": c})
        out.append({"op": "insert", "at": i * c, "a": i * c, "b": (i + 1) * c, "c": c})
        if k >= 2:
            i, j = sorted(rng.sample(range(k), 2))
            out.append({"op": "swap", "a": i * c, "b": j * c, "n": c, "c": c})
            out.append({"op": "replace", "at": j * c, "a": i * c, "b": (i + 1) * c, "c": c})
    return out


def _big_build(spec, d: Path) -> List[Path]:
    import random as _random
    import numpy as np
    from metador_core.ih5.container import IH5Record
    g = _random.Random(spec["seed"])
    rec = IH5Record(d / "big", "w")
    for i, n in enumerate(spec["sizes"]):
        if i > 0:
            rec.commit_patch()
            rec.create_patch()
        rec[f"d{i}"] = np.frombuffer(g.randbytes(n), dtype="uint8")
    files = [Path(p) for p in rec.ih5_files]
    rec.close(commit=True)
    return files


def big_eval(spec, muts) -> Dict[str, Any]:
    """Build the large record, compare stored digests with hashlib, open every tampered variant."""
    import hashlib
    with vlib.workdir("c04big") as d:
        files = _big_build(spec, d)
        datas = [p.read_bytes() for p in files]
        lo = reclib.UB_SIZE
        digests = []
        for dt in datas:
            stored = reclib.parse_ublock(dt)["ub"]["hash"]
            digests.append([stored, "sha256:" + hashlib.sha256(dt[lo:]).hexdigest(), len(dt) - lo])
        base = reclib.open_real("IH5Record", files, False)
        res = []
        for m in muts:
            fi = m["file"]
            P = datas[fi][lo:]
            Q = big_apply(P, m)
            if Q == P:
                res.append(["same"])
                continue
            files[fi].write_bytes(datas[fi][:lo] + Q)
            try:
                res.append(reclib.open_real("IH5Record", files, False)[:5])
            finally:
                files[fi].write_bytes(datas[fi])
        return {"digests": digests, "baseline": base[:5], "res": res}


def w_big(arg):
    try:
        return big_eval(*arg)
    except BaseException as e:  # noqa: BLE001
        import traceback
        return {"harness_error": f"{type(e).__name__}: {e}"[:300], "tb": traceback.format_exc()[-1500:]}


def big_sweep(ctx) -> Dict[str, Any]:
    """Containers whose payload exceeds common hash-buffer sizes; tampering with slices of the file itself."""
    rng = ctx.rng
    specs = []
    for _ in range(ctx.budget(1, 3)):
        specs.append({"seed": rng.getrandbits(32),
                      "sizes": [rng.randrange(int(1.2 * 2 ** 20), int(1.5 * 2 ** 20)),
                                rng.randrange(int(2.1 * 2 ** 20), int(2.4 * 2 ** 20))]})
    # payload length = dataset bytes + HDF5 overhead, only known after building: one probing build per spec
    probes = vlib.pmap(w_big, [(sp, []) for sp in specs])
    tasks = []
    for sp, pr in zip(specs, probes):
        if "harness_error" in pr:
            raise RuntimeError(f"large-container fixture failed inside the harness: {pr}")
        muts = []
        for fi, (_, _, L) in enumerate(pr["digests"]):
            muts += [dict(m, file=fi) for m in big_mutations(L, rng)]
        nsplit = 6
        for j in range(nsplit):
            tasks.append((sp, muts[j::nsplit]))
    results = vlib.pmap(w_big, tasks)
    n = refused = same = 0
    ops: Dict[str, int] = {}
    bad_digest = None
    bad_open: Dict[str, Any] = {}
    for (sp, muts), r in zip(tasks, results):
        if "harness_error" in r:
            raise RuntimeError(f"large-container case failed inside the harness: {r}")
        for fi, (stored, own, L) in enumerate(r["digests"]):
            if stored != own and bad_digest is None:
                bad_digest = {"spec": sp, "file": fi, "stored": stored, "hashlib": own, "payload_len": L}
        if r["baseline"][0] != "ok" and "baseline" not in bad_open:
            bad_open["baseline"] = {"spec": sp, "mut": None, "real": r["baseline"], "demanded": "accept"}
        for m, x in zip(muts, r["res"]):
            if x[0] == "same":
                same += 1
                continue
            if x[0] == "timeout":
                continue
            n += 1
            ops[m["op"]] = ops.get(m["op"], 0) + 1
            if x[0] == "ok":
                bad_open.setdefault(m["op"], {"spec": sp, "mut": m, "real": x, "demanded": "refuse"})
            else:
                refused += 1
    if bad_digest is not None:
        ctx.violation(f"hdf5_hashsum stored in the user block of a committed container with a {bad_digest['payload_len']} byte "
                      f"payload is not the SHA-256 of the bytes after the user block (container {bad_digest['file']}): "
                      "the stored digest does not cover exactly the payload",
                      dict(bad_digest, kind="big", oracle="digest", mut=None),
                      sig_obj={"kind": "big", "oracle": "digest"})
    for key in sorted(bad_open)[:3]:
        b = bad_open[key]
        ctx.violation(f"IH5Record(files,'r') {'returned' if b['real'][0] == 'ok' else 'raised ' + str(b['real'][1:3])} on a large "
                      f"record whose committed container was {'not changed' if b['mut'] is None else 'tampered: ' + json.dumps(b['mut'])}",
                      dict(b, kind="big", oracle="open", klass="payload:committed"),
                      sig_obj={"kind": "big", "oracle": "open", "op": key})
    return {"records": len(specs), "payload_bytes": [[d[2] for d in p["digests"]] for p in probes],
            "chunk_sizes": BIG_CHUNKS, "tampered_variants_opened": n, "refused": refused,
            "identical_to_original_skipped": same, "by_op": dict(sorted(ops.items())),
            "stored_digests_recomputed_with_hashlib": sum(len(p["digests"]) for p in probes)}


def replay_big(rep) -> int:
    sp, m = rep["spec"], rep.get("mut")
    r = big_eval(sp, [m] if m else [])
    bad = False
    for fi, (stored, own, L) in enumerate(r["digests"]):
        print(f"container {fi}: payload {L} bytes, stored {stored}, hashlib {own}")
        bad |= stored != own
    print("baseline open:", r["baseline"][:3])
    bad |= r["baseline"][0] != "ok"
    if m:
        print("mutation:", m, "->", r["res"][0][:4])
        bad |= r["res"][0][0] == "ok"
    print("still failing" if bad else "no longer failing")
    return 1 if bad else 0


# ---------------------------------------------------------------------------- main

def _hist(it):
    h: Dict[str, int] = {}
    for x in it:
        h[str(x)] = h.get(str(x), 0) + 1
    return dict(sorted(h.items()))


def run(ctx: vlib.Ctx):
    proof = ctx.check_proofs()
    cov = ctx.coverage
    cov["trusted_base"] = vlib.TRUSTED_COMMON + [
        "modelled, not verified: SHA-256 (abstract injective digest in the theorems; hashlib in the harness), "
        "HDF5/h5py opening a container file (only 'opens or raises' is observed), json/pydantic parsing of the user "
        "block (the harness reads user blocks with its own parser and only abstracts blocks in strict canonical form), "
        "list.sort stability (modelled as stable insertion sort), the file system",
    ]
    nfam = ctx.budget(2, 5)
    import time
    t0 = time.time()
    with vlib.workdir("c04fx") as fx:
        fams = vlib.pmap(w_family, [(str(fx / f"fam{i}"), ctx.seed * 131 + i) for i in range(nfam)])
        broken = [f["error"] for f in fams if "error" in f]
        if broken:
            # a record written by the API could not be continued / reopened by the API itself
            ctx.violation("valid records could not be produced through the real API (a coherent set written by the "
                          "implementation was refused, or writing failed): " + broken[0],
                          {"kind": "fixtures", "correspondence": "reclib.build_family: IH5Record / IH5MFRecord "
                           "create, patch, commit, reopen 'r+', fork by copy, create_stub", "errors": broken},
                          found_input=False)
            proof_report(ctx, proof)
            return
        cases: List[Dict[str, Any]] = []
        for i, f in enumerate(fams):
            cases += gen_structural(f, ctx.rng, ctx.quick and i > 0)
            cases += gen_bytes(f, ctx.rng, per_file=ctx.budget(64, 192),
                               every_byte_limit=0 if ctx.quick else (16384 if i < 2 else 0),
                               ub_text=ctx.budget(40, 0 if i == 0 else 120), ub_pad=ctx.budget(12, 64))
        (fx / "scratch").mkdir()
        for c in cases:
            c["scratch"] = str(fx / "scratch")
        t1 = time.time()
        results = vlib.pmap(w_case, cases, chunksize=16)
        t2 = time.time()
        stats = analyse(ctx, cases, results, fams)
        vlib.log(f"c04: fixtures+generation {t1 - t0:.1f}s, {len(cases)} cases opened in {t2 - t1:.1f}s, "
                 f"model+analysis {time.time() - t2:.1f}s")
    cov.update(stats)
    cov["oracle_vs_model_abstract_sweep"] = abstract_sweep(ctx, ctx.budget(20000, 200000))
    tb = time.time()
    cov["large_container_sweep"] = big_sweep(ctx)
    vlib.log(f"c04: large-container sweep {time.time() - tb:.1f}s")
    ctx.assumptions += [
        "digests are collision-free on the compared payloads and manifests (Section hypotheses H_inj / Hm_inj)",
        "the newest container may be uncommitted; its payload is then not protected (property speaks of committed payloads)",
        "IH5MFRecord checks the sidecar manifest of the newest container only (the manifests of older containers are not part of the opened set)",
    ]
    proof_report(ctx, proof)
    # generated tie: IH5Record._check_ublock / IH5MFRecord._check_ublock are re-translated from the current
    # source and proved equal to Chain.v `check_ub` (coq/Gen/Equiv_chain.v)
    gentie.report(ctx)


def proof_report(ctx, proof):
    if not proof["ok"]:
        ctx.violation("proof obligations of Properties/C04.v do not check: " + "; ".join(proof["problems"])[:500],
                      {"kind": "proof", "theorem_file": "coq/Properties/C04.v", "problems": proof["problems"]},
                      found_input=False)


def analyse(ctx, cases, results, fams) -> Dict[str, Any]:
    by_class: Dict[str, Dict[str, int]] = {}
    model_cases, model_idx, model_names = [], [], []
    harness_errors = []
    timeouts = 0
    for i, (c, r) in enumerate(zip(cases, results)):
        if "harness_error" in r:
            harness_errors.append((i, r))
            continue
        if r["real"][0] == "timeout":
            timeouts += 1
            continue
        if "abs" in r:
            mc, names = reclib.to_model_case(c["cls"] == "IH5MFRecord", c["bl"], r["abs"])
            model_cases.append(mc)
            model_idx.append(i)
            model_names.append(names)
    if harness_errors:
        raise RuntimeError(f"{len(harness_errors)} cases failed inside the harness, first: {harness_errors[0][1]}")
    mres = vlib.run_model("c04", model_cases)
    model_of = {i: (m, nm) for i, m, nm in zip(model_idx, mres, model_names)}
    xc = vlib.coq_crosscheck("c04", model_cases, mres, "c04", max_cases=50)

    oracle_bad: List[int] = []
    disagreements: List[Dict[str, Any]] = []
    spec_mismatch: List[int] = []
    labels_compared = labels_equal = orders_compared = 0
    label_hist: Dict[str, int] = {}
    info = {"payload_uncommitted": {"accepted": 0, "refused": 0},
            "ublock_padding": {"accepted": 0, "refused": 0, "parser_predicted_otherwise": 0},
            "ublock_text_unsure": {"accepted": 0, "refused": 0},
            "ublock_text_unreadable": {"refused": 0, "accepted": 0},
            "older_manifest_edit": {"accepted": 0, "refused": 0}}
    for i, (c, r) in enumerate(zip(cases, results)):
        real = r["real"]
        if real[0] == "timeout":
            continue
        ok = real[0] == "ok"
        k = c["klass"]
        kk = k + ("/" + c["cls"] if k.startswith("mf:") else "")
        st = by_class.setdefault(kk, {"n": 0, "accepted": 0, "refused": 0})
        st["n"] += 1
        st["accepted" if ok else "refused"] += 1
        if not ok:
            label_hist[real[2] if real[2] != "other" else "other:" + real[1]] = \
                label_hist.get(real[2] if real[2] != "other" else "other:" + real[1], 0) + 1
        if k == "payload:uncommitted":
            info["payload_uncommitted"]["accepted" if ok else "refused"] += 1
            continue
        if k == "ublock:padding":
            info["ublock_padding"]["accepted" if ok else "refused"] += 1
            pred = None if "unsure" in r["sts"] else (False if "bad" in r["sts"] else r["coh"])
            if pred is not None and pred != ok:
                info["ublock_padding"]["parser_predicted_otherwise"] += 1
            continue
        if k == "mf:older":
            info["older_manifest_edit"]["accepted" if ok else "refused"] += 1
        if "unsure" in r["sts"]:
            info["ublock_text_unsure"]["accepted" if ok else "refused"] += 1
            if not k.startswith("ublock:"):
                raise RuntimeError(f"harness produced a non-canonical user block in case {i} ({k})")
            continue
        if "bad" in r["sts"] and k.startswith("ublock:"):
            info["ublock_text_unreadable"]["refused" if not ok else "accepted"] += 1
            continue
        demanded = demanded_verdict(c, r)
        if demanded is not None and demanded != ok:
            oracle_bad.append(i)
        if i in model_of:
            m, names = model_of[i]
            m_ok = m[0] == "ok"
            if m_ok != bool(r["coh"]):
                spec_mismatch.append(i)
            if m_ok != ok:
                disagreements.append({"i": i, "what": "verdict", "model": m, "real": real[:4]})
            elif ok:
                orders_compared += 1
                want = [int(x) for x in m[1]]
                got = [names.get(p) for p in real[1]]
                if want != got:
                    disagreements.append({"i": i, "what": "container order", "model": want, "real": got})
            elif real[2] != "other":
                labels_compared += 1
                same = m[1] == real[2]
                if same and real[3]:
                    pos = reclib.sorted_positions(r["abs"])
                    same = int(m[2]) in {pos[j] for j in real[3]}
                if same:
                    labels_equal += 1
                else:
                    disagreements.append({"i": i, "what": "failing test", "model": m, "real": real[1:5]})
        elif "bad" in r["sts"] and ok:
            pass   # already in oracle_bad (committed payload / structural with unreadable block)

    # ---- report
    reported = set()
    to_shrink = []
    for i in oracle_bad:
        c, r = cases[i], results[i]
        key = (c["klass"], c["cls"], r["real"][0])
        if key in reported or len(reported) >= 6:
            continue
        reported.add(key)
        to_shrink.append(i)
    if to_shrink:
        shr = vlib.pmap(w_shrink, [cases[i] for i in to_shrink] + [None], procs=min(8, len(to_shrink) + 1))
        for i, s in zip(to_shrink, shr):
            c, r = cases[i], results[i]
            demanded = demanded_verdict(c, r)
            roles = [e.get("role") for e in s["case"]["files"]]
            muts = [e.get("muts_applied") for e in s["case"]["files"] if e.get("muts_applied")]
            ctx.violation(
                f"{c['cls']}(files,'r') {'returned' if r['real'][0] == 'ok' else 'raised ' + str(r['real'][1:3])} on a "
                f"{'coherent' if demanded else 'incoherent / tampered'} file set (class {c['klass']}, containers {roles}, mutation {muts[:1]})",
                {"kind": "open", "case": s["case"], "demanded": "accept" if demanded else "refuse",
                 "real": r["real"][:5], "klass": c["klass"]},
                sig_obj={"kind": "open", "klass": c["klass"], "cls": c["cls"], "demanded": bool(demanded),
                         "n": len(roles)})
    if not xc["ok"]:
        ctx.violation("extracted runner and in-Coq evaluation of the model disagree (stale or wrong extraction)",
                      {"kind": "crosscheck", "xc": xc}, found_input=False)
    if spec_mismatch:
        i = spec_mismatch[0]
        ctx.violation("model open_check and the harness's declarative coherent oracle differ (contradicts C04_accept_iff: harness or model defect)",
                      {"kind": "spec-mismatch", "theorem": "C04_accept_iff", "abs": results[i]["abs"],
                       "model": model_of[i][0], "coherent": results[i]["coh"], "klass": cases[i]["klass"]},
                      found_input=False)
    if disagreements and not oracle_bad:
        d = disagreements[0]
        i = d["i"]
        ctx.violation("model/implementation correspondence broken but the property oracle found no failing input: " + d["what"],
                      {"kind": "correspondence",
                       "correspondence": "coq/Rec/Chain.v open_res vs IH5Record._open/_check_ublock, IH5MFRecord._open/_check_ublock",
                       "smallest_disagreement": d, "klass": cases[i]["klass"], "abs": results[i].get("abs"),
                       "count": len(disagreements)}, found_input=False)
    elif disagreements:
        ctx.notes.append(f"{len(disagreements)} model/impl disagreements (first: {disagreements[0]})")

    # ---- samples / coverage
    for want in ("subst", "payload:committed", "mf:newest", "ub:prev", "subset", "add"):
        for i, c in enumerate(cases):
            if c["klass"] == want and i in model_of and model_of[i][0][0] == "err" and \
                    (want != "mf:newest" or c["cls"] == "IH5MFRecord"):
                ctx.sample({"klass": want, "cls": c["cls"], "roles": [e.get("role") for e in c["files"]],
                            "mutation": [e.get("muts") for e in c["files"] if e.get("muts")],
                            "model_case": model_cases[model_idx.index(i)], "model": model_of[i][0],
                            "real": results[i]["real"][:3], "coherent": results[i]["coh"]})
                break
    distinct_models = len({json.dumps(m) for m in model_cases})
    distinct_bytes = len({(c.get("target"), json.dumps(c["files"][[e.get("role") for e in c["files"]].index(c["target"])]["muts"]))
                          for c in cases if c.get("target")})
    classified = sum(1 for i, c in enumerate(cases) if demanded_verdict(c, results[i]) is not None
                     and results[i]["real"][0] != "timeout")
    return {
        "evaluations": len(cases),
        "distinct_nontrivial": distinct_models + distinct_bytes,
        "rule": ("per fixture family (records built by random histories through the real API): every non-empty subset of "
                 "every valid set (in order, shuffled, and with allow_baseless), permutations, every substitution / "
                 "addition of a container of another record, fork, stub or uncommitted patch at every position, "
                 "duplicates (same path, byte copy), a catalogue of user-block field rewrites at every container, every "
                 "manifest edit of the catalogue at every container; byte flips stratified over HDF5 superblock / body / "
                 "tail of every container (thorough: every payload byte of the containers of 4 sets), truncations, "
                 "extensions, inserted / deleted bytes; user-block text and padding flips.  distinct_nontrivial = "
                 "distinct abstract model inputs + distinct (container, byte mutation) pairs"),
        "input_distribution": {
            "families": len(fams), "cases_by_class": {k: v for k, v in sorted(by_class.items())},
            "containers_per_case": _hist(len(c["files"]) for c in cases),
            "record_class": _hist(c["cls"] for c in cases),
            "refusal_kinds": dict(sorted(label_hist.items())),
            "fixture_notes": [n for f in fams for n in f["notes"]],
        },
        "demanded_verdict_cases": classified,
        "model_compared": len(model_cases), "distinct_model_inputs": distinct_models,
        "container_orders_compared": orders_compared,
        "failing_tests_compared": labels_compared, "failing_tests_equal": labels_equal,
        "not_demanded": info, "timeouts_skipped": timeouts,
        "oracle_failures": len(oracle_bad), "disagreements": len(disagreements),
        "coq_crosscheck": xc,
    }


def replay(rep) -> int:
    """Re-open the recorded (already mutated) file set with the current code."""
    vlib._pool_init()
    if rep.get("kind") == "big":
        return replay_big(rep)
    if rep.get("kind") != "open":
        print("replay names a proof obligation or correspondence; re-run the check itself")
        return 1
    case = dict(rep["case"])
    case["klass"] = rep.get("klass", case.get("klass"))
    r = reclib.eval_case(case)
    real = r["real"]
    demanded = demanded_verdict(case, r)
    print("containers:", [e.get("role") for e in case["files"]], "class:", case["cls"], "mutation class:", case["klass"])
    print("user blocks readable:", r["sts"], "declarative coherent:", r.get("coh"))
    print("real open:", real[:5])
    print("demanded:", {True: "accept", False: "refuse", None: "nothing"}[demanded])
    if real[0] == "timeout":
        print("timed out")
        return 1
    bad = demanded is not None and demanded != (real[0] == "ok")
    print("still failing" if bad else "no longer failing")
    return 1 if bad else 0
