"""C02 — committed IH5 containers are never modified again.

Theorems (coq/Properties/C02.v over coq/Rec/Frozen.v, which wraps coq/Rec/Modes.v): for every
sequence of operations (open in any mode by name or list with either class, reads,
create/fill/discard/commit patches, merge_files into the same or another directory, close,
giving up the handle, create_stub) that does not truncate the record ('w', delete_files), every committed
container keeps its name, user-block fields, payload and manifest link, and its sidecar keeps
its content (C02_committed_frozen, C02_merge_target_frozen); any set of committed files opens
afterwards exactly as before (C02_snapshot_still_valid), in particular the file set present
right after a commit keeps showing the view of that commit (C02_snapshot_after_commit).

Correspondence: API histories over one directory with two prefix-related records (foo, foo2),
both classes mixed, run command by command on the real code and on the extracted model
(run_c02): directory listing, parsed user blocks (ids renamed by first occurrence), manifest
links and sidecar uuids, tokens per container, handle flags, in-memory manifest, view.

Oracle on the code alone (no model):
  (a) SHA-256 + size of every file before/after EVERY operation: a file that was a committed
      container, or the sidecar of one, before the operation is byte-identical after it
      (mtime only counted as an observation);
  (c) at every commit the file set of the record (containers + sidecars) is copied to a side
      directory together with the dump of the handle; at random later points and at the end
      the copy (opened by name) AND the same files of the live directory (opened by explicit
      list, shuffled) are opened read-only with the real code and must show that dump; merge
      targets likewise (expected = what the copy showed right after the merge).
"""
from __future__ import annotations

import gc
import hashlib
import json
import random
import re
import shutil
from pathlib import Path
from typing import Any, Dict, List, Optional

import ih5lib
import reclib03 as R3
import vlib

NAMES = ["foo", "foo2"]
CLASSES = ["IH5Record", "IH5MFRecord"]
MERGE_TARGETS = ["foo", "foo2", "foo3", "foo-m", "bad_name"]
STUB_TARGETS = ["foo-s", "fo", "foo", "foo2", "bad_name"]
OP_TIMEOUT = 60
MF = "mf.json"


class Boom(Exception):
    """Raised inside a `with` body by the driver."""


# ---------------------------------------------------------------------------- raw observation

def parse_ub(path: Path) -> Optional[Dict[str, Any]]:
    """User block, read without the code under test."""
    try:
        with open(path, "rb") as f:
            raw = f.read(1024)
    except OSError:
        return None
    parts = raw.split(b"\n", 2)
    if len(parts) != 3 or parts[0] != b"ih5_v01":
        return None
    try:
        j = json.loads(parts[2].split(b"\x00", 1)[0].decode("utf-8"))
    except Exception:  # noqa: BLE001
        return None
    ext = (j.get("ub_exts") or {}).get("ih5mf_v01")
    return {"rec": j.get("record_uuid"), "idx": j.get("patch_index"), "id": j.get("patch_uuid"),
            "prev": j.get("prev_patch"), "committed": j.get("hdf5_hashsum") is not None,
            "ext": None if ext is None else ext.get("manifest_uuid"),
            "stub": bool(ext.get("is_stub_container")) if ext is not None else False}


def scan_dir(d: Path) -> Dict[str, Dict[str, Any]]:
    out: Dict[str, Dict[str, Any]] = {}
    for p in sorted(d.iterdir()):
        if not p.is_file():
            continue
        b = p.read_bytes()
        st = p.stat()
        e: Dict[str, Any] = {"sha": hashlib.sha256(b).hexdigest(), "size": len(b), "mtime": st.st_mtime_ns}
        if p.name.endswith(".ih5"):
            e["ub"] = parse_ub(p)
        elif p.name.endswith(".ih5" + MF):
            try:
                e["mf"] = str(json.loads(b)["manifest_uuid"])
            except Exception:  # noqa: BLE001
                e["mf"] = "?"
        out[p.name] = e
    return out


def committed_files(sc: Dict[str, Dict[str, Any]]) -> List[str]:
    """Names of committed containers and of the sidecars standing beside them."""
    out = []
    for fn, e in sc.items():
        if fn.endswith(".ih5") and e.get("ub") and e["ub"]["committed"]:
            out.append(fn)
            if fn + MF in sc:
                out.append(fn + MF)
    return out


# ---------------------------------------------------------------------------- the worker

class Runner:
    def __init__(self, root: Path, seed: int, rich: bool):
        self.root = root
        self.d, self.o, self.s = root / "d", root / "o", root / "snap"
        for x in (self.d, self.o, self.s):
            x.mkdir()
        self.rng = random.Random(seed)
        self.rich = rich
        self.rec = None
        self.info: Dict[str, Any] = {}
        self.idc = 1000
        self.hist: List[Any] = ih5lib.gen_history(self.rng, 60, p_bnd=0.0, allow_self_copy=False) if rich else []
        self.concrete: List[Any] = []
        self.obs: List[Any] = []
        self.problems: List[Dict[str, Any]] = []
        self.snaps: List[Dict[str, Any]] = []
        self.stats = {"ops": 0, "sha_file_checks": 0, "snapshots": 0, "snapshot_checks": 0, "merge_snapshots": 0,
                      "uncommitted_changed": 0, "uncommitted_rplus_reopen_changed": 0, "mtime_changed_committed": 0,
                      "refused_ops": 0, "stubs": 0, "with_exits": 0, "with_exits_by_exception": 0, "abandoned": 0}
        self.kinds: Dict[str, int] = {}

    # ---- helpers
    def fresh(self) -> int:
        self.idc += 1
        return self.idc

    def problem(self, what: str, **kw):
        self.problems.append({"step": len(self.concrete) - 1, "cmd": self.concrete[-1] if self.concrete else None,
                              "what": what, **kw})

    def scan(self):
        return {"d": scan_dir(self.d), "o": scan_dir(self.o)}

    def monitor(self, before, after, kind: str):
        """(a): the byte-level claim."""
        for where in ("d", "o"):
            b, a = before[where], after[where]
            for fn in committed_files(b):
                self.stats["sha_file_checks"] += 1
                role = "committed container" if fn.endswith(".ih5") else "sidecar of a committed container"
                if fn not in a:
                    self.problem(f"{role} {where}/{fn} disappeared during {kind}", file=fn)
                elif a[fn]["sha"] != b[fn]["sha"] or a[fn]["size"] != b[fn]["size"]:
                    self.problem(f"{role} {where}/{fn} changed during {kind} "
                                 f"(size {b[fn]['size']} -> {a[fn]['size']})", file=fn)
                elif a[fn]["mtime"] != b[fn]["mtime"]:
                    self.stats["mtime_changed_committed"] += 1
            comm = set(committed_files(b))
            for fn in b:
                if fn not in comm and fn in a and a[fn]["sha"] != b[fn]["sha"]:
                    self.stats["uncommitted_changed"] += 1
                    if kind.startswith("open"):
                        self.stats["uncommitted_rplus_reopen_changed"] += 1

    def observe(self, outcome: str, sc=None):
        sc = sc or self.scan()
        opened = self.rec is not None and not self.rec._closed

        def files(where, d):
            out = []
            for fn, e in sorted(sc[where].items()):
                if fn.endswith(".ih5") and e.get("ub"):
                    ub = e["ub"]
                    toks = None if opened else R3.raw_tokens(d / fn)
                    out.append([fn, ub["rec"], ub["idx"], ub["id"], ub["prev"], ub["committed"], toks, ub["ext"], ub["stub"]])
            return out

        def sides(where):
            return sorted([fn[:-len(MF)], e["mf"]] for fn, e in sc[where].items() if "mf" in e)

        handle = None
        if self.rec is not None:
            r = self.rec
            if r._closed:
                handle = {"closed": True}
            else:
                try:
                    view = sorted(k for k in r.keys() if k.startswith("tk"))
                except Exception as e:  # noqa: BLE001
                    view = ["VIEW-ERROR", type(e).__name__]
                man = getattr(r, "_manifest", None)
                handle = {"closed": False, "files": [p.name for p in reversed(r.ih5_files)],
                          "writable": bool(r._has_writable), "patching": bool(r._allow_patching),
                          "mf": self.info["cls"] == "IH5MFRecord",
                          "hman": None if man is None else str(man.manifest_uuid), "view": view}
        self.obs.append({"outcome": outcome, "main": files("d", self.d), "sides": sides("d"),
                         "other": files("o", self.o), "osides": sides("o"), "handle": handle})

    def call(self, kind: str, fn, concrete_cmd) -> str:
        """Run one operation between two scans; returns the outcome class."""
        self.concrete.append(concrete_cmd)
        self.stats["ops"] += 1
        self.kinds[kind] = self.kinds.get(kind, 0) + 1
        before = self.scan()
        outcome = "ok"
        try:
            with vlib.time_limit(OP_TIMEOUT):
                fn()
        except vlib.CaseTimeout:
            raise
        except Boom:
            raise
        except BaseException as e:  # noqa: BLE001
            outcome = R3.exc_class(e)
        after = self.scan()
        self.monitor(before, after, kind)
        if outcome != "ok":
            self.stats["refused_ops"] += 1
        return outcome

    # ---- snapshots (c)
    def take_snapshot(self, files: List[Path], cls_name: str, dump, merge: bool = False):
        k = len(self.snaps)
        sd = self.s / f"s{k}"
        sd.mkdir()
        for p in files:
            shutil.copyfile(p, sd / p.name)
            if Path(str(p) + MF).is_file():
                shutil.copyfile(str(p) + MF, sd / (p.name + MF))
        base = sorted(files, key=lambda p: len(p.name))[0]
        # the copy is opened by name — unless the set mixes file names of two records (a patch of the real
        # record continued on its stub, given by explicit list): then by explicit list as well
        uniform = len({R3.rec_name_of(p.name) for p in files}) == 1
        sn = {"k": k, "dir": sd, "cls": cls_name, "name": R3.rec_name_of(base.name), "where": base.parent,
              "byname": uniform,
              "files": [p.name for p in files], "dump": dump, "step": len(self.concrete) - 1, "merge": merge}
        if merge:
            sn["dump"] = self.open_dump(cls_name, self.copy_arg(sn))
            self.stats["merge_snapshots"] += 1
        else:
            self.stats["snapshots"] += 1
        self.snaps.append(sn)

    @staticmethod
    def copy_arg(sn):
        return (sn["dir"] / sn["name"]) if sn["byname"] else [sn["dir"] / fn for fn in sn["files"]]

    def open_dump(self, cls_name: str, arg) -> Any:
        """Dump of a read-only open, or ["REFUSED", class]."""
        rec = None
        try:
            with vlib.time_limit(OP_TIMEOUT):
                rec = R3.classes()[cls_name](arg, "r")
                return R3.safe_dump(rec)
        except vlib.CaseTimeout:
            raise
        except BaseException as e:  # noqa: BLE001
            return ["REFUSED", type(e).__name__]
        finally:
            if rec is not None:
                try:
                    rec.close(commit=False)
                except Exception:  # noqa: BLE001
                    pass
            else:
                gc.collect()

    def check_snapshot(self, sn, all_classes: bool):
        classes = CLASSES if (all_classes and not sn["merge"]) else [sn["cls"]]
        for cn in classes:
            if cn != sn["cls"] and cn == "IH5MFRecord":
                continue   # a set committed without manifests carries no promise about the manifest-aware class
            self.stats["snapshot_checks"] += 1
            got = self.open_dump(cn, self.copy_arg(sn))
            if got != sn["dump"]:
                self.problem(f"snapshot copy taken at step {sn['step']} ({sn['files']}) no longer shows the state of that "
                             f"commit when opened with {cn}", expected=sn["dump"][:4], got=got[:4], snapshot=sn["files"])
            live = [sn["where"] / fn for fn in sn["files"]]
            self.rng.shuffle(live)
            got = self.open_dump(cn, live)
            if got != sn["dump"]:
                self.problem(f"the files {sn['files']} of the live directory (complete set at step {sn['step']}) no longer "
                             f"show the state of that commit when opened with {cn}", expected=sn["dump"][:4], got=got[:4],
                             snapshot=sn["files"])

    def maybe_check(self):
        if self.snaps and self.rng.random() < 0.15:
            self.check_snapshot(self.rng.choice(self.snaps), all_classes=False)

    # ---- commands
    def resolve_target(self, target):
        """["name", n] | ["list", [...]] | ["list*", n, kind] (resolved against the directory now)."""
        if target[0] != "list*":
            return target
        _, n, kind = target
        ubs = {fn: e["ub"] for fn, e in scan_dir(self.d).items() if fn.endswith(".ih5") and e.get("ub")}
        chain = [fn for _i, fn in sorted((ub["idx"], fn) for fn, ub in ubs.items() if R3.rec_name_of(fn) == n)]
        if kind == "prefix" and len(chain) > 1:
            chain = chain[:self.rng.randint(1, len(chain) - 1)]
        elif kind == "foreign":
            other = [fn for fn in ubs if R3.rec_name_of(fn) != n]
            if other:
                chain = chain + [self.rng.choice(other)]
        elif kind == "missing":
            chain = chain + ["nothere.ih5"]
        self.rng.shuffle(chain)
        return ["list", chain]

    def do_open(self, cmd):
        _, cls_name, mode, target, r, u = cmd[:6]
        if self.rec is not None:
            return False
        assert mode != "w"
        target = self.resolve_target(target)
        if target[0] == "list" and not target[1]:
            return False   # the empty list is outside the modelled domain
        cmd = ["open", cls_name, mode, target, r, u]
        cls = R3.classes()[cls_name]
        arg = (self.d / target[1]) if target[0] == "name" else [self.d / x for x in target[1]]
        box: Dict[str, Any] = {}

        def go():
            box["rec"] = cls(arg, mode)

        outcome = self.call(f"open {mode!r}", go, cmd)
        rec = box.get("rec")
        if rec is None:
            gc.collect()   # a refused _open leaves its h5py handles to the garbage collector
        self.rec = rec
        box.clear()
        n = target[1] if target[0] == "name" else (R3.rec_name_of(sorted(target[1])[0]) if target[1] else None)
        self.info = {"name": n, "cls": cls_name, "mode": mode}
        self.observe(outcome)
        return rec is not None

    def do_write(self, cmd):
        rec = self.rec
        tok = cmd[1]
        ops = cmd[2] if len(cmd) > 2 and cmd[2] is not None else None
        if ops is None:
            k = self.rng.randint(0, 3)
            ops, self.hist = self.hist[:k], self.hist[k:]
        if not self.rich:
            ops = []

        def go():
            for op in ops:
                try:
                    ih5lib.apply_op(rec, op)
                except vlib.CaseTimeout:
                    raise
                except Exception:  # noqa: BLE001
                    pass
            rec[tok] = 1

        self.observe(self.call("write", go, ["write", tok, ops]))

    def do_read(self, cmd):
        rec = self.rec

        def go():
            seen = []
            rec.visit(seen.append)
            for k in list(rec.keys()):
                node = rec[k]
                if hasattr(node, "ndim"):
                    node[()]
                    dict(node.attrs)
                else:
                    list(node.keys())
                    list(node.attrs.keys())
            dict(rec.attrs)
            rec.visititems(lambda name, node: None)
            _ = rec.ih5_meta, rec.ih5_files, rec.ih5_uuid

        self.observe(self.call("read", go, ["read"]))

    def pending_commit_files(self):
        return list(self.rec.ih5_files)

    def do_commit(self, cmd):
        rec = self.rec
        outcome = self.call("commit_patch", rec.commit_patch, ["commit", cmd[1]])
        if outcome == "ok":
            self.take_snapshot(list(rec.ih5_files), self.info["cls"], R3.safe_dump(rec))
        self.observe(outcome)

    def do_close(self, cmd, via_exit=None):
        """close(commit) — or, with via_exit = (exc or None), leaving a `with` block."""
        rec = self.rec
        commit = True if via_exit is not None else cmd[1] in ("T", True)
        m = cmd[2]
        was_open = not rec._closed
        pending = was_open and bool(rec._has_writable)
        files = list(rec.ih5_files) if was_open else []
        dump = R3.safe_dump(rec) if (pending and commit) else None
        if via_exit is None:
            outcome = self.call("close", lambda: rec.close(commit=commit), ["close", "T" if commit else "F", m])
        else:
            exc = via_exit[0]
            self.stats["with_exits"] += 1
            self.stats["with_exits_by_exception"] += 1 if exc is not None else 0

            def go():
                rec.__exit__(*((type(exc), exc, exc.__traceback__) if exc is not None else (None, None, None)))

            outcome = self.call("with-exit", go, ["exit", "T" if exc is not None else "F", m])
        if outcome == "ok" and pending and commit:
            self.take_snapshot(files, self.info["cls"], dump)
        self.observe(outcome)

    def do_merge(self, cmd):
        rec = self.rec
        _, ew, t, m = cmd
        ew = ew in ("T", True)
        tdir = self.o if ew else self.d
        box: Dict[str, Any] = {}

        def go():
            box["f"] = rec.merge_files(tdir / t)

        outcome = self.call("merge_files", go, ["merge", "T" if ew else "F", t, m])
        if outcome == "ok":
            f = Path(box["f"])
            if f.parent != tdir or f.name != f"{t}.ih5":
                self.problem(f"merge_files returned {f}, expected {tdir / (t + '.ih5')}")
            self.take_snapshot([f], self.info["cls"], None, merge=True)
        self.observe(outcome)

    def stub_sources(self) -> List[str]:
        """Containers of the directory whose sidecar records their own user block (written by
        their commit, or copied from the record a merge result was made of)."""
        out = []
        for fn, e in scan_dir(self.d).items():
            if fn.endswith(".ih5") and e.get("ub") and e["ub"]["committed"] and (self.d / (fn + MF)).is_file():
                try:
                    ub = json.loads((self.d / (fn + MF)).read_bytes())["user_block"]
                except Exception:  # noqa: BLE001
                    continue
                if (str(ub.get("patch_uuid")) == e["ub"]["id"] and str(ub.get("record_uuid")) == e["ub"]["rec"]
                        and ub.get("patch_index") == e["ub"]["idx"]):
                    out.append(fn)
        return out

    def do_stub(self, cmd):
        """["stub", ew, target, src | None (resolved now) | "missing", m]"""
        _, ew, t, src, m = cmd
        ew = ew in ("T", True)
        if src is None:
            cands = self.stub_sources()
            src = self.rng.choice(sorted(cands)) if cands else "missing"
        if src == "missing":
            src = "nothere.ih5"
        tdir = self.o if ew else self.d
        cls = R3.classes()["IH5MFRecord"]

        def go():
            ds = cls.create_stub(tdir / t, self.d / (src + MF))
            ds.close()

        outcome = self.call("create_stub", go, ["stub", "T" if ew else "F", t, src, m])
        gc.collect()
        if outcome == "ok":
            self.stats["stubs"] += 1
            self.info = {"name": t, "cls": "IH5MFRecord", "mode": "x"}
            self.take_snapshot([tdir / f"{t}.ih5"], "IH5MFRecord", None, merge=True)
        self.observe(outcome)

    def do_simple(self, cmd):
        rec = self.rec
        k = cmd[0]
        if k == "cp":
            self.observe(self.call("create_patch", rec.create_patch, cmd))
        elif k == "discard":
            self.observe(self.call("discard_patch", rec.discard_patch, cmd))
        else:
            raise ValueError(k)

    def do_drop(self, cmd):
        if self.rec is not None and not self.rec._closed:
            self.stats["abandoned"] += 1

        def go():
            self.rec = None
            gc.collect()

        self.observe(self.call("drop", go, ["drop"]))

    def run_cmds(self, cmds: List[Any], pos: int, in_with: bool) -> int:
        """Runs from cmds[pos]; inside a `with` body returns at the matching exit (by raising
        Boom for an exit by exception).  Returns the next position."""
        while pos < len(cmds):
            cmd = cmds[pos]
            pos += 1
            k = cmd[0]
            if k == "open":
                how = cmd[6] if len(cmd) > 6 else "plain"
                opened = self.do_open(cmd)     # no reference to the record may stay in this frame
                if opened and how == "with" and not in_with:
                    pos = self.run_with(cmds, pos)
                continue
            if k == "exit":
                if in_with and self.rec is not None:
                    self.exit_cmd = cmd
                    if cmd[1] in ("T", True):
                        raise Boom()
                    return pos
                continue
            if k == "drop":
                if in_with:
                    continue   # the handle cannot be given up inside its own `with` block
                self.do_drop(cmd)
                self.maybe_check()
                continue
            if k == "stub":
                if self.rec is None and not in_with:
                    self.do_stub(cmd)
                    self.maybe_check()
                continue
            if self.rec is None:
                continue
            if k == "write":
                self.do_write(cmd)
            elif k == "read":
                self.do_read(cmd)
            elif k == "commit":
                self.do_commit(cmd)
            elif k == "close":
                self.do_close(cmd)
            elif k == "merge":
                self.do_merge(cmd)
            elif k in ("cp", "discard"):
                self.do_simple(cmd)
            else:
                raise ValueError(k)
            self.maybe_check()
        return pos

    def run_with(self, cmds, pos) -> int:
        """A real `with` statement around the following commands up to the matching exit."""
        self.exit_cmd = None
        state: Dict[str, Any] = {"pos": pos}

        class Shim:
            """Delegates the context-manager protocol to the record, with the monitors around __exit__."""
            def __enter__(s):  # noqa: N805
                self.rec.__enter__()
                return None

            def __exit__(s, et, ev, tb):  # noqa: N805
                cmd = self.exit_cmd or ["exit", "F", self.fresh()]
                self.do_close(["exit", cmd[1], cmd[2]], via_exit=(ev,))
                return False

        try:
            with Shim():
                state["pos"] = self.run_cmds(cmds, pos, in_with=True)
        except Boom:
            # position after the exit command that raised
            j = pos
            while j < len(cmds) and cmds[j] is not self.exit_cmd:
                j += 1
            state["pos"] = j + 1
        return state["pos"]

    def finish(self):
        if self.rec is not None:
            try:
                self.rec.close(commit=False)
            except Exception:  # noqa: BLE001
                pass
            self.rec = None
            gc.collect()
        self.concrete.append(["final-check"])
        for sn in self.snaps:
            self.check_snapshot(sn, all_classes=True)
        # the side copies against the live files, byte for byte
        for sn in self.snaps:
            for fn in sn["files"]:
                for name in (fn, fn + MF):
                    c, l = sn["dir"] / name, sn["where"] / name
                    if c.is_file():
                        self.stats["sha_file_checks"] += 1
                        if not l.is_file() or l.read_bytes() != c.read_bytes():
                            self.problem(f"{name} differs from the copy taken when it was committed (step {sn['step']})", file=name)
        self.concrete.pop()


def run_history(case: Dict[str, Any]) -> Dict[str, Any]:
    """case = {"cmds": [...], "seed": int, "rich": bool}.  Never raises."""
    try:
        with vlib.workdir("c02") as root:
            R = Runner(root, case["seed"], case.get("rich", True))
            R.run_cmds(case["cmds"], 0, in_with=False)
            R.finish()
    except vlib.CaseTimeout as e:
        return {"status": "timeout", "error": str(e)}
    except Exception as e:  # noqa: BLE001
        import traceback
        return {"status": "harness-error", "error": f"{type(e).__name__}: {e}", "tb": traceback.format_exc()[-1800:]}
    finally:
        gc.collect()
    return {"status": "ok", "concrete": R.concrete, "obs": R.obs, "problems": R.problems, "stats": R.stats,
            "kinds": R.kinds, "nsnaps": len(R.snaps)}


def w_history(case):
    return run_history(case)


# ---------------------------------------------------------------------------- model side

def model_script(concrete: List[Any]) -> List[Any]:
    out = []
    for c in concrete:
        k = c[0]
        if k == "open":
            out.append(["open", c[1] == "IH5MFRecord", c[2], c[3], c[4], c[5]])
        elif k == "write":
            out.append(["write", c[1]])
        elif k == "exit":
            out.append(["close", True, c[2]])
        elif k == "close":
            out.append(["close", c[1] in ("T", True), c[2]])
        elif k == "merge":
            out.append(["merge", c[1] in ("T", True), c[2], c[3]])
        elif k == "stub":
            out.append(["stub", c[1] in ("T", True), c[2], c[3], c[4]])
        else:
            out.append(list(c))
    return out


class Renamer:
    def __init__(self):
        self.m: Dict[Any, int] = {}

    def __call__(self, x):
        if x is None:
            return None
        return self.m.setdefault(x, len(self.m))


def canon(ob: Dict[str, Any]) -> Any:
    """Rename identifiers by first occurrence in a fixed traversal."""
    rn = Renamer()

    def fl(files):
        return [[fn, rn(("r", rec)), int(idx), rn(("p", fid)), rn(("p", prev)) if prev is not None else None,
                 bool(c), toks, rn(("m", ext)) if ext is not None else None, bool(stub)]
                for fn, rec, idx, fid, prev, c, toks, ext, stub in files]

    def sd(sides):
        return [[fn, rn(("m", m))] for fn, m in sides]

    out = {"outcome": ob["outcome"], "main": fl(ob["main"]), "sides": sd(ob["sides"]),
           "other": fl(ob["other"]), "osides": sd(ob["osides"])}
    h = ob["handle"]
    if h is not None and not h["closed"]:
        h = dict(h)
        h["hman"] = rn(("m", h["hman"])) if h["hman"] is not None else None
    out["handle"] = h
    return out


def model_obs(res: Any) -> Dict[str, Any]:
    """res = [outcome, [files, sides, ofiles, osides, handle]] as printed by sx_fworld."""
    outcome, (files, sides, ofiles, osides, handle) = res
    opened = bool(handle) and handle[0][3] != "T"

    def fl(fs):
        out = []
        for fn, rec, idx, fid, prev, c, toks, ext, stub in sorted(fs, key=lambda f: f[0]):
            out.append([fn, rec, int(idx), fid, prev[0] if prev else None, c == "T",
                        None if opened else sorted(toks), ext[0] if ext else None, stub == "T"])
        return out

    def sd(s):
        return sorted([[fn, m] for fn, m in s])

    h = None
    if handle:
        names, w, p, c, mf, hman, view = handle[0]
        if c == "T":
            h = {"closed": True}
        else:
            h = {"closed": False, "files": names, "writable": w == "T", "patching": p == "T", "mf": mf == "T",
                 "hman": hman[0] if hman else None, "view": sorted(t for v in view for t in v)}
    return {"outcome": outcome, "main": fl(files), "sides": sd(sides), "other": fl(ofiles), "osides": sd(osides),
            "handle": h}


def coarse(outcome: str, cmd) -> str:
    """Exception classes are compared for opens and merges (the property's anchors name them);
    for the other steps on a handle only accepted / refused."""
    if cmd[0] in ("open", "drop"):
        return outcome
    if cmd[0] in ("merge", "stub"):      # h5py mode 'x' on a path this process holds open raises plain OSError
        return "exists" if outcome in ("FileExistsError", "other:OSError") else outcome
    return "ok" if outcome == "ok" else "refused"


# ---------------------------------------------------------------------------- generation

class Gen:
    def __init__(self, rng):
        self.rng = rng
        self.ids = 0
        self.tok = 0
        self.exists = set()

    def id(self):
        self.ids += 1
        return self.ids

    def write(self):
        self.tok += 1
        return ["write", f"tk{self.tok}", None]

    def handle_ops(self, lo, hi, writable=None):
        """Operations on the open handle; `writable` is the generator's guess whether a patch is
        pending (None: unknown), used only to weight the choice — refused calls are wanted too."""
        rng = self.rng
        out = []
        for _ in range(rng.randint(lo, hi)):
            kinds = ["write", "commit", "cp", "discard", "read", "merge", "close"]
            if writable is True:
                wts = [48, 20, 3, 10, 9, 5, 2]
            elif writable is False:
                wts = [10, 6, 32, 5, 14, 30, 3]
            else:
                wts = [40, 16, 14, 9, 9, 10, 2]
            k = rng.choices(kinds, wts)[0]
            if k == "write":
                out.append(self.write())
            elif k in ("cp", "commit"):
                out.append([k, self.id()])
                if writable is not None:
                    writable = (k == "cp") or (writable and k != "commit")
            elif k == "merge":
                out.append(["merge", rng.choice(["T", "F"]), rng.choices(MERGE_TARGETS, [3, 3, 3, 2, 1])[0], self.id()])
            elif k == "close":
                out.append(["close", rng.choice(["T", "F"]), self.id()])
                writable = None
            else:
                out.append([k])
                if k == "discard" and writable:
                    writable = False
        return out

    def session(self, n=None, mode=None, cls=None):
        rng = self.rng
        n = n or rng.choices(NAMES, [3, 2])[0]
        cls = cls or rng.choice(CLASSES)
        if mode is None:
            if n not in self.exists:
                mode = rng.choices(["x", "a", "w-", "r+", "r"], [4, 4, 2, 1, 1])[0]
            else:
                mode = rng.choices(["r", "r+", "a", "x", "w-"], [25, 35, 30, 5, 5])[0]
        if mode in ("x", "a", "w-"):
            self.exists.add(n)
        byname = mode in ("x", "w-") or rng.random() < 0.7
        if byname:
            target = ["name", n]
        else:
            target = ["list*", n, rng.choices(["full", "prefix", "foreign", "missing"], [70, 18, 6, 6])[0]]
        how = "with" if rng.random() < 0.3 else "plain"
        cmds = [["open", cls, mode, target, self.id(), self.id(), how]]
        cmds += self.handle_ops(0, 9, writable=(mode != "r") if rng.random() < 0.85 else None)
        if how == "with":
            cmds.append(["exit", rng.choice(["T", "F"]), self.id()])
            cmds.append(["drop"])
        else:
            r = rng.random()
            if r < 0.08:
                cmds.append(["drop"])                     # handle given up without close
            else:
                cmds += [["close", rng.choices(["T", "F"], [3, 1])[0], self.id()]]
                if rng.random() < 0.3:
                    cmds += self.handle_ops(1, 3)          # operations on a closed record
                cmds.append(["drop"])
        return cmds


def gen_history(rng) -> List[Any]:
    g = Gen(rng)
    cmds: List[Any] = []
    for _ in range(rng.randint(4, 9)):
        cmds += g.session()
        if rng.random() < 0.3:     # create_stub between two sessions (source sidecar chosen at run time)
            cmds.append(["stub", rng.choice(["T", "F"]), rng.choices(STUB_TARGETS, [4, 3, 1, 1, 1])[0],
                         "missing" if rng.random() < 0.1 else None, g.id()])
    return cmds


def pattern_histories() -> List[List[Any]]:
    """Hand-written histories for the situations the property text lists."""
    out = []
    for cls in CLASSES:
        for other in CLASSES:
            i = iter(range(1, 10**6))
            n = lambda: next(i)  # noqa: E731
            out.append([
                ["open", cls, "a", ["name", "foo"], n(), n(), "plain"],             # 'a' when absent
                ["write", "tk1", None], ["commit", n()], ["commit", n()],           # failed commit of nothing
                ["cp", n()], ["write", "tk2", None], ["discard"], ["discard"],
                ["cp", n()], ["write", "tk3", None], ["read"], ["close", "F", n()], ["drop"],
                ["open", other, "r", ["name", "foo"], n(), n(), "plain"],           # read-only incl. pending patch
                ["read"], ["write", "tk4", None], ["cp", n()], ["commit", n()], ["discard"],
                ["merge", "F", "foo2", n()], ["merge", "T", "foo", n()], ["merge", "F", "foo2", n()],
                ["close", "T", n()], ["read"], ["write", "tk5", None], ["merge", "T", "zz", n()], ["drop"],
                ["open", cls, "r+", ["name", "foo"], n(), n(), "with"],             # continues the pending patch
                ["write", "tk6", None], ["exit", "T", n()], ["drop"],                # leaves by exception -> commit
                ["open", other, "a", ["list*", "foo", "full"], n(), n(), "plain"],
                ["write", "tk7", None], ["merge", "F", "foo3", n()], ["commit", n()], ["merge", "F", "foo3", n()],
                ["merge", "T", "foo", n()], ["cp", n()], ["drop"],                   # given up with a pending patch
                ["open", cls, "r+", ["list*", "foo", "prefix"], n(), n(), "plain"], ["close", "F", n()], ["drop"],
                ["open", other, "r+", ["name", "foo2"], n(), n(), "with"], ["write", "tk8", None], ["exit", "F", n()], ["drop"],
                ["open", cls, "x", ["name", "foo"], n(), n(), "plain"], ["open", cls, "w-", ["name", "foo2"], n(), n(), "plain"],
                ["open", cls, "r", ["list*", "foo", "full"], n(), n(), "with"], ["read"], ["exit", "T", n()], ["drop"],
                ["open", cls, "a", ["name", "foo"], n(), n(), "plain"], ["close", "T", n()], ["drop"],
                ["stub", "F", "foo-s", None, n()], ["stub", "T", "foo", None, n()], ["stub", "F", "foo-s", None, n()],
                ["stub", "F", "foo", None, n()], ["stub", "F", "fo", "missing", n()],
                ["open", "IH5MFRecord", "r+", ["name", "foo-s"], n(), n(), "with"], ["write", "tk9", None], ["read"],
                ["exit", "F", n()], ["drop"],
                ["open", other, "r", ["name", "foo-s"], n(), n(), "plain"], ["merge", "T", "foo-sm", n()], ["close", "T", n()], ["drop"],
                ["stub", "T", "st2", None, n()],
                ["open", cls, "r+", ["name", "foo"], n(), n(), "plain"], ["write", "tk10", None], ["close", "T", n()], ["drop"],
            ])
    return out


def category(what: str) -> str:
    for key in ("committed container", "sidecar of a committed container", "snapshot copy", "of the live directory",
                "differs from the copy", "merge_files returned"):
        if key in what:
            return key + (" changed" if " changed " in what else " disappeared" if " disappeared " in what else "")
    return what[:40]


def shape(cmds) -> List[Any]:
    out = []
    for c in cmds:
        if c[0] == "open":
            out.append(["open", c[1], c[2], c[3][0], len(c[3][1]) if c[3][0] == "list" else c[3][1]])
        elif c[0] == "write":
            out.append(["write"])
        elif c[0] in ("cp", "commit"):
            out.append([c[0]])
        elif c[0] in ("close", "exit"):
            out.append([c[0], c[1]])
        elif c[0] == "merge":
            out.append(["merge", c[1], c[2]])
        elif c[0] == "stub":
            out.append(["stub", c[1], c[2], "missing" if c[3] == "nothere.ih5" else "src"])
        else:
            out.append(list(c))
    return out


# ---------------------------------------------------------------------------- main

def run(ctx: vlib.Ctx):
    proof = ctx.check_proofs()
    cov = ctx.coverage
    cov["trusted_base"] = vlib.TRUSTED_COMMON + [
        "modelled, not verified: h5py.File (mode 'r' writes nothing, mode 'x' fails on an existing path, all HDF5 "
        "writes of the overlay go to the one file open 'r+'), open(path,'r+b')/open(path,'wb') touching only the named "
        "file, Path.unlink, uuid1() freshness (ids are arguments of the model), the content of a container as "
        "(user-block fields, opaque payload, manifest link) and of a sidecar as its manifest uuid; byte identity of "
        "the files themselves is not a statement of the model — it is observed by the SHA-256 monitor on the running "
        "code after every operation (a test, not a proof)",
    ]
    cases = [{"cmds": h, "seed": 7 + i, "rich": True, "pattern": True} for i, h in enumerate(pattern_histories())]
    for _ in range(ctx.budget(100, 1500)):
        cases.append({"cmds": gen_history(ctx.rng), "seed": ctx.rng.randrange(10**9), "rich": ctx.rng.random() < 0.7,
                      "pattern": False})
    results = vlib.pmap(w_history, cases, chunksize=2)
    for i, res in enumerate(results):      # a timeout on a contended machine proves nothing: once more, alone
        if res["status"] == "timeout":
            results[i] = vlib.pmap(w_history, [cases[i]], procs=1)[0]

    mcases, midx = [], []
    for i, res in enumerate(results):
        if res["status"] == "ok" and res["concrete"]:
            mcases.append(["script", model_script(res["concrete"])])
            midx.append(i)
    mres = vlib.run_model("c02", mcases)
    xc = vlib.coq_crosscheck("c02", mcases, mres, "c02", max_cases=3)

    disagreements: List[Dict[str, Any]] = []
    harness_errors = []
    stats: Dict[str, int] = {}
    kinds: Dict[str, int] = {}
    shapes = set()
    steps = 0
    outcomes: Dict[str, int] = {}
    for i, res in enumerate(results):
        if res["status"] != "ok":
            harness_errors.append({"case": i, "status": res["status"], "error": res.get("error"), "tb": res.get("tb")})
            continue
        for k, v in res["stats"].items():
            stats[k] = stats.get(k, 0) + v
        for k, v in res["kinds"].items():
            kinds[k] = kinds.get(k, 0) + v
        shapes.add(vlib.signature(shape(res["concrete"])))
    for i, mr in zip(midx, mres):
        res = results[i]
        steps += len(res["obs"])
        if len(mr) != len(res["obs"]):
            disagreements.append({"case": i, "what": f"model produced {len(mr)} steps, impl {len(res['obs'])}", "tail": mr[-1:]})
            continue
        for k, (m, ob) in enumerate(zip(mr, res["obs"])):
            cmd = res["concrete"][k]
            ci, cm = canon(ob), canon(model_obs(m))
            ci["outcome"], cm["outcome"] = coarse(ci["outcome"], cmd), coarse(cm["outcome"], cmd)
            key = f"{cmd[0]}:{ci['outcome']}"
            outcomes[key] = outcomes.get(key, 0) + 1
            if ci != cm:
                diff = {f: {"model": cm[f], "impl": ci[f]} for f in ci if ci[f] != cm.get(f)}
                disagreements.append({"case": i, "step": k, "cmd": cmd, "differs": diff})
                break
    if mcases:
        ctx.sample({"case": mcases[0][1][:5], "model": mres[0][:2]})

    # ---- the property's own oracle on the code alone: (a) and (c)
    reported = set()
    for i, res in enumerate(results):
        if res["status"] != "ok" or not res["problems"]:
            continue
        for pr in res["problems"]:
            cat = category(pr["what"])
            if cat in reported:
                continue
            reported.add(cat)
            conc = [c for c in res["concrete"]]
            seed = cases[i]["seed"]

            def fails(sub, cat=cat, seed=seed):
                r2 = run_history({"cmds": sub, "seed": seed, "rich": False})
                return r2["status"] == "ok" and any(category(p["what"]) == cat for p in r2["problems"])
            small = conc
            try:
                if fails(list(conc)):
                    small = vlib.ddmin(list(conc), fails, budget=80)
            except Exception:  # noqa: BLE001
                small = conc
            ctx.violation(f"C02 oracle on the code: {pr['what']}",
                          {"kind": "history", "cmds": small, "seed": seed, "problem": pr,
                           "rich": small is conc and cases[i]["rich"]},
                          sig_obj={"kind": "history", "category": cat, "shape": shape(small)})

    cov["evaluations"] = steps + stats.get("sha_file_checks", 0) + stats.get("snapshot_checks", 0)
    cov["distinct_nontrivial"] = len(shapes)
    cov["rule"] = ("distinct = distinct sequence of executed (command kind, class, mode, target kind, close/exit flag, merge "
                   "target); every history contains at least one commit and later operations (non-trivial: committed files "
                   "exist while further operations run)")
    cov["input_distribution"] = {
        "histories": len(cases), "pattern_histories": len(pattern_histories()),
        "operations_run": stats.get("ops", 0), "operations_by_kind": dict(sorted(kinds.items())),
        "outcomes(cmd:class)": dict(sorted(outcomes.items())),
        "steps_compared_with_model": steps, "oracle_counters": stats,
    }
    cov["coq_crosscheck"] = xc
    cov["disagreements"] = len(disagreements)
    ctx.assumptions += ["uuid1() never repeats an id", "no other process touches the directories",
                        "HDF5 file locking disabled (HDF5_USE_FILE_LOCKING=FALSE, as set by ./check)"]
    ctx.notes.append(f"observations (no claim): {stats.get('mtime_changed_committed', 0)} mtime changes of committed files; "
                     f"uncommitted newest container changed {stats.get('uncommitted_changed', 0)} times "
                     f"({stats.get('uncommitted_rplus_reopen_changed', 0)} of them by a reopen in r+/a alone) — allowed")

    if harness_errors:
        ctx.violation(f"{len(harness_errors)} case(s) could not be evaluated: {harness_errors[0]}",
                      {"kind": "harness", "errors": harness_errors[:3]}, found_input=False)
    if not xc["ok"]:
        ctx.violation("extracted runner and in-Coq evaluation of the model disagree (stale or wrong extraction)",
                      {"kind": "crosscheck", "log": xc}, found_input=False)
    if not proof["ok"]:
        ctx.violation("proof obligations of Properties/C02.v do not check: " + "; ".join(proof["problems"])[:500],
                      {"kind": "proof", "theorem_file": "coq/Properties/C02.v", "problems": proof["problems"]},
                      found_input=False)
    if disagreements and not ctx.violations and not ctx.known_hits:
        ctx.violation("model/implementation correspondence broken but the property oracle found no failing input",
                      {"kind": "correspondence",
                       "correspondence": "coq/Rec/Frozen.v run_c02 vs metador_core.ih5.record / manifest",
                       "smallest_disagreement": disagreements[0], "count": len(disagreements)},
                      found_input=False)
    elif disagreements:
        ctx.notes.append(f"{len(disagreements)} model/impl disagreements (first: {str(disagreements[0])[:600]})")


def replay(rep) -> int:
    """Re-evaluate the recorded failing history on the current tree; 1 if it still fails."""
    vlib._pool_init()
    if rep.get("kind") == "history":
        res = run_history({"cmds": rep["cmds"], "seed": rep.get("seed", 0), "rich": rep.get("rich", False)})
        if res["status"] != "ok":
            print("could not run:", res)
            return 1
        for p in res["problems"]:
            print("step", p["step"], p["cmd"], "->", p["what"])
        print("still failing" if res["problems"] else "no longer failing")
        return 1 if res["problems"] else 0
    print("replay names a proof obligation or correspondence; re-run the check itself")
    return 1
