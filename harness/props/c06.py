"""C06 — the container TOC and the attached metadata objects stay in exact one-to-one sync.

Correspondence (model coq/Toc/Sync.v, entry ``run_c06``): random and pattern histories of
create / delete / move / copy (with and without metadata) / copyinto / attributes / attach
(incl. path-REUSE shapes: move away and back, a->b->a chains, copy onto a vacated name,
delete + re-create at the same path, swaps via a temporary name; datasets and groups with
metadata at depth 1..3)
(good schemas, unknown, auxiliary, failing schema export, failing provider lookup, invalid
value, duplicates) / detach / reopen (writable, read-only file, ``restrict(read_only=True)``)
/ IH5 patch boundaries, run through ``MetadorContainer`` over ``h5py.File`` and ``IH5Record``.
After EVERY operation, successful or refused:

  (a) the raw (unwrapped) tree is dumped and judged by ``toclib.sync_oracle`` — an independent
      statement of the layout text in container/__init__.py (the property's oracle, no model);
  (b) the dump is compared with the model's raw tree modulo UUID renaming, together with the
      result class and the model's own ``syncb`` verdict;
  (c) the in-memory index of the container in use is compared with the index of a fresh
      ``MetadorContainer`` built on the same raw object (private tables and public answers:
      keys, children, parent_path, versions, provider, packages, query) — a difference is a
      violation; both are also compared with the model's ``mem`` / ``load``;
  (d) the model's executable checker ``syncb_raw`` is run on the REAL dump (case ``check``) and
      must agree with the Python oracle.
A refused operation must leave the dump unchanged (a change of user data only — copy of a
dataset without metadata — is noted, not reported: C06 is about TOC <-> metadata).
"""
from __future__ import annotations

import time
from typing import Any, Dict, List, Optional, Tuple

import ih5lib
import toclib as T
import vlib

STRICT_INDEX = True     # _used and _toc_path are compared exactly (empty entries / None reservations count)
DRV_NAME = {"h5": "h5py.File", "ih5": "IH5Record"}
CORR = "coq/Toc/Sync.v run_c06 vs metador_core.container"


def model_ops(ops: List[list]) -> List[list]:
    """Harness histories carry the read-only flavour as a third element of reopen."""
    return [op[:2] if op[0] == "reopen" else op for op in ops]


# ---------------------------------------------------------------------------- one history on one driver

def _open_raw(drv: str, d, mode: str):
    import h5py
    from metador_core.ih5.container import IH5Record
    return h5py.File(d / "cont.h5", mode) if drv == "h5" else IH5Record(d / "rec", mode)


def _diff_keys(a: Dict[str, Any], b: Dict[str, Any]) -> List[str]:
    return sorted(k for k in set(a) | set(b) if a.get(k) != b.get(k))


def _complaint_class(c: str) -> str:
    tail = c.split(": ", 1)[1] if ": " in c else c
    return T._UUID_ANY.sub("U", tail)[:60]


def index_findings(live: Dict[str, Any], fresh: Dict[str, Any]) -> List[dict]:
    """Differences between the incrementally maintained index and the one rebuilt from disk."""
    out: List[dict] = []
    fields = _diff_keys(live, fresh)
    if not fields:
        return out
    rest = list(fields)
    if "links" in fields:
        lv = [x for x in live["links"] if x[1] is not None]
        if lv == fresh["links"]:
            rest.remove("links")
            if STRICT_INDEX:
                out.append({"kind": "uuid-reservation",
                            "reserved": [x[0] for x in live["links"] if x[1] is None][:3]})
    if "used" in fields:
        lu = {k: v for k, v in live["used"].items() if v}
        fu = {k: v for k, v in fresh["used"].items() if v}
        if lu == fu:
            rest.remove("used")
            if STRICT_INDEX:
                out.append({"kind": "used-entry", "live": live["used"], "fresh": fresh["used"]})
    if rest:
        out.insert(0, {"kind": "index", "fields": rest,
                       "live": {k: live[k] for k in rest}, "fresh": {k: fresh[k] for k in rest}})
    return out


def sig_of(f: dict) -> dict:
    k = f["kind"]
    if k == "oracle":
        return {"kind": k, "op": f.get("opkind"), "schema_fail": f.get("schema_fail"), "class": f.get("class")}
    if k in ("index", "public", "reopen-index"):
        return {"kind": k, "fields": f.get("fields")}
    if k == "refused-effect":
        return {"kind": k, "op": f.get("opkind")}
    return {"kind": k}


def run_history(task) -> Dict[str, Any]:
    """task = dict(driver, ops, env, model=[step...] or None, limit)."""
    T.ensure_schemas()
    from metador_core.container import MetadorContainer
    drv, ops, env = task["driver"], task["ops"], task["env"]
    model = task.get("model")
    fail_of = {d[0]: d[4] for d in env}
    names = sorted({(T.name_of_ep(d[0]), tuple(int(x) for x in d[0].split("__")[1].split("."))) for d in env})
    out: Dict[str, Any] = {"steps": 0, "findings": [], "dis": [], "notes": [], "checks": [], "classes": [],
                           "tolerated": 0, "error": None, "states": 0}
    t0 = time.time()
    seen_checks = set()
    st: Dict[str, Any] = {"raw": None, "mc": None, "file_ro": False}
    with vlib.workdir("c06") as d:
        try:
            with ih5lib.hard_time_limit(task.get("limit", 240)):
                st["raw"] = _open_raw(drv, d, "w")
                st["mc"] = MetadorContainer(st["raw"])
                cur = T.dump_raw(st["raw"])
                ro_phase = False
                compare_model = model is not None
                for i, op in enumerate(ops):
                    before = cur
                    pre_ix = None
                    cls, err = "ok", None
                    try:
                        if op[0] == "reopen":
                            flavour = op[2] if len(op) > 2 else "file"
                            pre_ix = T.index_of(st["mc"])
                            if flavour == "acl" and not st["file_ro"]:
                                st["mc"] = MetadorContainer(st["raw"])
                                if op[1]:
                                    st["mc"].restrict(read_only=True)
                            else:
                                st["mc"] = None
                                st["raw"].close()
                                st["raw"] = _open_raw(drv, d, "r" if op[1] else "r+")
                                st["mc"] = MetadorContainer(st["raw"])
                                st["file_ro"] = bool(op[1])
                            ro_phase = bool(op[1])
                        elif op[0] == "bnd":
                            if drv == "ih5" and not st["file_ro"]:
                                st["raw"].commit_patch()
                                st["raw"].create_patch()
                        else:
                            T.apply_op(st["mc"], op)
                    except vlib.CaseTimeout:
                        raise
                    except Exception as e:  # noqa: BLE001
                        if op[0] in ("reopen", "bnd"):
                            raise
                        cls, err = T.classify(e), f"{type(e).__name__}: {e}"[:160]
                    out["classes"].append(cls)
                    cur = now = T.dump_raw(st["raw"])
                    complaints = T.sync_oracle(now)
                    live_ix = T.index_of(st["mc"])
                    fresh_ix, fresh_err, pub_diff = None, None, []
                    try:
                        fresh = MetadorContainer(st["raw"])
                        fresh_ix = T.index_of(fresh)
                        pl, pf = T.public_view(st["mc"], names), T.public_view(fresh, names)
                        pub_diff = [f"{k}:{n}" for k in pl for n in (_diff_keys(pl[k], pf[k]) if isinstance(pl[k], dict) else ([""] if pl[k] != pf[k] else []))]
                        pub_ev = {x: [(pl[x.split(":")[0]][x.split(":")[1]] if x.split(":")[1] else pl[x.split(":")[0]]),
                                      (pf[x.split(":")[0]][x.split(":")[1]] if x.split(":")[1] else pf[x.split(":")[0]])] for x in pub_diff[:4]}
                    except vlib.CaseTimeout:
                        raise
                    except Exception as e:  # noqa: BLE001
                        fresh_err = f"{type(e).__name__}: {e}"[:160]
                    out["steps"] += 1
                    base = {"step": i, "op": op, "opkind": op[0], "cls": cls, "err": err,
                            "schema_fail": fail_of.get(op[2]) if op[0] == "sattach" else None}

                    # ---- the property on the code alone
                    found: List[dict] = []
                    ixf = index_findings(live_ix, fresh_ix) if fresh_ix is not None else []
                    changed = _diff_keys(before, now) if cls != "ok" else []
                    toc_changed = [n for n in changed if T.reserved(n)]
                    if complaints:
                        found.append(dict(base, kind="oracle", complaints=complaints[:6], **{"class": _complaint_class(complaints[0])},
                                          index=ixf[:3], fresh_error=fresh_err, public=pub_diff[:6],
                                          refused_but_changed=toc_changed[:6]))
                    else:
                        if fresh_err:
                            found.append(dict(base, kind="fresh-fails", fresh_error=fresh_err))
                        for x in ixf:
                            found.append(dict(base, **x))
                        if pub_diff and not any(x["kind"] == "index" for x in ixf):
                            found.append(dict(base, kind="public", fields=sorted({x.split(":")[0] for x in pub_diff}), answers=pub_ev))
                        if toc_changed:
                            found.append(dict(base, kind="refused-effect", changed=toc_changed[:6]))
                        if pre_ix is not None and not ixf and pre_ix != live_ix:
                            f = _diff_keys(pre_ix, live_ix)
                            found.append(dict(base, kind="reopen-index", fields=f, before={k: pre_ix[k] for k in f},
                                              after={k: live_ix[k] for k in f}))
                    if changed and not toc_changed:
                        out["notes"].append({"op": op, "cls": cls, "err": err, "user_data_changed": changed[:4]})

                    # ---- checker of the model on the real dump (case B), evaluated later in one batch
                    if now != before or i == 0:
                        content = [c for c in complaints if c.startswith("[content]")]
                        if not content:
                            case = T.check_case(now, env)
                            key = vlib.signature(case[2:])
                            if key not in seen_checks:
                                seen_checks.add(key)
                                out["checks"].append([case, not complaints, i])
                        out["states"] += 1

                    # ---- comparison with the model
                    if compare_model and i < len(model):
                        ms = model[i]
                        dis = compare_step(op, ms, cls, err, now, before, live_ix, fresh_ix, ro_phase, out)
                        for x in dis:
                            if not x.get("quirk"):
                                out["dis"].append(dict(x, step=i, op=op))
                        if dis:
                            compare_model = False
                    if found:
                        out["findings"] = found
                        break
        except vlib.CaseTimeout:
            out["error"] = "timeout"
        except Exception as e:  # noqa: BLE001
            import traceback
            out["error"] = f"{type(e).__name__}: {e}"[:300] + " | " + traceback.format_exc()[-700:]
        finally:
            st["mc"] = None
            try:
                st["raw"].close()
            except Exception:  # noqa: BLE001
                pass
    out["secs"] = round(time.time() - t0, 1)
    return out


def compare_step(op, ms, cls, err, now, before, live_ix, fresh_ix, ro_phase, out) -> List[dict]:
    """Disagreements between the model's step `ms` = [res, tree, syncb, mem, load] and the run."""
    dis: List[dict] = []
    mcls = ms[0]
    ok = (mcls == cls) or (mcls == "late" and cls in ("ok", "fail"))
    if not ok and ro_phase and now == before:
        # read-only phases: the model refuses before looking at the arguments; the code checks the
        # path guard first (class guard) and lets effect-free require_* calls through
        if {mcls, cls} <= {"guard", "fail"} or (mcls == "fail" and cls == "ok" and op[0] in ("reqgrp", "reqds", "get")):
            ok = True
            out["tolerated"] += 1
    if (not ok and op[0] == "copy" and op[1] != "/" and mcls in ("ok", "late") and cls == "fail"
            and "Unable to synchronously copy object" in (err or "")):
        # HDF5 resolves the absolute sidecar paths the wrapper passes to a sub-group's copy relative
        # to that group when a prefix of them exists there (plain-tree quirk of h5py, cf. C08)
        out["quirks"] = out.get("quirks", 0) + 1
        return [{"what": "h5py sub-group copy quirk", "quirk": True}]
    if not ok:
        dis.append({"what": "result class", "model": mcls, "impl": cls, "err": err})
    if ms[2] != "T":
        dis.append({"what": "the model's own state fails its checker syncb", "model": ms[2]})
    mt = T.model_tree(ms[1])
    norm = T.normalise_dump(now)
    ren = T.uuid_renaming(norm.keys(), mt.keys())
    got = T.rename_uuids(norm, ren)
    if got != mt:
        d = _diff_keys(got, mt)
        dis.append({"what": "raw tree (modulo uuid renaming)", "differs_at": d[:6],
                    "impl": {k: got.get(k) for k in d[:4]}, "model": {k: mt.get(k) for k in d[:4]}})
        return dis
    a, b = T.canon_index(live_ix, ren, STRICT_INDEX), T.model_index(ms[3])
    if a != b:
        f = _diff_keys(a, b)
        dis.append({"what": "in-memory index vs model mem", "fields": f, "impl": {k: a[k] for k in f}, "model": {k: b[k] for k in f}})
    if fresh_ix is not None:
        a, b = T.canon_index(fresh_ix, ren, STRICT_INDEX), T.model_index(ms[4])
        if a != b:
            f = _diff_keys(a, b)
            dis.append({"what": "index rebuilt from disk vs model load", "fields": f, "impl": {k: a[k] for k in f}, "model": {k: b[k] for k in f}})
    return dis


# ---------------------------------------------------------------------------- workers

def w_run(task):
    return run_history(task)


def w_env(_=None):
    return T.load_env()


def _has_finding(r: Dict[str, Any], target_sig: dict) -> bool:
    return any(sig_of(f) == target_sig for f in r["findings"])


def w_shrink(job) -> list:
    task, f = job
    target = sig_of(f)
    ops = list(task["ops"][: f["step"] + 1])

    def fails(cand):
        r = run_history({"driver": task["driver"], "ops": cand, "env": task["env"], "model": None, "limit": 120})
        return _has_finding(r, target)
    try:
        if not ops or not fails(ops):
            return [False, ops]
        return [True, vlib.ddmin(ops, fails, budget=40)]
    except Exception:  # noqa: BLE001
        return [False, ops]


def describe(f: dict, drv: str) -> str:
    d = DRV_NAME[drv]
    k = f["kind"]
    head = f"[{d}] after {f['op']} ({f['cls']}{': ' + f['err'] if f.get('err') else ''}): "
    if k == "oracle":
        extra = ""
        if f.get("fresh_error"):
            extra += f"; a fresh MetadorContainer on the file cannot be built ({f['fresh_error']})"
        if any(x["kind"] == "uuid-reservation" for x in f.get("index") or []):
            extra += "; the live index keeps a None uuid reservation"
        if f.get("index") and any(x["kind"] == "index" for x in f["index"]):
            extra += f"; live index differs from the rebuilt one in {[x['fields'] for x in f['index'] if x['kind'] == 'index'][0]}"
        return head + "TOC and metadata out of sync: " + "; ".join(f["complaints"][:3]) + extra
    if k == "index":
        return head + f"index maintained incrementally differs from the one rebuilt from disk in {f['fields']}: live {f['live']} vs fresh {f['fresh']}"
    if k == "used-entry":
        return head + f"live TOCSchemas._used keeps an entry for a package that is no longer recorded: {f['live']} vs rebuilt {f['fresh']}"
    if k == "uuid-reservation":
        return head + f"live TOCLinks._toc_path keeps a None reservation for uuid(s) {f['reserved']} that no object uses (rebuilt index has none)"
    if k == "public":
        return head + f"public index answers differ between the container in use and a fresh one: {f['answers']}"
    if k == "fresh-fails":
        return head + f"a fresh MetadorContainer on the file cannot be built: {f['fresh_error']}"
    if k == "refused-effect":
        return head + f"the refused operation changed the TOC/metadata part of the file: {f['changed']}"
    if k == "reopen-index":
        return head + f"index after reopening differs from the one before closing in {f['fields']}: {f['before']} vs {f['after']}"
    return head + str(f)


# ---------------------------------------------------------------------------- main

def run(ctx: vlib.Ctx):
    proof = ctx.check_proofs()
    cov = ctx.coverage
    cov["trusted_base"] = vlib.TRUSTED_COMMON + [
        "modelled, not verified: the h5py/HDF5 semantics of the group protocol on a plain tree (Toc/UserView.v u_apply: "
        "intermediate groups, refusal classes, copy/move), Python's str.split/startswith/find (Toc/Layout.v), uuid1 as a fresh-id "
        "counter; tied by comparing the full raw tree, result class and index after every operation on h5py.File and IH5Record",
        "modelled, not verified: the CONTENT of schemas/<s>/compat and packages/<p> (constants in the model; load takes parent "
        "paths and providers from the environment) — only the Python oracle checks them against the live plugin environment; "
        "pydantic validation (a flag `valid` of the attach operation), schema export and provider lookup failures (flags of the environment)",
        "the Python oracle toclib.sync_oracle and the model's checker syncb_raw are cross-validated on every distinct real dump",
        "not exhibited: MOVE into the source's own subtree (copies below the source itself are generated), hard/soft links, two live containers on one file, failures inside "
        "HDF5 itself midway through an operation, copy on a file opened read-only (HDF5 attempts the write)",
    ]
    env = vlib.pmap(w_env, [None, None], procs=2)[0]

    nh = ctx.budget(40, 220)
    nops = ctx.budget(18, 26)
    hists = [T.gen_history(ctx.rng, ctx.rng.randint(8, nops)) for _ in range(nh)]
    # path REUSE: a node with metadata reappears (move back, a->b->a, copy onto the vacated name,
    # delete + re-create, swaps) at a path where one lived earlier in the same session
    n_reuse = ctx.budget(10, 60)
    hists += [T.gen_reuse_history(ctx.rng) for _ in range(n_reuse)]
    hists += T.pattern_histories()
    mcases = [["run", env, model_ops(h)] for h in hists]
    t0 = time.time()
    mres = vlib.run_model("c06", mcases)
    t1 = time.time()
    disagreements: List[dict] = []
    for hi, r in enumerate(mres):
        if r[0] != "T":
            disagreements.append({"what": "model rejects the environment (env_ok = F)", "hist": hi})
    tasks = [{"driver": drv, "ops": ops, "env": env, "model": mres[hi][1], "hist": hi, "limit": 240}
             for hi, ops in enumerate(hists) for drv in ("h5", "ih5")]
    order = sorted(range(len(tasks)), key=lambda i: -len(tasks[i]["ops"]))
    res_sorted = vlib.pmap(w_run, [tasks[i] for i in order])
    results: List[Any] = [None] * len(tasks)
    for i, r in zip(order, res_sorted):
        results[i] = r
    t2 = time.time()

    # timeouts: re-run alone before believing them
    errors = []
    for ti, (task, got) in enumerate(zip(tasks, results)):
        if got["error"] == "timeout":
            again = vlib.pmap(w_run, [dict(task, limit=600)], procs=2)[0]
            if not again["error"]:
                results[ti] = again
                continue
            got = again
        if got["error"]:
            errors.append({"driver": task["driver"], "hist": task["hist"], "error": got["error"], "ops": task["ops"]})

    # ---- case B: the model's checker on the real dumps
    checks: Dict[str, Tuple[list, bool, dict]] = {}
    for task, got in zip(tasks, results):
        for case, verdict, step in got["checks"]:
            checks.setdefault(vlib.signature(case[2:]), (case, verdict, {"driver": task["driver"], "hist": task["hist"], "step": step}))
    ck = list(checks.values())
    ck_res = vlib.run_model("c06", [c[0] for c in ck])
    oracle_dis = 0
    for (case, verdict, where), r in zip(ck, ck_res):
        if (r == "T") != verdict:
            oracle_dis += 1
            if oracle_dis <= 3:
                disagreements.append({"what": "Python oracle and the model's checker syncb_raw disagree on a real dump",
                                      "python_in_sync": verdict, "model": r, **where,
                                      "ops": tasks[0]["ops"] if False else hists[where["hist"]][: where["step"] + 1],
                                      "tree": case[4][:60]})
    t3 = time.time()

    # ---- findings
    findings: Dict[str, Tuple[dict, dict, tuple]] = {}
    evals = 0
    notes: Dict[str, int] = {}
    tolerated = 0
    failing_by_kind: Dict[str, int] = {}
    hist_with_finding = set()
    for task, got in zip(tasks, results):
        evals += got["steps"]
        tolerated += got["tolerated"]
        for op, c in zip(task["ops"], got["classes"]):
            if c != "ok":
                failing_by_kind[op[0]] = failing_by_kind.get(op[0], 0) + 1
        for n in got["notes"]:
            k = f"{n['op'][0]} refused ({n['cls']}) after changing user data only"
            notes[k] = notes.get(k, 0) + 1
        for f in got["findings"]:
            hist_with_finding.add((task["hist"], task["driver"]))
            key = vlib.signature(sig_of(f))
            rank = (task["driver"] != "h5", f["step"], task["hist"])
            if key not in findings or rank < findings[key][2]:
                findings[key] = (task, f, rank)
        if (task["hist"], task["driver"]) not in hist_with_finding:
            for x in got["dis"][:3]:
                disagreements.append(dict(x, driver=task["driver"], hist=task["hist"], ops=task["ops"][: x["step"] + 1]))
    flist = [(task, f) for _k, (task, f, _r) in sorted(findings.items())]
    smalls = vlib.pmap(w_shrink, [({"driver": t["driver"], "ops": t["ops"], "env": env}, f) for t, f in flist])
    for (task, f), (reproduced, small) in zip(flist, smalls):
        if not reproduced:
            ctx.notes.append(f"finding not reproduced when the history was re-run alone: {describe(f, task['driver'])}")
            continue
        rep = {"kind": f["kind"], "driver": task["driver"], "ops": small, "finding": f, "sig": sig_of(f)}
        ctx.violation(describe(f, task["driver"]) + f" — minimal history: {small}", rep, sig_obj=sig_of(f))

    xc_idx = list(range(0, len(mcases), max(1, len(mcases) // ctx.budget(5, 16))))
    xc = vlib.coq_crosscheck("c06", [mcases[i] for i in xc_idx], [mres[i] for i in xc_idx], "c06", max_cases=ctx.budget(5, 16))
    xc2 = vlib.coq_crosscheck("c06", [c[0] for c in ck], ck_res, "c06chk", max_cases=ctx.budget(6, 20))
    vlib.log(f"c06: model {t1 - t0:.1f}s, implementation {t2 - t1:.1f}s, checker cases {len(ck)} in {t3 - t2:.1f}s, "
             f"shrink+crosscheck {time.time() - t3:.1f}s; slowest "
             + str(sorted(((r.get('secs'), t['driver'], len(t['ops'])) for t, r in zip(tasks, results)), reverse=True)[:6]))

    cov["evaluations"] = evals + len(ck)
    cov["distinct_nontrivial"] = len({vlib.signature([t["driver"], t["ops"][:i + 1]]) for t, r in zip(tasks, results)
                                      for i in range(r["steps"])})
    cov["rule"] = ("histories of 8..N container operations over both drivers; after every operation: oracle on the raw dump, live "
                   "index vs index of a fresh container (private tables + public answers), dump/class/index vs model; distinct = "
                   "distinct (driver, history prefix) actually executed; + every distinct real dump judged by the model's checker")
    all_ops = [op for h in hists for op in h]
    cov["input_distribution"] = {
        "histories": len(hists), "pattern_histories": len(T.pattern_histories()), "path_reuse_histories_random": n_reuse,
        "path_reuse_pattern_histories": len(T.reuse_patterns()),
        "moves_or_copies_onto_a_previously_used_path": _count_reuse(hists),
        "copies_to_a_place_below_the_source_itself": sum(1 for op in all_ops if _self_copy(op)), "ops_total": len(all_ops),
        "op_kinds": _hist(op[0] for op in all_ops),
        "attach_schemas": _hist(op[2] for op in all_ops if op[0] == "sattach"),
        "attach_invalid_value": sum(1 for op in all_ops if op[0] == "sattach" and not op[4]),
        "reopen_flavours": _hist(f"{'ro' if op[1] else 'rw'}-{op[2] if len(op) > 2 else 'file'}" for op in all_ops if op[0] == "reopen"),
        "refused_ops_by_kind (both drivers)": failing_by_kind,
        "distinct_real_dumps_checked_by_model": len(ck),
        "class_differences_tolerated_in_read_only_phases": tolerated,
    }
    cov["coq_crosscheck"] = {"run": xc, "check": xc2}
    cov["disagreements"] = len(disagreements)
    cov["harness_errors"] = [{k: v for k, v in e.items() if k != "ops"} for e in errors[:5]]
    ctx.sample({"case": ["run", "<env>", model_ops(hists[-1])[:5]], "model_first_step": [mres[-1][1][0][0], mres[-1][1][0][2]]})
    if ck:
        ctx.sample({"case": ["check", "<env>", ck[-1][0][2], ck[-1][0][3], ck[-1][0][4][:8]], "model": ck_res[-1], "python_oracle_in_sync": ck[-1][1]})
    ctx.assumptions += [
        "one version per schema name and one providing package per schema in the environment",
        "paths are ASCII and spelled canonically; no move into the source's own subtree",
        "one container object at a time writes to a file",
    ]
    for k, v in sorted(notes.items()):
        ctx.notes.append(f"observation (not C06): {k}: {v} times")
    quirks = sum(r.get("quirks", 0) for r in results)
    if quirks:
        ctx.notes.append(f"observation (not C06): {quirks} copies of an annotated dataset through a sub-group failed on h5py after the data copy "
                         "(absolute sidecar path resolved relative to the sub-group); model comparison stopped there")
    if tolerated:
        ctx.notes.append(f"{tolerated} result-class differences tolerated in read-only phases (guard before refusal / effect-free require_*), dump unchanged")

    if errors:
        ctx.violation(f"implementation run did not complete for {len(errors)} (driver, history) pairs: {errors[0]['error'][:300]}",
                      {"kind": "harness-exception", "errors": errors[:5], "correspondence": "harness/props/c06.py run_history"},
                      found_input=False)
    if not xc["ok"] or not xc2["ok"]:
        ctx.violation("extracted runner and in-Coq evaluation of the model disagree (stale or wrong extraction)",
                      {"kind": "crosscheck", "run": xc, "check": xc2}, found_input=False)
    if not proof["ok"]:
        ctx.violation("proof obligations of Properties/C06.v do not check: " + "; ".join(proof["problems"])[:500],
                      {"kind": "proof", "theorem_file": "coq/Properties/C06.v", "problems": proof["problems"]},
                      found_input=False)
    if disagreements and not ctx.violations and not ctx.known_hits:
        ctx.violation("model/implementation correspondence broken but the property oracle found no failing input: "
                      + str(disagreements[0])[:600],
                      {"kind": "correspondence", "correspondence": CORR,
                       "smallest_disagreement": min(disagreements, key=lambda x: len(x.get("ops") or [0] * 99)), "count": len(disagreements)},
                      found_input=False)
    elif disagreements:
        ctx.notes.append(f"{len(disagreements)} model/impl disagreements (first: {str(disagreements[0])[:600]})")


def _self_copy(op) -> bool:
    """copy / copyinto (spelled from "/") whose destination lies strictly below its own source."""
    if op[0] == "copy" and op[1] == "/":
        s, d = op[2].strip("/").split("/"), op[3].strip("/").split("/")
    elif op[0] == "copyinto" and op[1] == "/":
        s = op[2].strip("/").split("/")
        d = op[3].strip("/").split("/") + (list(op[4]) if op[4] else s[-1:])
    else:
        return False
    return len(d) > len(s) and d[:len(s)] == s


def _count_reuse(hists) -> int:
    """Moves / copies / creations whose destination held a node earlier in the same history (spelled from "/")."""
    n = 0
    for h in hists:
        gone = set()
        for op in h:
            if op[0] in ("move", "copy") and op[1] == "/":
                if op[3].strip("/") in gone:
                    n += 1
                if op[0] == "move":
                    gone.add(op[2].strip("/"))
            elif op[0] == "del" and op[1] == "/":
                gone.add(op[2].strip("/"))
    return n


def _hist(it):
    h: Dict[str, int] = {}
    for x in it:
        h[str(x)] = h.get(str(x), 0) + 1
    return h


def replay(rep) -> int:
    """Re-run the recorded history on the recorded driver; 1 if the recorded kind of finding is still there."""
    vlib._pool_init()
    if "ops" not in rep:
        print("replay names a proof obligation or correspondence; re-run the check itself")
        return 1
    env = T.load_env()
    r = run_history({"driver": rep["driver"], "ops": rep["ops"], "env": env, "model": None, "limit": 300})
    if r["error"]:
        print("error:", r["error"])
        return 1
    target = rep.get("sig") or sig_of(rep["finding"])
    hits = [f for f in r["findings"] if sig_of(f) == target]
    for f in r["findings"][:3]:
        print(describe(f, rep["driver"]))
    print("still failing" if hits else "no longer failing")
    return 1 if hits else 0
