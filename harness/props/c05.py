"""C05 — merge materialises the overlay view and continues the patch chain.

Theorems (coq/Properties/C05.v): the merged container shows the overlay view of the source
(C05_merge_view); every later patch container gives the same view on the merged container as on
the source, also for patches produced by operation lists (C05_merge_continues,
C05_patch_transplant), and the patch container written by the same operations on the merged record is
identical to the one written on the source (C05_patch_container_identical); the merged container is
what the create walk of the code builds (C05_build_preorder); the merged user block continues the chain (C05_merged_chain); the source
state is returned unchanged (C05_merge_frame); merging is refused for a writable record or a
stub-containing set (C05_merge_refused).

Correspondence: histories as in C01 (any number of patches, deletions, replacements, attributes,
copies, moves) on a real record in a temp dir — every session, the merge and the follow-up patch use
IH5Record or IH5MFRecord independently (mixed use of the two classes on one record is supported by
the code) — then merge_files(target):
merged dump vs. the model's export of the view (raw container, entry by entry), merged user
block vs. the model's merged block (identifiers renamed by first occurrence), a random
follow-up patch created on the source and opened as [merged, patch] and as source + [patch],
the same follow-up performed on the merged record itself (the two patch containers must be
identical, as the model says) and that patch opened on top of the original containers, refusals.

Oracle on the code alone (no model): merged dump == source dump; ih5_meta of the still-open
source, its dump and the SHA-256 of every source file before/after the merge; identity fields
of the merged user block, its fresh hash re-verified by opening the merged record; equality of
the three follow-up dumps; refusal (ValueError, nothing produced) while uncommitted changes
exist and for sets containing a stub.
"""
from __future__ import annotations

import hashlib
import json
from pathlib import Path
from typing import Any, Dict, List, Optional

import ih5lib
import reclib
import vlib
from props.c01 import VALUES, canon_history, targeted, _cap_boundaries, pick_keys, prefix_patterns

CASE_TIMEOUT = 120     # whole case (a dozen record opens); generous, the machine is shared


# ---------------------------------------------------------------------------- implementation side

def _sha_dir(d: Path) -> Dict[str, str]:
    return {p.name: hashlib.sha256(p.read_bytes()).hexdigest() for p in sorted(d.iterdir()) if p.is_file()}


def _meta(rec) -> List[Any]:
    return [json.loads(m.json()) for m in rec.ih5_meta]


def _cls(name):
    from metador_core.ih5.container import IH5Record, IH5MFRecord
    return IH5MFRecord if name == "IH5MFRecord" else IH5Record


def _apply_all(rec, ops, opened=None, path=None):
    """Apply the operations; ["sess", cls] ends the session (commit, close) and continues the
    record with the given class (mode r+ starts the next patch).  Returns (handle, flags)."""
    flags = []
    for op in ops:
        try:
            if op[0] == "bnd":
                rec.commit_patch()
                rec.create_patch()
            elif op[0] == "cc":        # boundary with a refused second commit in between
                rec.commit_patch()
                try:
                    rec.commit_patch()
                except ValueError:
                    pass
                rec.create_patch()
            elif op[0] == "sess":      # new session, possibly with the other record class
                rec.commit_patch()
                rec.close()
                rec = _cls(op[1])(path, "r+")
                opened.append(rec)
            else:
                ih5lib.apply_op(rec, op)
            flags.append("T")
        except vlib.CaseTimeout:
            raise
        except Exception:  # noqa: BLE001
            if op[0] == "sess":
                raise              # a session that cannot be opened is not a refused operation
            flags.append("F")
    return rec, flags


def _try_merge(rec, target: Path, watch: List[Path]) -> Dict[str, Any]:
    """Attempt a merge that must be refused: exception class, message and what appeared on disk."""
    before = {str(w): _sha_dir(w) for w in watch}
    try:
        rec.merge_files(target)
        res = {"raised": None}
    except vlib.CaseTimeout:
        raise
    except Exception as e:  # noqa: BLE001
        res = {"raised": type(e).__name__, "msg": str(e)[:120]}
    after = {str(w): _sha_dir(w) for w in watch}
    res["disk_unchanged"] = before == after
    return res


def _pre_op(rec, op, sdir: Path, mdir: Path) -> Dict[str, Any]:
    """One operation on the committed source before the merge; outcome + what it changed."""
    meta0, sha0, shm0 = _meta(rec), _sha_dir(sdir), _sha_dir(mdir)
    n0 = len(rec.ih5_files)
    try:
        k = op[0]
        if k == "commit":
            rec.commit_patch()
        elif k == "discard":
            rec.discard_patch()
        elif k == "create":
            rec.create_patch()
        elif k == "write":
            ih5lib.apply_op(rec, op[1])
        elif k == "merge-existing":
            rec.merge_files(sdir / "rec")          # the target exists: the source itself
        else:
            raise RuntimeError(k)
        res: Dict[str, Any] = {"op": k, "raised": None}
    except vlib.CaseTimeout:
        raise
    except Exception as e:  # noqa: BLE001
        res = {"op": k, "raised": type(e).__name__, "msg": str(e)[:100]}
    res["meta_same"] = _meta(rec) == meta0
    res["disk_same"] = (_sha_dir(sdir) == sha0 and _sha_dir(mdir) == shm0)
    res["nfiles_same"] = len(rec.ih5_files) == n0
    return res


def _view(rec):
    try:
        return ih5lib.dump_view(rec)
    except vlib.CaseTimeout:
        raise
    except Exception as e:  # noqa: BLE001
        return ["READ-ERROR", f"{type(e).__name__}: {e}"[:200]]


def case_classes(case):
    """(class of the first session, class of the last session, merging class, follow-up class)."""
    first = case["cls"]
    last = ([op[1] for op in case["ops"] if op[0] == "sess"] or [first])[-1]
    return first, last, case.get("mcls") or last, case.get("fcls") or case.get("mcls") or last


def _reopen_all(paths_or_prefix, classes, opened, want_nfiles=None):
    """Open read-only with each class: {class: view | ["OPEN-ERROR", ...]}."""
    res = {}
    for cn in classes:
        try:
            h = _cls(cn)(paths_or_prefix, "r")
            opened.append(h)
            res[cn] = _view(h)
            if want_nfiles is not None and len(h.ih5_files) != want_nfiles:
                res[cn] = ["NFILES", len(h.ih5_files)]
            h.close()
        except vlib.CaseTimeout:
            raise
        except Exception as e:  # noqa: BLE001
            res[cn] = ["OPEN-ERROR", f"{type(e).__name__}: {e}"[:200]]
    return res


BOTH = ["IH5Record", "IH5MFRecord"]


def observe(case) -> Dict[str, Any]:
    """Run one case on the real code and record every observation the property names."""
    first, last, mcls_n, fcls_n = case_classes(case)
    out: Dict[str, Any] = {"st": "ok"}
    opened: List[Any] = []
    with vlib.workdir("c05") as d:
        sdir, mdir, tdir = d / "s", d / "m", d / "t"
        for x in (sdir, mdir, tdir):
            x.mkdir()
        try:
            with ih5lib.hard_time_limit(CASE_TIMEOUT):
                rec = _cls(first)(sdir / "rec", "w")
                opened.append(rec)
                rec, out["hflags"] = _apply_all(rec, case["ops"], opened, sdir / "rec")
                # -- refusal while there are uncommitted changes
                out["ref_w"] = _try_merge(rec, mdir / "refused", [sdir, mdir])
                rec.commit_patch()
                if case.get("ro") or mcls_n != last:   # the merging handle: other class and / or read-only
                    rec.close()
                    if case.get("ro"):
                        rec = _cls(mcls_n)(sdir / "rec", "r")
                    else:
                        rec = _cls(mcls_n)(sdir / "rec", "r+")
                        rec.discard_patch()            # r+ started a patch: drop it again
                    opened.append(rec)
                view_c, meta_c = _view(rec), _meta(rec)
                # -- failed / refused / undone operations before the merge
                out["pre"] = [_pre_op(rec, op, sdir, mdir) for op in case.get("pre", [])]
                out["pre_state_same"] = (_view(rec) == view_c and _meta(rec) == meta_c)
                files = [Path(f) for f in rec.ih5_files]
                out["src_abs"] = [reclib.abstract_file(f) for f in files]
                view0, meta0, sha0 = _view(rec), _meta(rec), _sha_dir(sdir)
                # -- the merge
                try:
                    merged = Path(rec.merge_files(mdir / "merged"))
                except vlib.CaseTimeout:
                    raise
                except BaseException as e:  # noqa: BLE001  (AssertionError included)
                    out["st"] = "merge-failed"
                    out["merge_err"] = f"{type(e).__name__}: {e}"[:200]
                    out["m_files"] = sorted(p.name for p in mdir.iterdir())
                    out["meta_same_after_failed_merge"] = _meta(rec) == meta0
                    return out
                view1, meta1, sha1 = _view(rec), _meta(rec), _sha_dir(sdir)
                out.update(src_view=view0, src_view_after=view1, meta_before=meta0, meta_after=meta1,
                           sha_same=(sha0 == sha1), n_src_files=len(sha0),
                           merged_name=merged.name, m_files=sorted(p.name for p in mdir.iterdir()))
                out["merged_abs"] = ma = reclib.abstract_file(merged)
                out["merged_raw"] = ih5lib.dump_raw(merged)
                # the merged record must open with the merging class and with the plain class; with the
                # manifest-aware class whenever that class wrote it or the block names no manifest (a plain
                # merge of a manifest-carrying record copies the link but, by design, no sidecar file)
                mf_can = mcls_n == "IH5MFRecord" or (ma["st"] == "ok" and ma["ext"] is None)
                out["merged_classes"] = ["IH5Record"] + (["IH5MFRecord"] if mf_can else [])
                out["merged_views"] = _reopen_all(mdir / "merged", out["merged_classes"], opened, want_nfiles=1)
                # -- a follow-up patch on the source, written with the follow-up class
                if case.get("ro") or fcls_n != mcls_n:
                    rec.close()
                    rec = _cls(fcls_n)(sdir / "rec", "r+")      # r+ on a committed record starts a new patch
                    opened.append(rec)
                else:
                    rec.create_patch()
                rec, out["fflags"] = _apply_all(rec, case["follow"])
                rec.commit_patch()
                pf = Path(rec.ih5_files[-1])
                out["follow_live_view"] = _view(rec)
                out["patch_raw"] = ih5lib.dump_raw(pf)
                out["patch_abs"] = reclib.abstract_file(pf)
                rec.close()
                out["follow_merged_views"] = _reopen_all([merged, pf], BOTH, opened)
                out["follow_src_views"] = _reopen_all(sdir / "rec", BOTH, opened)
                # -- the same follow-up performed on the merged record itself
                own_n = fcls_n if fcls_n in out["merged_classes"] else "IH5Record"
                mr = _cls(own_n)(mdir / "merged", "r+")          # r+ on a committed record starts a new patch
                opened.append(mr)
                mr, out["mflags"] = _apply_all(mr, case["follow"])
                mr.commit_patch()
                out["follow_own_view"] = _view(mr)
                own_pf = Path(mr.ih5_files[-1])
                out["own_patch_raw"] = ih5lib.dump_raw(own_pf)
                mr.close()
                # -- and the patch written on the merged record applied to the original containers
                out["own_on_src_views"] = _reopen_all(files + [own_pf], BOTH, opened)
                # -- stub-containing sets (manifest-aware class)
                if case.get("stub") and fcls_n == "IH5MFRecord":
                    from metador_core.ih5.container import IH5MFRecord
                    mf = Path(str(pf) + reclib.MF_SUFFIX)
                    stub = IH5MFRecord.create_stub(tdir / "stub", mf)
                    opened.append(stub)
                    out["stub_abs"] = [reclib.abstract_file(f) for f in stub.ih5_files]
                    out["ref_stub"] = _try_merge(stub, tdir / "sm", [tdir, sdir])
                    stub.create_patch()
                    _apply_all(stub, case["follow"][:2])
                    stub.commit_patch()
                    out["stub2_abs"] = [reclib.abstract_file(f) for f in stub.ih5_files]
                    out["ref_stub2"] = _try_merge(stub, tdir / "sm", [tdir, sdir])
                    stub.close()
        except vlib.CaseTimeout:
            out["st"] = "timeout"
        except Exception as e:  # noqa: BLE001
            out["st"] = "error"
            out["err"] = f"{type(e).__name__}: {e}"[:300]
        finally:
            for r in opened:
                try:
                    r.close()
                except Exception:  # noqa: BLE001
                    pass
    return out


def w_observe(case):
    try:
        return observe(case)
    except Exception as e:  # noqa: BLE001
        return {"st": "harness", "err": f"{type(e).__name__}: {e}"[:300]}


# ---------------------------------------------------------------------------- oracle (code alone)

_ID_FIELDS = ["rec", "idx", "pid", "ext"]


def oracle(o: Dict[str, Any], case) -> List[Dict[str, Any]]:
    """Failures of the property on the recorded observations; no model involved."""
    F: List[Dict[str, Any]] = []
    if o["st"] == "merge-failed":
        polluted = [r["op"] for r in o["pre"] if r["raised"] and not r["meta_same"]]
        return [{"cls": "merge-failed",
                 "what": f"merge_files of a committed record raised {o['merge_err']!r} leaving {o['m_files']} at the target"
                         + (f"; ih5_meta had been changed by the refused operation(s) {polluted}" if polluted else "")}]
    if o["st"] in ("error", "harness"):
        return [{"cls": "exception", "what": f"unexpected exception while merging / patching / reopening: {o.get('err')}"}]
    if o["st"] != "ok":
        return F            # time-outs are classified by the caller (re-run alone)
    # refusal with uncommitted changes
    r = o["ref_w"]
    if r["raised"] != "ValueError" or not r["disk_unchanged"]:
        F.append({"cls": "uncommitted-not-refused", "what": f"merge with uncommitted changes: {r}"})
    for r in o.get("pre", []):
        if r["op"] == "merge-existing" and (r["raised"] is None or not (r["meta_same"] and r["disk_same"] and r["nfiles_same"])):
            F.append({"cls": "existing-target-not-refused", "what": f"merge onto an existing target: {r}"})
    # merged view = source view, with every class that must be able to open the merged record
    for cn, v in o["merged_views"].items():
        if v and v[0] == "OPEN-ERROR":
            F.append({"cls": "merged-unopenable", "what": f"merged record cannot be opened with {cn}: {v[1]}"})
        elif v and v[0] == "NFILES":
            F.append({"cls": "merged-not-single", "what": f"merged record has {v[1]} containers"})
        elif v != o["src_view"]:
            F.append({"cls": "merged-view", "what": f"dump of the merged record ({cn}) differs from the dump of the source",
                      "only_in_merged": [e for e in v if e not in o["src_view"]][:3],
                      "only_in_source": [e for e in o["src_view"] if e not in v][:3]})
    # source unchanged
    if not o["sha_same"]:
        F.append({"cls": "source-files-changed", "what": "SHA-256 of the source files changed by merge_files"})
    if o["src_view_after"] != o["src_view"]:
        F.append({"cls": "source-view-changed", "what": "dump of the still-open source changed by merge_files"})
    if o["meta_after"] != o["meta_before"]:
        diffs = []
        for i, (a, b) in enumerate(zip(o["meta_before"], o["meta_after"])):
            for k in sorted(a):
                if a[k] != b.get(k):
                    diffs.append([i - len(o["meta_before"]), k])
        F.append({"cls": "source-meta-changed", "fields": diffs,
                  "what": f"ih5_meta of the still-open source changed by merge_files at {diffs}"})
    # merged user block
    ma, sa = o["merged_abs"], o["src_abs"]
    if ma["st"] != "ok" or any(x["st"] != "ok" for x in sa):
        F.append({"cls": "ublock-unreadable", "what": "user block not in canonical form"})
    else:
        bad = [k for k in _ID_FIELDS if ma[k] != sa[-1][k]]
        if bad:
            F.append({"cls": "merged-ublock-identity", "what": f"merged user block differs from the newest source block in {bad}"})
        if ma["prev"] != sa[0]["prev"]:
            F.append({"cls": "merged-ublock-prev", "what": "prev_patch of the merged block is not that of the oldest source container"})
        if ma["hash"] is None or ma["hash"] != ma["dig"]:
            F.append({"cls": "merged-ublock-hash", "what": "hash of the merged block is not the digest of the merged payload"})
        if case_classes(case)[2] == "IH5MFRecord" and ma["ext"] is not None and (ma["mf"] is None or ma["mf"] != sa[-1]["mf"]):
            F.append({"cls": "merged-manifest", "what": "manifest beside the merged container is not the source's newest manifest"})
    # chain continuation
    live = o["follow_live_view"]
    for cn in BOTH:
        sv, mv, ov = o["follow_src_views"][cn], o["follow_merged_views"][cn], o["own_on_src_views"][cn]
        if sv != live:
            F.append({"cls": "source-reopen-differs", "what": f"source + follow-up patch reopened with {cn} differs from the live handle: {sv[:2]}"})
        if mv and mv[0] == "OPEN-ERROR":
            F.append({"cls": "patch-not-applicable", "what": f"[merged, patch] cannot be opened with {cn}: {mv[1]}"})
        elif mv != live:
            F.append({"cls": "patch-result-differs", "what": f"follow-up patch gives different dumps on source and merged container ({cn})",
                      "only_in_merged": [e for e in mv if e not in live][:3],
                      "only_in_source": [e for e in live if e not in mv][:3]})
        if ov and ov[0] == "OPEN-ERROR":
            F.append({"cls": "merged-patch-not-applicable", "what": f"source + [patch written on the merged record] cannot be opened with {cn}: {ov[1]}"})
        elif ov != live:
            F.append({"cls": "merged-patch-result-differs", "what": f"a patch written on the merged record gives a different dump on the original containers ({cn})"})
    if o["mflags"] != o["fflags"] or o["follow_own_view"] != live:
        F.append({"cls": "patching-merged-differs", "what": "the follow-up operations behave differently on the merged record"})
    # stubs
    for k in ("ref_stub", "ref_stub2"):
        if k in o and (o[k]["raised"] != "ValueError" or not o[k]["disk_unchanged"]):
            F.append({"cls": "stub-not-refused", "what": f"merge of a stub-containing set: {o[k]}"})
    return F


def canon(ops):
    """canon_history that keeps the class of a session change."""
    return [["sess", o[1]] if o[0] == "sess" else c for o, c in zip(ops, canon_history(ops))]


def oracle_fails(case, cls: Optional[str] = None) -> Optional[Dict[str, Any]]:
    o = observe(case)
    for f in oracle(o, case):
        if cls is None or f["cls"] == cls:
            return f
    return None


def w_shrink(hit):
    case, cls = hit["case"], hit["cls"]

    def mk(ops, follow):
        return {**case, "ops": ops, "follow": follow}

    if oracle_fails(case, cls) is None:
        return None
    # canonical tiny cases first: they give the same signature whatever history found the failure
    P, M = "IH5Record", "IH5MFRecord"
    for c in dict.fromkeys([case_classes(case)[2], case["cls"]]):      # one class throughout
        uni = {"cls": c, "mcls": c, "fcls": c, "follow": [], "stub": False}
        for cand in ([], [["bnd"]], [["set", ["a"], "i:1"], ["bnd"], ["del", ["a"]]]):
            small = {**uni, "ops": cand, "pre": [], "ro": False}
            f = oracle_fails(small, cls)
            if f:
                return {"case": small, "fail": f}
        for ro in (False, True):
            for pre in ([["commit"]], [["discard"]], [["write", ["set", ["a"], "i:1"]]], [["merge-existing"]], [["create"], ["discard"]]):
                small = {**uni, "ops": [], "pre": pre, "ro": ro}
                f = oracle_fails(small, cls)
                if f:
                    return {"case": small, "fail": f}
    for c0, c1 in ((M, P), (P, M)):                                     # two sessions with different classes
        for mc in (P, M):
            small = {"cls": c0, "ops": [["sess", c1]], "mcls": mc, "fcls": mc, "follow": [], "stub": False, "pre": [], "ro": False}
            f = oracle_fails(small, cls)
            if f:
                return {"case": small, "fail": f}
    if case.get("pre"):
        if oracle_fails({**case, "pre": []}, cls) is not None:
            case = {**case, "pre": []}
        else:
            case = {**case, "pre": vlib.ddmin(case["pre"], lambda sub: oracle_fails({**case, "pre": sub}, cls) is not None, budget=15)}
    if case.get("ro") and oracle_fails({**case, "ro": False}, cls) is not None:
        case = {**case, "ro": False}
    ops = vlib.ddmin(case["ops"], lambda sub: oracle_fails(mk(sub, case["follow"]), cls) is not None, budget=40)
    if len(ops) == 1 and oracle_fails(mk([], case["follow"]), cls) is not None:
        ops = []
    follow = case["follow"]
    if oracle_fails(mk(ops, []), cls) is not None:
        follow = []
    else:
        follow = vlib.ddmin(follow, lambda sub: oracle_fails(mk(ops, sub), cls) is not None, budget=25)
    small = mk(ops, follow)
    if small.get("stub") and oracle_fails({**small, "stub": False}, cls) is not None:
        small = {**small, "stub": False}
    f = oracle_fails(small, cls)
    return {"case": small, "fail": f} if f else None


# ---------------------------------------------------------------------------- model side

def _strs(x):
    return vlib.sx_norm(x)


def model_case(case, o) -> Any:
    """Wire case of run_c05 from the history and the *observed* source files."""
    mfm = case_classes(case)[2] == "IH5MFRecord"
    (_, _, rows), names = reclib.to_model_case(mfm, False, o["src_abs"] + [o["merged_abs"]])
    d = names[o["merged_abs"]["dig"]]
    return [_mops(case["ops"]), case["follow"], [mfm, False, rows[:-1], d, bool(case.get("ro")), _mpre(case.get("pre", []))]], rows[-1], rows[:-1], names


def _no_reopen(ops):
    """A close/reopen step of the shared history generator is a plain boundary for C05."""
    return [["bnd"] if o[0] == "reopen" else o for o in ops]


def _mops(ops):
    """History for the model: a boundary with a refused commit in between, or with a change of the
    session / record class, is a boundary."""
    return [["bnd"] if o[0] in ("cc", "sess") else o for o in ops]


def _mpre(pre):
    """Pre-merge operations in the wire format of run_c05 (fresh ids for commits / new patches;
    a merge onto an existing target is not a record operation of the model)."""
    out = []
    for i, op in enumerate(pre):
        if op[0] == "commit":
            out.append(["commit", 9000 + 2 * i, 9001 + 2 * i])
        elif op[0] == "create":
            out.append(["create", 9500 + i])
        elif op[0] == "discard":
            out.append(["discard"])
        elif op[0] == "write":
            out.append(["write", op[1]])
    return out


def _row6(meta: Dict[str, Any], names: Dict[str, int]) -> Any:
    """Identity part of a model file row from an in-memory user block (IH5UserBlock.json())."""
    def n(x):
        return names.get(x, 0)

    def opt(x):
        return [] if x is None else [x]
    e = meta["ub_exts"].get(reclib.EXT_NAME)
    ext = None if e is None else [e["is_stub_container"], n(e["manifest_uuid"]), n(e["manifest_hashsum"])]
    return _strs([n(meta["record_uuid"]), meta["patch_index"], n(meta["patch_uuid"]),
                  opt(None if meta["prev_patch"] is None else n(meta["prev_patch"])),
                  opt(None if meta["hdf5_hashsum"] is None else n(meta["hdf5_hashsum"])), opt(ext)])


def norm_view(v):
    return sorted(v, key=lambda e: e[0])


def compare_model(case, o, m, exp_row, src_rows) -> List[Dict[str, Any]]:
    D: List[Dict[str, Any]] = []
    mcont, mview, sview, built, fol, (preflags, ubr) = m
    impl_pre = ["F" if r["raised"] else "T" for r in o["pre"] if r["op"] != "merge-existing"]
    if impl_pre != preflags:
        D.append({"kind": "pre-op-outcome", "what": "an operation before the merge is accepted / refused differently from the model (rstep)",
                  "model": preflags, "impl": [[r["op"], r["raised"]] for r in o["pre"]]})
    bad = [r for r in o["pre"] if r["raised"] and not (r["meta_same"] and r["disk_same"] and r["nfiles_same"])]
    if bad or not o["pre_state_same"]:
        D.append({"kind": "pre-op-frame", "what": "a refused operation (or create..discard) changed the source's files or ih5_meta "
                                                  "(C05_refused_ops_frame / C05_create_discard_frame)", "impl": bad[:2]})
    flags_s, flags_m, same_patch, v_sp, v_mt, v_mo = fol
    mview, sview, v_sp, v_mt, v_mo = map(norm_view, (mview, sview, v_sp, v_mt, v_mo))
    if built != "T" or same_patch != "T" or mview != sview or not (v_sp == v_mt == v_mo) or flags_s != flags_m:
        D.append({"kind": "model-internal", "what": "model contradicts its own theorems (build_eq / build_preorder / merge_view / patch_transplant / patch_container_identical)"})
    if _strs(o["src_view"]) != sview:
        D.append({"kind": "source-view", "what": "view of the source differs from the model (C01 correspondence)",
                  "model": sview[:4], "impl": o["src_view"][:4]})
    if _strs(o["merged_raw"]) != norm_view(mcont):
        D.append({"kind": "merged-container", "what": "raw merged container differs from export (viewmap R)",
                  "model": mcont[:6], "impl": o["merged_raw"][:6]})
    if ubr[0] != "ok":
        D.append({"kind": "merge-refused-by-model", "what": str(ubr)})
    else:
        exp = _strs(exp_row)
        # the sidecar manifest is part of the record for the manifest-aware class only, and only when the
        # block names one (a manifest-aware merge of a block without the extension leaves an unreferenced file)
        with_mf = case_classes(case)[2] == "IH5MFRecord" and exp[5] != []
        if ubr[1][:7] != exp[:7] or (with_mf and ubr[1][7] != exp[7]):
            D.append({"kind": "merged-ublock", "what": "merged user block (incl. ub_exts) / payload digest / manifest differs from the model",
                      "model": ubr[1], "impl": _strs(exp_row)})
        if ubr[2] != [_strs(src_rows), "F"]:
            D.append({"kind": "model-frame", "what": "model changed the source state"})
    if o["fflags"] != flags_s or _strs(o["follow_live_view"]) != v_sp:
        D.append({"kind": "follow-on-source", "what": "follow-up patch on the source differs from the model",
                  "model": [flags_s], "impl": [o["fflags"]]})
    if any(v[:1] != ["OPEN-ERROR"] and _strs(v) != v_mt for v in o["follow_merged_views"].values()):
        D.append({"kind": "follow-on-merged", "what": "[merged, patch] differs from the model (C05_merge_continues)"})
    if o["mflags"] != flags_m or _strs(o["follow_own_view"]) != v_mo:
        D.append({"kind": "follow-own", "what": "patching the merged record differs from the model"})
    if o["own_patch_raw"] != o["patch_raw"]:
        D.append({"kind": "patch-containers-differ", "what": "the patch container written on the merged record differs from the one written on the source (the model says they are identical)"})
    return D


# ---------------------------------------------------------------------------- generation

def fixed_cases() -> List[Dict[str, Any]]:
    C = []
    for i, h in enumerate(ih5lib.pattern_histories()):
        C.append({"cls": "IH5MFRecord" if i % 2 else "IH5Record", "ops": h, "stub": bool(i % 4 == 1),
                  "follow": [["set", ["a", "zz"], "i:7"], ["del", ["a"]], ["grp", ["a", "n"]], ["aset", [], "k", "i:3"]]})
    C.append({"cls": "IH5Record", "ops": [], "follow": [], "stub": False})
    C.append({"cls": "IH5MFRecord", "ops": [["bnd"]], "follow": [["set", ["a"], "i:1"]], "stub": True})
    C.append({"cls": "IH5Record", "ops": [["bnd"], ["bnd"]], "follow": [], "stub": False})
    for i, h in enumerate(prefix_patterns()):      # empty groups beside siblings whose names extend theirs
        C.append({"cls": "IH5MFRecord" if i % 2 else "IH5Record", "ops": h, "stub": False,
                  "follow": [["set", ["data", "run1", "y"], "i:7"], ["grp", ["data", "run100"]]]})
    w = ["write", ["set", ["a", "w"], "i:5"]]
    for cls in ("IH5Record", "IH5MFRecord"):
        for ro in (False, True):
            C.append({"cls": cls, "ops": [["set", ["a", "x"], "i:1"], ["cc"], ["del", ["a", "x"]]], "ro": ro, "stub": False,
                      "pre": [["commit"], ["discard"], w, ["merge-existing"]] + ([["create"]] if ro else [["create"], w, ["discard"]]) + [["commit"]],
                      "follow": [["set", ["a", "y"], "i:2"]]})
    # mixed use of the two record classes on one record, merged and continued by either class
    P, M = "IH5Record", "IH5MFRecord"
    for seq in ([M, P], [P, M], [M, P, M], [P, M, P], [M, M, P], [P, P, M]):
        for mc in (P, M):
            ops = [["set", ["a", "s0"], "i:0"]]
            for j, c in enumerate(seq[1:], 1):
                ops += [["sess", c], ["set", ["a", f"s{j}"], f"i:{j}"], ["del", ["a", f"s{j - 1}"]]]
            C.append({"cls": seq[0], "ops": ops, "mcls": mc, "fcls": seq[0] if mc == seq[-1] else mc, "stub": False,
                      "follow": [["set", ["a", "y"], "i:2"], ["del", ["a", f"s{len(seq) - 1}"]]]})
    return C


def gen_pre(rng, ro: bool, wops) -> List[Any]:
    """Operations on the committed source before the merge that leave it as it is: refused ones
    (commit / discard / write without a writable container, anything through a read-only handle,
    a merge onto an existing target) and create_patch .. discard_patch blocks."""
    pre: List[Any] = []
    for _ in range(rng.choice([0, 0, 1, 1, 2, 3, 4])):
        k = rng.choice(["commit", "commit", "discard", "write", "merge-existing", "create"])
        if k == "write":
            pre.append(["write", rng.choice(wops)] if wops else ["commit"])
        elif k == "create" and not ro:
            pre.append(["create"])
            pre += [["write", rng.choice(wops)] for _ in range(rng.randint(0, 2)) if wops]
            pre.append(["discard"])
        else:
            pre.append([k])
    return pre


def gen_cases(ctx) -> List[Dict[str, Any]]:
    rng = ctx.rng
    cases = fixed_cases()
    ntarget = ctx.budget(110, 1400)
    nrand = ctx.budget(250, 3500)
    maxops = ctx.budget(18, 32)
    for i in range(ntarget + nrand):
        keys, attr_keys = pick_keys(rng, 3, 5)
        prefix = targeted(rng, keys, attr_keys) if i < ntarget else None
        n = (len(prefix) + rng.randint(0, 8)) if prefix else rng.randint(3, maxops)
        # (ih5lib.gen_history may emit ["reopen", how] steps for C01; a C05 history has its own session ops)
        ops = _cap_boundaries(_no_reopen(ih5lib.gen_history(rng, n, p_bnd=rng.choice([0.1, 0.2, 0.35]), keys=keys, attr_keys=attr_keys,
                                                            prefix=prefix, values=VALUES, allow_self_copy=(rng.random() < 0.3))))
        nf = rng.randint(0, 7)
        full = _no_reopen(ih5lib.gen_history(rng, len(ops) + nf, p_bnd=0.0, keys=keys, attr_keys=attr_keys, prefix=ops, values=VALUES))
        cls = rng.choice(["IH5Record", "IH5MFRecord"])
        ops = [["cc"] if o[0] == "bnd" and rng.random() < 0.2 else o for o in ops]
        other = {"IH5Record": "IH5MFRecord", "IH5MFRecord": "IH5Record"}
        cur = cls
        for k, o in enumerate(ops):                # some boundaries end the session; the next one may use the other class
            if o[0] == "bnd" and rng.random() < 0.35:
                cur = other[cur] if rng.random() < 0.6 else cur
                ops[k] = ["sess", cur]
        mcls = cur if rng.random() < 0.6 else other[cur]
        fcls = mcls if rng.random() < 0.6 else other[mcls]
        ro = rng.random() < 0.25
        wops = [o for o in _no_reopen(ih5lib.gen_history(rng, len(ops) + 3, p_bnd=0.0, keys=keys, attr_keys=attr_keys, prefix=_mops(ops),
                                              values=VALUES, allow_copy=False))[len(ops):]]
        cases.append({"cls": cls, "mcls": mcls, "fcls": fcls, "ops": ops, "follow": full[len(ops):],
                      "stub": fcls == "IH5MFRecord" and rng.random() < 0.35, "ro": ro, "pre": gen_pre(rng, ro, wops)})
    return cases


# ---------------------------------------------------------------------------- main

def run(ctx: vlib.Ctx):
    proof = ctx.check_proofs()
    cov = ctx.coverage
    cov["trusted_base"] = vlib.TRUSTED_COMMON + [
        "modelled, not verified: single-file HDF5/h5py semantics and the overlay write path (model A, property C01, whose "
        "correspondence is re-checked here on every history through the source dump), the digest of the merged payload "
        "(an input of the model, taken from the file the code wrote), byte identity of files (C02)",
    ]
    cases = gen_cases(ctx)
    obs = vlib.pmap(w_observe, cases, chunksize=2)

    hits: List[Dict[str, Any]] = []
    unusable: Dict[str, int] = {}
    mcases, mmeta = [], []
    for ci, (case, o) in enumerate(zip(cases, obs)):
        if o["st"] != "ok":
            unusable[o["st"]] = unusable.get(o["st"], 0) + 1
            for f in oracle(o, case):
                hits.append({"case": case, **f})
            continue
        for f in oracle(o, case):
            hits.append({"case": case, **f})
        if o["merged_abs"]["st"] == "ok" and all(x["st"] == "ok" for x in o["src_abs"]):
            mc, exp_row, src_rows, names = model_case(case, o)
            mcases.append(mc)
            mmeta.append((ci, exp_row, src_rows, names))
    # refusal cases of the model: same record, writable / with the observed stub files
    rcases, rexp = [], []
    for ci, (case, o) in enumerate(zip(cases, obs)):
        if o["st"] != "ok" or any(x["st"] != "ok" for x in o["src_abs"]):
            continue
        mfm = case_classes(case)[2] == "IH5MFRecord"
        (_, _, rows), _ = reclib.to_model_case(mfm, False, o["src_abs"])
        rcases.append([[], [], [mfm, True, rows, 1, False, []]])
        rexp.append(("writable", o["ref_w"]["raised"] == "ValueError"))
        for k in ("stub_abs", "stub2_abs"):
            if k in o and all(x["st"] == "ok" for x in o[k]):
                (_, _, rows), _ = reclib.to_model_case(True, False, o[k])
                rcases.append([[], [], [True, False, rows, 1, False, []]])
                rexp.append(("stub", o["ref_stub" if k == "stub_abs" else "ref_stub2"]["raised"] == "ValueError"))
    order = list(range(len(mcases)))
    ctx.rng.shuffle(order)          # the runner gets contiguous slices: spread the expensive ones
    mres_sh = vlib.run_model("c05", [mcases[i] for i in order])
    mres: List[Any] = [None] * len(mcases)
    for k, i in enumerate(order):
        mres[i] = mres_sh[k]
    rres = vlib.run_model("c05", rcases)

    disagreements: List[Dict[str, Any]] = []
    pinned_match = 0
    nontrivial = set()
    conts_hist: Dict[str, int] = {}
    for (ci, exp_row, src_rows, names), m in zip(mmeta, mres):
        case, o = cases[ci], obs[ci]
        for dd in compare_model(case, o, m, exp_row, src_rows):
            disagreements.append({"case": ci, "ops": case["ops"], "follow": case["follow"], "cls": case["cls"], **dd})
        nb = len(o["src_abs"])
        conts_hist[str(nb)] = conts_hist.get(str(nb), 0) + 1
        if nb >= 2 and o["src_view"] and "T" in o["fflags"]:
            nontrivial.add(vlib.signature([case["cls"], case["ops"], case["follow"]]))
        if o["meta_after"] != o["meta_before"] and m[5][1][0] == "ok":
            # does the changed in-memory state match the model of the pinned behaviour?
            got = [_row6(x, names) for x in o["meta_after"]]
            pinned_match += 1 if [r[:6] for r in m[5][1][3]] == got else 0
    for rc, (kind, impl_refused), r in zip(rcases, rexp, rres):
        if r[5][1] != ["refused", kind] or not impl_refused:
            disagreements.append({"kind": "refusal", "what": f"model {r[5][1]} vs implementation refused={impl_refused} ({kind})", "ops": []})

    for i in (0, len(fixed_cases()) + 1, len(cases) - 1):
        if obs[i]["st"] == "ok":
            ctx.sample({"case": cases[i], "source_files": len(obs[i]["src_abs"]), "merged_views": obs[i].get("merged_views"),
                        "follow_flags": obs[i]["fflags"]})

    # ---- oracle hits: a few per failure class and record class, shrunk in parallel
    groups: Dict[str, List[Dict[str, Any]]] = {}
    for h in sorted(hits, key=lambda h: len(h["case"]["ops"]) + len(h["case"]["follow"])):
        groups.setdefault(f"{h['cls']}/{h['case']['cls']}", []).append(h)
    picked = [h for g in sorted(groups) for h in groups[g][:2]][:24]
    shrunk = vlib.pmap(w_shrink, picked, chunksize=1) if picked else []
    seen = set()
    unconfirmed = 0
    per_class: Dict[str, int] = {}
    for h, r in zip(picked, shrunk):
        if r is None:
            unconfirmed += 1
            continue
        small, f = r["case"], r["fail"]
        sig = {"class": f["cls"], "record_class": small["cls"], "history": canon(small["ops"]),
               "follow": canon_history(small["follow"]), "fields": f.get("fields")}
        _, s_last, s_m, s_f = case_classes(small)
        if s_m != small["cls"] or s_f != small["cls"] or s_last != small["cls"]:
            sig["merge_class"], sig["follow_class"] = s_m, s_f
        if small.get("pre") or small.get("ro"):
            sig["pre"] = [[op[0]] + (canon_history([op[1]]) if op[0] == "write" else []) for op in small.get("pre", [])]
            sig["read_only_handle"] = bool(small.get("ro"))
        key = vlib.signature(sig)
        if key in seen:
            continue
        seen.add(key)
        per_class[f["cls"]] = per_class.get(f["cls"], 0) + 1
        pre_txt = (f", then {small['pre']}" + (" through a read-only handle" if small.get("ro") else "")) if small.get("pre") or small.get("ro") else ""
        ctx.violation(f"{small['cls']}: history {small['ops']}{pre_txt} then merge_files, follow-up {small['follow']}: {f['what']}",
                      {"kind": "case", "case": small, "fail": f, "canonical": sig}, sig_obj=sig)
    cov["distinct_minimal_failures_by_class"] = per_class
    if unconfirmed:
        ctx.notes.append(f"{unconfirmed} oracle hit(s) did not reproduce when re-run alone; not reported")
    if unusable:
        ctx.notes.append(f"cases not evaluated: {unusable}")

    xc = vlib.coq_crosscheck("c05", mcases, mres, "c05", max_cases=ctx.budget(8, 30))
    if not xc["ok"] and "inconsistent assumptions" in xc.get("log", ""):
        # another check recompiled a library between our build and the cross-check: rebuild, once more
        vlib.ensure_built(need=["Properties/C05.vo"])
        xc = vlib.coq_crosscheck("c05", mcases, mres, "c05", max_cases=ctx.budget(8, 30))
    cov["evaluations"] = len(mcases) + len(rcases)
    cov["distinct_nontrivial"] = len(nontrivial)
    cov["rule"] = ("C01 generators (fixed patterns, targeted shapes replace-then-touch / create below deleted ancestors / copy into own "
                   "subtree / attribute carriers on datasets, shadow-tree-biased random histories with malformed operations; per-history "
                   "alphabet of 3-5 keys from printable ASCII without '@' and '/', one time in three a family of names that are prefixes of each "
                   "other, plus the shape 'empty group beside a sibling whose name extends its own' at depth 1-3; 1-6 containers) on IH5Record and IH5MFRecord, each session (the stretch between two closes of the record) written "
                   "with IH5Record or IH5MFRecord independently, the merge and the follow-up patch done by either class; "
                   "followed by operations that leave the committed source as it is (refused commit / discard / write, a merge onto an "
                   "existing target, create_patch..writes..discard_patch; in a quarter of the cases through a read-only handle; refused "
                   "second commits also inside the history), then merge_files and a random follow-up patch of 0-7 operations continuing the same generator; stub sets built "
                   "with IH5MFRecord.create_stub from the newest manifest (bare stub and stub + patch); non-trivial = distinct case with "
                   ">= 2 source containers, a non-empty view and a succeeding follow-up operation")
    cov["input_distribution"] = {"cases": len(cases), "evaluated": len(mcases), "containers_per_source": conts_hist,
                                 "record_classes": _hist(c["cls"] for c in cases), "merging_classes": _hist(case_classes(c)[2] for c in cases),
                                 "cases_mixing_classes": sum(1 for c in cases if len(set(case_classes(c)) | {o[1] for o in c["ops"] if o[0] == "sess"}) > 1),
                                 "newest_without_extension_but_older_with": sum(
                                     1 for o in obs if o["st"] == "ok" and o["src_abs"][-1].get("ext") is None and any(x.get("ext") for x in o["src_abs"][:-1])),
                                 "refusal_cases": len(rcases),
                                 "stub_cases": sum(1 for o in obs if "ref_stub" in o),
                                 "follow_ops": sum(len(c["follow"]) for c in cases),
                                 "source_meta_changes_matching_pinned_model": pinned_match}
    cov["coq_crosscheck"] = xc
    cov["disagreements"] = len(disagreements)
    cov["disagreement_kinds"] = _hist(d["kind"] for d in disagreements)
    cov["oracle_failures"] = _hist(h["cls"] for h in hits)
    ctx.assumptions += ["keys from the IH5 alphabet (printable ASCII without '@' and '/'), '.' excluded",
                        "the IH5 deletion-marker value is not used as data",
                        "the follow-up patch is written through the overlay API (legal newest container, Inv) — raw edits of patch files are C04's subject",
                        "digest of the merged payload taken from the written file (hash function not modelled)",
                        "a merge done with the plain class of a record whose newest block names a manifest copies the link but no sidecar file "
                        "(the plain class ignores manifests by design): such a merged container is required to open with the plain class, and "
                        "together with a later patch with both classes, but not alone with the manifest-aware class"]

    if not xc["ok"]:
        ctx.violation("extracted runner and in-Coq evaluation of the model disagree", {"kind": "crosscheck", **xc}, found_input=False)
    if not proof["ok"]:
        ctx.violation("proof obligations of Properties/C05.v do not check: " + "; ".join(proof["problems"])[:500],
                      {"kind": "proof", "theorem_file": "coq/Properties/C05.v", "problems": proof["problems"]}, found_input=False)
    if disagreements and not ctx.violations and not ctx.known_hits:
        d0 = min(disagreements, key=lambda d: len(d.get("ops", [])) + len(d.get("follow", [])))
        ctx.violation("model/implementation correspondence broken but the oracle holds on every explored case: " + d0["kind"],
                      {"kind": "correspondence", "correspondence": "coq/IH5/Merge.v (m_merge / merged_file / merge_files) vs IH5Record.merge_files",
                       "smallest_disagreement": d0, "count": len(disagreements)}, found_input=False)
    elif disagreements:
        ctx.notes.append(f"{len(disagreements)} model/impl disagreements, kinds: {cov['disagreement_kinds']}")


def _hist(it):
    h: Dict[str, int] = {}
    for x in it:
        h[str(x)] = h.get(str(x), 0) + 1
    return h


def replay(rep) -> int:
    """Re-run the recorded case on the current code; 1 if the oracle still fails."""
    vlib._pool_init()
    if rep.get("kind") != "case":
        print("replay names a proof obligation or correspondence; re-run the check itself")
        return 1
    f = oracle_fails(rep["case"], rep.get("fail", {}).get("cls"))
    print("still failing:" if f else "no longer failing", f or "")
    return 1 if f else 0
