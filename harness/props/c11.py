"""C11 — a crash while patching never damages what was committed.

Correspondence: patching histories are replayed on real IH5Record and IH5MFRecord objects;
the directory is snapshotted at every API-call boundary (after create_patch, after each
write, after commit); every torn state of both user-block writes of every round (all prefix
lengths) and partially written manifests are synthesised from the real bytes; every crash
state is opened with the real code.  The model (coq/Rec/Crash.v) classifies every torn block
from the real bytes (`torn`) and runs the abstracted history micro-step by micro-step
(`hist`); class of the whole set, number of opened containers and the abstraction of the
newest container are compared state by state.  Thorough tier: a forked writer is SIGKILLed
at random instants and the directory it leaves is judged by the same oracle.

Oracle (code alone): committed containers (and sidecars) byte-identical; on their own they
open and show the last committed dump; the whole set fails to open, or opens with the newest
container uncommitted on top of the committed chain, or opens cleanly showing the last
committed dump / the dump the interrupted commit wrote.
"""
from __future__ import annotations

import hashlib
import json
import random
import time
from pathlib import Path
from typing import Any, Dict, List, Optional

import crashlib
import reclib
import vlib

CLASSES = ["IH5Record", "IH5MFRecord"]


# ---------------------------------------------------------------------------- workers

class Names:
    def __init__(self):
        self.d: Dict[str, int] = {}

    def __call__(self, s: Optional[str]) -> int:
        return self.d.setdefault(str(s), len(self.d) + 1)


def _abs_file(state: Dict[str, bytes], name: str) -> Dict[str, Any]:
    b = state[name]
    p = reclib.parse_ublock(b[:reclib.UB_SIZE])
    assert p["st"] == "ok", p
    out = dict(p["ub"])
    out["dig"] = reclib.digest(b[reclib.UB_SIZE:])
    mfn = name + reclib.MF_SUFFIX
    if mfn in state:
        out["mf"] = [str(json.loads(state[mfn])["manifest_uuid"]), reclib.digest(state[mfn])]
    else:
        out["mf"] = None
    return out


def _row(f: Dict[str, Any], n: Names) -> List[Any]:
    def opt(x):
        return [] if x is None else [x]
    ext = None if f["ext"] is None else [f["ext"]["stub"], n(f["ext"]["id"]), n(f["ext"]["hash"])]
    return [n(f["rec"]), f["idx"], n(f["pid"]), opt(None if f["prev"] is None else n(f["prev"])),
            opt(None if f["hash"] is None else n(f["hash"])), opt(ext), n(f["dig"]),
            opt(None if f["mf"] is None else [n(f["mf"][0]), n(f["mf"][1])])]


def _state_id(state: Dict[str, bytes]) -> str:
    h = hashlib.sha256()
    for k in sorted(state):
        h.update(k.encode() + b"\0" + hashlib.sha256(state[k]).digest())
    return h.hexdigest()[:20]


def gen_json_texts(rng: random.Random, n: int) -> List[str]:
    """Random RFC 8259 texts (json.dumps of random values, several layouts) and near misses
    (one character deleted / inserted / replaced, prefixes), ASCII only, no capital N / I."""
    alpha = "abcdefxyz019 _-:,{}[]\\/\"\u00e9\n\t"

    def val(depth):
        k = rng.randrange(8 if depth < 3 else 5)
        if k == 0:
            return rng.choice([True, False, None])
        if k == 1:
            return rng.choice([0, -1, 7, 10 ** 12, -305])
        if k == 2:
            return rng.choice([0.5, -1.5e+30, 2e-7, 1.0, 123.456])
        if k in (3, 4):
            return "".join(rng.choice(alpha) for _ in range(rng.randrange(6)))
        if k in (5, 6):
            return {"".join(rng.choice(alpha) for _ in range(rng.randrange(1, 4))): val(depth + 1)
                    for _ in range(rng.randrange(4))}
        return [val(depth + 1) for _ in range(rng.randrange(4))]

    out = []
    junk = "{}[]:,\"\\ 0e.-+tfnu\n\tx"
    while len(out) < n:
        v = val(0)
        lay = rng.randrange(3)
        t = json.dumps(v, allow_nan=False) if lay == 0 else \
            json.dumps(v, allow_nan=False, separators=(",", ":")) if lay == 1 else \
            " " + json.dumps(v, allow_nan=False, indent=rng.choice([1, "\t"])) + "\r\n"
        out.append(t)
        for _ in range(3):
            if not t:
                break
            i = rng.randrange(len(t))
            m = rng.randrange(4)
            out.append(t[:i] + t[i + 1:] if m == 0 else t[:i] + rng.choice(junk) + t[i:] if m == 1 else
                       t[:i] + rng.choice(junk) + t[i + 1:] if m == 2 else t[:i])
    return [t for t in out[:n] if "N" not in t and "I" not in t]


def _note_text(texts: Dict[str, List[bool]], state: Dict[str, bytes], newest: str):
    """The text of the newest user block as the loader would hand it to json.loads, with the
    verdict of the real json.loads."""
    t = crashlib.block_text(state[newest][:reclib.UB_SIZE])
    if t is not None and t not in texts:
        texts[t] = crashlib.real_json_verdict(t)


def _payload_damage(rng: random.Random, created: bytes, after: Dict[str, bytes], newest: str, n: int = 7):
    """Images of `after` whose newest container keeps its complete user block (hash present) while
    a slice of the payload region differs from what was committed: (label, state) pairs."""
    ub = reclib.UB_SIZE
    full = after[newest]
    pay = full[ub:]
    old = created[ub:]
    if len(pay) < 16:
        return []
    # the region the round wrote: first .. last byte differing from the container as created
    oldp = old[:len(pay)] + bytes(max(0, len(pay) - len(old)))
    diff = [j for j in range(len(pay)) if pay[j] != oldp[j]]
    lo, hi = (diff[0], diff[-1] + 1) if diff else (0, len(pay))
    out = []
    for t in range(n):
        kind = ("stale", "zero", "stale", "cut", "stale", "zero", "flip")[t % 7]
        if t % 2 == 0 or hi - lo < 2:      # anywhere in the payload / inside the written region
            a = rng.randrange(len(pay))
        else:
            a = rng.randrange(lo, hi)
        ln = rng.choice([1, 8, 64, 512, 4096, len(pay)])
        b = min(len(pay), a + ln)
        if kind == "cut":
            newp = pay[:a]
        elif kind == "zero":
            newp = pay[:a] + bytes(b - a) + pay[b:]
        elif kind == "stale":
            newp = pay[:a] + oldp[a:b] + pay[b:]
        else:
            newp = pay[:a] + bytes(x ^ 0xFF for x in pay[a:b]) + pay[b:]
        if newp == pay:                    # the slice held these bytes already: flip it instead
            kind = "flip"
            newp = pay[:a] + bytes(x ^ 0xFF for x in pay[a:b]) + pay[b:]
        st = dict(after)
        st[newest] = full[:ub] + newp
        out.append((f"paydmg:{kind}:{a}+{b - a}", st))
    return out


def w_history(arg) -> Dict[str, Any]:
    """One history: record, enumerate crash states, judge each with the real code."""
    cls_name, seed, nrounds, root = arg
    try:
        return _history(cls_name, seed, nrounds, root)
    except vlib.CaseTimeout as e:
        return {"harness_timeout": str(e), "cls": cls_name, "seed": seed}


def _history(cls_name, seed, nrounds, root, rounds=None) -> Dict[str, Any]:
    rng = random.Random(seed)
    mfm = cls_name == "IH5MFRecord"
    if rounds is None:
        rounds = crashlib.gen_rounds(rng, nrounds)
    work = Path(root) / f"h{__import__('os').getpid()}"
    work.mkdir(parents=True, exist_ok=True)
    with vlib.time_limit(300):
        rec = crashlib.record_history(cls_name, rounds, work)
    names = Names()
    committed: List[Dict[str, Any]] = []
    out: Dict[str, Any] = {"cls": cls_name, "seed": seed, "rounds": [], "violations": [], "states": 0,
                           "ids": set(), "timeouts": 0, "in_points": 0, "in_new": 0, "in_classes": {}, "texts": {}, "dmg": {}}
    model_rounds: List[Any] = []
    c0_rows = None
    drng = random.Random(seed * 7919 + 13)      # payload damage: own stream, same in a replay with given rounds
    for i, rd in enumerate(rec["rounds"]):
        states = crashlib.crash_states(cls_name, rd, i == 0)
        if i == 0:      # nothing on disk yet: the model's state 0
            states = [{"label": "start", "state": {}, "clean": True, "boundary": True}] + states
        other = "IH5Record" if mfm else "IH5MFRecord"
        per = []
        checked_alone = False
        after = rd["after"]
        newest = crashlib.container_names(after)[-1]
        # what the completed commit links to (ub_exts of the new block, manifest): part of the new state
        nm = crashlib.open_state(cls_name, after, root, want_view=False)
        next_meta = nm.get("meta")
        # torn positions around the class boundaries, for the reader of the other class
        tl = [len(crashlib.written_bytes(rd["created"][crashlib.container_names(rd["created"])[-1]][:reclib.UB_SIZE])),
              len(crashlib.written_bytes(rd["after"][crashlib.container_names(rd["after"])[-1]][:reclib.UB_SIZE]))]
        round_ids = set()
        xk = {1, 2, 12, 13, 14} | {t + dlt for t in tl for dlt in (-2, -1, 0)} | set(range(176, 182)) | set(range(210, 216))
        for cs in states:
            alone = bool(cs.get("boundary")) or not checked_alone
            checked_alone = True
            o = crashlib.oracle(cls_name, cs["state"], committed, rd["view"], root,
                                check_alone=alone, clean_payload=cs["clean"], next_meta=next_meta)
            out["states"] += 1
            sid = _state_id(cs["state"])
            out["ids"].add(sid)
            round_ids.add(sid)
            if o.get("class") == "timeout":
                out["timeouts"] += 1
            na = crashlib.newest_abs(cs["state"])
            if cs.get("k") is not None:
                _note_text(out["texts"], cs["state"], newest)
            # reader of the other record class, on the states that are not torn blocks and on a
            # sample of the torn ones
            xr = None
            k = cs.get("k")
            if k is None or k % 16 == 0 or k in xk:
                x = crashlib.open_state(other, cs["state"], root, want_view=False)
                if x["st"] == "refused":
                    xr = ["refused", 0]
                elif x["st"] == "open":
                    xr = ["uncommitted" if x["hashes"][-1] is None else "committed", len(x["pids"])]
                    if x["pids"][:len(committed)] != [c["pid"] for c in committed] or \
                            len(x["pids"]) not in (len(committed), len(committed) + 1) or \
                            any(h is None for h in x["hashes"][:-1]):
                        o = {"ok": False, "why": f"reader {other}: opens as something that is neither the committed chain "
                             f"nor one container more ({len(x['pids'])} for {len(committed)})", "class": "?"}
            per.append({"label": cs["label"], "class": o.get("class"), "n": o.get("n", 0), "nc": len(committed),
                        "exc": o.get("exc_class"), "clean": cs["clean"], "x": xr,
                        "newest": None if na["ub"] == "absent" else
                        [na["ub"], names(na["dig"]), None if na["mf"] is None else [names(na["mf"][0]), names(na["mf"][1])]],
                        "unreadable_view": o.get("unreadable_view")})
            if not o["ok"] and len(out["violations"]) < 2:
                out["violations"].append({
                    "what": o["why"], "label": cs["label"], "round": i, "cls": cls_name, "seed": seed,
                    "ops": [r["ops"] for r in rec["rounds"][:i + 1]],
                    "case": {"cls": cls_name, "state": crashlib.freeze_state(cs["state"]),
                             "committed": committed, "next_view": rd["view"], "clean": cs["clean"],
                             "next_meta": next_meta}})
        # ---- crash points inside create_patch / commit_patch as the code performs its writes:
        # the directory before and after every intercepted file-level write, and every prefix of
        # every write into a user block (states already judged above are not judged again)
        evs = rd["ev_create"] + rd["ev_commit"]
        for cs in crashlib.intercepted_states(evs, newest):
            sid = _state_id(cs["state"])
            out["in_points"] += 1
            if cs.get("torn"):
                _note_text(out["texts"], cs["state"], newest)
            if sid in round_ids:
                continue
            round_ids.add(sid)
            out["ids"].add(sid)
            out["in_new"] += 1
            o = crashlib.oracle(cls_name, cs["state"], committed, rd["view"], root,
                                check_alone=not cs.get("torn"), clean_payload=cs["clean"], next_meta=next_meta)
            out["states"] += 1
            kk = f"{cls_name}/{o.get('class')}"
            out["in_classes"][kk] = out["in_classes"].get(kk, 0) + 1
            if not o["ok"] and len(out["violations"]) < 2:
                out["violations"].append({
                    "what": o["why"], "label": cs["label"], "round": i, "cls": cls_name, "seed": seed,
                    "ops": [r["ops"] for r in rec["rounds"][:i + 1]],
                    "case": {"cls": cls_name, "state": crashlib.freeze_state(cs["state"]),
                             "committed": committed, "next_view": rd["view"], "clean": cs["clean"],
                             "next_meta": next_meta}})
        # ---- crash images of the commit in which the newest container's user block is complete
        # (hash present, sidecar written) but a slice of its HDF5 payload never reached the disk:
        # stale (bytes as of create_patch, zeros past the old end), zeroed, or cut off at the end.
        # Same oracle: the set is refused or shows exactly a committed state, never a third one.
        for dj, (dlabel, dstate) in enumerate(_payload_damage(drng, rd["created"].get(newest, b""), after, newest)):
            sid = _state_id(dstate)
            if sid in round_ids:
                continue
            round_ids.add(sid)
            out["ids"].add(sid)
            o = crashlib.oracle(cls_name, dstate, committed, rd["view"], root,
                                check_alone=dj == 0, clean_payload=False, next_meta=next_meta)
            out["states"] += 1
            kk = f"{cls_name}/{min(i, 2)}{'+' if i >= 2 else ''} patches/{dlabel.split(':')[1]}->{o.get('class')}"
            out["dmg"][kk] = out["dmg"].get(kk, 0) + 1
            if not o["ok"] and len(out["violations"]) < 2:
                out["violations"].append({
                    "what": o["why"], "label": dlabel, "round": i, "cls": cls_name, "seed": seed,
                    "ops": [r["ops"] for r in rec["rounds"][:i + 1]],
                    "case": {"cls": cls_name, "state": crashlib.freeze_state(dstate),
                             "committed": committed, "next_view": rd["view"], "clean": False,
                             "next_meta": next_meta}})
        sig = [crashlib.write_signature(rd["ev_create"], newest), crashlib.write_signature(rd["ev_commit"], newest)]
        # the container this round committed
        committed = committed + [crashlib._committed_entry(after, newest, rd["view"], next_meta)]
        blocks = rd["blocks"]
        c0_rows = []
        fin = _abs_file(after, newest)
        # the encoder: fields of both blocks of the round, and the text the code wrote
        encs = []
        for blk in (blocks["w0"], blocks["w1"]):
            pu = reclib.parse_ublock(blk + bytes(reclib.UB_SIZE - len(blk)))
            assert pu["st"] == "ok", pu
            f = pu["ub"]
            ext = [] if f["ext"] is None else [[f["ext"]["stub"], f["ext"]["id"], f["ext"]["hash"]]]
            encs.append([["enc", f["rec"], f["idx"], f["pid"], [] if f["prev"] is None else [f["prev"]],
                          [] if f["hash"] is None else [f["hash"]], ext],
                         blk[13:-1].decode("ascii")])
        created_dig = reclib.digest(rd["created"][newest][reclib.UB_SIZE:])
        ws = [names(reclib.digest(s[newest][reclib.UB_SIZE:])) for s in rd["writes"]]
        parts = []
        if mfm:
            mfb = after[newest + reclib.MF_SUFFIX]
            for c in rd["mf_cuts"]:
                part = mfb[:c]
                try:
                    mid = str(json.loads(part)["manifest_uuid"])
                except Exception:  # noqa: BLE001
                    mid = "?"
                parts.append([names(mid), names(reclib.digest(part))])
        mrow = [names(fin["rec"]), names(fin["pid"]), names(created_dig), "T1", ws, names(fin["dig"]), "T2",
                names(fin["mf"][0]) if mfm else 0, names(fin["mf"][1]) if mfm else 0, parts]
        model_rounds.append(mrow)
        out["rounds"].append({"states": per, "model": True, "enc": encs, "sig": sig,
                              "torn": [[crashlib.pieces(blocks["zero"]), crashlib.pieces(blocks["w0"])],
                                       [crashlib.pieces(blocks["old"]), crashlib.pieces(blocks["w1"])]]})
    out["model_case"] = [mfm, c0_rows, model_rounds]
    out["ids"] = sorted(out["ids"])
    for p in work.iterdir():
        p.unlink()
    return out


def w_kill(arg) -> Dict[str, Any]:
    """A base record, a reference run of the writer, then `nkills` runs killed at random instants."""
    cls_name, seed, nkills, root = arg
    import os
    rng = random.Random(seed)
    rounds = crashlib.gen_rounds(rng, 4, lo=3, hi=7)
    work = Path(root) / f"k{os.getpid()}"
    work.mkdir(parents=True, exist_ok=True)
    res: Dict[str, Any] = {"cls": cls_name, "seed": seed, "kills": [], "violations": []}
    try:
        with vlib.time_limit(600):
            rec = crashlib.record_history(cls_name, rounds[:1], work)
            base_state = rec["rounds"][0]["after"]
            base_view = rec["rounds"][0]["view"]
            # reference: the same writer in-process semantics, views per commit level
            full = crashlib.record_history(cls_name, rounds, work)
            views = [r["view"] for r in full["rounds"]]
            base_entry = crashlib._committed_entry(base_state, f"{crashlib.REC}.ih5", base_view)
            ref = crashlib.kill_run(cls_name, base_state, rounds[1:], work, None)
            if not any(ln.startswith("CLOSED") for ln in ref["log"]):
                res["error"] = f"reference writer did not finish: {ref['log'][-3:]}"
                return res
            T = ref["elapsed"]
            res["T"] = T
            # instants of the reference run at which a commit started (relative to the fork)
            marks = [float(ln.split("@")[1]) - ref["t0"] for ln in ref["log"] if ln.startswith("COMMITTING")]
            nsaves = 2 * len(rounds[1:])
            for j in range(nkills):
                inject = None
                if j % 3 == 0 or not marks:
                    delay = rng.uniform(0.0, T * 1.02)
                elif j % 3 == 1:   # aim at the commit itself: close, hash, user-block rewrite, manifest
                    delay = max(0.0, rng.choice(marks) + rng.uniform(-0.0005, 0.004))
                else:              # die inside a write(): a real torn user block / manifest
                    delay = None
                    if cls_name == "IH5MFRecord" and rng.random() < 0.4:
                        inject = ("mf", rng.randrange(len(rounds[1:])), rng.randrange(0, 700))
                    else:
                        inject = ("ub", rng.randrange(nsaves), rng.randrange(0, 520))
                k = crashlib.kill_run(cls_name, base_state, rounds[1:], work, delay, inject=inject)
                state, log = k["state"], k["log"]
                if not k["killed"] and not any(ln.startswith("CLOSED") for ln in log):
                    res["error"] = f"writer ended on its own without finishing: {log[-2:]}"
                committed = [base_entry]
                ncom = 0
                for ln in log:
                    if ln.startswith("COMMITTED "):
                        _, i, nm = ln.split()[:3]
                        if nm in state:
                            e = crashlib._committed_entry(state, nm, views[int(i) + 1])
                            # bytes as of commit time are not known to the parent; the container is
                            # judged against the reference payload digest instead
                            committed.append(e)
                            ncom += 1
                nxt = views[ncom + 1] if ncom + 1 < len(views) else None
                o = crashlib.oracle(cls_name, state, committed, nxt, root, check_alone=True, clean_payload=False)
                phase = log[-1].split()[0] if log else "START"
                res["kills"].append({"killed": k["killed"], "delay": None if delay is None else round(delay, 4),
                                     "inject": inject, "phase": phase + ("/inject-" + inject[0] if inject else ""), "ncom": ncom,
                                     "class": o.get("class"), "n": o.get("n", 0), "ok": o["ok"], "exc": o.get("exc_class"),
                                     "unreadable_view": bool(o.get("unreadable_view")),
                                     "id": _state_id(state)})
                if not o["ok"] and len(res["violations"]) < 2:
                    res["violations"].append({
                        "what": o["why"], "label": f"SIGKILL ({'inside write ' + str(inject) if inject else 'after %.4fs' % delay}) in phase {phase}", "cls": cls_name,
                        "seed": seed, "ops": rounds,
                        "case": {"cls": cls_name, "state": crashlib.freeze_state(state), "committed": committed,
                                 "next_view": nxt, "clean": False}})
    except vlib.CaseTimeout as e:
        res["error"] = f"timeout: {e}"
    finally:
        for p in work.iterdir():
            try:
                p.unlink()
            except OSError:
                pass
    return res


# ---------------------------------------------------------------------------- run

def run(ctx: vlib.Ctx):
    proof = ctx.check_proofs()
    cov = ctx.coverage
    cov["trusted_base"] = vlib.TRUSTED_COMMON + [
        "modelled, not verified: json.loads + pydantic parse_obj enter the theorems through ONE premise: they accept "
        "only RFC 8259 texts with an object at top level (the grammar is coq/Rec/JsonGrammar.v; that such texts satisfy "
        "json_nec is proved, C11_json_grammar_nec; Python's documented extensions NaN / Infinity / -Infinity need a capital "
        "N or I, absent from every text met: json_texts_with_capital_N_or_I); the premise is tested by running the proved-sound "
        "recogniser json_okb against the real json.loads on every torn block text of every run; the order in which the operating system makes "
        "the bytes of one write() visible (prefix order assumed: torn k = first k bytes new), page-cache reordering "
        "across files and fsync semantics (program order of the micro-steps assumed); HDF5 library internals while a "
        "container is open for writing (the payload of the newest container is an arbitrary digest in the model; an "
        "unreadable newest container counts as 'fails to open'); SHA-256 (abstract digests); h5py opening a container",
    ]
    nhist = ctx.budget(3, 14)
    nrounds = ctx.budget(3, 4)
    t0 = time.time()
    with vlib.workdir("c11") as root:
        jobs = [(c, ctx.seed * 977 + 31 * i + (7 if c == "IH5MFRecord" else 0), nrounds, str(root))
                for i in range(nhist) for c in CLASSES]
        kill_jobs = []
        if not ctx.quick:
            kill_jobs = [(c, ctx.seed * 389 + i, 24, str(root)) for i in range(6) for c in CLASSES]
        res = vlib.pmap(w_history, jobs)
        t1 = time.time()
        kills = vlib.pmap(w_kill, kill_jobs, procs=min(8, max(1, len(kill_jobs)))) if kill_jobs else []
        t2 = time.time()
    stats = analyse(ctx, res)
    kstats = analyse_kills(ctx, kills) if kills else {"runs": 0}
    vlib.log(f"c11: histories {t1 - t0:.1f}s, kills {t2 - t1:.1f}s, model+analysis {time.time() - t2:.1f}s")
    cov.update(stats)
    cov["sigkill"] = kstats
    cov["evaluations"] = stats["crash_states"] + kstats.get("runs", 0)
    ctx.assumptions += [
        "a write() that is interrupted leaves a prefix of the new bytes followed by the old bytes (no reordering inside one write)",
        "the file-system effects of one process become visible in program order (no write-back reordering across files; process death, not power loss)",
        "patch uuids are fresh (uuid1) and digests of different manifest prefixes differ from the digest of the whole manifest",
        "json.loads/parse_obj accept only RFC 8259 texts with an object at top level (json_okb vs json.loads on every torn block text; no NaN/Infinity possible: no capital N/I in the texts)",
    ]
    if not proof["ok"]:
        ctx.violation("proof obligations of Properties/C11.v do not check: " + "; ".join(proof["problems"])[:500],
                      {"kind": "proof", "theorem_file": "coq/Properties/C11.v", "problems": proof["problems"]},
                      found_input=False)


def _merge(ds):
    out: Dict[str, int] = {}
    for d in ds:
        for k, v in d.items():
            out[k] = out.get(k, 0) + v
    return out


def _label_kind(lab: str) -> str:
    return lab.split(":")[0]


def analyse(ctx, res) -> Dict[str, Any]:
    bad = [r for r in res if "harness_timeout" in r]
    if bad and len(bad) == len(res):
        raise RuntimeError(f"all histories timed out in the harness: {bad[0]}")
    res = [r for r in res if "harness_timeout" not in r]
    # ---- the property's own oracle
    reported = set()
    n_viol = 0
    for r in res:
        for v in r["violations"]:
            n_viol += 1
            key = (v["cls"], _label_kind(v["label"]), v["what"][:40])
            if key in reported or len(reported) >= 4:
                continue
            reported.add(key)
            ctx.violation(f"{v['cls']}: crash state '{v['label']}' of round {v['round']}: {v['what']}",
                          {"kind": "state", "case": v["case"], "label": v["label"], "ops": v["ops"], "hist_seed": v["seed"]},
                          sig_obj={"kind": "state", "cls": v["cls"], "label": _label_kind(v["label"]), "what": v["what"][:40]})
    # ---- model pass 1: torn blocks
    torn_cases, torn_ix = [], []
    for hi, r in enumerate(res):
        for ri, rd in enumerate(r["rounds"]):
            for wi, (o, n) in enumerate(rd["torn"]):
                torn_cases.append(["torn", o, n])
                torn_ix.append((hi, ri, wi))
    order = list(range(len(torn_cases)))
    tres = vlib.run_model("c11", torn_cases)
    torn_of = {ix: t for ix, t in zip(torn_ix, tres)}
    disagreements: List[Dict[str, Any]] = []
    unknown = 0
    not_tight = 0
    shape_fail = 0
    torn_blocks = 0
    class_hist: Dict[str, int] = {}
    boundaries = set()
    for (hi, ri, wi), t in torn_of.items():
        classes = t[0]
        unknown += classes.count("u")
        if t[1] != "T":
            not_tight += 1
        if wi == 1 and t[2] != "T":
            shape_fail += 1
        # compare with the real loader, state by state
        rd = res[hi]["rounds"][ri]
        pref = "ub1:" if wi == 0 else "ub2:"
        sts = {s["label"]: s for s in rd["states"]}
        prev = None
        for k in range(1, len(classes)):
            s = sts.get(f"{pref}{k}")
            if s is None:
                continue
            torn_blocks += 1
            mc = classes[k]
            class_hist[mc] = class_hist.get(mc, 0) + 1
            if mc != prev:
                boundaries.add((res[hi]["cls"], wi, mc, k))
                prev = mc
            ub = s["newest"][0]
            # model says: o = loads as before, n = loads as new, x = does not load
            before = "none" if wi == 0 else "uncommitted"
            want = {"o": before, "n": "uncommitted" if wi == 0 else "committed", "x": "none"}.get(mc)
            if want is not None and ub != want and ub != "unsure":
                disagreements.append({"what": "torn block: model class vs harness reader", "k": k, "write": wi,
                                      "model": mc, "reader": ub, "cls": res[hi]["cls"]})
            real_loads = s["class"] != "refused"
            if mc == "x" and real_loads:
                disagreements.append({"what": "torn block the model rejects is loaded by the real code", "k": k,
                                      "write": wi, "model": mc, "real": s["class"], "cls": res[hi]["cls"]})
    # ---- the file-level writes the code performs inside create_patch / commit_patch against the
    # model's micro-steps (coq/Rec/Crash.v round_steps): create_steps = SNew (container file created
    # and closed), SUb (one user-block write); write_steps end with SPay (close of the HDF5 file);
    # commit_steps = SUb (ONE user-block rewrite); mf_steps = SMf (sidecar created empty, then filled)
    sig_bad = 0
    sig_seen = set()
    for r in res:
        want = [["h5close:new", "write:new"],
                ["h5close:new", "write:new"] + (["open-w:new.mf", "write:new.mf"] if r["cls"] == "IH5MFRecord" else [])]
        for rd in r["rounds"]:
            sig_seen.add((r["cls"], json.dumps(rd["sig"])))
            if rd["sig"] != want:
                sig_bad += 1
                if sig_bad == 1:
                    disagreements.append({"what": "the sequence of file-level writes inside create_patch / commit_patch "
                                          "is not the model's sequence of micro-steps", "cls": r["cls"],
                                          "model": want, "real": rd["sig"]})
    # ---- the JSON grammar: the model's recogniser json_okb against the real json.loads on every
    # torn user-block text met (C11_json_okb_sound ties json_okb to the grammar, C11_json_grammar_nec
    # the grammar to json_nec)
    texts: Dict[str, List[bool]] = {}
    for r in res:
        texts.update(r["texts"])
    n_torn_texts = len(texts)
    for t in gen_json_texts(ctx.rng, ctx.budget(4000, 20000)):
        if t not in texts:
            texts[t] = crashlib.real_json_verdict(t)
    tlist = sorted(texts)
    jres = vlib.run_model("c11j", [[t] if t else [] for t in tlist])
    json_bad = 0
    json_accept = 0
    ni = 0
    for t, j in zip(tlist, jres):
        okb, nec, no_ni = j[0] == "T", j[1] == "T", j[2] == "T"
        real_ok, real_obj = texts[t]
        json_accept += real_ok
        ni += not no_ni
        if okb != real_ok or (real_obj and not nec):
            json_bad += 1
            if json_bad == 1:
                disagreements.append({"what": "json_okb (RFC 8259 grammar recogniser) and the real json.loads differ on a "
                                      "torn user-block text" if okb != real_ok else
                                      "a text json.loads reads as an object fails the necessary condition json_nec",
                                      "text": t, "model": [okb, nec], "real": [real_ok, real_obj]})
    # ---- the encoder against every block met
    enc_cases = [e[0] for r in res for rd in r["rounds"] for e in rd.get("enc", [])]
    enc_want = [e[1] for r in res for rd in r["rounds"] for e in rd.get("enc", [])]
    enc_got = vlib.run_model("c11", enc_cases)
    enc_bad = 0
    for c, w, g in zip(enc_cases, enc_want, enc_got):
        if w != g:
            enc_bad += 1
            if enc_bad == 1:
                disagreements.append({"what": "encode_ub differs from the text the code wrote", "fields": c[1:],
                                      "model": g, "real": w})
    # ---- model pass 2: histories
    hist_cases, hist_ix = [], []
    for hi, r in enumerate(res):
        mfm, c0, mrs = r["model_case"]
        if not mrs:
            continue
        ok = True
        rounds = []
        mi = 0
        for ri, rd in enumerate(r["rounds"]):
            if not rd["model"]:
                continue
            t1 = torn_of[(hi, ri, 0)][0][1:]
            t2 = torn_of[(hi, ri, 1)][0][1:]
            if "u" in t1 or "u" in t2:
                ok = False
            row = list(mrs[mi])
            row[3], row[6] = t1, t2
            rounds.append(row)
            mi += 1
        if ok:
            hist_cases.append(["hist", mfm, c0, rounds])
            hist_ix.append(hi)
    hres = vlib.run_model("c11", hist_cases, chunk=1)
    # extraction cross-check inside coqc: torn blocks and the encoder as they are; histories
    # cut down (two rounds, thinned tear lists) because the literals are large
    small = []
    for hc in hist_cases[:2]:
        rs = []
        for row in hc[3][:2]:
            row = list(row)
            row[3] = row[3][:3] + row[3][-3:]
            row[6] = row[6][:2] + row[6][len(row[6]) // 2:len(row[6]) // 2 + 2] + row[6][-3:]
            rs.append(row)
        small.append(["hist", hc[1], hc[2], rs])
    sres = vlib.run_model("c11", small)
    xc = vlib.coq_crosscheck("c11", torn_cases[:2] + enc_cases[:2] + small,
                             list(tres[:2]) + list(enc_got[:2]) + list(sres), "c11", max_cases=6)
    compared = 0
    xcompared = 0
    unreadable_newest = 0
    by_label: Dict[str, Dict[str, int]] = {}
    for hi, m in zip(hist_ix, hres):
        r = res[hi]
        flat = [s for rd in r["rounds"] if rd["model"] for s in rd["states"]]
        if len(flat) != len(m):
            disagreements.append({"what": "number of crash states", "model": len(m), "real": len(flat), "cls": r["cls"]})
            continue
        for s, ms in zip(flat, m):
            mcls, mn, mnc, mnew = ms[0], int(ms[1]), int(ms[2]), ms[3]
            kind = _label_kind(s["label"])
            st = by_label.setdefault(f"{r['cls']}/{kind}", {})
            st[s["class"]] = st.get(s["class"], 0) + 1
            if s["class"] == "timeout":
                continue
            compared += 1
            rcls = "committed" if s["class"] == "committed-next" else s["class"]
            if (rcls, s["n"]) != (mcls, mn):
                if mcls == "uncommitted" and rcls == "refused" and not s["clean"]:
                    unreadable_newest += 1      # container under construction not readable: allowed
                else:
                    disagreements.append({"what": "class of the whole set", "label": s["label"], "cls": r["cls"],
                                          "model": [mcls, mn], "real": [s["class"], s["n"], s["exc"]]})
                    continue
            if mnc not in (s["nc"], s["nc"] + 1):
                disagreements.append({"what": "number of committed containers", "label": s["label"], "cls": r["cls"],
                                      "model": mnc, "real": s["nc"]})
            if s["x"] is not None:
                xcompared += 1
                if [s["x"][0], str(s["x"][1])] != list(ms[4]):
                    disagreements.append({"what": "class of the whole set for a reader of the other record class",
                                          "label": s["label"], "writer": r["cls"], "model": ms[4], "real": s["x"]})
            want_new = [] if s["newest"] is None else [
                s["newest"][0], str(s["newest"][1]),
                [] if s["newest"][2] is None else [[str(s["newest"][2][0]), str(s["newest"][2][1])]]]
            if (s["newest"] is None or s["newest"][0] != "unsure") and want_new != mnew:
                disagreements.append({"what": "abstraction of the newest container", "label": s["label"], "cls": r["cls"],
                                      "model": mnew, "real": want_new})
    # ---- reporting
    if not xc["ok"]:
        ctx.violation("extracted runner and in-Coq evaluation of the model disagree (stale or wrong extraction)",
                      {"kind": "crosscheck", "xc": xc}, found_input=False)
    if disagreements and not n_viol:
        ctx.violation("model/implementation correspondence broken but the property oracle found no failing input: "
                      + disagreements[0]["what"],
                      {"kind": "correspondence",
                       "correspondence": "coq/Rec/Crash.v (classify / encode_ub / round_steps / open_dir) vs IH5UserBlock.load/save/json, "
                                         "IH5Record.create_patch/commit_patch, IH5MFRecord.commit_patch/_open; theorems "
                                         "C11_classify_sound, C11_trichotomy, C11_trichotomy_cross, C11_commit_torn_classes_enc",
                       "smallest_disagreement": disagreements[0], "count": len(disagreements)}, found_input=False)
    elif disagreements:
        ctx.notes.append(f"{len(disagreements)} model/impl disagreements (first: {disagreements[0]})")
    if unknown or not_tight or shape_fail:
        ctx.notes.append(f"string-level side conditions on real blocks: unclassified torn states={unknown}, new texts "
                         f"not tight={not_tight}, common prefix not ending after a colon={shape_fail}")
    for r in res[:2]:
        for rd in r["rounds"][1:2]:
            picks = [s for s in rd["states"] if s["label"] in ("created", "closed", "ubdone", "done")]
            ctx.sample({"cls": r["cls"], "seed": r["seed"],
                        "states": [{k: s[k] for k in ("label", "class", "n", "nc", "newest")} for s in picks],
                        "torn_boundaries": sorted(b for b in boundaries if b[0] == r["cls"])[:8]})
    ids = set()
    for r in res:
        ids.update(r["ids"])
    total = sum(r["states"] for r in res)
    return {
        "crash_states": total,
        "distinct_nontrivial": len(ids),
        "rule": ("per history (random overlay operations through the real API, a base round and 2-3 patch rounds, both "
                 "record classes): the directory at every API-call boundary (after create_patch, after every write, "
                 "after commit), the freshly created container with a zeroed user block, EVERY prefix length of the "
                 "first user-block write and of the commit's user-block write (synthesised from the real old/new "
                 "blocks), the closed container before the user-block rewrite, the rewritten block without manifest, "
                 "the manifest cut at 0 / half / length-1; and, by interception of the writes the code performs inside "
                 "create_patch / commit_patch (open for writing, write(), unlink/rename/replace, h5py close/flush, "
                 "IH5UserBlock.save, IH5Manifest.save), the directory before and after each of them and every prefix "
                 "of each write into a user block; each opened with the real code.  distinct_nontrivial = "
                 "distinct directory contents"),
        "exhaustive": False,
        "input_distribution": {"histories": len(res), "timeouts_in_harness": len(bad),
                               "rounds": sum(len(r["rounds"]) for r in res),
                               "torn_blocks_opened": torn_blocks, "torn_model_classes": class_hist,
                               "torn_boundaries": sorted({(b[0], b[1], b[2], b[3]) for b in boundaries})[:40],
                               "outcome_by_state_kind": {k: v for k, v in sorted(by_label.items())}},
        "model_compared_states": compared, "model_histories": len(hist_cases),
        "other_class_reader_compared": xcompared,
        "intercepted_write_points": sum(r["in_points"] for r in res),
        "intercepted_points_not_among_synthesised": sum(r["in_new"] for r in res),
        "intercepted_new_point_outcomes": _merge(r["in_classes"] for r in res),
        "payload_damage_with_complete_user_block": _merge(r["dmg"] for r in res),
        "write_sequences_seen": sorted(sig_seen), "write_sequence_mismatches": sig_bad,
        "json_texts_compared": len(tlist), "json_torn_block_texts": n_torn_texts, "json_texts_accepted_by_json_loads": json_accept,
        "json_recogniser_disagreements": json_bad, "json_texts_with_capital_N_or_I": ni,
        "encoder_blocks_compared": len(enc_cases), "encoder_blocks_equal": len(enc_cases) - enc_bad,
        "unreadable_newest_allowed": unreadable_newest,
        "torn_unclassified": unknown, "new_text_not_tight": not_tight, "commit_shape_side_condition_failed": shape_fail,
        "oracle_failures": n_viol, "disagreements": len(disagreements),
        "timeouts_skipped": sum(r["timeouts"] for r in res),
        "coq_crosscheck": xc,
    }


def analyse_kills(ctx, kills) -> Dict[str, Any]:
    errs = [k["error"] for k in kills if "error" in k]
    runs = [x for k in kills for x in k["kills"]]
    reported = 0
    for k in kills:
        for v in k["violations"]:
            if reported >= 2:
                break
            reported += 1
            ctx.violation(f"{v['cls']}: {v['label']}: {v['what']}",
                          {"kind": "state", "case": v["case"], "label": v["label"], "ops": v["ops"], "hist_seed": v["seed"]},
                          sig_obj={"kind": "kill", "cls": v["cls"], "what": v["what"][:40]})
    hist: Dict[str, int] = {}
    for x in runs:
        key = f"{x['phase']}->{x['class']}"
        hist[key] = hist.get(key, 0) + 1
    killed = sum(1 for x in runs if x["killed"])
    if errs:
        ctx.notes.append(f"kill fixtures with errors: {errs[:2]}")
    if killed < 100:
        ctx.notes.append(f"only {killed} writer processes were actually killed before finishing")
    return {"runs": len(runs), "killed_before_finish": killed, "phase_to_outcome": dict(sorted(hist.items())),
            "distinct_directories": len({x["id"] for x in runs}),
            "unreadable_partial_patch": sum(1 for x in runs if x["unreadable_view"]),
            "failures": sum(1 for x in runs if not x["ok"]), "fixture_errors": errs[:3]}


def replay(rep) -> int:
    """Re-evaluate the recorded crash state with the current code; 1 if it still fails."""
    vlib._pool_init()
    if rep.get("kind") != "state":
        print("replay names a proof obligation or correspondence; re-run the check itself")
        return 1
    c = rep["case"]
    if rep.get("ops") and not str(rep.get("label", "")).startswith("SIGKILL"):
        # run the recorded history again through the current code and judge all its crash states
        with vlib.workdir("c11r") as root:
            r = _history(c["cls"], rep.get("hist_seed", 0), len(rep["ops"]), str(root), rounds=rep["ops"])
        for v in r["violations"]:
            print(f"round {v['round']} state {v['label']}: {v['what']}")
        print("still failing" if r["violations"] else "no longer failing (history re-run)")
        if r["violations"]:
            return 1
    with vlib.workdir("c11r") as root:
        o = crashlib.oracle(c["cls"], crashlib.thaw_state(c["state"]), c["committed"], c["next_view"], str(root),
                            check_alone=True, clean_payload=c["clean"], next_meta=c.get("next_meta"))
    print(json.dumps({k: v for k, v in o.items() if k != "alone"}, default=str)[:600])
    print("recorded directory: " + ("still failing" if not o["ok"] else "no longer failing"))
    if rep.get("ops") and not str(rep.get("label", "")).startswith("SIGKILL"):
        return 0      # the directory was written by the code under test at the time; the re-run decides
    return 0 if o["ok"] else 1
