"""C03 — closing and reopening a record reproduces exactly the same view; open modes follow
the h5py.File contract.

Theorems (coq/Properties/C03.v): file discovery is exact over the record-name alphabet;
the 6 x 5 mode table as equations for arbitrary record contents; 'r' is read-only; 'x'/'w-'
refuse and touch nothing; 'w' replaces all; close + reopen (by name, by list in any order)
gives the same view; the file list order never matters; discard_patch restores the last
commit.  Correspondence: every mode x situation cell, instantiated with random histories on
real IH5Record and IH5MFRecord in directories shared by foo / foo2 / foo-bar / fo, plus random
multi-session scripts, run step by step against the extracted model (coq/Rec/Modes.v); model
find_files / list_records against the real ones on generated directories.  Oracle on the code
alone: harness/reclib03.py (dump before close vs. after reopen, sha256 monitor of every file,
refusal class per cell, discard restores the last commit, files found = files created).
"""
from __future__ import annotations

import itertools
from typing import Any, Dict, List

import gentie
import reclib03 as R
import vlib

NAMES = ["foo", "foo2", "foo-bar", "fo"]
SITS = ["absent", "ubase", "cbase", "patched", "upatch"]
MODES = ["r", "r+", "a", "w", "w-", "x"]
CLASSES = ["IH5Record", "IH5MFRecord"]


# ---------------------------------------------------------------------------- script generation

class Gen:
    def __init__(self, rng):
        self.rng = rng
        self.ids = 0
        self.tok = 0

    def id(self):
        self.ids += 1
        return self.ids

    def open(self, cls, mode, n):
        return ["open", cls, mode, ["name", n], self.id(), self.id()]

    def write(self):
        self.tok += 1
        return ["write", f"tk{self.tok}", None]

    def writes(self, lo, hi):
        return [self.write() for _ in range(self.rng.randint(lo, hi))]

    def session(self, cls, mode, n, lo=1, hi=3, commit=True):
        return [self.open(cls, mode, n)] + self.writes(lo, hi) + [["close", "T" if commit else "F"], ["drop"]]

    def build(self, cls, n, sit):
        rng = self.rng
        if sit == "absent":
            return []
        cmds = self.session(cls, rng.choice(["w", "x", "a", "w-"]), n, commit=(sit != "ubase"))
        if sit in ("ubase", "cbase"):
            return cmds
        k = rng.randint(1, 3) if sit == "patched" else rng.randint(0, 2)
        for _ in range(k):
            cmds += self.session(cls, rng.choice(["r+", "a"]), n, lo=0, hi=2)
        if sit == "upatch":
            cmds += self.session(cls, rng.choice(["r+", "a"]), n, commit=False)
        return cmds

    def handle_ops(self, lo=0, hi=6):
        rng = self.rng
        out = []
        for _ in range(rng.randint(lo, hi)):
            k = rng.choices(["write", "commit", "cp", "discard", "close"], [50, 15, 15, 14, 3])[0]
            if k == "write":
                out.append(self.write())
            elif k == "cp":
                out.append(["cp", self.id()])
            elif k == "close":
                out.append(["close", rng.choice(["T", "F"])])
            else:
                out.append([k])
        return out


def pnames(n: str) -> List[str]:
    """Sibling names of the shape N + one char + "p" + rest: a file of such a record reads like a
    patch of N to any matcher that does not take the separators literally."""
    return [n + c + "p" + rest for c in ("-", "2", "7", "x", "a") for rest in ("", "1", "rocessed")]


def cell_script(rng, cls, sit, mode) -> List[Any]:
    g = Gen(rng)
    n = rng.choice(NAMES)
    blocks = [g.build(cls, n, sit)]
    for m in NAMES:
        if m != n and rng.random() < 0.5:
            blocks.append(g.build(rng.choice(CLASSES), m, rng.choice(SITS)))
    if rng.random() < 0.6:
        blocks.append(g.build(rng.choice(CLASSES), rng.choice(pnames(n)), rng.choice(SITS[1:])))
    rng.shuffle(blocks)
    cmds = [c for b in blocks for c in b]
    cmds.append(["classify", n])
    cmds.append(g.open(cls, mode, n))
    cmds += g.handle_ops()
    cmds += [["close", rng.choice(["T", "T", "F"])], ["drop"]]
    cmds.append(["reopen-perms", cls, n, 24])
    if rng.random() < 0.5:
        cmds.append(["reopen-sublists", cls, n])
    if rng.random() < 0.4:
        cmds.append(["list-sessions", cls, n, rng.choice(["r+", "a"]), 2])
        cmds.append(["reopen-perms", cls, n, 6])
    other = rng.choice([m for m in NAMES if m != n])
    cmds.append(["reopen-perms", rng.choice(CLASSES), other, 3])
    cmds.append(["classify", n])
    return cmds


def discard_pattern(rng, cls, npatches) -> List[Any]:
    """Fixed shape run in every check: base + npatches committed patches + one uncommitted patch
    (left by close(commit=False)), next to prefix-related neighbours; then the `discard-perms`
    macro: writable reopen by explicit list in every order, discard, reopen by name and by list."""
    g = Gen(rng)
    n = "foo" if npatches == 1 else "fo"
    cmds = g.session("IH5Record", "w", "foo2", commit=True) + g.session(cls, "x", "foo-p1", commit=False)
    cmds += g.session(cls, "w", n, commit=True)
    for _ in range(npatches):
        cmds += g.session(cls, "r+", n, lo=1, hi=2, commit=True)
    cmds += g.session(cls, "a", n, lo=1, hi=2, commit=False)
    cmds.append(["classify", n])
    cmds.append(["discard-perms", cls, n, 24])
    cmds.append(["reopen-perms", cls, n, 6])
    return cmds


def long_chain_script(rng, cls) -> List[Any]:
    """A record with 10-12 tiny committed patches (container names whose lexicographic order is not
    the patch order), next to a short neighbour; closed, then reopened 'r' by name, by the explicit
    list in patch order, reversed, sorted by name and shuffled; one writable session by shuffled list
    adds a further patch, then 'r' by name and by shuffled list again."""
    g = Gen(rng)
    n = rng.choice(NAMES)
    other = rng.choice([m for m in NAMES if m != n])
    k = rng.randint(10, 12)
    cmds = g.session(rng.choice(CLASSES), "w", other, commit=True)
    cmds += g.session(cls, rng.choice(["w", "x", "a"]), n, lo=1, hi=1, commit=True)
    for _ in range(k):
        cmds += g.session(cls, rng.choice(["r+", "a"]), n, lo=1, hi=1, commit=True)

    def chain(j):
        return [f"{n}.ih5"] + [f"{n}.p{i}.ih5" for i in range(1, j + 1)]

    def ro(target):
        return [g.open(cls, "r", ["name", n])[:3] + [target, g.id(), g.id()], ["close", "T"], ["drop"]]

    def orders(fs):
        out = [list(fs), list(reversed(fs)), sorted(fs)]
        for _ in range(2):
            sh = list(fs)
            rng.shuffle(sh)
            out.append(sh)
        return out

    cmds.append(["classify", n])
    cmds += ro(["name", n])
    for fs in orders(chain(k)):
        cmds += ro(["list", fs])
    sh = chain(k)
    rng.shuffle(sh)
    cmds += [["open", cls, rng.choice(["r+", "a"]), ["list", sh], g.id(), g.id()], g.write(), ["close", "T"], ["drop"]]
    cmds += ro(["name", n])
    for fs in orders(chain(k + 1))[1:4]:
        cmds += ro(["list", fs])
    cmds.append(["reopen-perms", rng.choice(CLASSES), other, 2])
    cmds.append(["classify", n])
    return cmds


def random_script(rng) -> List[Any]:
    g = Gen(rng)
    cmds: List[Any] = []
    pool = NAMES + rng.sample([x for m in NAMES for x in pnames(m)], 2)
    for _ in range(rng.randint(5, 12)):
        n = rng.choice(pool)
        cls = rng.choice(CLASSES)
        r = rng.random()
        if r < 0.1:
            cmds.append(["list-sessions", cls, n, rng.choice(["r+", "a"]), rng.randint(1, 2)])
        elif r < 0.2:
            cmds.append(["reopen-perms", cls, n, 6])
        elif r < 0.27:
            cmds.append(["reopen-sublists", cls, n])
        elif r < 0.32:
            cmds.append(["classify", n])
        else:
            mode = rng.choices(MODES, [18, 30, 22, 12, 8, 10])[0]
            cmds.append(g.open(cls, mode, n))
            cmds += g.handle_ops(0, 7)
            cmds += [["close", rng.choice(["T", "T", "F"])], ["drop"]]
    for n in pool:
        cmds.append(["reopen-perms", rng.choice(CLASSES), n, 4])
    return cmds


def w_script(case):
    return R.run_script(case)


def w_names(case):
    return R.names_case(case)


def category(what: str) -> str:
    for key in ("discard_patch removed", "view after reopen", "view after discard", "of another record", "committed container",
                "sidecar of committed", "must not alter anything", "the contract says", "disappeared",
                "left containers", "is not empty", "by the complete file list", "discard_patch removed", "name-index coherent", "list_records =", "find_files(", "close() left", "close(commit=False) committed", "reports mode", "writable container present",
                "succeeded on a record opened read-only"):
        if key in what:
            return key
    return what[:40]


def shape(cmds) -> List[Any]:
    """Canonical shape of a command list (ids, tokens and tree operations dropped)."""
    out = []
    for c in cmds:
        if c[0] == "open":
            out.append(["open", c[1], c[2], c[3][0], len(c[3][1]) if c[3][0] == "list" else c[3][1]])
        elif c[0] == "write":
            out.append(["write"])
        elif c[0] == "cp":
            out.append(["cp"])
        else:
            out.append(list(c))
    return out


# ---------------------------------------------------------------------------- names

def gen_name_cases(ctx) -> List[Dict[str, Any]]:
    rng = ctx.rng
    cases = []
    alphabet = "abfoAZ09-"
    for i in range(ctx.budget(40, 600)):
        pool = list(NAMES)
        for _ in range(rng.randint(0, 4)):
            base = rng.choice(pool)
            if rng.random() < 0.5:
                pool.append(base + "".join(rng.choice(alphabet) for _ in range(rng.randint(1, 3))))
            elif len(base) > 1:
                pool.append(base[:rng.randint(1, len(base) - 1)])
        for _ in range(rng.randint(0, 2)):
            pool.append(rng.choice(pnames(rng.choice(pool))))
        pool = sorted(set(pool))
        files = set()
        for n in pool:
            if rng.random() < 0.75:
                for k in rng.sample([None, 0, 1, 2, 10, 11, 123], rng.randint(1, 4)):
                    files.add(f"{n}.ih5" if k is None else f"{n}.p{k}.ih5")
            if rng.random() < 0.3:
                for t in rng.sample(R.NOISE, rng.randint(1, 4)):
                    files.add(t.format(n=n))
        queries = list(pool) + ["fo_o", "foo.bar", "foo bar", "f", "zz", "FOO", "-", "foo\n", "fo\n"]
        if i % 7 == 0:
            queries += [n + "\n" for n in pool[:2]]
        cases.append({"files": sorted(f for f in files if f), "queries": sorted(set(queries))})
    return cases


# ---------------------------------------------------------------------------- main

def run(ctx: vlib.Ctx):
    proof = ctx.check_proofs()
    cov = ctx.coverage
    cov["trusted_base"] = vlib.TRUSTED_COMMON + [
        "modelled, not verified: h5py.File open modes ('x' fails on an existing path, 'r' writes nothing), "
        "pathlib.Path.glob / fnmatch and Python `re` on file names (transcribed as glob_ok / regex_ok), "
        "uuid1() freshness (ids are arguments of the model), list.sort stability, "
        "payload of a container as an opaque value (token datasets stand for it in the correspondence); "
        "byte-level integrity of committed containers (C04) is not part of this model",
    ]
    disagreements: List[Dict[str, Any]] = []
    evals = 0

    # ---- 1. scripts: every mode x situation cell for both classes, then random multi-session scripts
    reps = ctx.budget(2, 10)
    cases = []
    for cls in CLASSES:          # fixed discard-by-list pattern, first because it is the longest script
        for npatches in (2, 1):
            cases.append({"cmds": discard_pattern(ctx.rng, cls, npatches), "seed": ctx.rng.randrange(10**9),
                          "rich": True, "cell": [cls, "upatch", "discard-by-list"]})
    for cls in CLASSES:          # long chains: 10-12 patches, file-name order differs from patch order
        for _ in range(ctx.budget(1, 4)):
            cases.append({"cmds": long_chain_script(ctx.rng, cls), "seed": ctx.rng.randrange(10**9),
                          "rich": True, "cell": [cls, "patched", "long-chain"]})
    for cls in CLASSES:
        for sit in SITS:
            for mode in MODES:
                for _ in range(reps):
                    cases.append({"cmds": cell_script(ctx.rng, cls, sit, mode), "seed": ctx.rng.randrange(10**9),
                                  "rich": True, "cell": [cls, sit, mode]})
    for _ in range(ctx.budget(20, 500)):
        cases.append({"cmds": random_script(ctx.rng), "seed": ctx.rng.randrange(10**9), "rich": True, "cell": None})
    results = vlib.pmap(w_script, cases, chunksize=2)

    # timeouts are re-run alone before anything is concluded from them
    for i, res in enumerate(results):
        if res["status"] == "timeout":
            results[i] = vlib.pmap(w_script, [cases[i]], procs=1)[0]

    mcases, midx = [], []
    for i, res in enumerate(results):
        if res["status"] == "ok":
            mcases.append(["script", R.model_script(res["concrete"])])
            midx.append(i)
    mres = vlib.run_model("c03", mcases)
    xc = vlib.coq_crosscheck("c03", mcases, mres, "c03s", max_cases=6)

    cells_seen: Dict[str, int] = {}
    stats: Dict[str, int] = {}
    steps_total = 0
    shapes = set()
    retried = 0
    reported = set()
    harness_errors = []
    for i, res in enumerate(results):
        if res["status"] != "ok":
            harness_errors.append({"case": i, "status": res["status"], "error": res.get("error"), "tb": res.get("tb")})
            continue
        retried += 1 if res.get("retried") else 0
        for c in res["cells"]:
            cells_seen["/".join(c)] = cells_seen.get("/".join(c), 0) + 1
        for k, v in res["stats"].items():
            stats[k] = stats.get(k, 0) + v
        shapes.add(vlib.signature(shape(res["concrete"])))
    for i, mr in zip(midx, mres):
        res = results[i]
        steps_total += len(res["obs"])
        evals += len(res["obs"])
        if len(mr) != len(res["obs"]):
            disagreements.append({"kind": "script", "case": i, "what": f"model produced {len(mr)} steps, impl {len(res['obs'])}",
                                  "model_tail": mr[-1:]})
            continue
        for k, (m, ob) in enumerate(zip(mr, res["obs"])):
            ci = R.canon_impl(ob)
            cm = R.canon_model(m, with_tokens=True)
            ci["outcome"] = R.coarse(ci["outcome"], res["concrete"][k])
            cm["outcome"] = R.coarse(cm["outcome"], res["concrete"][k])
            if ci != cm:
                disagreements.append({"kind": "script", "case": i, "step": k, "cmd": res["concrete"][k],
                                      "model": cm, "impl": ci, "rich": res["rich"]})
                break
    if mcases:
        ctx.sample({"case": mcases[0][1][:6], "model": mres[0][:2]})

    # ---- the property's own oracle on the code alone
    for i, res in enumerate(results):
        if res["status"] != "ok" or not res["problems"]:
            continue
        for pr in res["problems"]:
            cat = category(pr["what"])
            if cat in reported:
                continue
            reported.add(cat)
            conc = res["concrete"]

            def fails(sub, cat=cat, seed=cases[i]["seed"]):
                r2 = R.run_script({"cmds": sub, "seed": seed, "rich": False})
                return r2["status"] == "ok" and any(category(p["what"]) == cat for p in r2["problems"])
            small = conc
            try:
                head = list(conc[:pr["step"] + 1])      # nothing after the failing step matters
                if fails(head):
                    small = vlib.ddmin(head, fails, budget=30)
                elif fails(list(conc)):
                    small = vlib.ddmin(list(conc), fails, budget=30)
            except Exception:  # noqa: BLE001
                small = conc
            ctx.violation(f"C03 oracle on the code: {pr['what']}",
                          {"kind": "script", "cmds": small, "seed": cases[i]["seed"], "problem": pr,
                           "cell": cases[i]["cell"]},
                          sig_obj={"kind": "script", "category": cat, "shape": shape(small)})

    # ---- 2. names: model vs. real find_files / list_records / validity, and the code-only oracle
    ncases = gen_name_cases(ctx)
    nres = vlib.pmap(w_names, ncases, chunksize=8)
    mq: List[Any] = []
    for c in ncases:
        mq.append(["list", c["files"]])
        for q in c["queries"]:
            mq.append(["find", q, c["files"]])
            mq.append(["valid", q])
            mq.append(["fname", q, []])
        for f in c["files"]:
            mq.append(["infer", f])
    mn = vlib.run_model("c03", mq)
    xc2 = vlib.coq_crosscheck("c03", mq, mn, "c03n", max_cases=40)
    evals += len(mq)
    it = iter(mn)
    bad_names: List[str] = []
    for c, r in zip(ncases, nres):
        if r["status"] != "ok":
            harness_errors.append({"names_case": c, "status": r["status"]})
            for _ in range(1 + 3 * len(c["queries"]) + len(c["files"])):
                next(it)
            continue
        m_list = sorted(next(it))
        if m_list != r["list"]:
            disagreements.append({"kind": "list_records", "files": c["files"], "model": m_list, "impl": r["list"]})
        for q in c["queries"]:
            m_find, m_valid, m_base = next(it), next(it), next(it)
            mf = sorted(m_find[0]) if m_find else None
            if m_valid[0] == "T" and mf != r["find"][q]:
                disagreements.append({"kind": "find_files", "name": q, "files": c["files"], "model": mf, "impl": r["find"][q]})
            if (m_valid[0] == "T") != r["valid"][q]:
                disagreements.append({"kind": "valid_name", "name": q, "model": m_valid[0] == "T", "impl": r["valid"][q],
                                      "pinned_rule_says": m_valid[1] == "T"})
                if r["valid"][q]:
                    bad_names.append(q)
            if m_base != r["base"][q]:
                disagreements.append({"kind": "base_filename", "name": q, "model": m_base, "impl": r["base"][q]})
        for f in c["files"]:
            m_inf = next(it)
            if m_inf != r["infer"][f]:
                disagreements.append({"kind": "infer_name", "file": f, "model": m_inf, "impl": r["infer"][f]})
    ctx.sample({"case": mq[1], "model": mn[1]})

    # code-only oracle: names the code accepts never share files
    oracle_sets = [list(NAMES)]
    for q in sorted(set(bad_names))[:6]:
        oracle_sets.append(sorted(set(NAMES + [q, q.rstrip("\n")])))
    for base in NAMES:
        oracle_sets.append(sorted({base, *ctx.rng.sample(pnames(base), 3)}))
    for _ in range(ctx.budget(10, 60)):
        base = ctx.rng.choice(NAMES)
        oracle_sets.append(sorted({base, base + ctx.rng.choice("2-xZ9"), base[:-1] or "f", base + "\n", base + "-" + base}))
    name_viol = None
    for names in oracle_sets:
        evals += 1
        try:
            probs = R.names_oracle(names, [1, 2, 10])
        except Exception as e:  # noqa: BLE001
            harness_errors.append({"names_oracle": names, "error": f"{type(e).__name__}: {e}"})
            continue
        if probs and name_viol is None:
            want = "picks up" if any("picks up" in p for p in probs) else ""

            def nf(sub, want=want):
                try:
                    return any(want in p for p in R.names_oracle(sub, [1]))
                except Exception:  # noqa: BLE001
                    return False
            small = vlib.ddmin(list(names), nf, budget=40) if nf(list(names)) else names
            sp = [p for p in R.names_oracle(small, [1]) if want in p] or probs
            name_viol = (small, sp)
    if name_viol is not None:
        small, probs = name_viol
        ctx.violation(f"file discovery is not exact for names the code accepts: {probs[0]}",
                      {"kind": "names", "names": small, "idxs": [1], "problems": probs[:3]},
                      sig_obj={"kind": "names", "names": ["nl" if x.endswith("\n") else "plain" for x in sorted(small)]})

    # ---- summary
    cov["evaluations"] = evals
    cov["distinct_nontrivial"] = len(shapes) + len({vlib.signature(c) for c in ncases})
    cov["rule"] = ("scripts: distinct = distinct sequence of (command kind, class, mode, target kind) after macro expansion; "
                   "every script contains at least one close + reopen comparison; name cases: distinct directory + query set")
    cov["input_distribution"] = {
        "scripts": len(cases), "cell_scripts": len(CLASSES) * len(SITS) * len(MODES) * reps,
        "steps_compared_with_model": steps_total,
        "cells_observed(cls/situation/mode/outcome)": dict(sorted(cells_seen.items())),
        "distinct_cells": len({k.rsplit("/", 1)[0] for k in cells_seen}),
        "oracle_counters": stats, "retried_without_tree_ops": retried,
        "name_cases": len(ncases), "name_queries": len(mq), "name_oracle_sets": len(oracle_sets),
    }
    cov["coq_crosscheck"] = {"scripts": xc, "names": xc2}
    cov["disagreements"] = len(disagreements)
    if stats.get("stale_sidecars_after_w"):
        ctx.notes.append(f"observation (not counted as a violation): IH5MFRecord mode 'w' left {stats['stale_sidecars_after_w']} "
                         "manifest sidecar(s) of deleted patch containers behind (delete_files only removes *.ih5)")
    ctx.assumptions += ["uuid1() never repeats an id", "no other process touches the directory",
                        "committed containers are not tampered with (C04)"]

    if harness_errors:
        ctx.violation(f"{len(harness_errors)} case(s) could not be evaluated: {harness_errors[0]}",
                      {"kind": "harness", "errors": harness_errors[:3]}, found_input=False)
    if not xc["ok"] or not xc2["ok"]:
        ctx.violation("extracted runner and in-Coq evaluation of the model disagree (stale or wrong extraction)",
                      {"kind": "crosscheck", "scripts": xc, "names": xc2}, found_input=False)
    if not proof["ok"]:
        ctx.violation("proof obligations of Properties/C03.v do not check: " + "; ".join(proof["problems"])[:500],
                      {"kind": "proof", "theorem_file": "coq/Properties/C03.v", "problems": proof["problems"]},
                      found_input=False)
    if disagreements and not ctx.violations and not ctx.known_hits:
        ctx.violation("model/implementation correspondence broken but the property oracle found no failing input",
                      {"kind": "correspondence",
                       "correspondence": "coq/Rec/Modes.v run_c03 / coq/Rec/Names.v vs metador_core.ih5.record",
                       "smallest_disagreement": disagreements[0], "count": len(disagreements)},
                      found_input=False)
    elif disagreements:
        ctx.notes.append(f"{len(disagreements)} model/impl disagreements (first: {str(disagreements[0])[:600]})")
    # generated tie: IH5Record._base_filename/_infer_name are re-translated from the current source and
    # proved equal to Rec/Names.v (coq/Gen/Equiv_record.v)
    gentie.report(ctx)


def replay(rep) -> int:
    """Re-evaluate the recorded failing case on the current tree; 1 if it still fails."""
    vlib._pool_init()
    kind = rep.get("kind")
    if kind == "script":
        res = R.run_script({"cmds": rep["cmds"], "seed": rep.get("seed", 0), "rich": False})
        if res["status"] != "ok":
            print("could not run:", res)
            return 1
        for p in res["problems"]:
            print("step", p["step"], p["cmd"], "->", p["what"])
        print("still failing" if res["problems"] else "no longer failing")
        return 1 if res["problems"] else 0
    if kind == "names":
        probs = R.names_oracle(rep["names"], rep.get("idxs", [1]))
        print("\n".join(probs) if probs else "no longer failing")
        return 1 if probs else 0
    print("replay names a proof obligation or correspondence; re-run the check itself")
    return 1
