"""Implementation-side driver for C03 (open modes, close/reopen, file discovery).

A *script* is a list of commands run against one scratch directory with at most one open
record handle, mirroring coq/Rec/Modes.v `exec`:

  ["open", cls, mode, ["name", n] | ["list", [file names]], r, u]
  ["write", tok, [tree ops]]   ["cp", u]   ["commit"]   ["discard"]   ["close", "T"|"F"]
  ["drop"]   ["classify", n]
and two macros expanded at run time (the concrete commands are returned):
  ["reopen-perms", cls, n, maxperms]    reopen 'r' by name, then by explicit list in every order
  ["reopen-sublists", cls, n]           'r' on chain prefixes / without base / with a foreign file

After every command the worker records what the model predicts (outcome class, parsed user
blocks of every container file, handle flags, visible tokens) and evaluates the property's
own oracle on the code alone:
  * dump_view before close == dump_view after reopen (by name and by list, every order),
  * sha256 of every file before/after every command: nothing of another record ever changes,
    no committed container or its sidecar changes unless mode 'w' was asked for, mode 'r'
    and refused opens change nothing at all,
  * refusal class per (mode, on-disk situation) cell,
  * discard_patch restores the dump of the last commit.
"""
from __future__ import annotations

import gc
import hashlib
import itertools
import json
import random
import re
from pathlib import Path
from typing import Any, Dict, List, Optional

import ih5lib
import vlib

CONTRACT = {"ok", "ValueError", "KeyError", "FileExistsError", "FileNotFoundError"}
NAME_RE = re.compile(r"[A-Za-z0-9\-]+")
OP_TIMEOUT = 60


def classes():
    from metador_core.ih5.container import IH5MFRecord, IH5Record
    return {"IH5Record": IH5Record, "IH5MFRecord": IH5MFRecord}


# ---------------------------------------------------------------------------- raw observation

def rec_name_of(fname: str) -> Optional[str]:
    """The harness's own attribution of a file to a record (alphabet prefix)."""
    m = NAME_RE.match(fname)
    return m[0] if m else None


def snapshot(d: Path) -> Dict[str, str]:
    out = {}
    for p in sorted(d.iterdir()):
        if p.is_file():
            out[p.name] = hashlib.sha256(p.read_bytes()).hexdigest()
    return out


def parse_ublock(path: Path) -> Optional[Dict[str, Any]]:
    """Parse the user block without using the code under test."""
    with open(path, "rb") as f:
        raw = f.read(1024)
    parts = raw.split(b"\n", 2)
    if len(parts) != 3 or parts[0] != b"ih5_v01":
        return None
    body = parts[2].split(b"\x00", 1)[0]
    try:
        j = json.loads(body.decode("utf-8"))
    except Exception:  # noqa: BLE001
        return None
    return {"rec": j.get("record_uuid"), "idx": j.get("patch_index"), "id": j.get("patch_uuid"),
            "prev": j.get("prev_patch"), "committed": j.get("hdf5_hashsum") is not None}


def ublocks(d: Path) -> Dict[str, Dict[str, Any]]:
    out = {}
    for p in sorted(d.iterdir()):
        if p.is_file() and p.name.endswith(".ih5"):
            ub = parse_ublock(p)
            if ub is not None:
                out[p.name] = ub
    return out


def raw_tokens(path: Path) -> List[str]:
    import h5py
    with h5py.File(path, "r") as f:
        return sorted(k for k in f.keys() if k.startswith("tk"))


def situation(n: str, ubs: Dict[str, Dict[str, Any]]) -> str:
    """absent / ubase / cbase / patched / upatch / other, from the parsed user blocks."""
    mine = sorted((ub["idx"], fn, ub) for fn, ub in ubs.items() if rec_name_of(fn) == n)
    if not mine:
        return "absent"
    if mine[0][1] != f"{n}.ih5" or mine[0][2]["prev"] is not None:
        return "other"
    for (i0, _f0, u0), (i1, _f1, u1) in zip(mine, mine[1:]):
        if not (u0["committed"] and i0 < i1 and u1["prev"] == u0["id"] and u1["rec"] == u0["rec"]):
            return "other"
    last = mine[-1][2]
    if len(mine) == 1:
        return "cbase" if last["committed"] else "ubase"
    return "patched" if last["committed"] else "upatch"


def safe_dump(rec) -> Any:
    try:
        with vlib.time_limit(OP_TIMEOUT):
            return ih5lib.dump_view(rec)
    except vlib.CaseTimeout:
        raise
    except Exception as e:  # noqa: BLE001
        return ["DUMP-ERROR", type(e).__name__]


def strip_tokens(dump):
    if dump and dump[0] == "DUMP-ERROR":
        return dump
    return [e for e in dump if not (len(e[0]) == 1 and e[0][0].startswith("tk"))]


def exc_class(e: BaseException) -> str:
    n = type(e).__name__
    return n if n in CONTRACT else "other:" + n


# ---------------------------------------------------------------------------- the worker

class Runner:
    def __init__(self, d: Path, seed: int, rich: bool):
        self.d = d
        self.rng = random.Random(seed)
        self.rich = rich
        self.rec = None
        self.info: Dict[str, Any] = {}
        self.hist: Dict[str, List[Any]] = {}
        self.last_dump: Dict[str, Any] = {}
        self.commit_dump: Dict[str, Any] = {}
        self.concrete: List[Any] = []
        self.obs: List[Any] = []
        self.problems: List[Dict[str, Any]] = []
        self.foreign = False
        self.idc = 500000
        self.cells: List[Any] = []
        self.created: set = set()
        self.stats = {"reopen_by_name": 0, "reopen_by_list": 0, "sha_checks": 0, "discards": 0,
                      "stale_sidecars_after_w": 0}

    # ---- helpers
    def fresh(self) -> int:
        self.idc += 1
        return self.idc

    def problem(self, what: str, **kw):
        self.problems.append({"step": len(self.concrete) - 1, "cmd": self.concrete[-1] if self.concrete else None,
                              "what": what, **kw})

    def observe(self, outcome: str, contract: bool = True):
        ubs = ublocks(self.d)
        opened = self.rec is not None and not self.rec._closed
        files = []
        for fn in sorted(ubs):
            ub = ubs[fn]
            toks = None if opened else raw_tokens(self.d / fn)
            files.append([fn, ub["rec"], ub["idx"], ub["id"], ub["prev"], ub["committed"], toks])
        handle = None
        if self.rec is not None:
            r = self.rec
            view = None
            names = None
            if opened:
                names = [p.name for p in reversed(r.ih5_files)]
                try:
                    view = sorted(k for k in r.keys() if k.startswith("tk"))
                except Exception as e:  # noqa: BLE001
                    view = ["VIEW-ERROR", type(e).__name__]
            handle = {"files": names, "writable": bool(r._has_writable), "patching": bool(r._allow_patching),
                      "closed": bool(r._closed), "view": view}
        self.obs.append({"outcome": outcome, "files": files, "handle": handle})
        # reachable directories are name-index coherent (C03_names_coherent), on the code alone
        byrec: Dict[str, List[Any]] = {}
        for fn in sorted(ubs):
            byrec.setdefault(rec_name_of(fn), []).append((ubs[fn]["idx"], fn))
        for n, lst in byrec.items():
            lst.sort()
            want = [(i, f"{n}.ih5" if i == 0 else f"{n}.p{i}.ih5") for i in range(len(lst))]
            if lst != want:
                self.problem(f"files of record {n!r} are not name-index coherent: {lst}")
        self.stats["coherence_checks"] = self.stats.get("coherence_checks", 0) + 1
        if contract and outcome not in CONTRACT and not getattr(self, "was_closed", False):
            self.foreign = True
        self.was_closed = False

    def check_changes(self, before, after, ub_before, n: Optional[str], kind: str, ro: bool, allow_replace: bool):
        """The sha256 monitor.  n: the record the command addresses; ro: nothing may change."""
        self.stats["sha_checks"] += 1
        for fn in sorted(set(before) | set(after)):
            b, a = before.get(fn), after.get(fn)
            if a == b:
                continue
            how = "appeared" if b is None else ("disappeared" if a is None else "changed")
            if ro:
                self.problem(f"file {fn!r} {how} although the command must not alter anything ({kind})", file=fn)
                continue
            if rec_name_of(fn) != n:
                self.problem(f"file {fn!r} of another record {how} during {kind} on record {n!r}", file=fn)
                continue
            cont = fn if fn.endswith(".ih5") else (fn[:-len("mf.json")] if fn.endswith(".ih5mf.json") else None)
            if cont is not None and b is not None and cont in ub_before and ub_before[cont]["committed"] and not allow_replace:
                self.problem(f"{'committed container' if cont == fn else 'sidecar of committed container'} {fn!r} {how} during {kind}", file=fn)
            if a is None and fn.endswith(".ih5") and kind not in ("discard",) and not allow_replace:
                self.problem(f"container {fn!r} disappeared during {kind}", file=fn)

    def track(self, n: str):
        """Update the dumps of record n from the open handle."""
        if self.rec is None or self.rec._closed:
            return
        dmp = safe_dump(self.rec)
        self.last_dump[n] = dmp
        ubs = ublocks(self.d)
        if all(ub["committed"] for fn, ub in ubs.items() if rec_name_of(fn) == n):
            self.commit_dump[n] = dmp

    # ---- commands
    def do_open(self, cmd):
        _, cls_name, mode, target, r, u = cmd
        if self.rec is not None:
            return
        self.concrete.append(cmd)
        cls = classes()[cls_name]
        byname = target[0] == "name"
        n = target[1] if byname else (rec_name_of(sorted(target[1])[0]) if target[1] else None)
        before, ub_before = snapshot(self.d), ublocks(self.d)
        sit = situation(n, ub_before) if n is not None else "other"
        arg = (self.d / target[1]) if byname else [self.d / x for x in target[1]]
        rec, outcome = None, "ok"
        try:
            with vlib.time_limit(OP_TIMEOUT):
                rec = cls(arg, mode)
        except vlib.CaseTimeout:
            raise
        except BaseException as e:  # noqa: BLE001
            outcome = exc_class(e)
            rec = None
        if rec is None:
            gc.collect()   # a refused _open leaves its h5py handles to the garbage collector
        after = snapshot(self.d)
        self.rec = rec
        # ---- oracle
        full = byname or sorted(target[1]) == sorted(fn for fn in ub_before if rec_name_of(fn) == n)
        self.info = {"name": n, "cls": cls_name, "mode": mode, "byname": byname, "full": full}
        if byname and sit != "other" and re.fullmatch(r"[A-Za-z0-9\-]+", n):
            if sit == "absent":
                exp = "FileNotFoundError" if mode in ("r", "r+") else "ok"
            else:
                exp = "FileExistsError" if mode in ("x", "w-") else "ok"
            self.cells.append([cls_name, sit, mode, outcome])
            if outcome != exp:
                self.problem(f"open mode {mode!r} on situation {sit!r}: got {outcome}, the contract says {exp}",
                             situation=sit, mode=mode)
        if (not byname) and full and sit in ("ubase", "cbase", "patched", "upatch"):
            exp = "ValueError" if mode in ("w", "w-", "x") else "ok"
            if outcome != exp:
                self.problem(f"open mode {mode!r} by the complete file list {target[1]} of a record in situation {sit!r}: "
                             f"got {outcome}, expected {exp} (the order of the list must not matter)", situation=sit, mode=mode)
        replaced = outcome == "ok" and mode == "w"
        self.check_changes(before, after, ub_before, n, f"open {mode!r}" + ("" if outcome == "ok" else " (refused)"),
                           ro=(outcome != "ok" or mode == "r"), allow_replace=replaced)
        if outcome == "ok":
            created = mode in ("w", "x", "w-") or (mode == "a" and sit == "absent")
            if (rec.mode == "r") != (mode == "r"):
                self.problem(f"record opened with {mode!r} reports mode {rec.mode!r}")
            if bool(rec._has_writable) != (mode != "r"):
                self.problem(f"record opened with {mode!r}: writable container present = {rec._has_writable}")
            dmp = safe_dump(rec)
            if created:
                if dmp != []:
                    self.problem(f"record created with {mode!r} is not empty", dump=dmp[:5])
                if replaced:
                    left = [fn for fn in after if fn.endswith(".ih5") and rec_name_of(fn) == n and fn != f"{n}.ih5"]
                    if left:
                        self.problem(f"mode 'w' left containers of the old record behind: {left}")
                    stale = [fn for fn in after if fn.endswith(".ih5mf.json") and rec_name_of(fn) == n
                             and fn[:-len("mf.json")] not in after]
                    self.stats["stale_sidecars_after_w"] += len(stale)
                self.created.add(n)
                self.last_dump.pop(n, None)
                self.commit_dump.pop(n, None)
                self.hist[n] = ih5lib.gen_history(self.rng, 40, p_bnd=0.0, allow_self_copy=False) if self.rich else []
            elif full and n in self.last_dump:
                if byname:
                    self.stats["reopen_by_name"] += 1
                else:
                    self.stats["reopen_by_list"] += 1
                if dmp != self.last_dump[n]:
                    a, b = self.last_dump[n], dmp
                    self.problem("view after reopen differs from the view before close",
                                 only_before=[e for e in a if e not in b][:4], only_after=[e for e in b if e not in a][:4])
            if full or created:
                self.track(n)
        self.observe(outcome)

    def step(self, kind: str, fn, concrete_cmd, ro_expected=False):
        """Run one handle method; returns the outcome class."""
        self.concrete.append(concrete_cmd)
        self.was_closed = bool(self.rec._closed)
        n = self.info["name"]
        before, ub_before = snapshot(self.d), ublocks(self.d)
        outcome = "ok"
        try:
            with vlib.time_limit(OP_TIMEOUT):
                fn()
        except vlib.CaseTimeout:
            raise
        except BaseException as e:  # noqa: BLE001
            outcome = exc_class(e)
        after = snapshot(self.d)
        self.step_before, self.step_after, self.step_ub_before = before, after, ub_before
        ro = self.info["mode"] == "r" or ro_expected
        self.check_changes(before, after, ub_before, n, kind, ro=ro, allow_replace=False)
        if self.info["mode"] == "r" and kind != "close" and outcome == "ok":
            self.problem(f"{kind} succeeded on a record opened read-only")
        return outcome

    def do_write(self, cmd):
        if self.rec is None:
            return
        rec, n = self.rec, self.info["name"]
        tok = cmd[1]
        ops = cmd[2] if len(cmd) > 2 and cmd[2] is not None else None
        if ops is None:
            k = self.rng.randint(0, 3)
            h = self.hist.get(n, [])
            ops, self.hist[n] = h[:k], h[k:]
            if not self.rich:
                ops = []

        def go():
            for op in ops:
                try:
                    ih5lib.apply_op(rec, op)
                except vlib.CaseTimeout:
                    raise
                except Exception:  # noqa: BLE001
                    pass
            rec[tok] = 1

        outcome = self.step("write", go, ["write", tok, ops])
        if outcome == "ok" and self.info.get("full", True):
            self.track(n)
        self.observe(outcome)

    def do_simple(self, cmd):
        if self.rec is None:
            return
        rec, n = self.rec, self.info["name"]
        kind = cmd[0]
        if kind == "cp":
            outcome = self.step("create_patch", rec.create_patch, cmd)
        elif kind == "commit":
            outcome = self.step("commit_patch", rec.commit_patch, cmd)
        elif kind == "discard":
            outcome = self.step("discard", rec.discard_patch, cmd)
            if outcome == "ok":
                self.stats["discards"] += 1
                b = {fn for fn in self.step_before if fn.endswith(".ih5")}
                a = {fn for fn in self.step_after if fn.endswith(".ih5")}
                unc = {fn for fn, ub in self.step_ub_before.items() if rec_name_of(fn) == n and not ub["committed"]}
                if b - a != unc or a - b:
                    self.problem(f"discard_patch removed {sorted(b - a)} (added {sorted(a - b)}); exactly the uncommitted "
                                 f"container {sorted(unc)} must go")
                dmp = safe_dump(rec)
                if n in self.commit_dump and dmp != self.commit_dump[n]:
                    a, b = self.commit_dump[n], dmp
                    self.problem("view after discard_patch differs from the view of the last commit",
                                 only_commit=[e for e in a if e not in b][:4], only_after=[e for e in b if e not in a][:4])
        elif kind == "close":
            commit = cmd[1] in ("T", True)
            was_closed = rec._closed
            pending = (not was_closed) and bool(rec._has_writable)
            outcome = self.step("close", lambda: rec.close(commit=commit), ["close", "T" if commit else "F"],
                                ro_expected=was_closed)
            if outcome == "ok" and not was_closed:
                ubs = ublocks(self.d)
                unc = [fn for fn, ub in ubs.items() if rec_name_of(fn) == n and not ub["committed"]]
                if pending and commit and unc:
                    self.problem(f"close() left the pending container {unc} uncommitted")
                if pending and not commit and not unc:
                    self.problem("close(commit=False) committed the pending container")
                if n in self.last_dump and all(ub["committed"] for fn, ub in ubs.items() if rec_name_of(fn) == n):
                    self.commit_dump[n] = self.last_dump[n]
        else:
            raise ValueError(kind)
        if outcome == "ok" and kind != "close" and self.info.get("full", True):
            self.track(n)
        self.observe(outcome)

    def do_drop(self, cmd):
        if self.rec is None or not self.rec._closed:
            return
        self.concrete.append(["drop"])
        self.rec = None
        gc.collect()
        self.observe("ok")
        # list_records after an arbitrary history = the records created so far (C03_list_records_reachable)
        try:
            from metador_core.ih5.record import IH5Record
            got = sorted(p.name for p in IH5Record.list_records(self.d))
            if got != sorted(self.created):
                self.problem(f"list_records = {got}, records created so far: {sorted(self.created)}")
            for n in sorted(self.created):
                fs = sorted(p.name for p in IH5Record.find_files(self.d / n))
                mine = sorted(fn for fn in ublocks(self.d) if rec_name_of(fn) == n)
                if fs != mine:
                    self.problem(f"find_files({n!r}) = {fs}, containers of that record: {mine}")
            self.stats["list_records_checks"] = self.stats.get("list_records_checks", 0) + 1
        except Exception as e:  # noqa: BLE001
            self.problem(f"list_records/find_files raised {type(e).__name__}: {e}")

    def do_classify(self, cmd):
        self.concrete.append(cmd)
        sit = "open" if self.rec is not None else situation(cmd[1], ublocks(self.d))
        self.observe(sit, contract=False)

    def files_of(self, n: str) -> List[str]:
        return sorted(fn for fn in ublocks(self.d) if rec_name_of(fn) == n)

    def session_r(self, cls_name, target):
        self.do_open(["open", cls_name, "r", target, self.fresh(), self.fresh()])
        if self.rec is not None:
            self.do_simple(["close", "T"])
            self.do_drop(["drop"])

    def do_reopen_perms(self, cmd):
        _, cls_name, n, maxperms = cmd
        if self.rec is not None:
            return
        self.session_r(cls_name, ["name", n])
        fs = self.files_of(n)
        if not fs:
            return
        perms = list(itertools.permutations(fs))
        if len(perms) > maxperms:
            perms = [perms[0], perms[-1]] + self.rng.sample(perms[1:-1], maxperms - 2)
        for p in perms:
            self.session_r(cls_name, ["list", list(p)])

    def do_reopen_sublists(self, cmd):
        _, cls_name, n = cmd
        if self.rec is not None:
            return
        ubs = ublocks(self.d)
        chain = [fn for _i, fn in sorted((ub["idx"], fn) for fn, ub in ubs.items() if rec_name_of(fn) == n)]
        if not chain:
            return
        foreign = [fn for fn in ubs if rec_name_of(fn) != n]
        cands = [chain[:j] for j in range(1, len(chain))]
        if len(chain) > 1:
            cands.append(chain[1:])
        if len(chain) > 2:
            cands.append([chain[0]] + chain[2:])
        if foreign:
            cands.append(chain + [self.rng.choice(foreign)])
        cands.append(chain + ["missing.ih5"])
        cands.append(chain + [chain[0]])
        self.rng.shuffle(cands)
        for sub in cands[:4]:
            sub = list(sub)
            self.rng.shuffle(sub)
            self.do_open(["open", cls_name, "r", ["list", sub], self.fresh(), self.fresh()])
            if self.rec is not None:
                self.do_simple(["close", "T"])
                self.do_drop(["drop"])
        if len(chain) > 1:   # 'r+' on a proper prefix: the next patch name is taken
            self.do_open(["open", cls_name, "r+", ["list", chain[:1]], self.fresh(), self.fresh()])
            if self.rec is not None:
                self.do_simple(["close", "F"])
                self.do_drop(["drop"])

    def do_list_sessions(self, cmd):
        """Writable sessions through an explicit file list in varying orders (a patch first whenever
        there is one), each followed by reopening by name and by list."""
        _, cls_name, n, mode, k = cmd
        for _ in range(k):
            if self.rec is not None:
                return
            fs = self.files_of(n)
            if not fs:
                return
            p = list(fs)
            self.rng.shuffle(p)
            if len(p) > 1 and p[0] == f"{n}.ih5" and self.rng.random() < 0.8:
                j = self.rng.randrange(1, len(p))
                p[0], p[j] = p[j], p[0]
            self.do_open(["open", cls_name, mode, ["list", p], self.fresh(), self.fresh()])
            if self.rec is None:
                continue
            self.do_write(["write", f"tk{self.fresh()}", None])
            if self.rng.random() < 0.3:
                self.do_simple(["commit"])
                self.do_simple(["cp", self.fresh()])
                self.do_write(["write", f"tk{self.fresh()}", None])
            self.do_simple(["close", "T" if self.rng.random() < 0.8 else "F"])
            self.do_drop(["drop"])
            self.session_r(cls_name, ["name", n])
            q = self.files_of(n)
            self.rng.shuffle(q)
            self.session_r(cls_name, ["list", q])

    def do_discard_perms(self, cmd):
        """Record n has an uncommitted patch on top of committed containers: reopen writable by the
        explicit list in every order, discard (sometimes after writing more), restore the uncommitted
        patch, reopen by name / list; finally reopen by list and commit."""
        _, cls_name, n, maxperms = cmd
        if self.rec is not None or situation(n, ublocks(self.d)) != "upatch":
            return
        fs = self.files_of(n)
        perms = [list(p) for p in itertools.permutations(fs)]
        if len(perms) > maxperms:
            self.rng.shuffle(perms)
            perms = perms[:maxperms]
        for i, p in enumerate(perms):
            if self.rec is not None:
                return
            self.do_open(["open", cls_name, "r+" if i % 2 == 0 else "a", ["list", p], self.fresh(), self.fresh()])
            if self.rec is None:
                continue
            if i % 3 == 1:
                self.do_write(["write", f"tk{self.fresh()}", None])
            self.do_simple(["discard"])
            self.do_simple(["cp", self.fresh()])
            self.do_write(["write", f"tk{self.fresh()}", None])
            self.do_simple(["close", "F"])
            self.do_drop(["drop"])
            self.session_r(cls_name, ["name", n])
            if i % 4 == 0:
                q = self.files_of(n)
                self.rng.shuffle(q)
                self.session_r(cls_name, ["list", q])
        # sibling: reopen by list with the uncommitted container first, commit
        ubs = ublocks(self.d)
        fs = self.files_of(n)
        unc = [fn for fn in fs if not ubs[fn]["committed"]]
        p = unc + [fn for fn in fs if fn not in unc]
        self.do_open(["open", cls_name, "r+", ["list", p], self.fresh(), self.fresh()])
        if self.rec is not None:
            self.do_simple(["commit"])
            self.do_simple(["close", "T"])
            self.do_drop(["drop"])
            self.session_r(cls_name, ["name", n])
            self.session_r(cls_name, ["list", list(reversed(self.files_of(n)))])

    def run(self, cmds):
        for cmd in cmds:
            k = cmd[0]
            if k == "open":
                self.do_open(cmd)
            elif k == "write":
                self.do_write(cmd)
            elif k in ("cp", "commit", "discard", "close"):
                self.do_simple(cmd)
            elif k == "drop":
                self.do_drop(cmd)
            elif k == "classify":
                self.do_classify(cmd)
            elif k == "reopen-perms":
                self.do_reopen_perms(cmd)
            elif k == "reopen-sublists":
                self.do_reopen_sublists(cmd)
            elif k == "list-sessions":
                self.do_list_sessions(cmd)
            elif k == "discard-perms":
                self.do_discard_perms(cmd)
            else:
                raise ValueError(k)
        if self.rec is not None:
            try:
                self.rec.close(commit=False)
            except Exception:  # noqa: BLE001
                pass
            self.rec = None
            gc.collect()


def run_script(case: Dict[str, Any]) -> Dict[str, Any]:
    """case = {"cmds": [...], "seed": int, "rich": bool}.  Never raises."""
    for rich in ([True, False] if case.get("rich", True) else [False]):
        try:
            with vlib.workdir("c03") as d:
                R = Runner(d, case["seed"], rich)
                R.run(case["cmds"])
        except vlib.CaseTimeout as e:
            return {"status": "timeout", "error": str(e), "rich": rich}
        except Exception as e:  # noqa: BLE001
            import traceback
            return {"status": "harness-error", "error": f"{type(e).__name__}: {e}", "tb": traceback.format_exc()[-1500:],
                    "rich": rich}
        if R.foreign and rich:
            continue   # an overlay-level failure (C01 family) interfered: redo with token writes only
        return {"status": "ok", "rich": rich, "foreign": R.foreign, "concrete": R.concrete, "obs": R.obs,
                "problems": R.problems, "cells": R.cells, "stats": R.stats, "retried": rich != case.get("rich", True)}
    raise AssertionError("unreachable")


# ---------------------------------------------------------------------------- model side

def model_script(concrete: List[Any]) -> List[Any]:
    """Concrete commands in the wire format of run_c03."""
    out = []
    for c in concrete:
        if c[0] == "open":
            out.append(["open", c[2], c[3], c[4], c[5]])
        elif c[0] == "write":
            out.append(["write", c[1]])
        else:
            out.append(list(c))
    return out


def _canon_ids(files: List[List[Any]]):
    rmap: Dict[Any, int] = {}
    pmap: Dict[Any, int] = {}
    out = []
    for fn, rec, idx, fid, prev, committed, toks in files:
        r = rmap.setdefault(rec, len(rmap))
        p = pmap.setdefault(fid, len(pmap))
        q = None if prev is None else pmap.setdefault(prev, len(pmap))
        out.append([fn, r, int(idx), p, q, bool(committed), toks])
    return out


def canon_impl(ob: Dict[str, Any]) -> Any:
    h = ob["handle"]
    hh = None
    if h is not None:
        if h["closed"]:
            hh = {"closed": True}
        else:
            hh = {"closed": False, "files": h["files"], "writable": h["writable"], "patching": h["patching"],
                  "view": h["view"]}
    return {"outcome": ob["outcome"], "files": _canon_ids(ob["files"]), "handle": hh}


def coarse(outcome: str, cmd) -> str:
    """Exception classes are compared for opens (the property names them); for the steps on a
    handle only accepted / refused is compared."""
    if cmd[0] in ("open", "classify", "drop"):
        return outcome
    return "ok" if outcome == "ok" else "refused"


def canon_model(res: Any, with_tokens: bool) -> Any:
    """res = [outcome, [files, handle]] as printed by sx_world."""
    outcome, (files, handle) = res
    fl = []
    for fn, rec, idx, fid, prev, committed, toks in sorted(files, key=lambda f: f[0]):
        fl.append([fn, rec, int(idx), fid, (prev[0] if prev else None), committed == "T", sorted(toks)])
    hh = None
    opened = False
    if handle:
        names, w, p, c, _hn, view = handle[0]
        if c == "T":
            hh = {"closed": True}
        else:
            opened = True
            hh = {"closed": False, "files": names, "writable": w == "T", "patching": p == "T",
                  "view": sorted(t for v in view for t in v)}
    if opened or not with_tokens:
        fl = [f[:6] + [None] for f in fl]
    return {"outcome": outcome, "files": _canon_ids(fl), "handle": hh}


# ---------------------------------------------------------------------------- names

NOISE = ["{n}.ih5mf.json", "{n}.p1.ih5mf.json", "{n}.ih5.bak", "{n}.x.ih5", "{n}_x.ih5", "{n}.ih5x", "{n}ih5",
         "{n}.IH5", "{n}.p.ih5", "{n}.pp3.ih5", "{n}..ih5", ".ih5", ".p1.ih5", "{n}.h5", "{n} .ih5", "{n}~.ih5",
         "{n}\n.ih5", "{n}.p1.ih5\n"]


def names_case(case: Dict[str, Any]) -> Dict[str, Any]:
    """case = {"files": [...], "queries": [...]}: create empty files, ask find_files / list_records."""
    from metador_core.ih5.record import IH5Record
    out: Dict[str, Any] = {"find": {}, "list": None, "valid": {}}
    try:
        with vlib.time_limit(OP_TIMEOUT), vlib.workdir("c03n") as d:
            for fn in case["files"]:
                (d / fn).write_bytes(b"")
            for q in case["queries"]:
                out["valid"][q] = bool(IH5Record._is_valid_record_name(q))
                try:
                    out["find"][q] = sorted(p.name for p in IH5Record.find_files(d / q))
                except ValueError:
                    out["find"][q] = None
            out["list"] = sorted(p.name for p in IH5Record.list_records(d))
            out["base"] = {q: IH5Record._base_filename(Path(q)).name for q in case["queries"] if "/" not in q}
            out["infer"] = {fn: IH5Record._infer_name(Path("/x") / fn) for fn in case["files"] if "/" not in fn}
        out["status"] = "ok"
    except Exception as e:  # noqa: BLE001
        out["status"] = f"error: {type(e).__name__}: {e}"
    return out


def names_oracle(names: List[str], idxs: List[int]) -> List[str]:
    """Code alone: every name the code accepts gets its files (base + patches with the given
    indices, named as the code names them); then find_files(n) must be exactly n's files and
    list_records exactly the accepted names."""
    from metador_core.ih5.record import IH5Record
    problems = []
    with vlib.time_limit(OP_TIMEOUT), vlib.workdir("c03o") as d:
        acc = [n for n in names if IH5Record._is_valid_record_name(n) and "/" not in n and "\x00" not in n]
        own: Dict[str, List[str]] = {}
        for n in acc:
            fs = [IH5Record._base_filename(Path(n)).name]
            fs += [f"{n}{IH5Record._PATCH_INFIX}{i}{IH5Record._FILE_EXT}" for i in idxs]
            own[n] = sorted(set(fs))
            for fn in fs:
                (d / fn).write_bytes(b"")
        for n in acc:
            got = sorted(p.name for p in IH5Record.find_files(d / n))
            if got != own[n]:
                extra = [g for g in got if g not in own[n]]
                problems.append(f"find_files({n!r}) = {got}, the files of that record are {own[n]}"
                                + (f" (picks up {extra} of another record)" if extra else ""))
        got = sorted(p.name for p in IH5Record.list_records(d))
        if got != sorted(acc):
            problems.append(f"list_records = {got}, records with files are {sorted(acc)}")
    return problems
