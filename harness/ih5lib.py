"""Shared implementation-side helpers for the IH5 family of checks (C01, C05, C09, C10, C17...).

Histories are lists of operations in the wire format of coq/IH5/OverlayRun.v:
  ["grp", path] ["set", path, val] ["del", path] ["aset", path, key, val] ["adel", path, key]
  ["copy", src, dst] ["move", src, dst] ["bnd"]
with path = list of key strings (forward order) and val = encoded value string.
"""
from __future__ import annotations

import contextlib
import random
import signal
from pathlib import Path
from typing import Any, Dict, List, Optional, Tuple

import vlib

KEYS = ["a", "b", "c", "d", "!", "~"]
ATTR_KEYS = ["k", "m", "~"]


# ---------------------------------------------------------------------------- values

def enc(v) -> str:
    """Canonical encoding of a value read back from h5py / IH5."""
    import h5py
    import numpy as np
    if isinstance(v, h5py.Empty):
        return "e:"
    if isinstance(v, np.void):
        return "v:" + v.tobytes().hex()
    if isinstance(v, (bytes, np.bytes_)):
        return "b:" + bytes(v).hex()
    if isinstance(v, (str, np.str_)):
        return "s:" + str(v)
    if isinstance(v, (bool, np.bool_)):
        return "i:" + str(int(v))
    if isinstance(v, (int, np.integer)):
        return "i:" + str(int(v))
    if isinstance(v, np.ndarray):
        return "arr:" + v.dtype.str + ":" + v.tobytes().hex()
    return "?:" + repr(v)


def dec(s: str):
    import h5py
    import numpy as np
    tag, _, body = s.partition(":")
    if tag == "e":
        return h5py.Empty(None)
    if tag == "v":
        return np.void(bytes.fromhex(body))
    if tag == "b":
        return bytes.fromhex(body)
    if tag == "s":
        return body
    if tag == "i":
        return int(body)
    raise ValueError(s)


VALUE_POOL = ["i:0", "i:1", "i:7", "i:42", "v:00", "v:7f00", "v:417f", "e:", "s:x", "s:hello", "v:deadbeef"]


# ---------------------------------------------------------------------------- applying ops

def _p(path: List[str]) -> str:
    return "/".join(path) if path else "/"


def apply_op(root, op):
    """Apply one operation through the h5py-like API of `root` (h5py.File or IH5Record)."""
    kind = op[0]
    if kind == "grp":
        root.create_group(_p(op[1]))
    elif kind == "set":
        root[_p(op[1])] = dec(op[2])
    elif kind == "del":
        del root[_p(op[1])]
    elif kind == "aset":
        node = root[_p(op[1])] if op[1] else root
        node.attrs[op[2]] = dec(op[3])
    elif kind == "adel":
        node = root[_p(op[1])] if op[1] else root
        del node.attrs[op[2]]
    elif kind == "copy":
        root.copy(_p(op[1]), _p(op[2]))
    elif kind == "move":
        root.move(_p(op[1]), _p(op[2]))
    else:
        raise ValueError(kind)


def dump_view(root) -> List[Any]:
    """User-visible tree: sorted list of [path, "G"] / [path, "D", val]; attributes as "@k" leaves."""
    import h5py
    out = []

    def attrs_of(node, path):
        for k in node.attrs.keys():
            out.append([path + ["@" + k], "D", enc(node.attrs[k])])

    attrs_of(root, [])

    def visit(name, node):
        path = name.strip("/").split("/")
        is_ds = hasattr(node, "ndim") or isinstance(node, h5py.Dataset)
        if is_ds:
            out.append([path, "D", enc(node[()])])
        else:
            out.append([path, "G"])
        attrs_of(node, path)
        return None

    root.visititems(visit)
    out.sort(key=lambda e: e[0])
    return out


SUBST_KEY = "\x1a"


def dump_raw(filename) -> List[Any]:
    """Raw content of one container file in the model's representation."""
    import h5py
    import numpy as np
    out = []

    def is_del(v):
        return isinstance(v, np.void) and v.tobytes() == b"\x7f"

    with h5py.File(filename, "r") as f:
        def attrs_of(node, path):
            for k in node.attrs.keys():
                if k == SUBST_KEY:
                    continue
                v = node.attrs[k]
                out.append([path + ["@" + k], "DEL"] if is_del(v) else [path + ["@" + k], "D", enc(v)])

        attrs_of(f, [])

        def visit(name, node):
            path = name.strip("/").split("/")
            if isinstance(node, h5py.Dataset):
                v = node[()]
                out.append([path, "DEL"] if is_del(v) else [path, "D", enc(v)])
            else:
                out.append([path, "G", "T" if SUBST_KEY in node.attrs else "F"])
            attrs_of(node, path)

        f.visititems(visit)
    out.sort(key=lambda e: e[0])
    return out


@contextlib.contextmanager
def hard_time_limit(seconds: float):
    """Like vlib.time_limit, but the alarm keeps firing every second after the deadline until
    the block is left: a CaseTimeout raised inside a weakref callback or __del__ is swallowed
    by the interpreter ("Exception ignored in ..."), which a one-shot alarm does not survive
    (observed with the non-terminating copy of the pinned tree)."""
    def handler(signum, frame):
        raise vlib.CaseTimeout(f"timed out after {seconds}s")
    old = signal.signal(signal.SIGALRM, handler)
    signal.setitimer(signal.ITIMER_REAL, seconds, 1.0)
    try:
        yield
    finally:
        signal.setitimer(signal.ITIMER_REAL, 0)
        signal.signal(signal.SIGALRM, old)


def exec_ih5(ops, cls_name="IH5Record", op_timeout=15, final_stages=False) -> Dict[str, Any]:
    """Run a history on a fresh IH5 record; per step result + view; raw containers at the end.

    ["bnd"] = commit_patch + create_patch; ["reopen", "name"|"files"] = close (commits) and open
    the record again in mode r+ by record name / by explicit file list (a new patch is created):
    both are steps like any other, the view is taken after them.  With final_stages the record is
    finally committed, closed and reopened read-only by name and by file list, with a view each
    ("final": [[stage, view], ...])."""
    from metador_core.ih5.container import IH5Record, IH5MFRecord
    cls = IH5Record if cls_name == "IH5Record" else IH5MFRecord
    steps = []
    final = []

    def read(r):
        try:
            with hard_time_limit(op_timeout):
                return dump_view(r)
        except vlib.CaseTimeout:
            return ["READ-TIMEOUT"]
        except Exception as e:  # noqa: BLE001
            return ["READ-ERROR", f"{type(e).__name__}: {e}"[:200]]

    with vlib.workdir("ih5") as d:
        rec = cls(d / "rec", "w")
        dead = None
        try:
            for op in ops:
                if dead:
                    steps.append(["X", dead])
                    continue
                try:
                    with hard_time_limit(op_timeout):
                        if op[0] == "bnd":
                            rec.commit_patch()
                            rec.create_patch()
                        elif op[0] == "reopen":
                            files = list(rec.ih5_files)
                            rec.close()
                            rec = cls(files if op[1] == "files" else d / "rec", "r+")
                        else:
                            apply_op(rec, op)
                    res = "T"
                except vlib.CaseTimeout:
                    dead = "timeout"
                    steps.append(["X", "timeout"])
                    continue
                except Exception as e:  # noqa: BLE001
                    res = "F"
                    err = f"{type(e).__name__}: {e}"[:200]
                view = read(rec)
                if view == ["READ-TIMEOUT"]:
                    dead = "timeout-in-read"
                    steps.append(["X", dead])
                    continue
                steps.append([res, view] if res == "T" else [res, view, err])
            files = list(rec.ih5_files)
            if final_stages and not dead:
                try:
                    rec.commit_patch()
                    final.append(["final-commit", read(rec)])
                    rec.close()
                    for stage, arg in (("reopen-by-name", d / "rec"), ("reopen-by-files", files)):
                        rec = cls(arg, "r")
                        final.append([stage, read(rec)])
                        rec.close()
                except Exception as e:  # noqa: BLE001
                    final.append(["final-error", ["READ-ERROR", f"{type(e).__name__}: {e}"[:200]]])
            rec.close()
            raw = [dump_raw(f) for f in files] if not dead else None
        finally:
            try:
                rec.close()
            except Exception:  # noqa: BLE001
                pass
    return {"steps": steps, "raw": raw, "final": final}


def exec_h5(ops) -> Dict[str, Any]:
    """Run the same history (boundaries ignored) on a plain h5py.File: the reference."""
    import h5py
    steps = []
    with vlib.workdir("h5") as d:
        with h5py.File(d / "plain.h5", "w") as f:
            for op in ops:
                if op[0] in ("bnd", "reopen"):
                    res = "T"
                else:
                    try:
                        apply_op(f, op)
                        res = "T"
                    except Exception:  # noqa: BLE001
                        res = "F"
                steps.append([res, dump_view(f)])
    return {"steps": steps}


# ---------------------------------------------------------------------------- generation

class Shadow:
    """Cheap Python shadow of the plain tree, only to bias generation towards valid operations."""

    def __init__(self):
        self.nodes: Dict[Tuple[str, ...], str] = {}   # path -> "G"/"D"
        self.attrs: Dict[Tuple[str, ...], set] = {(): set()}

    def groups(self):
        return [()] + [p for p, k in self.nodes.items() if k == "G"]

    def existing(self):
        return list(self.nodes)

    def fresh_path(self, rng: random.Random, maxdepth=4, keys=None):
        keys = keys or KEYS
        g = rng.choice(self.groups())
        path = list(g)
        for _ in range(rng.choice([1, 1, 1, 2, 3])):
            path.append(rng.choice(keys))
            if len(path) >= maxdepth:
                break
        return path

    def apply(self, op):
        k = op[0]
        if k in ("grp", "set"):
            p = tuple(op[1])
            if p in self.nodes or not p:
                return
            for i in range(1, len(p)):
                if self.nodes.get(p[:i]) == "D":
                    return
            for i in range(1, len(p)):
                self.nodes.setdefault(p[:i], "G")
                self.attrs.setdefault(p[:i], set())
            self.nodes[p] = "G" if k == "grp" else "D"
            self.attrs[p] = set()
        elif k == "del":
            p = tuple(op[1])
            if p in self.nodes:
                for q in [q for q in self.nodes if q[:len(p)] == p]:
                    del self.nodes[q]
                    self.attrs.pop(q, None)
        elif k == "aset":
            p = tuple(op[1])
            if p in self.attrs:
                self.attrs[p].add(op[2])
        elif k == "adel":
            p = tuple(op[1])
            if p in self.attrs:
                self.attrs[p].discard(op[2])
        elif k in ("copy", "move"):
            s, d = tuple(op[1]), tuple(op[2])
            if s not in self.nodes or d in self.nodes or not d:
                return
            for i in range(1, len(d)):
                if self.nodes.get(d[:i]) == "D":
                    return
            sub = {q: v for q, v in self.nodes.items() if q[:len(s)] == s}
            suba = {q: set(v) for q, v in self.attrs.items() if q[:len(s)] == s}
            for i in range(1, len(d)):
                self.nodes.setdefault(d[:i], "G")
                self.attrs.setdefault(d[:i], set())
            for q, v in sub.items():
                self.nodes[d + q[len(s):]] = v
            for q, v in suba.items():
                self.attrs[d + q[len(s):]] = v
            if k == "move":
                for q in sub:
                    self.nodes.pop(q, None)
                    self.attrs.pop(q, None)


def gen_history(rng: random.Random, nops: int, p_bnd=0.18, allow_copy=True, allow_self_copy=True,
                keys=None, attr_keys=None, prefix=None, values=None) -> List[Any]:
    """Random history biased towards valid operations.  Optional: key alphabets, a prefix of
    operations to continue from (counted in nops), the value pool."""
    keys = keys or KEYS
    attr_keys = attr_keys or ATTR_KEYS
    values = values or VALUE_POOL
    sh = Shadow()
    ops: List[Any] = []
    for op in prefix or []:
        ops.append(op)
        sh.apply(op)
    val = lambda: rng.choice(values)  # noqa: E731
    while len(ops) < nops:
        r = rng.random()
        if r < p_bnd:
            op = ["bnd"]
        else:
            ex = sh.existing()
            kind = rng.choices(
                ["set", "grp", "del", "aset", "adel", "copy", "move", "bad"],
                [24, 14, 16, 12, 6, 8 if allow_copy else 0, 6 if allow_copy else 0, 8])[0]
            if kind == "set":
                op = ["set", sh.fresh_path(rng, keys=keys), val()]
            elif kind == "grp":
                op = ["grp", sh.fresh_path(rng, keys=keys)]
            elif kind == "del" and ex:
                op = ["del", list(rng.choice(ex))]
            elif kind == "aset":
                holder = list(rng.choice(ex + [()])) if ex else []
                op = ["aset", holder, rng.choice(attr_keys), val()]
            elif kind == "adel":
                cands = [(p, k) for p, ks in sh.attrs.items() for k in ks]
                if not cands:
                    continue
                p, k = rng.choice(cands)
                op = ["adel", list(p), k]
            elif kind in ("copy", "move") and ex:
                s = list(rng.choice(ex))
                d = sh.fresh_path(rng, keys=keys)
                if tuple(d[:len(s)]) == tuple(s):
                    if kind == "move" or not allow_self_copy:
                        continue   # moving into own subtree is excluded by the property
                op = [kind, s, d]
            elif kind == "bad":
                # malformed stream: missing targets, existing targets, below datasets
                ds = [p for p, k in sh.nodes.items() if k == "D"]
                choice = rng.randrange(6)
                if choice == 0:
                    op = ["del", sh.fresh_path(rng, keys=keys)]
                elif choice == 1 and ex:
                    op = ["set", list(rng.choice(ex)), val()]
                elif choice == 2 and ex:
                    op = ["grp", list(rng.choice(ex))]
                elif choice == 3 and ds:
                    op = [rng.choice(["set", "grp"]), list(rng.choice(ds)) + [rng.choice(keys)]]
                    if op[0] == "set":
                        op.append(val())
                elif choice == 4:
                    op = ["adel", list(rng.choice(ex)) if ex else [], "nope"]
                elif choice == 5 and len(ex) >= 2:
                    op = ["copy", list(rng.choice(ex)), list(rng.choice(ex))]
                else:
                    continue
            else:
                continue
        ops.append(op)
        sh.apply(op)
    return ops


def pattern_histories() -> List[List[Any]]:
    """Targeted shapes the property names explicitly."""
    H = []
    # replace-then-touch over three containers
    H.append([["set", ["a", "old"], "i:1"], ["bnd"], ["del", ["a"]], ["grp", ["a"]], ["set", ["a", "new"], "i:2"],
              ["bnd"], ["set", ["a", "touch"], "i:3"], ["bnd"], ["aset", ["a"], "k", "i:4"]])
    H.append([["set", ["a", "old"], "i:1"], ["aset", ["a"], "k", "i:9"], ["bnd"], ["del", ["a"]], ["set", ["a"], "i:5"],
              ["bnd"], ["aset", ["a"], "m", "i:3"], ["bnd"], ["del", ["a"]], ["grp", ["a", "b"]], ["bnd"], ["set", ["a", "c"], "i:1"]])
    # create below a deleted ancestor
    H.append([["set", ["a", "q"], "i:1"], ["bnd"], ["del", ["a"]], ["bnd"], ["grp", ["a", "b", "c"]], ["set", ["a", "b", "c", "d"], "i:2"]])
    H.append([["set", ["a", "q"], "i:1"], ["bnd"], ["del", ["a"]], ["grp", ["a", "b", "c"]], ["bnd"], ["set", ["a", "z"], "i:2"]])
    H.append([["set", ["a", "q"], "i:1"], ["bnd"], ["del", ["a"]], ["bnd"], ["set", ["a", "b", "c"], "i:2"], ["bnd"], ["set", ["a", "b", "d"], "i:3"]])
    # copy of a group into its own subtree
    H.append([["set", ["a", "x"], "i:1"], ["set", ["a", "g", "y"], "i:2"], ["aset", ["a"], "k", "i:5"], ["copy", ["a"], ["a", "sub"]]])
    H.append([["set", ["a", "x"], "i:1"], ["bnd"], ["set", ["a", "g", "y"], "i:2"], ["bnd"], ["copy", ["a"], ["a", "g", "sub"]],
              ["bnd"], ["del", ["a", "x"]], ["copy", ["a", "g"], ["a", "g", "sub", "deeper"]]])
    H.append([["set", ["a", "x"], "i:1"], ["bnd"], ["copy", ["a"], ["a", "n", "sub"]]])
    # attributes on datasets across patches, delete / recreate
    H.append([["set", ["d"], "i:1"], ["aset", ["d"], "k", "i:1"], ["bnd"], ["aset", ["d"], "m", "i:2"], ["bnd"],
              ["adel", ["d"], "k"], ["bnd"], ["del", ["d"]], ["set", ["d"], "i:3"], ["bnd"], ["aset", ["d"], "k", "i:4"]])
    H.append([["aset", [], "k", "i:1"], ["bnd"], ["adel", [], "k"], ["bnd"], ["aset", [], "k", "i:2"], ["aset", [], "m", "e:"]])
    # move chains
    H.append([["set", ["a", "x"], "i:1"], ["aset", ["a", "x"], "k", "i:2"], ["bnd"], ["move", ["a"], ["b", "c"]], ["bnd"],
              ["move", ["b", "c", "x"], ["a"]], ["bnd"], ["set", ["b", "c", "y"], "i:3"]])
    # delete and recreate in the same patch, then across
    H.append([["grp", ["a"]], ["bnd"], ["del", ["a"]], ["grp", ["a"]], ["del", ["a"]], ["set", ["a"], "i:1"], ["bnd"], ["del", ["a"]], ["bnd"], ["grp", ["a", "a"]]])
    return H


# ---------------------------------------------------------------------------- synthetic raw stacks

def gen_raw_stack(rng: random.Random, keys=None, attr_keys=None, maxc=5) -> List[List[Any]]:
    """Containers generated directly in the raw representation of the model (oldest first; each a
    sorted list of [path, "G", "T"/"F"] / [path, "D", val] / [path, "DEL"], attributes as a last
    segment "@k").  Every container is a well-formed single HDF5 file (parents of its entries are
    groups of the same container); across containers anything goes, so that stacks violating the
    write path's invariant (virtual groups over markers or datasets, markers over nothing, ...)
    occur as well as well-behaved ones."""
    keys = keys or KEYS[:3]
    attr_keys = attr_keys or ATTR_KEYS[:2]
    conts = []
    for ci in range(rng.randint(1, maxc)):
        c: Dict[Tuple[str, ...], List[Any]] = {}
        for _ in range(rng.randint(0, 6)):
            depth = rng.choice([1, 1, 2, 2, 3])
            p = tuple(rng.choice(keys) for _ in range(depth))
            ok = True
            for i in range(1, depth):
                e = c.get(p[:i])
                if e is None:
                    c[p[:i]] = ["G", "F" if (ci == 0 or rng.random() < 0.75) else "T"]
                elif e[0] != "G":
                    ok = False
                    break
            if not ok or p in c:
                continue
            r = rng.random()
            if r < 0.30:
                c[p] = ["D", rng.choice(VALUE_POOL[:6])]
            elif r < 0.50 and ci > 0:
                c[p] = ["DEL"]
            elif r < 0.72:
                c[p] = ["G", "T"]
            else:
                c[p] = ["G", "F"]
        for holder in [()] + [p for p, e in c.items() if e[0] != "DEL"]:
            if rng.random() < 0.3:
                k = rng.choice(attr_keys)
                c[holder + ("@" + k,)] = ["D", rng.choice(VALUE_POOL[:6])] if (ci == 0 or rng.random() < 0.65) else ["DEL"]
        conts.append(sorted([[list(p)] + e for p, e in c.items()], key=lambda x: x[0]))
    return conts


def exec_raw_stack(conts, op_timeout=30) -> Dict[str, Any]:
    """Write the containers with raw h5py calls into the (uncommitted) newest container file of
    a real IH5Record, committing between them, then read the record through the overlay."""
    import h5py
    import numpy as np
    from metador_core.ih5.container import IH5Record
    DEL = np.void(b"\x7f")
    with vlib.workdir("ih5raw") as d:
        rec = IH5Record(d / "rec", "w")
        try:
            for i, cont in enumerate(conts):
                if i > 0:
                    rec.commit_patch()
                    rec.create_patch()
                f = rec.__files__[-1]
                for e in sorted(cont, key=lambda e: len(e[0])):
                    path, kind = e[0], e[1]
                    if path[-1].startswith("@"):
                        node = f["/" + "/".join(path[:-1])] if len(path) > 1 else f
                        node.attrs[path[-1][1:]] = DEL if kind == "DEL" else dec(e[2])
                    elif kind == "G":
                        g = f.create_group("/" + "/".join(path))
                        if e[2] == "T":
                            g.attrs[SUBST_KEY] = h5py.Empty(None)
                    else:
                        f["/" + "/".join(path)] = DEL if kind == "DEL" else dec(e[2])
            try:
                with hard_time_limit(op_timeout):
                    view = dump_view(rec)
            except vlib.CaseTimeout:
                view = ["READ-TIMEOUT"]
            except Exception as e:  # noqa: BLE001
                view = ["READ-ERROR", f"{type(e).__name__}: {e}"[:200]]
            files = list(rec.ih5_files)
            rec.close()
            raw = [dump_raw(f) for f in files]
        finally:
            try:
                rec.close()
            except Exception:  # noqa: BLE001
                pass
    return {"view": view, "raw": raw}
