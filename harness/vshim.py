"""numpy aliases needed to import pint 0.21 / bokeh with numpy >= 2 (harness side only,
never in /repo).  Import this module before anything from metador_core."""
import warnings

warnings.filterwarnings("ignore")
import numpy as _np  # noqa: E402

_ALIASES = {
    "cumproduct": "cumprod", "bool8": "bool_", "product": "prod", "sometrue": "any",
    "alltrue": "all", "float_": "float64", "complex_": "complex128", "unicode_": "str_",
    "round_": "round", "in1d": "isin", "row_stack": "vstack", "trapz": "trapezoid",
    "NaN": "nan", "Inf": "inf", "object0": "object_", "int0": "intp", "uint0": "uintp",
    "string_": "bytes_", "float96": "longdouble", "float128": "longdouble",
}
for _new, _old in _ALIASES.items():
    if not hasattr(_np, _new) and hasattr(_np, _old):
        try:
            setattr(_np, _new, getattr(_np, _old))
        except Exception:  # pragma: no cover
            pass
