"""Crash states of patching histories (C11): replaying histories on real IH5Record /
IH5MFRecord objects with directory snapshots between API calls, synthesising every torn
user-block write and partially written manifest, SIGKILL of a forked writer, and the
property's oracle evaluated with the real code on each crash state.

A *crash state* is a dict name -> bytes of all files of the record directory.
Everything lives below caller-provided scratch directories; /repo is never touched.
"""
from __future__ import annotations

import base64
import gc
import hashlib
import json
import os
import random
import signal
import time
from pathlib import Path
from typing import Any, Dict, List, Optional, Tuple

import reclib
import vlib

UB = reclib.UB_SIZE
REC = "rec"


def sha(b: bytes) -> str:
    return hashlib.sha256(b).hexdigest()


def cls_of(name: str):
    from metador_core.ih5.container import IH5MFRecord, IH5Record
    return IH5MFRecord if name == "IH5MFRecord" else IH5Record


def snapshot(d: Path) -> Dict[str, bytes]:
    return {p.name: p.read_bytes() for p in sorted(d.iterdir()) if p.is_file()}


def container_names(state: Dict[str, bytes]) -> List[str]:
    """Container files in creation order: rec.ih5, rec.p1.ih5, rec.p2.ih5, ..."""
    def key(n):
        if n == f"{REC}.ih5":
            return 0
        return int(n[len(REC) + 2:-4])
    return sorted((n for n in state if n.endswith(".ih5")), key=key)


def written_bytes(block: bytes) -> bytes:
    """What IH5UserBlock.save writes: the text and one NUL byte."""
    return block[:reclib.text_len(block) + 1]


def torn(k: int, old: bytes, new: bytes) -> bytes:
    return new[:k] + old[k:]


def block_text(block: bytes) -> Optional[str]:
    """The text IH5UserBlock.load hands to json.loads, by the documented layout (harness reader);
    None when the head of the block is not readable."""
    try:
        head = reclib._read_head_raw(block, 512)
        if head is None:
            return None
        if head[0] > 512:
            head = reclib._read_head_raw(block, head[0])
            if head is None:
                return None
    except (UnicodeDecodeError, ValueError):
        return None
    return head[1]


def real_json_verdict(text: str) -> List[bool]:
    """[json.loads accepts, ... and the value is an object]"""
    try:
        v = json.loads(text)
    except ValueError:
        return [False, False]
    return [True, isinstance(v, dict)]


def pieces(b: bytes) -> List[Any]:
    """Wire form of a block for the model: text atoms, ["n"] newline, ["z", k] k NUL bytes."""
    out: List[Any] = []
    i, n = 0, len(b)
    while i < n:
        c = b[i]
        if c == 0:
            j = i
            while j < n and b[j] == 0:
                j += 1
            out.append(["z", j - i])
            i = j
        elif c == 10:
            out.append(["n"])
            i += 1
        else:
            j = i
            while j < n and b[j] not in (0, 10):
                j += 1
            seg = b[i:j]
            if any(x < 32 or x > 126 for x in seg):
                raise ValueError("non-printable byte in user block text")
            out.append(seg.decode("ascii"))
            i = j
    return out


# ---------------------------------------------------------------------------- real code on a state

_scratch: Optional[Path] = None
_nopen = 0


def _scratch_dir(root: str) -> Path:
    global _scratch
    if _scratch is None or _scratch.parent != Path(root) or not _scratch.is_dir():
        _scratch = Path(root) / f"s{os.getpid()}"
        _scratch.mkdir(parents=True, exist_ok=True)
    for p in _scratch.iterdir():
        p.unlink()
    return _scratch


def open_state(cls_name: str, state: Dict[str, bytes], root: str, want_view: bool = True,
               limit: int = 60) -> Dict[str, Any]:
    """Write the state into a scratch directory and open it with the real code.
    -> {"st": "refused", "exc": ...} | {"st": "timeout"} |
       {"st": "open", "pids": [...], "hashes": [...], "view": dump | None, "view_exc": ...}"""
    import ih5lib
    global _nopen
    _nopen += 1
    if _nopen % 300 == 0:
        gc.collect()
    d = _scratch_dir(root)
    for n, b in state.items():
        (d / n).write_bytes(b)
    cls = cls_of(cls_name)
    rec = None
    out: Dict[str, Any]
    try:
        with vlib.time_limit(limit):
            rec = cls(d / REC, "r")
            meta = rec.ih5_meta
            out = {"st": "open", "pids": [str(m.patch_uuid) for m in meta],
                   "hashes": [None if m.hdf5_hashsum is None else str(m.hdf5_hashsum) for m in meta],
                   "view": None}
            # what the newest user block links to: extension section and (MF class) the manifest
            mfo = getattr(rec, "_manifest", None)
            out["meta"] = {"exts": json.loads(json.dumps(meta[-1].ub_exts, default=str, sort_keys=True)),
                           "manifest": None if mfo is None else json.loads(mfo.json())}
            if want_view:
                try:
                    out["view"] = ih5lib.dump_view(rec)
                except vlib.CaseTimeout:
                    raise
                except Exception as e:  # noqa: BLE001
                    out["view_exc"] = f"{type(e).__name__}: {e}"[:160]
    except vlib.CaseTimeout:
        out = {"st": "timeout"}
    except BaseException as e:  # noqa: BLE001
        if isinstance(e, (KeyboardInterrupt, SystemExit)):
            raise
        out = {"st": "refused", "exc": f"{type(e).__name__}: {e}"[:200], "exc_class": type(e).__name__}
    finally:
        try:
            if rec is not None:
                rec.close(commit=False)
        except Exception:  # noqa: BLE001
            pass
    return out


def newest_abs(state: Dict[str, bytes]) -> Dict[str, Any]:
    """Harness-side abstraction of the newest container of a state (independent reader)."""
    names = container_names(state)
    if not names:
        return {"ub": "absent", "dig": None, "mf": None, "parsed": None}
    n = names[-1]
    b = state[n]
    p = reclib.parse_ublock(b[:UB])
    if p["st"] == "ok":
        ubst = "uncommitted" if p["ub"]["hash"] is None else "committed"
    elif p["st"] == "bad":
        ubst = "none"
    else:
        ubst = "unsure"
    mfn = n + reclib.MF_SUFFIX
    mf = None
    if mfn in state:
        try:
            mid = str(json.loads(state[mfn])["manifest_uuid"])
        except Exception:  # noqa: BLE001
            mid = "?"
        mf = [mid, reclib.digest(state[mfn])]
    return {"ub": ubst, "dig": reclib.digest(b[UB:]), "mf": mf, "parsed": p.get("ub")}


# ---------------------------------------------------------------------------- the oracle

def _link_problem(cls_name: str, meta: Dict[str, Any], want: Optional[Dict[str, Any]]) -> Optional[str]:
    """The committed state includes what the newest user block links to: ub_exts (manifest uuid and
    hashsum, stub flag) and, for the manifest-aware class, the manifest with its manifest_exts."""
    if cls_name == "IH5MFRecord":
        if reclib.EXT_NAME not in meta["exts"] or meta["manifest"] is None:
            return "the newest user block carries no manifest link / no manifest is loaded"
    if want is not None and meta != want:
        return "ub_exts / manifest differ from those of the committed state"
    return None


def oracle(cls_name: str, state: Dict[str, bytes], committed: List[Dict[str, Any]],
           next_view: Optional[List[Any]], root: str, check_alone: bool,
           clean_payload: bool, next_meta: Optional[Dict[str, Any]] = None) -> Dict[str, Any]:
    """The property on one crash state, with the real code only.

    committed: per committed container {"name", "sha", "mf_name", "mf_sha", "pid"} in order, and
    committed[-1]["view"] = the dump shown at that commit.  next_view: the dump of the state
    the round in progress commits (None if unknown).  clean_payload: the newest payload is a
    closed HDF5 file (synthesised states), so "unreadable container" is not an excuse.
    -> {"ok": bool, "why": ..., "class": refused|uncommitted|committed|committed-next, "n": files}"""
    res: Dict[str, Any] = {"ok": True, "why": None}
    # (a) committed files byte-identical
    for c in committed:
        if c["name"] not in state or sha(state[c["name"]]) != c["sha"]:
            return {"ok": False, "why": f"committed container {c['name']} changed or missing", "class": "?"}
        if c.get("mf_name"):
            if c["mf_name"] not in state or sha(state[c["mf_name"]]) != c["mf_sha"]:
                return {"ok": False, "why": f"committed sidecar {c['mf_name']} changed or missing", "class": "?"}
    last_view = committed[-1]["view"] if committed else None
    # (b) on their own they open and show the last committed state
    if committed and check_alone:
        keep = {}
        for c in committed:
            keep[c["name"]] = state[c["name"]]
            if c.get("mf_name"):
                keep[c["mf_name"]] = state[c["mf_name"]]
        r = open_state(cls_name, keep, root)
        if r["st"] == "timeout":
            r = open_state(cls_name, keep, root, limit=240)
        res["alone"] = r["st"]
        if r["st"] != "open":
            return {"ok": False, "why": f"committed containers alone do not open: {r.get('exc')}", "class": "?"}
        if r["pids"] != [c["pid"] for c in committed] or any(h is None for h in r["hashes"]):
            return {"ok": False, "why": "committed containers alone open as another chain", "class": "?"}
        if r["view"] != last_view:
            return {"ok": False, "why": "committed containers alone show another state than the last committed one "
                    f"({r.get('view_exc')})", "class": "?"}
    # (c) the whole set
    r = open_state(cls_name, state, root)
    if r["st"] == "timeout":
        r = open_state(cls_name, state, root, limit=240)
    if r["st"] == "timeout":
        return {"ok": True, "why": "timeout", "class": "timeout", "n": 0}
    if r["st"] == "refused":
        res.update({"class": "refused", "n": 0, "exc": r["exc"], "exc_class": r["exc_class"]})
        return res
    nc = len(committed)
    pids, hashes = r["pids"], r["hashes"]
    res["n"] = len(pids)
    if pids[:nc] != [c["pid"] for c in committed]:
        return {"ok": False, "why": "opened chain does not start with the committed containers", "class": "?", "n": len(pids)}
    if any(h is None for h in hashes[:-1]):
        return {"ok": False, "why": "a container below the newest is uncommitted", "class": "?", "n": len(pids)}
    if hashes[-1] is None:
        res["class"] = "uncommitted"
        if len(pids) != nc + 1:
            return {"ok": False, "why": f"uncommitted newest container but {len(pids)} containers for {nc} committed",
                    "class": "uncommitted", "n": len(pids)}
        if r["view"] is None:
            res["unreadable_view"] = r.get("view_exc")
            if clean_payload:
                return {"ok": False, "why": f"set with a closed newest container opens but cannot be read: {r.get('view_exc')}",
                        "class": "uncommitted", "n": len(pids)}
        return res
    # everything is marked committed
    if len(pids) == nc:
        res["class"] = "committed"
        if r["view"] != last_view:
            return {"ok": False, "why": "opens cleanly as the committed containers but shows another state "
                    f"({r.get('view_exc')})", "class": "committed", "n": len(pids)}
        lp = _link_problem(cls_name, r["meta"], committed[-1].get("meta"))
        if lp:
            return {"ok": False, "why": "opens cleanly as the committed containers but " + lp,
                    "class": "committed", "n": len(pids)}
        return res
    if len(pids) == nc + 1:
        res["class"] = "committed-next"
        if next_view is not None and r["view"] != next_view:
            return {"ok": False, "why": "opens cleanly with the new container marked committed but does not show the state "
                    f"that commit wrote ({r.get('view_exc')})", "class": "committed-next", "n": len(pids)}
        lp = _link_problem(cls_name, r["meta"], next_meta)
        if lp:
            return {"ok": False, "why": "opens cleanly with the new container marked committed, a state that was never "
                    "committed: " + lp, "class": "committed-next", "n": len(pids)}
        return res
    return {"ok": False, "why": f"opens cleanly with {len(pids)} containers, {nc} committed", "class": "?", "n": len(pids)}


def freeze_state(state: Dict[str, bytes]) -> Dict[str, str]:
    return {n: base64.b64encode(b).decode() for n, b in state.items()}


def thaw_state(fr: Dict[str, str]) -> Dict[str, bytes]:
    return {n: base64.b64decode(b) for n, b in fr.items()}


# ---------------------------------------------------------------------------- histories

def gen_rounds(rng: random.Random, nrounds: int, lo: int = 2, hi: int = 5) -> List[List[Any]]:
    """nrounds lists of write operations (round 0 fills the base container)."""
    import ih5lib
    rounds = []
    for i in range(nrounds):
        ops = ih5lib.gen_history(rng, rng.randint(lo, hi), p_bnd=0.0, allow_copy=True, allow_self_copy=False)
        ops.append(["set", [f"own{i}"], rng.choice(ih5lib.VALUE_POOL)])
        if rng.random() < 0.4:
            ops.append(["set", ["blob", f"b{i}"], "v:" + bytes(rng.randrange(256) for _ in range(rng.randint(1, 900))).hex()])
        rounds.append(ops)
    return rounds


def _apply(rec, op):
    import ih5lib
    try:
        with vlib.time_limit(30):
            ih5lib.apply_op(rec, op)
    except vlib.CaseTimeout:
        raise
    except Exception:  # noqa: BLE001
        pass


def _committed_entry(state: Dict[str, bytes], name: str, view, meta=None) -> Dict[str, Any]:
    p = reclib.parse_ublock(state[name][:UB])
    mfn = name + reclib.MF_SUFFIX
    e = {"name": name, "sha": sha(state[name]), "pid": p["ub"]["pid"] if p["st"] == "ok" else None,
         "mf_name": mfn if mfn in state else None, "mf_sha": sha(state[mfn]) if mfn in state else None,
         "view": view}
    if meta is not None:
        e["meta"] = meta
    return e


class _SpyFile:
    """File object that reports every write() (offset, bytes) with the directory before and after."""

    def __init__(self, f, spy, name):
        self._f, self._spy, self._name = f, spy, name

    def __enter__(self):
        return self

    def __exit__(self, *a):
        self._f.close()

    def __getattr__(self, k):
        return getattr(self._f, k)

    def __iter__(self):
        return iter(self._f)

    def write(self, data):
        self._f.flush()
        off = self._f.tell()
        before = self._spy.snap()
        n = self._f.write(data)
        self._f.flush()
        b = data if isinstance(data, (bytes, bytearray, memoryview)) else str(data).encode("utf-8")
        self._spy.add("write", self._name, before, data=bytes(b), offset=off, handle=id(self))
        return n


class Interceptor:
    """While active, every file-level write below `work` made from Python code is recorded with a
    snapshot of the directory before and after it: open() for writing (creation / truncation) and
    each write() through it, os.unlink / remove / rename / replace (hence the pathlib methods),
    h5py.File.close / flush of a writable container, and the entry/exit of IH5UserBlock.save and
    IH5Manifest.save (markers).  Nothing in /repo is changed; the patches are undone on exit."""

    def __init__(self, work: Path, api: str):
        self.work, self.api = Path(work), api
        self.prefix = str(Path(work).resolve()) + os.sep
        self.events: List[Dict[str, Any]] = []
        self._undo: List[Any] = []

    def snap(self):
        opener = self._orig_open
        return {p.name: opener(p, "rb").read() for p in sorted(self.work.iterdir()) if p.is_file()}

    def mine(self, path) -> Optional[str]:
        try:
            ap = os.path.abspath(os.fspath(path))
        except TypeError:
            return None
        if isinstance(ap, bytes):
            ap = ap.decode()
        return os.path.basename(ap) if (ap + os.sep).startswith(self.prefix) or ap.startswith(self.prefix) else None

    def add(self, kind, name, before, **kw):
        self.events.append(dict(kind=kind, name=name, before=before, after=self.snap(), api=self.api, **kw))

    def _patch(self, obj, attr, new):
        self._undo.append((obj, attr, getattr(obj, attr)))
        setattr(obj, attr, new)

    def __enter__(self):
        import builtins
        import io
        import h5py
        from metador_core.ih5.manifest import IH5Manifest
        from metador_core.ih5.record import IH5UserBlock
        spy = self
        self._orig_open = orig_open = builtins.open

        def spy_open(file, mode="r", *a, **kw):
            name = spy.mine(file) if not isinstance(file, int) else None
            writing = any(c in mode for c in "wax+")
            if name is None or not writing:
                return orig_open(file, mode, *a, **kw)
            before = spy.snap()
            f = orig_open(file, mode, *a, **kw)
            if any(c in mode for c in "wx"):
                spy.add("open-" + ("w" if "w" in mode else "x"), name, before)
            return _SpyFile(f, spy, name)

        self._patch(builtins, "open", spy_open)
        self._patch(io, "open", spy_open)

        def wrap_os(fn_name):
            orig = getattr(os, fn_name)

            def w(*a, **kw):
                names = [spy.mine(x) for x in a[:2] if isinstance(x, (str, bytes, os.PathLike))]
                names = [n for n in names if n]
                if not names:
                    return orig(*a, **kw)
                before = spy.snap()
                r = orig(*a, **kw)
                spy.add("os." + fn_name, "->".join(names), before)
                return r
            spy._patch(os, fn_name, w)

        for fn in ("unlink", "remove", "rename", "replace", "truncate"):
            wrap_os(fn)

        def wrap_h5(meth):
            orig = getattr(h5py.File, meth)

            def w(fobj, *a, **kw):
                name = None
                try:
                    if fobj.id.valid and fobj.mode == "r+":
                        name = spy.mine(fobj.filename)
                except Exception:  # noqa: BLE001
                    name = None
                if name is None:
                    return orig(fobj, *a, **kw)
                before = spy.snap()
                r = orig(fobj, *a, **kw)
                spy.add("h5" + meth, name, before)
                return r
            spy._patch(h5py.File, meth, w)

        wrap_h5("close")
        wrap_h5("flush")

        def wrap_save(klass, tag):
            orig = klass.save

            def w(obj, filename, *a, **kw):
                spy.events.append({"kind": tag + "-enter", "name": os.path.basename(str(filename)), "api": spy.api})
                r = orig(obj, filename, *a, **kw)
                spy.events.append({"kind": tag + "-exit", "name": os.path.basename(str(filename)), "api": spy.api})
                return r
            spy._patch(klass, "save", w)

        wrap_save(IH5UserBlock, "ubsave")
        wrap_save(IH5Manifest, "mfsave")
        return self

    def __exit__(self, *a):
        for obj, attr, old in reversed(self._undo):
            setattr(obj, attr, old)
        self._undo = []
        return False


def write_signature(events: List[Dict[str, Any]], newest: str) -> List[str]:
    """The sequence of file-level writes of one API call, names relative to the newest container:
    consecutive write()s through one handle are one item."""
    sig: List[str] = []
    last_handle = None
    for e in events:
        k = e["kind"]
        if k.endswith("-enter") or k.endswith("-exit"):
            continue
        nm = e["name"]
        role = "new" if nm == newest else ("new.mf" if nm == newest + reclib.MF_SUFFIX else nm)
        if k == "write":
            if e.get("handle") == last_handle:
                continue
            last_handle = e.get("handle")
            sig.append(f"write:{role}")
        else:
            last_handle = None
            sig.append(f"{k}:{role}")
    return sig


def intercepted_states(events: List[Dict[str, Any]], newest: str) -> List[Dict[str, Any]]:
    """Crash points inside an API call: the directory before and after every intercepted write, and
    every prefix of every write() into the user block of a container (bytes on disk at that moment
    vs bytes being written)."""
    out: List[Dict[str, Any]] = []
    closed = False
    for i, e in enumerate(events):
        if "before" not in e:
            continue
        tag = f"{e['api']}#{i}:{e['kind']}:{e['name']}"
        out.append({"label": f"in:{tag}:before", "state": e["before"], "clean": closed})
        if e["kind"] == "write" and e["name"].endswith(".ih5") and e["offset"] < UB:
            data, off = e["data"], e["offset"]
            old = e["before"][e["name"]]
            for k in range(1, len(data)):
                st = dict(e["before"])
                st[e["name"]] = old[:off] + data[:k] + old[off + k:]
                out.append({"label": f"in:{tag}:torn{k}", "state": st, "clean": closed, "torn": True})
        if e["kind"] == "h5close" and e["name"] == newest:
            closed = True
        out.append({"label": f"in:{tag}:after", "state": e["after"], "clean": closed})
    return out


def record_history(cls_name: str, rounds: List[List[Any]], work: Path) -> Dict[str, Any]:
    """Run the history with the real API; snapshot the directory at every API-call boundary.
    -> per round: snapshots + old/new user blocks of both user-block writes + dumps."""
    import ih5lib
    cls = cls_of(cls_name)
    for p in work.iterdir():
        p.unlink()
    out: List[Dict[str, Any]] = []
    with Interceptor(work, "create") as spy0:
        rec = cls(work / REC, "w")
    try:
        for i, ops in enumerate(rounds):
            rd: Dict[str, Any] = {"ops": ops}
            if i > 0:
                rd["before"] = snapshot(work)
                with Interceptor(work, "create") as spy:
                    rec.create_patch()
                rd["ev_create"] = spy.events
            else:
                rd["ev_create"] = spy0.events
            rd["created"] = snapshot(work)
            rd["writes"] = []
            for op in ops:
                _apply(rec, op)
                rd["writes"].append(snapshot(work))
            with vlib.time_limit(60):
                with Interceptor(work, "commit") as spy:
                    rec.commit_patch()
            rd["ev_commit"] = spy.events
            rd["after"] = snapshot(work)
            with vlib.time_limit(60):
                rd["view"] = ih5lib.dump_view(rec)
            out.append(rd)
    finally:
        try:
            rec.close(commit=False)
        except Exception:  # noqa: BLE001
            pass
    return {"cls": cls_name, "rounds": out}


def crash_states(cls_name: str, rd: Dict[str, Any], first: bool, torn_stride: int = 1,
                 ) -> List[Dict[str, Any]]:
    """All crash states of one round in micro-step order (the order of coq/Rec/Crash.v
    round_steps), each {"label", "state", "clean", "boundary"}.  The state before the round is
    not included.  Every prefix length of both user-block writes; manifests at three lengths."""
    mfm = cls_name == "IH5MFRecord"
    created, after = rd["created"], rd["after"]
    newest = container_names(after)[-1]
    mfn = newest + reclib.MF_SUFFIX
    base = {n: b for n, b in created.items()}            # directory right after create_patch
    blk0 = created[newest][:UB]                          # first user block
    w0 = written_bytes(blk0)
    zero = bytes(UB)
    res: List[Dict[str, Any]] = []

    def with_block(src: Dict[str, bytes], block: bytes, drop_mf: bool = False) -> Dict[str, bytes]:
        st = dict(src)
        st[newest] = block + src[newest][UB:]
        if drop_mf:
            st.pop(mfn, None)
        return st

    res.append({"label": "new", "state": with_block(base, zero), "clean": True})
    for k in range(1, len(w0) + 1):
        res.append({"label": f"ub1:{k}", "state": with_block(base, torn(k, zero, w0)), "clean": True, "k": k})
    res.append({"label": "created", "state": created, "clean": True, "boundary": True})
    for j, s in enumerate(rd["writes"]):
        res.append({"label": f"w:{j}", "state": s, "clean": False, "boundary": True})
    old = (rd["writes"][-1] if rd["writes"] else created)[newest][:UB]
    new = after[newest][:UB]
    w1 = written_bytes(new)
    closed = with_block(after, old, drop_mf=True)
    res.append({"label": "closed", "state": closed, "clean": True})
    for k in range(1, len(w1) + 1):
        res.append({"label": f"ub2:{k}", "state": with_block(after, torn(k, old, w1), drop_mf=True), "clean": True, "k": k})
    res.append({"label": "ubdone", "state": with_block(after, new, drop_mf=True), "clean": True})
    rd["blocks"] = {"zero": zero, "w0": w0, "old": old, "w1": w1}
    if mfm:
        mfb = after[mfn]
        cuts = sorted({0, len(mfb) // 2, len(mfb) - 1})
        rd["mf_cuts"] = cuts
        for c in cuts:
            st = dict(after)
            st[mfn] = mfb[:c]
            res.append({"label": f"mf:{c}", "state": st, "clean": True})
        res.append({"label": "done", "state": after, "clean": True, "boundary": True})
    else:
        res[-1]["boundary"] = True
    return res


# ---------------------------------------------------------------------------- SIGKILL of a writer

class _KillingFile:
    """File object that lets the first write through only up to k bytes, then SIGKILLs the process."""

    def __init__(self, f, k):
        self.f, self.k = f, k

    def __enter__(self):
        return self

    def __exit__(self, *a):
        self.f.close()

    def read(self, *a):
        return self.f.read(*a)

    def seek(self, *a):
        return self.f.seek(*a)

    def flush(self):
        return self.f.flush()

    def write(self, data):
        self.f.write(data[:self.k])
        self.f.flush()
        os.kill(os.getpid(), signal.SIGKILL)


def _install_injection(inject):
    """inject = (kind, s, k): the s-th file opened for writing by ih5/record.py (kind "ub": the
    user-block writes of create_patch / commit_patch, in order) or by ih5/manifest.py (kind "mf":
    the manifest writes) dies after k bytes of its first write()."""
    import builtins
    import metador_core.ih5.manifest as M
    import metador_core.ih5.record as R
    kind, s, k = inject
    count = {"n": 0}

    def fake_open(path, mode="r", *a, **kw):
        f = builtins.open(path, mode, *a, **kw)
        if mode in ("r+b", "wb"):
            n = count["n"]
            count["n"] += 1
            if n == s:
                return _KillingFile(f, k)
        return f

    (R if kind == "ub" else M).open = fake_open


def _writer(cls_name: str, work: Path, rounds: List[List[Any]], log: Path, pause: float, inject=None):
    """Child process: continue the record in `work` with the given rounds, logging commits."""
    cls = cls_of(cls_name)
    if inject:
        _install_injection(inject)
    fd = os.open(str(log), os.O_WRONLY | os.O_CREAT | os.O_APPEND)

    def say(s):
        os.write(fd, (f"{s} @{time.time():.6f}\n").encode())

    rec = cls(work / REC, "r+")     # creates the next patch
    say("OPENED")
    for i, ops in enumerate(rounds):
        if i > 0:
            rec.create_patch()
            say(f"CREATED {i}")
        for op in ops:
            _apply(rec, op)
            if pause:
                time.sleep(pause)
        say(f"COMMITTING {i}")
        rec.commit_patch()
        names = container_names(snapshot(work))
        say(f"COMMITTED {i} {names[-1]}")
    rec.close()
    say("CLOSED")


def kill_run(cls_name: str, base_state: Dict[str, bytes], rounds: List[List[Any]], work: Path,
             delay: Optional[float], pause: float = 0.0, inject=None) -> Dict[str, Any]:
    """Materialise base_state in `work`, fork a writer, SIGKILL it after `delay` seconds (None:
    let it finish).  -> {"state", "log", "killed", "elapsed"}"""
    for p in work.iterdir():
        p.unlink()
    for n, b in base_state.items():
        (work / n).write_bytes(b)
    log = work.parent / f"log{os.getpid()}.txt"
    if log.exists():
        log.unlink()
    t0 = time.time()
    pid = os.fork()
    if pid == 0:
        code = 0
        try:
            signal.alarm(0)
            _writer(cls_name, work, rounds, log, pause, inject)
        except BaseException:  # noqa: BLE001
            code = 3
        finally:
            os._exit(code)
    killed = False
    if delay is None:
        _, status = os.waitpid(pid, 0)
    else:
        deadline = t0 + delay
        status = None
        while True:
            r, st = os.waitpid(pid, os.WNOHANG)
            if r == pid:
                status = st
                break
            if time.time() >= deadline:
                os.kill(pid, signal.SIGKILL)
                _, status = os.waitpid(pid, 0)
                killed = True
                break
            time.sleep(0.0005)
    if status is not None and os.WIFSIGNALED(status):
        killed = True
    elapsed = time.time() - t0
    state = snapshot(work)
    lines = log.read_text().splitlines() if log.exists() else []
    if log.exists():
        log.unlink()
    return {"state": state, "log": lines, "killed": killed, "elapsed": elapsed,
            "status": status, "t0": t0}
