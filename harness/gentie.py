"""Generated tie: part of the model is regenerated from the source under test on every run.

For the small pure functions of /repo (PluginRef operators, container path helpers, entry
point names, record file names, hashsum prefix, the per-container chain checks `_check_ublock`,
`DiffNode.status`) `tools/py2coq.py` translates the *current*
Python source (``$VERIF_REPO/src/...``) into Gallina (``build/gen/Gen_<target>.v``), and the
committed ``coq/Gen/Equiv_<target>.v`` -- compiled against that generated text -- proves the
translated functions equal, for all inputs, to the hand model's functions the property
theorems are about, and restates those theorems for the translated code.

    check_gen(pid) -> dict      translate (fail-closed), coqc generated + equivalence file
    report(ctx, gen)            evidence + VIOLATION routing, called at the end of a check's run()

A refusal of the translator, a generated file that does not compile, an equivalence theorem
that no longer checks or is no longer closed is a broken tie: `report` prints a VIOLATION ending
in no-failing-input-found and naming the theorem -- unless the property's own failing-input
search has already reported a concrete input.
"""
from __future__ import annotations

import contextlib
import hashlib
import json
import os
import re
import shutil
import subprocess
import sys
import time
from pathlib import Path
from typing import Any, Dict, List, Optional

import vlib

sys.path.insert(0, str(vlib.VERIF / "tools"))
import py2coq  # noqa: E402

GEN = vlib.BUILD / "gen"
EQUIV = vlib.COQ / "Gen"
SEMVER = "Tuple[N,N,N]"

TARGETS: Dict[str, Dict[str, Any]] = {
    "plugins": {
        "source": "src/metador_core/schema/plugins.py",
        "header": "From MV Require Import Util.PluginRef.\n",
        "records": {"PluginRef": {"coq": "ref", "fields": {
            "group": ("rgroup", "str"), "name": ("rname", "str"), "version": ("rver", SEMVER)}}},
        "abstract": ["H"], "opaque": {"hash": {"ret": "H"}},
        "functions": [{"py": "PluginRef.__eq__", "params": {"other": "PluginRef"}},
                      {"py": "PluginRef.__ge__", "params": {"other": "PluginRef"}},
                      {"py": "PluginRef.__hash__"},
                      {"py": "PluginRef.supports", "params": {"other": "PluginRef"}}],
        "model": "coq/Util/PluginRef.v (r_eq, r_ge, r_hash, supports)",
    },
    "utils": {
        "source": "src/metador_core/container/utils.py",
        "functions": [{"py": "is_internal_path"}, {"py": "is_meta_base_path"},
                      {"py": "to_meta_base_path"}, {"py": "to_data_node_path"}],
        "constants": ["METADOR_TOC_PATH", "METADOR_VERSION_PATH", "METADOR_UUID_PATH",
                      "METADOR_PACKAGES_PATH", "METADOR_SCHEMAS_PATH", "METADOR_LINKS_PATH"],
        "model": "coq/Toc/Layout.v (is_internal_path[_pref], is_meta_base_path, to_meta_base_path, to_data_node_path, constants)",
    },
    "types": {
        "source": "src/metador_core/plugin/types.py",
        "aliases": {"SemVerTuple": SEMVER, "EPName": "str", "EPGroupName": "str", "SemVerStr": "str"},
        "casts": {"EPName": "phantom FullMatch type: returns its argument (or raises; not modelled)",
                  "EPGroupName": "phantom FullMatch type: returns its argument (or raises; not modelled)",
                  "SemVerStr": "phantom FullMatch type: returns its argument (or raises; not modelled)"},
        "functions": [{"py": "to_semver_str"}, {"py": "to_ep_name"},
                      {"py": "is_metador_ep_group", "params": {"ep_group_name": "str"}},
                      {"py": "to_ep_group_name"}, {"py": "from_ep_group_name"}],
        "outside_subset": ["from_semver_str", "from_ep_name"],
        "model": "coq/Util/PluginRef.v (semver_str, to_ep_name)",
    },
    "record": {
        "source": "src/metador_core/ih5/record.py",
        "header": ("Definition py_path_str (p : string) : string := p.\n"
                   "Definition py_path_name (p : string) : string := List.last (py_split p \"/\") \"\".\n"),
        "records": {"Path": {"coq": "string", "str": "py_path_str", "fields": {"name": ("py_path_name", "str")}}},
        "casts": {"Path": "pathlib.Path(s) read as the string s (exact for normalised paths)"},
        "functions": [{"py": "IH5Record._base_filename", "ret": "str"}, {"py": "IH5Record._infer_name"}],
        "outside_subset": ["IH5Record._is_valid_record_name", "IH5Record._next_patch_filepath"],
        "model": "coq/Rec/Names.v (base_filename, infer_name)",
    },
    "hashsums": {
        "source": "src/metador_core/util/hashsums.py",
        "abstract": ["Bytes"], "opaque": {"hashsum": {"ret": "str"}},
        "records": {
            "Hasher": {"coq": "HS", "fields": {"block_size": ("py_block_size", "int")},
                       "mutators": {"update": ("py_update", ["bytes"])},
                       "methods": {"hexdigest": ("py_hexdigest", "str")}},
            "HashCtor": {"coq": "HC", "fields": {}, "call": ("py_hash_new", "Hasher")},
        },
        "dicts": {"_hash_alg": {"coq": "py_hash_alg", "key": "str", "value": "HashCtor",
                                "why": "the table of supported hashlib constructors"}},
        "functions": [
            {"py": "qualified_hashsum", "params": {"data": "Bytes"}},
            {"py": "hashsum", "params": {"data": "stream", "alg": "str"}, "ret": "str",
             "binders": ("(HS HC : Type) (py_block_size : HS -> Z) (py_update : HS -> list ascii -> HS) "
                         "(py_hexdigest : HS -> string) (py_hash_new : HC -> HS) (py_hash_alg : string -> option HC)"),
             "rewrites": [{"alts": [{"from": "if isinstance(data, bytes):\n    data = BytesIO(data)", "to": "pass"},
                                    {"from": "data = BytesIO(data) if isinstance(data, bytes) else data", "to": "pass"},
                                    {"from": "stream = BytesIO(data) if isinstance(data, bytes) else data", "to": "stream = data"}],
                           "why": "a bytes argument is wrapped into a stream; the model takes a stream in both cases"}]}],
        "constants": ["DEF_HASH_ALG"],
        "model": "coq/Util/DirHash.v (qualified, hashsum, oneshot)",
    },
    "chain": {
        "source": "src/metador_core/ih5/manifest.py",
        "extra_sources": ["src/metador_core/ih5/record.py"],
        "bases": {"IH5MFRecord": "IH5Record"},
        "header": ("From MV Require Import Rec.Chain.\n"
                   "Definition py_path_str (p : string) : string := p.\n"
                   "Definition py_self_uuid (rid : N) : N := rid.\n"),
        "records": {
            "Path": {"coq": "string", "str": "py_path_str", "fields": {}},
            "Rec": {"coq": "N", "fields": {"ih5_uuid": ("py_self_uuid", "N")}},
            "UB": {"coq": "Chain.ublock", "fields": {
                "record_uuid": ("Chain.rec_id", "N"), "patch_index": ("Chain.idx", "N"),
                "patch_uuid": ("Chain.pid", "N"), "prev_patch": ("Chain.prev", "Optional[N]"),
                "hdf5_hashsum": ("Chain.hash", "Optional[N]")}},
            "MfExt": {"coq": "Chain.mfext", "fields": {"is_stub_container": ("Chain.is_stub", "bool")}},
        },
        "casts": {"Path": "pathlib.Path(s) read as the string s"},
        "opaque": {"hashsum_file": {"ret": "N"}},
        "extern": {"IH5UBExtManifest.get": {"coq": "Chain.ext", "params": ["UB"], "ret": "Optional[MfExt]",
                                             "why": "parses ub.ub_exts['ih5mf_v01'] (None if absent)"}},
        "functions": [
            {"py": "IH5Record._check_ublock",
             "params": {"self": "Rec", "filename": "Path", "ub": "UB", "prev": "Optional[UB]"}},
            {"py": "IH5MFRecord._check_ublock",
             "params": {"self": "Rec", "filename": "Path", "ub": "UB", "prev": "Optional[UB]"}}],
        "outside_subset": ["IH5Record._open", "IH5MFRecord._open"],
        "model": "coq/Rec/Chain.v (check_ub, both record classes)",
    },
    "diff": {
        "source": "src/metador_core/util/diff.py",
        "header": "From MV Require Import Util.Diff.\n",
        "records": {
            "DiffNode": {"coq": "Diff.dnode", "fields": {"prev": ("Diff.nprev", "Optional[DTree]"),
                                                          "curr": ("Diff.ncurr", "Optional[DTree]")}},
            "DTree": {"coq": "Diff.dtree", "fields": {}},
            "Status": {"coq": "Diff.status", "fields": {}},
        },
        "attr_consts": {"DiffNode.Status.added": ("Diff.Added", "Status"), "DiffNode.Status.removed": ("Diff.Removed", "Status"),
                        "DiffNode.Status.modified": ("Diff.Modified", "Status"),
                        "DiffNode.Status.unchanged": ("Diff.Unchanged", "Status")},
        "functions": [{"py": "DiffNode.status", "ret": "Status"}],
        "outside_subset": ["DiffNode._type", "DiffNode.nodes", "DiffNode.compare"],
        "model": "coq/Util/Diff.v (nstatus)",
    },
    "interface": {
        "source": "src/metador_core/plugin/interface.py",
        "extra_sources": ["src/metador_core/schema/plugins.py"],
        "header": ("From MV Require Import Util.PluginRef.\n"
                   "(* the state of a plugin group read by versions/resolve: its name and its version table *)\n"
                   "Definition py_pg_ref (s : string * table) (n : string) (v : ver) : ref := mkref (fst s) n v.\n"
                   "Definition py_pg_get (s : string * table) (n : string) : option (list ref) :=\n"
                   "  match tget (snd s) n with [] => None | l => Some l end.\n"),
        "aliases": {"SemVerTuple": SEMVER, "AnyPluginRef": "PluginRef"},
        "records": {
            "PG": {"coq": "(string * table)", "fields": {}},
            "PluginRef": {"coq": "ref", "class": "PluginRef", "default": "(mkref \"\" \"\" (0, (0, 0)))%N", "fields": {
                "group": ("rgroup", "str"), "name": ("rname", "str"), "version": ("rver", SEMVER)}},
        },
        "extern": {
            "self.PluginRef": {"coq": "py_pg_ref self", "params": ["str", SEMVER], "kw": ["name", "version"],
                               "ret": "PluginRef", "why": "the group's PluginRef subclass: group field preset to the group name"},
            "self._VERSIONS.get": {"coq": "py_pg_get self", "params": ["str"], "ret": "Optional[List[PluginRef]]",
                                   "why": "dict lookup in the version table (None if the name is not registered)"},
        },
        "functions": [{"py": "PluginGroup.versions", "params": {"self": "PG"}},
                      {"py": "PluginGroup.resolve", "params": {"self": "PG"}}],
        "helpers": [{"py": "PluginRef.supports", "params": {"other": "PluginRef"}}],
        "model": "coq/Util/PluginRef.v (versions, resolve)",
    },
    "tocschemas": {
        "source": "src/metador_core/container/interface.py",
        "extra_sources": ["src/metador_core/schema/plugins.py"],
        "header": ("From MV Require Import Util.PluginRef Toc.Query.\n"
                   "(* schema references of a container: (name, version), group fixed; iterating the dict\n"
                   "   self._children yields its keys *)\n"
                   "Definition py_sg (r : sref) : string := SG.\n"
                   "Definition py_sref (n : string) (v : ver) : sref := (n, v).\n"
                   "Definition py_toc_children (t : toc) : list sref := akeys (t_chi t).\n"),
        "aliases": {"SemVerTuple": SEMVER},
        "records": {
            "TOC": {"coq": "toc", "fields": {"_children": ("py_toc_children", "List[PluginRef]")}},
            "PluginRef": {"coq": "sref", "class": "PluginRef", "fields": {
                "group": ("py_sg", "str"), "name": ("fst", "str"), "version": ("snd", SEMVER)}},
        },
        "extern": {"schemas.PluginRef": {"coq": "py_sref", "params": ["str", SEMVER], "kw": ["name", "version"],
                                         "ret": "PluginRef", "why": "schema group's PluginRef: group preset to 'schema'"}},
        "functions": [{"py": "TOCSchemas.versions", "params": {"self": "TOC"}}],
        "helpers": [{"py": "PluginRef.supports", "params": {"other": "PluginRef"}}],
        "model": "coq/Toc/Query.v (tversions, vcompat)",
    },
    "ovpaths": {
        "source": "src/metador_core/ih5/overlay.py",
        "header": ("(* the only state of an IH5Node read by the path helpers: its absolute group path *)\n"
                   "Definition py_node_gpath (g : string) : string := g.\n"),
        "records": {"Node": {"coq": "string", "fields": {"_gpath": ("py_node_gpath", "str")}}},
        "functions": [
            {"py": "IH5Node._parent_path", "params": {"self": "Node"}},
            {"py": "IH5Node._rel_path", "params": {"self": "Node"}},
            {"py": "IH5Node._abs_path", "params": {"self": "Node"}}],
        "outside_subset": ["IH5Node.__post_init__", "IH5Node._files", "IH5Node.__hash__", "IH5Node.__bool__",
                           "IH5Node._last_idx", "IH5Node._is_read_only", "IH5Node._guard_open",
                           "IH5Node._guard_read_only", "IH5Node._guard_value", "IH5Node._latest_idx",
                           "IH5Node._inspect_path"],
        "model": "none (laws stated directly on the translated code: absolute/relative normal form, _rel_path . _abs_path round trip, parent of root, parent of child); coq/IH5/Overlay.v uses segment lists",
    },
}

PROPS: Dict[str, List[str]] = {"C16": ["plugins", "types", "interface"], "C08": ["utils"], "C03": ["record"], "C19": ["hashsums"], "C04": ["chain"], "C18": ["diff"], "C07": ["tocschemas"], "C01": ["ovpaths"]}

TRUSTED = ("generated tie (coverage.generated_tie): tools/py2coq.py (fail-closed Python->Gallina translator, ~1500 lines) and "
           "coq/Gen/PyLib.v (meaning of the Python builtins it emits: str.startswith/find/split/join/slices, len, list "
           "item access, tuple/str comparison) are trusted; `raise X(msg)` / `assert` are read as returning inl (class name, "
           "message) and a call of such a function as a monadic bind; exceptions raised by builtins are not modelled "
           "(partial operations are read totally and listed in the evidence); type declarations of untyped parameters, record "
           "projections, casts read as identities, extern and opaque functions (object state and the file system enter the "
           "translated functions only as such parameters) are given per target in harness/gentie.py")


def _sha(p: Path) -> str:
    return hashlib.sha256(p.read_bytes()).hexdigest()


def _coqc(args: List[str], cwd: Path, timeout: int):
    t0 = time.time()
    try:
        rc, out = vlib._run(["coqc", "-Q", str(vlib.COQ), "MV", "-Q", str(cwd), "Gen",
                             "-w", "-notation-overridden", *args], cwd=cwd, timeout=timeout)
    except subprocess.TimeoutExpired:
        rc, out = 124, f"coqc timed out after {timeout}s"
    return rc, out, round(time.time() - t0, 1)


def _theorems(txt: str) -> List[Dict[str, Any]]:
    out = []
    for m in re.finditer(r"^\s*(Theorem|Lemma)\s+([A-Za-z0-9_']+)", txt, flags=re.M):
        out.append({"kind": m.group(1), "name": m.group(2), "line": txt.count("\n", 0, m.start()) + 1})
    return out


def check_target(name: str, work: Path, pid: str) -> Dict[str, Any]:
    spec = TARGETS[name]
    src = vlib.REPO / spec["source"]
    equiv = EQUIV / f"Equiv_{name}.v"
    res: Dict[str, Any] = {
        "target": name, "source": spec["source"], "model": spec["model"], "ok": False,
        "equivalence_file": str(equiv.relative_to(vlib.VERIF)), "generated_file": f"build/gen/Gen_{name}.v",
        "functions": [], "constants": [], "theorems_checked": [], "problems": [], "failed_theorem": None,
    }
    if not src.exists() or not equiv.exists():
        res["problems"].append(f"missing file: {src if not src.exists() else equiv}")
        return res
    res["source_sha256"] = _sha(src)
    etxt = vlib._strip_coq_comments(equiv.read_text())
    thms = _theorems(etxt)
    main = [t["name"] for t in thms if t["kind"] == "Theorem"]
    # (a) translate, fail-closed
    try:
        tr = py2coq.translate(str(src), spec, shown_path=spec["source"], root=str(vlib.REPO))
    except py2coq.Refuse as r:
        res["problems"].append(f"translator refused (outside the supported subset) {r}; none of the {len(main)} theorems of "
                               f"{res['equivalence_file']} can be checked")
        res["failed_theorem"] = main[0] if main else None
        res["refused"] = str(r)
        return res
    except SyntaxError as e:
        res["problems"].append(f"source does not parse: {e}")
        res["failed_theorem"] = main[0] if main else None
        return res
    res["functions"] = [{k: f[k] for k in ("py", "coq", "line", "variants")} for f in tr.functions]
    res["constants"] = tr.constants
    res["partial_operations_read_totally"] = tr.partial
    res["assumed"] = tr.assumed
    if tr.extra_sha256:
        res["extra_sources_sha256"] = tr.extra_sha256
    res["outside_subset"] = {}
    for q in spec.get("outside_subset", []):
        try:
            py2coq.translate(str(src), dict(spec, functions=[{"py": q}], constants=[]), shown_path=spec["source"],
                             root=str(vlib.REPO))
            res["outside_subset"][q] = "translatable now (no equivalence theorem yet)"
        except py2coq.Refuse as r:
            res["outside_subset"][q] = str(r)
    gen = work / f"Gen_{name}.v"
    gen.write_text(tr.text)
    GEN.mkdir(parents=True, exist_ok=True)
    tmp = GEN / f".Gen_{name}.{os.getpid()}"
    tmp.write_text(tr.text)
    os.replace(tmp, GEN / f"Gen_{name}.v")
    bad = [ln.strip()[:100] for ln in vlib._strip_coq_comments(tr.text).splitlines() if vlib.FORBIDDEN.search(ln)]
    bad += [ln.strip()[:100] for ln in etxt.splitlines() if vlib.FORBIDDEN.search(ln)]
    if bad:
        res["problems"].append("forbidden vernacular: " + "; ".join(bad[:3]))
    # (b) compile generated file, then the equivalence file against it
    for attempt in (1, 2):
        rc, out, s1 = _coqc([str(gen)], work, 300)
        if rc != 0:
            if attempt == 1 and "inconsistent assumptions" in out:
                continue
            res["problems"].append("generated file does not compile (translator/typing): " + out[-600:])
            res["failed_theorem"] = main[0] if main else None
            return res
        rc, out, s2 = _coqc([str(equiv), "-o", str(work / f"Equiv_{name}.vo")], work, 600)
        if rc != 0 and attempt == 1 and "inconsistent assumptions" in out:
            continue
        break
    res["coqc_s"] = round(s1 + s2, 1)
    blocks = [b for b in re.split(r"(?=Closed under the global context|Axioms:)", out)
              if b.startswith("Closed") or b.startswith("Axioms:")]
    order = re.findall(r"Print\s+Assumptions\s+([A-Za-z0-9_']+)\s*\.", etxt)
    res["axioms"] = {}
    for nm, b in zip(order, blocks):
        if b.startswith("Closed"):
            res["theorems_checked"].append(nm)
        else:
            res["axioms"][nm] = re.findall(r"^([A-Za-z_][A-Za-z0-9_.']*)\s*:", b, flags=re.M)
            res["problems"].append(f"{nm} is not closed under the global context: {res['axioms'][nm]}")
            res["failed_theorem"] = res["failed_theorem"] or nm
    if rc != 0:
        m = re.search(r'File "[^"]*Equiv_[^"]*", line (\d+)', out)
        line = int(m.group(1)) if m else 0
        inside = [t for t in thms if t["line"] <= line]
        failed = inside[-1]["name"] if inside else (main[0] if main else "?")
        # the first *Theorem* at or after the failing lemma is what is lost
        res["failed_theorem"] = failed
        err = out[out.find("Error"):][:500] if "Error" in out else out[-500:]
        res["problems"].append(f"{failed} ({res['equivalence_file']}:{line}) no longer checks against the translated code: {err}")
    else:
        for t in main:
            if t not in order:
                res["problems"].append(f"{t}: no Print Assumptions")
        if len(blocks) != len(order):
            res["problems"].append(f"expected {len(order)} assumption reports, got {len(blocks)}")
    res["theorems"] = main
    res["ok"] = not res["problems"]
    return res


def check_gen(pid: str) -> Dict[str, Any]:
    """Translate the targets of property `pid` from $VERIF_REPO and check their equivalence files."""
    t0 = time.time()
    pid = pid.upper()
    names = PROPS.get(pid, [])
    ev: Dict[str, Any] = {
        "translator": f"tools/py2coq.py sha256 {_sha(vlib.VERIF / 'tools' / 'py2coq.py')[:16]}",
        "builtin_semantics": f"coq/Gen/PyLib.v sha256 {_sha(EQUIV / 'PyLib.v')[:16]}",
        "repo": str(vlib.REPO), "targets": [],
    }
    work = vlib.TMP / f"gen_{pid}_{os.getpid()}"
    problems: List[str] = []
    with vlib.build_lock():
        shutil.rmtree(work, ignore_errors=True)
        work.mkdir(parents=True, exist_ok=True)
        try:
            mk = vlib.COQ / "Makefile"
            if not mk.exists() or mk.stat().st_mtime < (vlib.COQ / "_CoqProject").stat().st_mtime:
                vlib._run(["coq_makefile", "-f", "_CoqProject", "-o", "Makefile"], cwd=vlib.COQ)
            rc, out = vlib._run(["make", "Gen/PyLibProofs.vo", f"Properties/{pid}.vo"], cwd=vlib.COQ, timeout=3000)
            if rc != 0:
                problems.append("libraries needed by the equivalence files do not build: " + out[-800:])
            else:
                for n in names:
                    ev["targets"].append(check_target(n, work, pid))
        finally:
            shutil.rmtree(work, ignore_errors=True)
    for t in ev["targets"]:
        problems += [f"[{t['target']}] {p}" for p in t["problems"]]
    ev["functions_translated"] = sum(len(t["functions"]) for t in ev["targets"])
    ev["equivalence_theorems_checked"] = sum(len(t["theorems_checked"]) for t in ev["targets"])
    ev["all_closed_under_global_context"] = bool(ev["targets"]) and all(t["ok"] for t in ev["targets"])
    ev["wall_s"] = round(time.time() - t0, 1)
    ev["ok"] = not problems and bool(names)
    failed = [(t["target"], t["failed_theorem"], t["equivalence_file"]) for t in ev["targets"] if t.get("failed_theorem")]
    return {"ok": ev["ok"], "pid": pid, "evidence": ev, "problems": problems, "failed": failed}


# --------------------------------------------------------------------------------------
# code-only oracle for the string functions tied to C08 (the property's statement about
# container/utils.py, evaluated on the implementation alone)

_SEGS = ["", "a", "m", "meta", "metador", "metadorx", "xmetador_", "metador_", "metador_x", "metador_meta_", "metador_meta_d"]


def _utils_laws(paths: List[str]) -> List[Dict[str, Any]]:
    from metador_core.container import utils as U
    bad: List[Dict[str, Any]] = []
    seen: Dict[str, Any] = {}
    for p in paths:
        want = any(seg.startswith("metador_") for seg in p.split("/"))
        if bool(U.is_internal_path(p)) != want:
            bad.append({"law": "is_internal_path(p) iff some '/'-segment of p starts with 'metador_'", "path": p,
                        "got": bool(U.is_internal_path(p)), "want": want})
        for d in (True, False):
            if (d and p.split("/")[-1] == "") or (not d and p == ""):
                continue
            mb = U.to_meta_base_path(p, d)
            if U.to_data_node_path(mb) != p:
                bad.append({"law": "to_data_node_path(to_meta_base_path(p, is_dataset)) == p", "path": p, "is_dataset": d,
                            "meta": mb, "got": U.to_data_node_path(mb)})
            if not U.is_internal_path(mb) or not U.is_meta_base_path(mb):
                bad.append({"law": "to_meta_base_path(p, is_dataset) is internal and a metadata base path", "path": p,
                            "is_dataset": d, "meta": mb})
            if mb in seen and seen[mb] != (p, d):
                bad.append({"law": "to_meta_base_path is injective on (path, is_dataset)", "path": p, "is_dataset": d,
                            "other": list(seen[mb]), "meta": mb})
            seen.setdefault(mb, (p, d))
        if len(bad) > 40:
            break
    return bad


def _utils_paths() -> List[str]:
    out = list(_SEGS)
    for a in _SEGS:
        for b in _SEGS:
            out.append(f"{a}/{b}")
            for c in ("", "a", "metador_x", "metador_meta_", "metadorx"):
                out.append(f"{a}/{b}/{c}")
    return sorted(set(out))


def utils_oracle(_=None) -> List[Dict[str, Any]]:
    with vlib.time_limit(120):
        return _utils_laws(_utils_paths())


def replay(rep: Dict[str, Any]) -> int:
    """Replay of a `utils-string-law` finding on the current tree."""
    vlib._pool_init()
    bad = [b for b in _utils_laws(sorted({rep["path"], *( [rep["other"][0]] if rep.get("other") else [])}))
           if b["law"] == rep["law"]]
    print(json.dumps(bad[:2], indent=1) if bad else "no longer failing")
    return 1 if bad else 0


# --------------------------------------------------------------------------------------

def report(ctx: vlib.Ctx, gen: Optional[Dict[str, Any]] = None) -> Dict[str, Any]:
    """Record the generated tie in the evidence and route a broken tie.  Call at the end of run()."""
    if gen is None:
        gen = check_gen(ctx.pid)
    ctx.coverage["generated_tie"] = gen["evidence"]
    ctx.coverage.setdefault("trusted_base", []).append(TRUSTED)
    evals = 0
    if ctx.pid == "C08":
        paths = _utils_paths()
        bad = vlib.pmap(utils_oracle, [None, None], procs=2)[0]
        evals = len(paths)
        gen["evidence"]["string_level_oracle"] = {"paths": len(paths), "laws": 4, "failures": len(bad)}
        ctx.coverage["evaluations"] = ctx.coverage.get("evaluations", 0) + evals
        seen = set()
        for b in bad:
            if b["law"] not in seen:
                seen.add(b["law"])
                ctx.violation(f"container/utils.py violates: {b['law']} at {b['path']!r}",
                              {"kind": "utils-string-law", **b}, sig_obj={"kind": "utils-string-law", "law": b["law"]})
    if gen["ok"]:
        return gen
    what = "; ".join(gen["problems"])[:900]
    if any(v.get("found_input") for v in ctx.violations) or ctx.known_hits:
        ctx.notes.append("generated tie broken as well (a failing input is reported above): " + what)
        return gen
    if not gen["failed"]:       # nothing could be compiled at all (the development itself does not build)
        ctx.violation("generated tie could not be checked: " + what,
                      {"kind": "generated-tie", "theorem": None, "problems": gen["problems"]}, found_input=False)
        return gen
    tgt, thm, efile = gen["failed"][0]
    ctx.violation(f"generated tie broken: theorem {thm} of {efile} no longer checks against the code translated from "
                  f"{TARGETS.get(tgt, {}).get('source', '?')} -- {what}",
                  {"kind": "generated-tie", "theorem": thm, "equivalence_file": efile, "target": tgt,
                   "all_failed": gen["failed"], "problems": gen["problems"]},
                  found_input=False)
    return gen


if __name__ == "__main__":
    r = check_gen(sys.argv[1] if len(sys.argv) > 1 else "C16")
    print(json.dumps(r, indent=1))
    sys.exit(0 if r["ok"] else 1)
