"""Helpers for checks about record *file sets* (C04): building real records through the
IH5Record / IH5MFRecord API, an independent reader/writer of the user-block format, the
abstraction of a file set to the model of coq/Rec/Chain.v, an independent declarative
`coherent` oracle, and materialising / opening a (mutated) file set with the real code.

Nothing here edits /repo; everything lives below a caller-provided scratch directory.
"""
from __future__ import annotations

import base64
import contextlib
import gc
import hashlib
import json
import os
import random
import re
import shutil
import uuid
from pathlib import Path
from typing import Any, Dict, List, Optional, Tuple

import vlib

UB_SIZE = 1024
MAGIC = "ih5_v01"
MF_SUFFIX = "mf.json"
EXT_NAME = "ih5mf_v01"
UB_KEYS = ["record_uuid", "patch_index", "patch_uuid", "prev_patch", "hdf5_hashsum", "ub_exts"]
EXT_KEYS = ["is_stub_container", "manifest_uuid", "manifest_hashsum"]
_UUID_RE = re.compile(r"[0-9a-f]{8}-[0-9a-f]{4}-[0-9a-f]{4}-[0-9a-f]{4}-[0-9a-f]{12}")
_HASH_RE = re.compile(r"(?:sha256|sha512):[0-9a-f]+")


def digest(b: bytes) -> str:
    return "sha256:" + hashlib.sha256(b).hexdigest()


# ---------------------------------------------------------------------------- user block format

def _read_head_raw(data: bytes, n: int) -> Optional[Tuple[int, str]]:
    """The documented layout: magic line, size line, JSON text terminated by NUL."""
    dat = data[:n].decode("utf-8").split("\n")
    if len(dat) != 3 or dat[0] != MAGIC:
        return None
    return int(dat[1]), dat[2][: dat[2].find("\x00")]


def parse_ublock(data: bytes) -> Dict[str, Any]:
    """Independent reader.  Result: {"st": "ok", "ub": {...}} for a block in the strict
    canonical form this harness can abstract with certainty; {"st": "bad", "why"} when the
    block is certainly unreadable (wrong magic / not UTF-8 / size line / JSON syntax);
    {"st": "unsure", "why"} for readable JSON outside the strict form (field coercions of
    the implementation's schema library are not re-implemented here)."""
    try:
        head = _read_head_raw(data, 512)
        if head is None:
            return {"st": "bad", "why": "magic/lines"}
        if head[0] > 512:
            head = _read_head_raw(data, head[0])
            if head is None:
                return {"st": "bad", "why": "magic/lines (second read)"}
    except (UnicodeDecodeError, ValueError) as e:
        return {"st": "bad", "why": type(e).__name__}
    try:
        obj = json.loads(head[1])
    except ValueError:
        return {"st": "bad", "why": "json"}
    if not isinstance(obj, dict) or sorted(obj) != sorted(UB_KEYS):
        return {"st": "unsure", "why": "keys"}

    def is_uuid(x):
        return isinstance(x, str) and _UUID_RE.fullmatch(x) is not None

    def is_hash(x):
        return isinstance(x, str) and _HASH_RE.fullmatch(x) is not None

    if not (is_uuid(obj["record_uuid"]) and is_uuid(obj["patch_uuid"])):
        return {"st": "unsure", "why": "uuid"}
    if not (obj["prev_patch"] is None or is_uuid(obj["prev_patch"])):
        return {"st": "unsure", "why": "prev"}
    pi = obj["patch_index"]
    if type(pi) is not int or pi < 0:
        return {"st": "unsure", "why": "index"}
    if not (obj["hdf5_hashsum"] is None or is_hash(obj["hdf5_hashsum"])):
        return {"st": "unsure", "why": "hash"}
    exts = obj["ub_exts"]
    if not isinstance(exts, dict) or any(k != EXT_NAME for k in exts):
        return {"st": "unsure", "why": "exts"}
    ext = None
    if EXT_NAME in exts:
        e = exts[EXT_NAME]
        if not (isinstance(e, dict) and sorted(e) == sorted(EXT_KEYS) and type(e["is_stub_container"]) is bool
                and is_uuid(e["manifest_uuid"]) and is_hash(e["manifest_hashsum"])):
            return {"st": "unsure", "why": "ext"}
        ext = {"stub": e["is_stub_container"], "id": e["manifest_uuid"], "hash": e["manifest_hashsum"]}
    return {"st": "ok", "size": head[0],
            "ub": {"rec": obj["record_uuid"], "idx": pi, "pid": obj["patch_uuid"], "prev": obj["prev_patch"],
                   "hash": obj["hdf5_hashsum"], "ext": ext}}


def ub_json(ub: Dict[str, Any]) -> Dict[str, Any]:
    exts: Dict[str, Any] = {}
    if ub["ext"] is not None:
        exts[EXT_NAME] = {"is_stub_container": ub["ext"]["stub"], "manifest_uuid": ub["ext"]["id"],
                          "manifest_hashsum": ub["ext"]["hash"]}
    return {"record_uuid": ub["rec"], "patch_index": ub["idx"], "patch_uuid": ub["pid"],
            "prev_patch": ub["prev"], "hdf5_hashsum": ub["hash"], "ub_exts": exts}


def write_ublock(path: Path, ub: Dict[str, Any]):
    """Independent writer: same layout, rest of the block NUL-filled."""
    data = f"{MAGIC}\n{UB_SIZE}\n{json.dumps(ub_json(ub))}".encode("utf-8")
    assert len(data) < UB_SIZE
    with open(path, "r+b") as f:
        f.seek(0)
        f.write(data + b"\x00" * (UB_SIZE - len(data)))


def text_len(data: bytes) -> int:
    """Offset of the first NUL of the user block (= length of its text part)."""
    i = data[:UB_SIZE].find(b"\x00")
    return UB_SIZE if i < 0 else i


# ---------------------------------------------------------------------------- abstraction

def abstract_file(path: Path) -> Dict[str, Any]:
    data = Path(path).read_bytes()
    p = parse_ublock(data)
    out: Dict[str, Any] = {"st": p["st"], "why": p.get("why")}
    if p["st"] != "ok":
        return out
    out.update(p["ub"])
    out["dig"] = digest(data[UB_SIZE:])
    mfp = Path(str(path) + MF_SUFFIX)
    if mfp.is_file():
        mb = mfp.read_bytes()
        try:
            mid = str(json.loads(mb)["manifest_uuid"])
        except Exception:  # noqa: BLE001
            mid = "?"
        out["mf"] = [mid, digest(mb)]
    else:
        out["mf"] = None
    return out


def to_model_case(mfm: bool, bl: bool, files: List[Dict[str, Any]]) -> Any:
    """Rename identifiers and digests by first occurrence; wire format of run_c04."""
    names: Dict[str, int] = {}

    def n(s):
        return names.setdefault(s, len(names) + 1)

    def opt(x):
        return [] if x is None else [x]

    rows = []
    for f in files:
        ext = None if f["ext"] is None else [f["ext"]["stub"], n(f["ext"]["id"]), n(f["ext"]["hash"])]
        rows.append([n(f["rec"]), f["idx"], n(f["pid"]), opt(None if f["prev"] is None else n(f["prev"])),
                     opt(None if f["hash"] is None else n(f["hash"])), opt(ext), n(f["dig"]),
                     opt(None if f["mf"] is None else [n(f["mf"][0]), n(f["mf"][1])])])
    return [mfm, bl, rows], names


# ---------------------------------------------------------------------------- declarative oracle

def coherent(files: List[Dict[str, Any]], mfm: bool, bl: bool) -> bool:
    """The property's own definition, by following predecessor links (no sorting):
    one record; distinct patch ids; a start container (without predecessor unless baseless
    sets are allowed) from which every other container is reached by a unique chain of
    prev_patch links; indices strictly increasing along the chain; every container but the
    newest committed with the digest of its actual payload, the newest uncommitted or so;
    manifest-aware class: no stub above the start, and the newest's manifest (if it names one)
    present with the recorded digest."""
    n = len(files)
    if n == 0:
        return False
    if len({f["rec"] for f in files}) != 1:
        return False
    if len({f["pid"] for f in files}) != n:
        return False
    starts = list(range(n)) if bl else [i for i in range(n) if files[i]["prev"] is None]
    for s in starts:
        chain = [s]
        rest = [i for i in range(n) if i != s]
        while rest:
            nxt = [i for i in rest if files[i]["prev"] is not None and files[i]["prev"] == files[chain[-1]]["pid"]]
            if len(nxt) != 1:
                break
            chain.append(nxt[0])
            rest.remove(nxt[0])
        if rest:
            continue
        c = [files[i] for i in chain]
        if any(not (a["idx"] < b["idx"]) for a, b in zip(c, c[1:])):
            continue
        if any(f["hash"] is None or f["hash"] != f["dig"] for f in c[:-1]):
            continue
        last = c[-1]
        if last["hash"] is not None and last["hash"] != last["dig"]:
            continue
        if mfm:
            if any(f["ext"] is not None and f["ext"]["stub"] for f in c[1:]):
                continue
            if last["ext"] is not None and (last["mf"] is None or last["mf"][1] != last["ext"]["hash"]):
                continue
        return True
    return False


def sorted_positions(files: List[Dict[str, Any]]) -> List[int]:
    """entry index -> position after a stable sort by patch index."""
    order = sorted(range(len(files)), key=lambda i: files[i]["idx"])
    pos = [0] * len(files)
    for p, i in enumerate(order):
        pos[i] = p
    return pos


# ---------------------------------------------------------------------------- building real records

def _apply_ops(rec, ops):
    import ih5lib
    for op in ops:
        try:
            with vlib.time_limit(20):
                ih5lib.apply_op(rec, op)
        except vlib.CaseTimeout:
            raise
        except Exception:  # noqa: BLE001
            pass


def _segments(rng: random.Random, k: int) -> List[List[Any]]:
    import ih5lib
    segs = []
    for i in range(k):
        ops = ih5lib.gen_history(rng, rng.randint(3, 9), p_bnd=0.0, allow_copy=True, allow_self_copy=False)
        # make sure every container holds something of its own
        ops.append(["set", [f"own{i}"], rng.choice(ih5lib.VALUE_POOL)])
        if rng.random() < 0.5:
            ops.append(["set", ["blob", f"b{i}"], "v:" + bytes(rng.randrange(256) for _ in range(rng.randint(1, 600))).hex()])
        segs.append(ops)
    return segs


def _build(cls, base: Path, segs, commit_last=True):
    base.parent.mkdir(parents=True, exist_ok=True)
    rec = cls(base, "w")
    for i, ops in enumerate(segs):
        if i > 0:
            rec.commit_patch()
            rec.create_patch()
        _apply_ops(rec, ops)
    files = [str(p) for p in rec.ih5_files]
    rec.close(commit=commit_last)
    return files


def _continue(cls, base: Path, segs, commit_last=True):
    """Open an existing record for writing (creates the next patch) and add containers."""
    rec = cls(base, "r+")
    for i, ops in enumerate(segs):
        if i > 0:
            rec.commit_patch()
            rec.create_patch()
        _apply_ops(rec, ops)
    files = [str(p) for p in rec.ih5_files]
    rec.close(commit=commit_last)
    return files


def _entries(label: str, files: List[str], start: int = 0) -> List[Dict[str, Any]]:
    out = []
    for i, f in enumerate(files):
        mf = f + MF_SUFFIX
        out.append({"role": f"{label}{start + i}", "src": f, "mf": mf if Path(mf).is_file() else None})
    return out


def build_family(arg) -> Dict[str, Any]:
    """One family of real records below `root`:
       A  plain record, 4 committed containers          Au = A + uncommitted patch
       B  another plain record with the *same* history (same payload digests, other ids)
       F  fork of A: A0 A1 copied, then patched differently (2 more containers)
       M/Mu/N/G the same with IH5MFRecord (3 committed; G = fork after M1)
       S  stub of M's newest state + one patch built on the stub (SP)
       single: base only, committed (A1c) and uncommitted (A1u)
    """
    import vshim  # noqa: F401
    from metador_core.ih5.container import IH5MFRecord, IH5Record
    root, seed = Path(arg[0]), arg[1]
    rng = random.Random(seed)
    fam: Dict[str, Any] = {"seed": seed, "sets": {}, "notes": []}
    S = fam["sets"]
    with vlib.time_limit(300):
        segsA = _segments(rng, 4)
        S["A"] = _entries("A", _build(IH5Record, root / "A" / "rec", segsA))
        shutil.copytree(root / "A", root / "Au")
        fu = _continue(IH5Record, root / "Au" / "rec", _segments(rng, 1), commit_last=False)
        S["Au"] = _entries("A", fu[:4]) + [{"role": "A4u", "src": fu[4], "mf": None}]
        S["B"] = _entries("B", _build(IH5Record, root / "B" / "rec", segsA[:3]))
        (root / "F").mkdir(parents=True)
        for e in S["A"][:2]:
            shutil.copy(e["src"], root / "F" / Path(e["src"]).name)
        ff = _continue(IH5Record, root / "F" / "rec", _segments(rng, 2))
        S["F"] = _entries("A", ff[:2]) + _entries("F", ff[2:], 2)
        S["A1c"] = _entries("C", _build(IH5Record, root / "C" / "rec", segsA[:1]))
        S["A1u"] = _entries("U", _build(IH5Record, root / "U" / "rec", segsA[:1], commit_last=False))
        S["A1u"][0]["role"] = "U0u"

        segsM = _segments(rng, 3)
        S["M"] = _entries("M", _build(IH5MFRecord, root / "M" / "rec", segsM))
        shutil.copytree(root / "M", root / "Mu")
        mu = _continue(IH5MFRecord, root / "Mu" / "rec", _segments(rng, 1), commit_last=False)
        S["Mu"] = _entries("M", mu[:3]) + [{"role": "M3u", "src": mu[3], "mf": None}]
        S["N"] = _entries("N", _build(IH5MFRecord, root / "N" / "rec", segsM[:2]))
        (root / "G").mkdir(parents=True)
        for e in S["M"][:2]:
            shutil.copy(e["src"], root / "G" / Path(e["src"]).name)
            shutil.copy(e["mf"], root / "G" / Path(e["mf"]).name)
        gg = _continue(IH5MFRecord, root / "G" / "rec", _segments(rng, 1))
        S["G"] = _entries("M", gg[:2]) + _entries("G", gg[2:], 2)
        try:
            (root / "S").mkdir(parents=True)
            ds = IH5MFRecord.create_stub(root / "S" / "rec", Path(S["M"][-1]["mf"]))
            ds.close()
            sp = _continue(IH5MFRecord, root / "S" / "rec",
                           [[["set", ["stubnew"], "i:7"], ["grp", ["stubgrp", "x"]]]])
            S["S"] = [dict(_entries("S", sp[:1])[0], role="S0stub"), dict(_entries("SP", sp[1:])[0], role="SP3")]
            S["MS"] = S["M"] + [S["S"][1]]
        except Exception as e:  # noqa: BLE001
            fam["notes"].append(f"stub fixture unavailable: {type(e).__name__}: {e}"[:200])
    gc.collect()
    return fam


# ---------------------------------------------------------------------------- mutations

def _flip(path: Path, off: int, xor: int):
    with open(path, "r+b") as f:
        f.seek(off)
        b = f.read(1)
        f.seek(off)
        f.write(bytes([b[0] ^ xor]))


def apply_mutation(dst: Path, mut: Dict[str, Any]):
    k = mut["k"]
    mfp = Path(str(dst) + MF_SUFFIX)
    if k == "flip":
        _flip(dst, mut["off"], mut["xor"])
    elif k == "trunc":
        with open(dst, "r+b") as f:
            f.truncate(mut["to"])
    elif k == "extend":
        with open(dst, "ab") as f:
            f.write(bytes.fromhex(mut["hex"]))
    elif k == "insert":   # a byte added inside the payload
        data = dst.read_bytes()
        dst.write_bytes(data[:mut["off"]] + bytes.fromhex(mut["hex"]) + data[mut["off"]:])
    elif k == "delete":   # a byte removed inside the payload
        data = dst.read_bytes()
        dst.write_bytes(data[:mut["off"]] + data[mut["off"] + mut["n"]:])
    elif k == "ub":       # rewrite the user block with changed fields
        p = parse_ublock(dst.read_bytes())
        assert p["st"] == "ok", p
        ub = p["ub"]
        for fld, val in mut["set"].items():
            if fld.startswith("ext."):
                if ub["ext"] is not None:
                    ub["ext"][fld[4:]] = val
            else:
                ub[fld] = val
        write_ublock(dst, ub)
    elif k == "mf-del":
        mfp.unlink()
    elif k == "mf-flip":
        _flip(mfp, mut["off"], mut["xor"])
    elif k == "mf-append":
        with open(mfp, "ab") as f:
            f.write(bytes.fromhex(mut["hex"]))
    elif k == "mf-trunc":
        with open(mfp, "r+b") as f:
            f.truncate(mut["to"])
    elif k == "mf-replace":
        shutil.copy(mut["src"], mfp)
    else:
        raise ValueError(k)


def materialize(case: Dict[str, Any], d: Path) -> List[Path]:
    """Copy the case's containers (and sidecars) into d, apply the mutations."""
    paths: List[Path] = []
    for i, e in enumerate(case["files"]):
        if "same_as" in e:
            paths.append(paths[e["same_as"]])
            continue
        dst = d / f"c{i}.ih5"
        if "b64" in e:      # replay form
            dst.write_bytes(base64.b64decode(e["b64"]))
            if e.get("mf_b64") is not None:
                Path(str(dst) + MF_SUFFIX).write_bytes(base64.b64decode(e["mf_b64"]))
        else:
            shutil.copyfile(e["src"], dst)
            if e.get("mf"):
                shutil.copyfile(e["mf"], str(dst) + MF_SUFFIX)
        for m in e.get("muts", []):
            apply_mutation(dst, m)
        paths.append(dst)
    return paths


def freeze(case: Dict[str, Any]) -> Dict[str, Any]:
    """Self-contained (replayable) form of a case: the mutated bytes themselves."""
    with vlib.workdir("c04fz") as d:
        paths = materialize(case, d)
        files = []
        for e, p in zip(case["files"], paths):
            if "same_as" in e:
                files.append({"role": e.get("role"), "same_as": e["same_as"]})
                continue
            mfp = Path(str(p) + MF_SUFFIX)
            files.append({"role": e.get("role"), "b64": base64.b64encode(p.read_bytes()).decode(),
                          "mf_b64": base64.b64encode(mfp.read_bytes()).decode() if mfp.is_file() else None,
                          "muts_applied": e.get("muts", [])})
    return {"cls": case["cls"], "bl": case["bl"], "klass": case.get("klass"), "files": files}


# ---------------------------------------------------------------------------- real code

_MESSAGES = [
    ("Cannot open empty list", "empty"),
    ("base container must not have attribute 'prev_patch'", "base-prev"),
    ("'record_uuid' inconsistent", "record"),
    ("hdf5_checksum is missing", "hash-missing"),
    ("stored and computed checksum are different", "hash-mismatch"),
    ("patch container must have greater index", "index"),
    ("patch must have an attribute 'prev_patch'", "no-prev"),
    ("patch for ", "prev-mismatch"),
    ("Some patch_uuid is not unique", "dup-pid"),
    ("does not exist, cannot open", "mf-missing"),
    ("Manifest has been modified", "mf-hash"),
]


def classify_exc(e: BaseException, paths: List[Path]) -> List[Any]:
    """[class name, label or 'other', entry indices named in the message]"""
    import traceback
    msg = str(e)
    label = "other"
    if isinstance(e, ValueError) and type(e).__name__ == "ValueError":
        for needle, lab in _MESSAGES:
            if needle in msg:
                label = lab
                break
    elif isinstance(e, AssertionError):
        tb = traceback.extract_tb(e.__traceback__)
        if tb and tb[-1].name == "_check_ublock" and tb[-1].filename.endswith("manifest.py"):
            label = "stub-patch"
    named = [i for i, p in enumerate(paths) if msg.startswith(f"{p}: ")]
    return [type(e).__name__, label, named, msg[:160]]


def open_real(cls_name: str, paths: List[Path], bl: bool, limit: int = 60) -> List[Any]:
    """["ok", [patch_uuid in container order]] | ["exc", class, label, named, msg] | ["timeout"]"""
    from metador_core.ih5.container import IH5MFRecord, IH5Record
    cls = IH5MFRecord if cls_name == "IH5MFRecord" else IH5Record
    kw = {"allow_baseless": True} if bl else {}
    rec = None
    try:
        with vlib.time_limit(limit):
            rec = cls(list(paths), "r", **kw)
            out = ["ok", [str(u.patch_uuid) for u in rec.ih5_meta]]
    except vlib.CaseTimeout:
        out = ["timeout"]
    except BaseException as e:  # noqa: BLE001
        if isinstance(e, (KeyboardInterrupt, SystemExit)):
            raise
        out = ["exc"] + classify_exc(e, list(paths))
    finally:
        try:
            if rec is not None:
                rec.close(commit=False)
        except Exception:  # noqa: BLE001
            pass
    return out


_ncalls = 0
_scratch_dir: Optional[Path] = None


@contextlib.contextmanager
def case_dir(root: Optional[str]):
    """A directory for one case.  Removing directories is slow on this file system, so when
    the caller provides a scratch root (itself a vlib.workdir, removed by the caller) every
    worker process keeps one sub-directory and only unlinks the files between cases."""
    global _scratch_dir
    if not root:
        with vlib.workdir("c04") as d:
            yield d
        return
    if _scratch_dir is None or _scratch_dir.parent != Path(root) or not _scratch_dir.is_dir():
        _scratch_dir = Path(root) / f"w{os.getpid()}"
        _scratch_dir.mkdir(parents=True, exist_ok=True)
    try:
        yield _scratch_dir
    finally:
        for p in _scratch_dir.iterdir():
            p.unlink()


def eval_case(case: Dict[str, Any]) -> Dict[str, Any]:
    """Materialise, abstract, open with the real code, evaluate the declarative oracle."""
    global _ncalls
    _ncalls += 1
    if _ncalls % 200 == 0:
        gc.collect()
    mfm = case["cls"] == "IH5MFRecord"
    with case_dir(case.get("scratch")) as d:
        paths = materialize(case, d)
        uniq: Dict[Path, Dict[str, Any]] = {}
        for p in paths:
            if p not in uniq:
                uniq[p] = abstract_file(p)
        files = [uniq[p] for p in paths]
        real = open_real(case["cls"], paths, case["bl"])
        if real[0] == "timeout":     # contended machine: once more, alone
            real = open_real(case["cls"], paths, case["bl"], limit=240)
    sts = [f["st"] for f in files]
    res: Dict[str, Any] = {"real": real, "sts": sts}
    if all(s == "ok" for s in sts):
        res["abs"] = files
        res["coh"] = coherent(files, mfm, case["bl"])
    return res
