"""CLI of the /verif checks: ./check <ID> [--tier quick|thorough] [--replay <file>]."""
from __future__ import annotations

import argparse
import importlib
import json
import os
import sys
import traceback

sys.path.insert(0, os.path.dirname(os.path.abspath(__file__)))
import vshim  # noqa: F401,E402
import vlib  # noqa: E402


def main() -> int:
    ap = argparse.ArgumentParser()
    ap.add_argument("pid")
    ap.add_argument("--tier", default=os.environ.get("VERIF_TIER", "quick"), choices=["quick", "thorough"])
    ap.add_argument("--seed", type=int, default=int(os.environ.get("VERIF_SEED", "20260926")))
    ap.add_argument("--replay", default=None)
    args = ap.parse_args()
    pid = args.pid.upper()
    try:
        mod = importlib.import_module(f"props.{pid.lower()}")
    except ModuleNotFoundError as e:
        print(f"no check for {pid}: {e}", file=sys.stderr)
        return 2
    if args.replay:
        with open(args.replay) as fh:
            rep = json.load(fh)
        return int(mod.replay(rep))
    ctx = vlib.Ctx(pid, args.tier, args.seed)
    try:
        mod.run(ctx)
    except Exception:
        tb = traceback.format_exc()
        vlib.log(tb)
        ctx.violation(
            "the check could not run to completion against the current tree (exception in harness "
            "or implementation at an unexpected place)",
            {"kind": "harness-exception", "traceback": tb[-4000:],
             "correspondence": f"harness/props/{pid.lower()}.py"},
            found_input=False,
        )
    return ctx.finish()


if __name__ == "__main__":
    sys.exit(main())
