"""Common machinery of the /verif checks.

* building the Coq development and the extracted model runner (under a file lock),
* re-checking a property file and parsing its ``Print Assumptions`` output,
* s-expression wire format shared with runner/mrun.ml,
* running the extracted model, cross-checking a sample inside coqc (vm_compute),
* evidence files, known findings, VIOLATION protocol, delta-debugging shrinker,
* process pool helpers with per-task time limits for the implementation side.
"""
from __future__ import annotations

import contextlib
import fcntl
import hashlib
import json
import os
import random
import re
import shutil
import signal
import subprocess
import sys
import tempfile
import time
from concurrent.futures import ProcessPoolExecutor
from pathlib import Path
from typing import Any, Callable, Dict, Iterable, List, Optional, Sequence, Tuple

VERIF = Path(__file__).resolve().parent.parent
REPO = Path(os.environ.get("VERIF_REPO", "/repo"))
COQ = VERIF / "coq"
BUILD = VERIF / "build"
EXTRACT = BUILD / "extract"
TMP = BUILD / "tmp"
REPLAY = BUILD / "replay"
EVIDENCE = Path(os.environ.get("VERIF_EVIDENCE_DIR") or (VERIF / "evidence"))  # seeded runs redirect it
MRUN = EXTRACT / "mrun"
def _nproc() -> int:
    """Worker count: all cores when the machine is idle, fewer when it is already
    oversubscribed (several checks running side by side); VERIF_NPROC overrides.
    Only the degree of parallelism depends on this, never the set of cases."""
    if os.environ.get("VERIF_NPROC"):
        return max(1, int(os.environ["VERIF_NPROC"]))
    n = min(16, os.cpu_count() or 4)
    try:
        load = os.getloadavg()[0]
    except OSError:
        load = 0.0
    return max(4, min(n, int(n - load / 3)))


NPROC = _nproc()

FORBIDDEN = re.compile(
    r"\b(Admitted|admit|Axiom|Axioms|Parameter|Parameters|Conjecture|Conjectures|"
    r"Unset\s+Guard|bypass_check|type-in-type|impredicative-set|Admit\s+Obligations|"
    r"Unset\s+Positivity|Unset\s+Universe\s+Checking)\b"
)

# axioms declared by the standard library that may legitimately appear
STDLIB_AXIOMS = {
    "functional_extensionality_dep", "propositional_extensionality", "classic",
    "proof_irrelevance", "Eqdep.Eq_rect_eq.eq_rect_eq", "eq_rect_eq", "JMeq_eq",
    "constructive_indefinite_description", "constructive_definite_description",
}


def log(*a):
    print(*a, file=sys.stderr, flush=True)


# --------------------------------------------------------------------------------------
# build


def _run(cmd, cwd=None, timeout=1800, env=None, stdin=None):
    p = subprocess.run(
        cmd, cwd=cwd, timeout=timeout, env=env, input=stdin,
        stdout=subprocess.PIPE, stderr=subprocess.STDOUT, text=True,
    )
    return p.returncode, p.stdout


@contextlib.contextmanager
def build_lock():
    BUILD.mkdir(exist_ok=True)
    with open(BUILD / ".lock", "w") as fh:
        fcntl.flock(fh, fcntl.LOCK_EX)
        try:
            yield
        finally:
            fcntl.flock(fh, fcntl.LOCK_UN)


def _newest_mtime(paths: Iterable[Path]) -> float:
    m = 0.0
    for p in paths:
        try:
            m = max(m, p.stat().st_mtime)
        except FileNotFoundError:
            pass
    return m


def ensure_built(jobs: int = NPROC, need: Sequence[str] = ()) -> Tuple[bool, str]:
    """make the Coq project, (re-)extract and compile the runner if anything is newer.

    With `need` (make targets such as "Properties/C16.vo") a failure elsewhere in the
    development is tolerated as long as those targets and the dispatcher build; with an
    empty `need` (setup) everything must build.  Returns (ok, log)."""
    out = []
    with build_lock():
        for d in (EXTRACT, TMP, REPLAY, EVIDENCE):
            d.mkdir(parents=True, exist_ok=True)
        mk = COQ / "Makefile"
        if not mk.exists() or mk.stat().st_mtime < (COQ / "_CoqProject").stat().st_mtime:
            rc, o = _run(["coq_makefile", "-f", "_CoqProject", "-o", "Makefile"], cwd=COQ)
            out.append(o)
            if rc != 0:
                return False, "\n".join(out)
        rc, o = _run(["make", "-k", f"-j{jobs}", "COQC=timeout 900 coqc"], cwd=COQ, timeout=3000)
        out.append(o[-6000:])
        if rc != 0:
            if not need:
                return False, "\n".join(out)
            rc, o = _run(["make", f"-j{jobs}", "COQC=timeout 900 coqc", "Extract/Dispatch.vo", *need], cwd=COQ, timeout=3000)
            out.append(o[-3000:])
            if rc != 0:
                return False, "\n".join(out)
        disp_vo = COQ / "Extract" / "Dispatch.vo"
        srcs = [disp_vo, COQ / "Extract" / "Run.v", VERIF / "runner" / "mrun.ml"]
        if not MRUN.exists() or MRUN.stat().st_mtime < _newest_mtime(srcs):
            rc, o = _run(
                ["coqc", "-Q", str(COQ), "MV", str(COQ / "Extract" / "Run.v"),
                 "-o", str(EXTRACT / "Run.vo")], cwd=EXTRACT, timeout=900)
            out.append(o)
            if rc != 0:
                return False, "\n".join(out)
            shutil.copy(VERIF / "runner" / "mrun.ml", EXTRACT / "mrun.ml")
            rc, o = _run(
                ["ocamlfind", "ocamlopt", "-w", "-a", "model.mli", "model.ml", "mrun.ml",
                 "-o", "mrun.new"], cwd=EXTRACT, timeout=900)
            out.append(o)
            if rc != 0:
                return False, "\n".join(out)
            os.replace(EXTRACT / "mrun.new", MRUN)
    return True, "\n".join(out)


def forbidden_tokens() -> List[str]:
    """Scan every .v file of the development (comments stripped) for forbidden vernacular."""
    hits = []
    for f in sorted(COQ.rglob("*.v")):
        txt = f.read_text()
        txt = _strip_coq_comments(txt)
        for i, line in enumerate(txt.splitlines(), 1):
            if FORBIDDEN.search(line):
                hits.append(f"{f.relative_to(VERIF)}:{i}: {line.strip()[:120]}")
    return hits


def _strip_coq_comments(txt: str) -> str:
    out, depth, i, n = [], 0, 0, len(txt)
    in_str = False
    while i < n:
        c = txt[i]
        if depth == 0 and c == '"':
            in_str = not in_str
            out.append(c)
            i += 1
        elif not in_str and txt.startswith("(*", i):
            depth += 1
            i += 2
        elif not in_str and depth > 0 and txt.startswith("*)", i):
            depth -= 1
            i += 2
        else:
            if depth == 0:
                out.append(c)
            elif c == "\n":
                out.append(c)
            i += 1
    return "".join(out)


def proof_check(pid: str) -> Dict[str, Any]:
    """Re-compile Properties/<pid>.v from scratch and parse its Print Assumptions output."""
    src = COQ / "Properties" / f"{pid}.v"
    res: Dict[str, Any] = {
        "file": str(src.relative_to(VERIF)), "theorems": [], "obligations": 0,
        "discharged": 0, "axioms": {}, "ok": False, "problems": [],
    }
    if not src.exists():
        res["problems"].append("property file missing")
        return res
    txt = _strip_coq_comments(src.read_text())
    thms = re.findall(r"^\s*Theorem\s+([A-Za-z0-9_']+)", txt, flags=re.M)
    res["theorems"] = thms
    res["obligations"] = len(thms)
    # every theorem must be closed by `exact` and followed by Print Assumptions
    bodies = re.findall(r"Theorem\s+([A-Za-z0-9_']+).*?Proof\.(.*?)Qed\.", txt, flags=re.S)
    for name, body in bodies:
        if not re.fullmatch(r"\s*exact\s+[^.]*(\.[A-Za-z_][^.]*)*\.\s*", body):
            res["problems"].append(f"{name}: proof is not a single `exact`")
    printed = set(re.findall(r"Print\s+Assumptions\s+([A-Za-z0-9_']+)\s*\.", txt))
    for t in thms:
        if t not in printed:
            res["problems"].append(f"{t}: no Print Assumptions")
    TMP.mkdir(parents=True, exist_ok=True)
    pcdir = TMP / f"pc_{pid}_{os.getpid()}"
    pcdir.mkdir(parents=True, exist_ok=True)
    vo = pcdir / f"{pid}.vo"
    t0 = time.time()
    try:
        rc, out = _run(["coqc", "-Q", str(COQ), "MV", str(src), "-o", str(vo)], cwd=COQ, timeout=900)
    except subprocess.TimeoutExpired:
        rc, out = 124, "coqc timed out"
    res["coqc_s"] = round(time.time() - t0, 1)
    shutil.rmtree(pcdir, ignore_errors=True)
    if rc != 0:
        res["problems"].append("coqc failed: " + out[-1500:])
        return res
    # parse assumptions: blocks are either "Closed under the global context" or "Axioms:\n..."
    blocks = re.split(r"(?=Closed under the global context|Axioms:)", out)
    blocks = [b for b in blocks if b.startswith("Closed") or b.startswith("Axioms:")]
    order = re.findall(r"Print\s+Assumptions\s+([A-Za-z0-9_']+)\s*\.", txt)
    if len(blocks) != len(order):
        res["problems"].append(f"expected {len(order)} assumption reports, got {len(blocks)}")
    for name, b in zip(order, blocks):
        if b.startswith("Closed"):
            res["axioms"][name] = []
            if name in thms:
                res["discharged"] += 1
        else:
            ax = re.findall(r"^([A-Za-z_][A-Za-z0-9_.']*)\s*:", b, flags=re.M)
            res["axioms"][name] = ax
            bad = [a for a in ax if a.split(".")[-1] not in STDLIB_AXIOMS and a not in STDLIB_AXIOMS]
            if bad:
                res["problems"].append(f"{name}: depends on non-stdlib axioms {bad}")
            elif name in thms:
                res["discharged"] += 1
    hits = forbidden_tokens()
    if hits:
        res["problems"].append("forbidden vernacular: " + "; ".join(hits[:5]))
    res["ok"] = not res["problems"] and res["obligations"] > 0 and res["discharged"] == res["obligations"]
    return res


# --------------------------------------------------------------------------------------
# s-expressions

_SAFE = set("abcdefghijklmnopqrstuvwxyzABCDEFGHIJKLMNOPQRSTUVWXYZ0123456789_.:/-+=!~@#$%^&*,;<>?[]{}|")


def _atom(s: str) -> str:
    if s == "":
        return "\\E"
    return "".join(c if c in _SAFE else "\\%02x" % ord(c) for c in s)


def sx_norm(x: Any) -> Any:
    """Python value -> nested lists of str (ints -> decimal, bools -> T/F, None -> [])."""
    if isinstance(x, bool):
        return "T" if x else "F"
    if isinstance(x, int):
        return str(x)
    if isinstance(x, str):
        return x
    if isinstance(x, bytes):
        return x.decode("latin-1")
    if x is None:
        return []
    if isinstance(x, (list, tuple)):
        return [sx_norm(y) for y in x]
    raise TypeError(f"cannot encode {type(x)}")


def sx_dumps(x: Any) -> str:
    x = sx_norm(x)
    if isinstance(x, str):
        return _atom(x)
    return "(" + " ".join(sx_dumps(y) for y in x) + ")"


def sx_loads(s: str) -> Any:
    pos = 0
    n = len(s)

    def item():
        nonlocal pos
        while pos < n and s[pos] in " \t":
            pos += 1
        if pos >= n:
            raise ValueError("eof")
        if s[pos] == "(":
            pos += 1
            acc = []
            while True:
                while pos < n and s[pos] in " \t":
                    pos += 1
                if pos >= n:
                    raise ValueError("unclosed")
                if s[pos] == ")":
                    pos += 1
                    return acc
                acc.append(item())
        buf = []
        while pos < n and s[pos] not in " \t()":
            if s[pos] == "\\":
                if s[pos + 1] == "E":   # empty atom (upper case: cannot clash with \\e0..\\ef)
                    pos += 2
                else:
                    buf.append(chr(int(s[pos + 1:pos + 3], 16)))
                    pos += 3
            else:
                buf.append(s[pos])
                pos += 1
        return "".join(buf)

    return item()


def sx_coq(x: Any) -> str:
    """Gallina literal of type sx."""
    x = sx_norm(x)
    if isinstance(x, str):
        for c in x:
            if not (32 <= ord(c) < 127):
                raise ValueError("non-printable atom cannot be written as Coq literal")
        return 'A "' + x.replace('"', '""') + '"'
    return "L [" + "; ".join(sx_coq(y) for y in x) + "]"


def coq_literal_ok(x: Any) -> bool:
    try:
        sx_coq(x)
        return True
    except ValueError:
        return False


def run_model(model: str, cases: Sequence[Any], chunk: int = 0) -> List[Any]:
    """Run the extracted model on the cases (in parallel chunks); one result per case."""
    if not cases:
        return []
    lines = [sx_dumps([model, c]) for c in cases]
    nchunks = max(1, min(NPROC, len(lines) // 200)) if not chunk else max(1, len(lines) // chunk)
    size = (len(lines) + nchunks - 1) // nchunks
    procs = []
    for i in range(0, len(lines), size):
        part = lines[i:i + size]
        p = subprocess.Popen([str(MRUN)], stdin=subprocess.PIPE, stdout=subprocess.PIPE, text=True,
                             preexec_fn=_unlimit_stack)
        procs.append((p, part))
    # feed and collect (communicate sequentially; the processes run concurrently)
    import threading
    outs: List[Optional[str]] = [None] * len(procs)

    def feed(i, p, part):
        outs[i], _ = p.communicate("\n".join(part) + "\n")

    ths = [threading.Thread(target=feed, args=(i, p, part)) for i, (p, part) in enumerate(procs)]
    for t in ths:
        t.start()
    for t in ths:
        t.join()
    res: List[Any] = []
    for (p, part), o in zip(procs, outs):
        got = (o or "").splitlines()
        if p.returncode != 0 or len(got) != len(part):
            raise RuntimeError(f"model runner failed rc={p.returncode} got {len(got)}/{len(part)} lines: {(o or '')[-300:]}")
        res.extend(sx_loads(l) for l in got)
    for c, r in zip(cases, res):
        if isinstance(r, list) and r and r[0] in ("BAD-CASE", "RUNNER-ERROR"):
            raise RuntimeError(f"model rejected case {sx_dumps(c)[:300]}: {r}")
    if os.environ.get("VERIF_PERTURB_MODEL"):
        # liveness self-test of the correspondence (tools/liveness.sh): corrupt every k-th model
        # answer; a check that still exits 0 is not really comparing the model with the code
        k = max(1, int(os.environ["VERIF_PERTURB_MODEL"]))
        res = [_perturb(r) if i % k == 0 else r for i, r in enumerate(res)]
    return res


def _perturb(x: Any) -> Any:
    """Change the first boolean/number atom of a model answer (or append a junk element)."""
    done = [False]

    def go(y):
        if done[0]:
            return y
        if isinstance(y, str):
            if y == "T":
                done[0] = True
                return "F"
            if y == "F":
                done[0] = True
                return "T"
            if y.isdigit():
                done[0] = True
                return str(int(y) + 1)
            return y
        return [go(z) for z in y]

    out = go(x)
    if not done[0]:
        out = (out + ["PERTURBED"]) if isinstance(out, list) else out + "~"
    return out


def _unlimit_stack():
    import resource
    with contextlib.suppress(Exception):
        resource.setrlimit(resource.RLIMIT_STACK, (resource.RLIM_INFINITY, resource.RLIM_INFINITY))


def coq_crosscheck(model: str, cases: Sequence[Any], results: Sequence[Any], tag: str,
                   max_cases: int = 60) -> Dict[str, Any]:
    """Evaluate the model on a sample inside coqc (vm_compute) and require the same results
    the extracted runner produced.  Removes extraction from the trusted base for the sample
    and detects a stale runner binary."""
    idx = [i for i, c in enumerate(cases) if coq_literal_ok(c) and coq_literal_ok(results[i])]
    if len(idx) > max_cases:
        step = len(idx) / max_cases
        idx = [idx[int(k * step)] for k in range(max_cases)]
    if not idx:
        return {"sampled": 0, "ok": True}
    TMP.mkdir(parents=True, exist_ok=True)
    name = f"xc_{tag}_{os.getpid()}"
    f = TMP / f"{name}.v"
    with open(f, "w") as fh:
        fh.write("From Coq Require Import List String.\nFrom MV Require Import Base.Sx Extract.Dispatch.\n"
                 "Import ListNotations.\nLocal Open Scope string_scope.\n")
        for k, i in enumerate(idx):
            fh.write(f"Example xc{k} : dispatch ({sx_coq([model, cases[i]])}) = {sx_coq(results[i])}.\n"
                     "Proof. vm_compute. reflexivity. Qed.\n")
    try:
        rc, out = _run(["coqc", "-Q", str(COQ), "MV", str(f)], cwd=TMP, timeout=900)
    except subprocess.TimeoutExpired:
        rc, out = 124, "timeout"
    for ext in (".v", ".vo", ".vok", ".vos", ".glob", ".aux"):
        with contextlib.suppress(FileNotFoundError):
            (TMP / f"{name}{ext}").unlink()
    with contextlib.suppress(FileNotFoundError):
        (TMP / f".{name}.aux").unlink()
    return {"sampled": len(idx), "ok": rc == 0, "log": out[-800:] if rc != 0 else ""}


# --------------------------------------------------------------------------------------
# process helpers


class CaseTimeout(Exception):
    pass


@contextlib.contextmanager
def time_limit(seconds: int):
    # the timer re-fires every second after the deadline: an exception raised inside a
    # weakref callback / __del__ is swallowed by the interpreter, and a non-terminating
    # call would otherwise run forever after the single alarm
    def handler(signum, frame):
        raise CaseTimeout(f"timed out after {seconds}s")
    old = signal.signal(signal.SIGALRM, handler)
    signal.setitimer(signal.ITIMER_REAL, seconds, 1.0)
    try:
        yield
    finally:
        signal.setitimer(signal.ITIMER_REAL, 0)
        signal.signal(signal.SIGALRM, old)


def _pool_init():
    os.environ.setdefault("PYTHONHASHSEED", "0")
    sys.path.insert(0, str(VERIF / "harness"))
    import vshim  # noqa: F401


def pmap(fn: Callable, items: Sequence[Any], procs: int = NPROC, chunksize: int = 1) -> List[Any]:
    """Parallel map over processes (fork).  fn must be a module-level function."""
    items = list(items)
    if not items:
        return []
    if procs <= 1 or len(items) == 1:
        _pool_init()
        return [fn(x) for x in items]
    with ProcessPoolExecutor(max_workers=min(procs, len(items)), initializer=_pool_init) as ex:
        return list(ex.map(fn, items, chunksize=chunksize))


@contextlib.contextmanager
def workdir(prefix: str = "mv"):
    base = os.environ.get("VERIF_SCRATCH") or tempfile.gettempdir()
    d = tempfile.mkdtemp(prefix=f"{prefix}-", dir=base)
    try:
        yield Path(d)
    finally:
        shutil.rmtree(d, ignore_errors=True)


# --------------------------------------------------------------------------------------
# shrinking


def ddmin(items: List[Any], fails: Callable[[List[Any]], bool], budget: int = 400) -> List[Any]:
    """Delta debugging: a (1-)minimal sublist on which `fails` still holds."""
    n = 2
    cur = list(items)
    calls = 0
    while len(cur) >= 2 and calls < budget:
        size = max(1, len(cur) // n)
        chunks = [cur[i:i + size] for i in range(0, len(cur), size)]
        reduced = False
        for i in range(len(chunks)):
            cand = [x for j, ch in enumerate(chunks) if j != i for x in ch]
            calls += 1
            if cand and fails(cand):
                cur = cand
                n = max(n - 1, 2)
                reduced = True
                break
            if calls >= budget:
                break
        if not reduced:
            if n >= len(cur):
                break
            n = min(len(cur), n * 2)
    return cur


# --------------------------------------------------------------------------------------
# context, evidence, violations


def load_known_findings() -> List[Dict[str, Any]]:
    f = VERIF / "known_findings.json"
    if not f.exists():
        return []
    return json.loads(f.read_text()).get("findings", [])


def signature(obj: Any) -> str:
    return hashlib.sha256(json.dumps(obj, sort_keys=True, default=str).encode()).hexdigest()[:16]


class Ctx:
    """One run of one check."""

    def __init__(self, pid: str, tier: str, seed: int):
        self.pid, self.tier, self.seed = pid, tier, seed
        self.rng = random.Random(seed)
        self.t0 = time.time()
        self.coverage: Dict[str, Any] = {"samples": []}
        self.assumptions: List[str] = []
        self.violations: List[Dict[str, Any]] = []   # unlisted -> exit 1
        self.known_hits: List[Dict[str, Any]] = []
        self.proof: Optional[Dict[str, Any]] = None
        self.notes: List[str] = []
        self._replay_n = 0
        self.known = [k for k in load_known_findings() if k.get("property") == pid]

    @property
    def quick(self) -> bool:
        return self.tier == "quick"

    def budget(self, quick: int, thorough: int) -> int:
        return quick if self.quick else thorough

    # ---- proof part
    def check_proofs(self) -> Dict[str, Any]:
        ok, blog = ensure_built(need=[f"Properties/{self.pid}.vo"])
        if not ok:
            self.proof = {"ok": False, "problems": ["build failed: " + blog[-2000:]], "obligations": 0,
                          "discharged": 0, "theorems": [], "axioms": {}}
        else:
            self.proof = proof_check(self.pid)
        p = self.proof
        self.coverage.update(
            obligations=p["obligations"], discharged=p["discharged"],
            checker_cmd=f"make -C coq && coqc -Q coq MV coq/Properties/{self.pid}.v  (Print Assumptions parsed; forbidden-vernacular scan)",
            theorems=p["theorems"],
            axioms_reported={k: v for k, v in p["axioms"].items() if v},
        )
        return p

    def sample(self, x: Any, limit: int = 6):
        if len(self.coverage["samples"]) < limit:
            self.coverage["samples"].append(x)

    # ---- violations
    def write_replay(self, obj: Dict[str, Any]) -> Path:
        REPLAY.mkdir(parents=True, exist_ok=True)
        self._replay_n += 1
        f = REPLAY / f"{self.pid}-{self.seed}-{self._replay_n}.json"
        obj = dict(obj)
        obj.setdefault("property", self.pid)
        obj.setdefault("seed", self.seed)
        f.write_text(json.dumps(obj, indent=1, default=str))
        return f

    def violation(self, what: str, replay: Dict[str, Any], sig_obj: Any = None,
                  found_input: bool = True):
        """Report a violation.  `sig_obj` is the canonical shrunk failing case used to match
        known findings; when no failing input was found, found_input=False."""
        sig = signature(sig_obj) if sig_obj is not None else None
        replay = dict(replay)
        replay["what"] = what
        replay["signature"] = sig
        replay["failing_input_found"] = found_input
        path = self.write_replay(replay)
        if found_input and sig is not None:
            for k in self.known:
                if k.get("status") == "open" and k.get("signature") == sig:
                    self.known_hits.append({"what": k.get("what", what), "signature": sig, "replay": str(path)})
                    print(f"KNOWN-FINDING: property={self.pid} {k.get('what', what)} (replay={path})", flush=True)
                    return
        self.violations.append({"what": what, "signature": sig, "replay": str(path), "found_input": found_input})
        tail = "" if found_input else " no-failing-input-found"
        print(f"VIOLATION property={self.pid} replay={path}{tail}", flush=True)
        log(f"  -> {what}")

    # ---- finish
    def finish(self, level: str = "proof") -> int:
        cov = self.coverage
        cov.setdefault("obligations", 0)
        cov.setdefault("discharged", 0)
        cov.setdefault("checker_cmd", "n/a")
        cov.setdefault("trusted_base", [])
        cov.setdefault("evaluations", 0)
        cov.setdefault("distinct_nontrivial", 0)
        ev = {
            "property_id": self.pid, "tier": self.tier, "seed": self.seed, "level": level,
            "coverage": cov, "assumptions": self.assumptions,
            "wall_s": round(time.time() - self.t0, 1),
            "violations": len(self.violations),
            "known_findings_hit": self.known_hits,
            "notes": self.notes,
        }
        if self.proof is not None and self.proof.get("problems"):
            ev["proof_problems"] = self.proof["problems"]
        EVIDENCE.mkdir(exist_ok=True)
        (EVIDENCE / f"{self.pid}.json").write_text(json.dumps(ev, indent=1, default=str) + "\n")
        if self.violations:
            return 1
        print(f"OK property={self.pid} tier={self.tier} obligations={cov['obligations']} "
              f"discharged={cov['discharged']} evaluations={cov.get('evaluations')} "
              f"wall={ev['wall_s']}s", flush=True)
        return 0


TRUSTED_COMMON = [
    "Coq 8.16.1 kernel (coqc; vm_compute used in Examples and in-Coq model evaluation; native_compute not used)",
    "Print Assumptions per property theorem: see coverage.axioms_reported (empty = Closed under the global context)",
    "extraction: ExtrOcamlBasic + ExtrOcamlString only, no Extract Constant; OCaml 4.13.1; runner/mrun.ml s-expression driver; cross-checked per run by vm_compute on a sample",
    "hand-written model tied to /repo by the differential correspondence check in harness/props (generators, abstraction, canonicalisation are trusted)",
    "harness-side numpy alias shim (harness/vshim.py) needed to import pint/bokeh",
]
