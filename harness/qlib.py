"""Helpers of the C07 check: a harness-registered schema family in the real ``schema`` plugin
group, container drivers, raw dumps.  Import ``vshim`` before this module.

The family (all in plugin group ``schema``; never written to /repo):

    vq.aa  1.0.0  1.1.0  2.0.0                    root schema, minor and major bump
    vq.bb  1.0.0<aa1.0.0  1.1.0<aa1.1.0  1.2.0<aa1.1.0  2.0.0<aa2.0.0
    vq.cc  1.0.0<bb1.0.0  1.1.0<bb1.2.0  2.0.0<bb1.2.0   (major bump of the leaf only)
    vq.ee  1.0.0<aa1.1.0  2.0.0 (no parent any more)
    vq.xx  1.0.0  auxiliary                       (cannot be attached)
    vq.dd  1.0.0<xx1.0.0                          (attachable child of an auxiliary schema)
    vq.ff  1.0.0  2.0.0                           (the major bump *drops* a required field)
    vq.gg  1.0.0<aa1.0.0  1.1.0<aa1.1.0
    vq.hh  1.0.0<gg1.0.0                          (its parent is *not* the newest gg 1.x release)

Major bumps add a *required* field, minor bumps an optional one, so that an object of an
older major release is not parsable by the newer class (as semantic versioning allows).
"""
from __future__ import annotations

import types
from typing import Any, Dict, List, Optional, Tuple

Ver = Tuple[int, int, int]
Ref = Tuple[str, Ver]

# (name, version, parent ref or None, auxiliary, required int fields, optional int fields)
FAMILY: List[Tuple[str, Ver, Optional[Ref], bool, List[str], List[str]]] = [
    ("vq.aa", (1, 0, 0), None, False, ["a"], []),
    ("vq.aa", (1, 1, 0), None, False, ["a"], ["a2"]),
    ("vq.aa", (2, 0, 0), None, False, ["a", "z"], ["a2"]),
    ("vq.bb", (1, 0, 0), ("vq.aa", (1, 0, 0)), False, ["b"], []),
    ("vq.bb", (1, 1, 0), ("vq.aa", (1, 1, 0)), False, ["b"], ["b2"]),
    ("vq.bb", (1, 2, 0), ("vq.aa", (1, 1, 0)), False, ["b"], ["b2", "b3"]),
    ("vq.bb", (2, 0, 0), ("vq.aa", (2, 0, 0)), False, ["b"], []),
    ("vq.cc", (1, 0, 0), ("vq.bb", (1, 0, 0)), False, ["c"], []),
    ("vq.cc", (1, 1, 0), ("vq.bb", (1, 2, 0)), False, ["c"], ["c2"]),
    ("vq.cc", (2, 0, 0), ("vq.bb", (1, 2, 0)), False, ["c", "w"], ["c2"]),
    ("vq.ee", (1, 0, 0), ("vq.aa", (1, 1, 0)), False, ["e"], []),
    ("vq.ee", (2, 0, 0), None, False, ["e", "y"], []),
    ("vq.xx", (1, 0, 0), None, True, ["x"], []),
    ("vq.dd", (1, 0, 0), ("vq.xx", (1, 0, 0)), False, ["d"], []),
    ("vq.ff", (1, 0, 0), None, False, ["f", "g"], []),
    ("vq.ff", (2, 0, 0), None, False, ["f"], []),
    ("vq.gg", (1, 0, 0), ("vq.aa", (1, 0, 0)), False, ["g1"], []),
    ("vq.gg", (1, 1, 0), ("vq.aa", (1, 1, 0)), False, ["g1"], ["g2"]),
    ("vq.hh", (1, 0, 0), ("vq.gg", (1, 0, 0)), False, ["h1"], []),
]
NAMES = ["vq.aa", "vq.bb", "vq.cc", "vq.ee", "vq.xx", "vq.dd", "vq.ff", "vq.gg", "vq.hh"]
INSTALLED = [("core.person", (0, 1, 0)), ("core.org", (0, 1, 0))]
INSTALLED_KW = {"core.person": {"name": "Jane Doe"}, "core.org": {"name": "Org"}}
PKG_NAME = "verif-c07-family"
PKG_VERSION = (0, 0, 1)

_CLASSES: Dict[Ref, Any] = {}


def parent_of(ref: Ref) -> Optional[Ref]:
    for n, v, p, _a, _r, _o in FAMILY:
        if (n, v) == ref:
            return p
    raise KeyError(ref)


def chain(ref: Ref) -> List[Ref]:
    """ref, its parent, ..., the root (independent of the plugin system: from FAMILY)."""
    out = [ref]
    while (p := parent_of(out[-1])) is not None:
        out.append(p)
    return out


def fields_of(ref: Ref) -> Tuple[List[str], List[str]]:
    """All (required, optional) fields of a release including the inherited ones."""
    req: List[str] = []
    opt: List[str] = []
    for r in reversed(chain(ref)):
        for n, v, _p, _a, rq, op in FAMILY:
            if (n, v) == r:
                req += [f for f in rq if f not in req]
                opt += [f for f in op if f not in opt]
    return req, opt


def is_aux(ref: Ref) -> bool:
    return next(a for n, v, _p, a, _r, _o in FAMILY if (n, v) == ref)


def install_family():
    """Register the family in the live ``schemas`` plugin group (idempotent per process)."""
    if _CLASSES:
        return _CLASSES
    from metador_core.plugin.types import to_ep_name
    from metador_core.plugin.util import register_in_group
    from metador_core.plugins import schemas
    from metador_core.schema import MetadataSchema
    from metador_core.schema.plugins import PluginPkgMeta, PluginRef

    # a package that provides the family, as an installed distribution would
    refs = [PluginRef(group="schema", name=n, version=v) for n, v, *_ in FAMILY]
    schemas._PKG_META[PKG_NAME] = PluginPkgMeta(name=PKG_NAME, version=PKG_VERSION,
                                                plugins={"schema": refs})
    fake_ep = types.SimpleNamespace(dist=types.SimpleNamespace(name=PKG_NAME))
    for n, v, p, aux, req, opt in FAMILY:
        base = _CLASSES[p] if p else MetadataSchema
        info = type("Plugin", (), {"name": n, "version": v, **({"auxiliary": True} if aux else {})})
        ann: Dict[str, Any] = {f: int for f in req}
        ns: Dict[str, Any] = {"Plugin": info, "__annotations__": ann, "__module__": __name__}
        for f in opt:
            ann[f] = Optional[int]
            ns[f] = None
        cname = "VQ_" + n.split(".")[1] + "_" + "_".join(map(str, v))
        cls = type(MetadataSchema)(cname, (base,), ns)
        register_in_group(schemas, cls, violently=True)
        schemas._ENTRY_POINTS[to_ep_name(n, v)] = fake_ep      # so that provider() works
        _CLASSES[(n, v)] = cls
    return _CLASSES


def cls_of(ref: Ref):
    return install_family()[ref]


def obj_kwargs(ref: Ref, seed: int) -> Dict[str, int]:
    """Field values of the generated instance of a family release (from FAMILY and `seed` only)."""
    req, opt = fields_of(ref)
    kw = {f: seed * 10 + i for i, f in enumerate(req)}
    for i, f in enumerate(opt):
        if (seed + i) % 2:
            kw[f] = seed * 100 + i
    return kw


def make_obj(ref: Ref, seed: int):
    """A valid instance of a family release; field values derive from `seed` only."""
    return cls_of(ref)(**obj_kwargs(ref, seed))


def open_raw(drv: str, d, mode: str = "w"):
    import h5py
    from metador_core.ih5.container import IH5Record
    if drv == "h5":
        return h5py.File(d / "cont.h5", mode)
    return IH5Record(d / "rec", mode)


def is_ds(node) -> bool:
    import h5py
    return hasattr(node, "ndim") or isinstance(node, h5py.Dataset)


def dump_raw(raw) -> Dict[str, Any]:
    """path -> 'G' | bytes of every raw node (bookkeeping included)."""
    out: Dict[str, Any] = {"/": "G"}
    pairs: List[Tuple[str, Any]] = []
    raw.visititems(lambda n, o: pairs.append((n, o)) or None)
    for n, o in pairs:
        name = "/" + n.strip("/")
        if is_ds(o):
            v = o[()]
            out[name] = bytes(v) if isinstance(v, (bytes, bytearray)) else (
                v.tobytes() if hasattr(v, "tobytes") and getattr(v, "dtype", None) is not None
                and v.dtype.kind in "VSO" else repr(v).encode())
        else:
            out[name] = "G"
    return out
