"""Helpers of the C20 check (harness/props/c20.py).

Part 1 is copied from harness/props/c12.py (grammar of field types, generated real
``MetadataSchema`` classes, valid instance inputs, encodings towards the Gallina model of
Schema/RoundTrip.v, a generic valid-input builder for installed schema plugins).
Part 2 is specific to C20: registration of harness schema families with real entry points and
package infos, container drivers, raw reading of the container bookkeeping, normalisation of
exported JSON Schemas to the ``jschema`` wire format of coq/Schema/JsonSchema.v.
"""
from __future__ import annotations

import copy
import json
from typing import Any, Dict, List, Optional, Tuple

import vlib

# ==========================================================================================
# Part 1 (from c12.py)

INT_POOL = [0, 1, -1, 7, 42, -5, 10 ** 12, 2 ** 63, 123456789, -2 ** 31]


FLOAT_POOL = [0.5, -1.25, 3.0, 1e-07, 1e16, 0.1 + 0.2, 2.5e300, -0.0, 1e22, 123456.789, 5e-324, 2.0]


STR_POOL = [
    "a", "hello world", " x ", "trail ", "  lead", "yes", "null", "1", "1.0", "a: b", "# x", "a\nb",
    "'q'", '"dq"', "- a", "{a}", "[a]", "\ta", "true", "~", "2020-01-01", "x\ty", "e-acute",
    "back\\slash", "@at", "%p", "&amp", "*star", "|", ">", "!tag", "a #c", "k: v: w", "0x10", "1e3",
    "+1", ".5", "NO", "off", "=", "<<", "multi\nline\n", "ends with colon:", "  spaces   inside  ",
    "12:30", "1_000", "? q", "a,b", "`bt`", "x" * 90,
]


UNI_STR_POOL = ["été", "日本語", "naïve café", "Ω≈ç√ ∂", "emoji 😀 ok", "ß", "Ünïcödé: yes", "– dash", "“quoted”"]


DUR_POOL = ["PT3H4M1S", "PT60S", "P1DT12H", "PT0.5S", "P1W", "P2DT3.25S", "-PT5S", "P1Y", "PT36H", "PT0S",
            "PT1M30.5S", "P1Y2M3DT4H", "PT0.000001S", "P10000D", "PT0.1S", "PT1000000S", "-P1D", "PT1H"]


UNIT_POOL = ["meter", "m", "kg/s**2", "meter * candela", "kilogram / second ** 2", "degC", "dimensionless",
             "1/s", "km/h", "N*m", "percent", "angstrom", "eV", "a", " m ", "m^2", "meter**0.5",
             "furlong/fortnight", "delta_degC", "dB", "count", "%", "kg m", "mm*km", "m/m"]


QTY_POOL = ["5 meter", "7.12 kilogram / second ** 2", "0 m", "1e-7 s", "3 dimensionless", "2.5", "1/3 m",
            "10 km/h", "5 m*cd", "12", "0", "m", "0.1 m + 0.2 m", "3 m/m", "1_000 m", "5 kg m", "1e22 s",
            "123456789012345678901234567890 m", "1.5e-300 m", "5 %", "2 m**2", "4 delta_degC", "-3.5 eV", "degC"]


DUR_KW_POOL = [{"years": 1, "days": 3}, {"months": 2}, {"seconds": 90}, {"days": 1, "seconds": 0.5}, {"weeks": 1},
               {"hours": 36}, {"minutes": -5}, {"years": 1, "months": 2, "days": 3, "hours": 4}, {"microseconds": 1},
               {"milliseconds": 1500}, {"years": 2}, {"days": 0}, {"months": 14, "minutes": 1}]


QTY_MU_POOL = [[5, "km/h"], [2.5, "meter"], [3, "kg m"], [-1.5, "eV"], [7, "m"], [1e-7, "s"], [12, "dimensionless"],
               [4, "delta_degC"], [25, "degC"], [0, "m"], [10, "1/s"], [3, "meter**0.5"]]


LIT_POOLS = [["a", "b", "c"], ["single_crystal", "bi_crystal", "poly_crystal"], [1, 2, 3], ["x", 5],
             [True], ["on", "off"], ["yes"], [0, "zero"]]


CONST_VALUES = ["x", "Dataset", 3, True, 2.5, [1, 2], {"a": 1, "b": ["c"]}, "https://w3id.org/ro/crate/1.1/context"]


ATOMS = ["int", "float", "bool", "str", "nestr", "lit", "dur", "unit", "qty"]


ATOM_W = [2, 2, 1, 2, 2, 1, 3, 3, 3]


STRINGY = ["str", "nestr", "lit", "dur", "unit", "qty"]


ALIASES = ["@id", "@value", "x-{n}", "{n}Alias", "with space {n}", "@{n}"]


def _hist(it):
    h: Dict[str, int] = {}
    for x in it:
        h[str(x)] = h.get(str(x), 0) + 1
    return h


def gen_atom(rng, kinds=None):
    k = rng.choices(ATOMS, ATOM_W)[0] if kinds is None else rng.choice(kinds)
    if k == "lit":
        return ["lit"] + list(rng.choice(LIT_POOLS))
    return k


def gen_union(rng, objs):
    kinds = ["int", "float", "bool", "stringy"] + (["obj"] if objs else [])
    n = rng.randint(2, 3)
    ks = rng.sample(kinds, min(n, len(kinds)))
    alts = []
    for k in ks:
        if k == "stringy":
            a = gen_atom(rng, STRINGY)
            if isinstance(a, list):   # a literal inside a union: strings only
                a = ["lit"] + list(rng.choice([p for p in LIT_POOLS if all(isinstance(x, str) for x in p)]))
            alts.append(a)
        elif k == "obj":
            alts.append(["obj", rng.choice(objs)])
        else:
            alts.append(k)
    return ["union"] + alts


def gen_singular(rng, objs):
    r = rng.random()
    if objs and r < 0.18:
        return ["obj", rng.choice(objs)]
    if r < 0.32:
        return gen_union(rng, objs)
    return gen_atom(rng)


def gen_set_elem(rng):
    r = rng.random()
    if r < 0.12:
        return ["union", "int", rng.choice(["nestr", "dur", "unit"])]
    a = gen_atom(rng, ["int", "str", "nestr", "lit", "dur", "unit", "float", "bool", "int", "nestr", "dur", "unit"])
    if isinstance(a, list):
        a = ["lit"] + list(rng.choice([p for p in LIT_POOLS if len({type(x) for x in p}) == 1]))
    return a


def gen_complex(rng, objs):
    r = rng.random()
    if r < 0.2:
        return ["list", gen_singular(rng, objs)]
    if r < 0.35:
        return ["set", gen_set_elem(rng)]
    return gen_singular(rng, objs)


def simple_default(rng, t):
    """(has_default, json default) for a non-optional complex type; only simple canonical values."""
    if t == "int":
        return True, rng.choice([0, 7, -3])
    if t == "float":
        return True, rng.choice([2.5, 0.0, -1.5])
    if t == "bool":
        return True, rng.choice([True, False])
    if t in ("str", "nestr"):
        return True, rng.choice(["abc", "dflt value"])
    if isinstance(t, list) and t[0] == "lit":
        return True, t[1]
    if isinstance(t, list) and t[0] in ("list", "set"):
        return True, []
    return False, None


def gen_class(rng, name, objs, bases, used_names):
    """One class spec.  Fields: [name, alias, type, has_default, default(json)]."""
    base = None
    if bases and rng.random() < 0.22:
        base = rng.choice(bases)
    nf = rng.randint(1, 6)
    fields = []
    binfo = used_names.get(base, {"fields": [], "consts": []}) if base else {"fields": [], "consts": []}
    taken = set(k for k in binfo["fields"] if k.startswith("f") and k[1:].isdigit())
    alias_taken = set(binfo["fields"]) | set(binfo["consts"])
    field_keys = set(binfo["fields"])
    for i in range(nf):
        n = f"f{len(taken)}"
        taken.add(n)
        t = gen_complex(rng, objs)
        has_d, d = False, None
        if rng.random() < 0.45:
            t = ["opt", t]
            if rng.random() < 0.15:
                has_d, d = simple_default(rng, t[1])
                if has_d and d == []:
                    has_d, d = False, None
        elif rng.random() < 0.3:
            has_d, d = simple_default(rng, t)
        a = n
        if rng.random() < 0.25:
            a = rng.choice(ALIASES).format(n=n)
            if a in alias_taken:
                a = n
        alias_taken.add(a)
        alias_taken.add(n)
        field_keys.add(a)
        field_keys.add(n)
        fields.append([n, a, t, has_d, d])
    consts, ld = [], None
    r = rng.random()
    if r < 0.3:
        ld = {"context": rng.choice(["https://schema.org", "https://w3id.org/ro/crate/1.1/context", {"@vocab": "http://ex.org/"}]),
              "type": rng.choice(["Thing", "Dataset", name])}
        if rng.random() < 0.3:
            ld["id"] = "urn:const:" + name
        if any(("@" + k) in field_keys for k in ld):
            ld = None
    elif r < 0.55:
        for k in rng.sample(["kind", "schemaVersion", "flag", "meta", "@type", "ratio"], rng.randint(1, 3)):
            if k not in field_keys:
                consts.append([k, rng.choice(CONST_VALUES)])
    forbid = (base is None) and rng.random() < 0.15
    used_names[name] = {"fields": sorted(field_keys),
                        "consts": sorted(set(binfo["consts"]) | {k for k, _ in consts} | ({"@" + k for k in ld} if ld else set()))}
    return {"name": name, "base": base, "fields": fields, "consts": consts, "ld": ld, "forbid": forbid}


def gen_universe(rng, uid):
    """1-3 classes; later ones may nest or inherit earlier ones; the last one is the main class."""
    n = rng.choice([1, 1, 2, 2, 3])
    classes, objs, bases, used = [], [], [], {}
    for i in range(n):
        name = f"G{uid}x{i}"
        c = gen_class(rng, name, list(objs), [b for b in bases], used)
        classes.append(c)
        objs.append(name)
        if not c["forbid"]:
            bases.append(name)
    return {"classes": classes, "main": classes[-1]["name"]}


def env_of(uni):
    return {c["name"]: c for c in uni["classes"]}


def flat_fields(env, name):
    c = env[name]
    base = flat_fields(env, c["base"]) if c["base"] else []
    return base + c["fields"]


def flat_consts(env, name):
    c = env[name]
    d = dict(flat_consts(env, c["base"])) if c["base"] else {}
    if c["ld"]:
        for k, v in c["ld"].items():
            d["@" + k] = v
    for k, v in c["consts"]:
        d[k] = v
    return d


def is_forbid(env, name):
    c = env[name]
    return bool(c["forbid"] or (c["base"] and is_forbid(env, c["base"])))


def kinds_in(env, t, acc=None):
    acc = set() if acc is None else acc
    if isinstance(t, str):
        if t in ("dur", "unit", "qty"):
            acc.add(t)
    elif t[0] in ("opt", "list", "set"):
        kinds_in(env, t[1], acc)
    elif t[0] == "union":
        for a in t[1:]:
            kinds_in(env, a, acc)
    elif t[0] == "obj":
        for f in flat_fields(env, t[1]):
            kinds_in(env, f[2], acc)
    return acc


def has_set(env, t):
    if isinstance(t, str):
        return False
    if t[0] == "set":
        return True
    if t[0] in ("opt", "list"):
        return has_set(env, t[1])
    if t[0] == "union":
        return any(has_set(env, a) for a in t[1:])
    if t[0] == "obj":
        return any(has_set(env, f[2]) for f in flat_fields(env, t[1]))
    return False


def gen_pyobj(rng, t):
    """Marker (JSON-able) for a Python object of a custom type; materialised in the worker."""
    if t == "dur":
        return {"$py": "dur", "kw": dict(rng.choice(DUR_KW_POOL))}
    if t == "unit":
        r = rng.random()
        if r < 0.15:
            return {"$py": "unit-reg", "s": rng.choice(UNIT_POOL)}
        if r < 0.3:
            return {"$py": "unit", "s": rng.choice(["m", "s", "kg", "km/h"]), "pow": rng.choice([2, -1, 3])}
        return {"$py": "unit", "s": rng.choice(UNIT_POOL)}
    r = rng.random()
    if r < 0.15:
        m, u = rng.choice(QTY_MU_POOL)
        return {"$py": "qty-reg", "m": m, "u": u}
    if r < 0.6:
        m, u = rng.choice(QTY_MU_POOL)
        return {"$py": "qty", "m": m, "u": u, "unitobj": rng.random() < 0.3}
    return {"$py": "qty", "s": rng.choice(QTY_POOL)}


def gen_input(rng, env, t, depth=0, py=False):
    if py and t in ("dur", "unit", "qty") and rng.random() < 0.75:
        return gen_pyobj(rng, t)
    if t == "int":
        return rng.choice(INT_POOL)
    if t == "float":
        return rng.choice(FLOAT_POOL)
    if t == "bool":
        return rng.choice([True, False])
    if t == "str":
        return rng.choice(STR_POOL)
    if t == "nestr":
        return rng.choice(STR_POOL)
    if t == "dur":
        return rng.choice(DUR_POOL)
    if t == "unit":
        return rng.choice(UNIT_POOL)
    if t == "qty":
        return rng.choice(QTY_POOL)
    k = t[0]
    if k == "lit":
        return rng.choice(t[1:])
    if k == "opt":
        return gen_input(rng, env, t[1], depth, py)   # presence is decided at field level
    if k == "union":
        return gen_input(rng, env, rng.choice(t[1:]), depth, py)
    if k == "list":
        return [gen_input(rng, env, t[1], depth, py) for _ in range(rng.choice([0, 1, 2, 3]))]
    if k == "set":
        xs = [gen_input(rng, env, t[1], depth, py) for _ in range(rng.choice([0, 1, 2, 3, 4]))]
        if xs and rng.random() < 0.3:
            xs.append(xs[0])
        return xs
    if k == "obj":
        return gen_obj_input(rng, env, t[1], depth + 1, py=py)
    raise ValueError(t)


def gen_obj_input(rng, env, name, depth=0, explicit_none=False, py=False):
    d = {}
    for (n, a, t, has_d, dv) in flat_fields(env, name):
        optional = has_d or (isinstance(t, list) and t[0] == "opt")
        if optional and rng.random() < (0.35 if depth == 0 else 0.55):
            continue
        if explicit_none and isinstance(t, list) and t[0] == "opt" and has_d:
            d[a] = None
            continue
        key = n if (a != n and rng.random() < 0.15) else a
        d[key] = gen_input(rng, env, t, depth, py)
    return d


def jsx(j):
    if j is None:
        return "null"
    if isinstance(j, bool):
        return ["b", "T" if j else "F"]
    if isinstance(j, int):
        return ["i", str(j)]
    if isinstance(j, float):
        return ["f", repr(j)]
    if isinstance(j, str):
        return ["s", j]
    if isinstance(j, (list, tuple)):
        return ["a"] + [jsx(x) for x in j]
    if isinstance(j, dict):
        return ["o"] + [[str(k), jsx(v)] for k, v in j.items()]
    raise TypeError(type(j))


def canon_jsx(x):
    """Objects compared as maps: sort the members by key."""
    if isinstance(x, list) and x and x[0] == "o":
        return ["o"] + sorted(([kv[0], canon_jsx(kv[1])] for kv in x[1:]), key=lambda kv: kv[0])
    if isinstance(x, list) and x and x[0] == "a":
        return ["a"] + [canon_jsx(y) for y in x[1:]]
    return x


def default_tval(t, d):
    """tval of a declared (simple) default."""
    if d is None:
        return "none"
    if isinstance(t, list) and t[0] == "opt":
        return ["some", default_tval(t[1], d)]
    if t == "int":
        return ["i", str(d)]
    if t == "float":
        return ["f", repr(float(d))]
    if t == "bool":
        return ["b", "T" if d else "F"]
    if t in ("str", "nestr"):
        return ["s", d]
    if t[0] == "lit":
        return ["lit", jsx(d)]
    if t[0] == "list":
        return ["list"]
    if t[0] == "set":
        return ["set"]
    raise ValueError((t, d))


def model_ty(env, t):
    if isinstance(t, str):
        return t
    k = t[0]
    if k == "lit":
        return ["lit"] + [jsx(v) for v in t[1:]]
    if k in ("opt", "list", "set"):
        return [k, model_ty(env, t[1])]
    if k == "union":
        return ["union"] + [model_ty(env, a) for a in t[1:]]
    if k == "obj":
        name = t[1]
        fs = []
        for (n, a, ft, has_d, d) in flat_fields(env, name):
            fs.append([n, a, model_ty(env, ft), [default_tval(ft, d)] if has_d else []])
        cs = [[k2, jsx(v)] for k2, v in flat_consts(env, name).items()]
        return ["obj", "T" if is_forbid(env, name) else "F", fs, cs]
    raise ValueError(t)


_ENC = {}


def _types():
    if not _ENC:
        import isodate
        from metador_core.schema.types import Duration, PintQuantity, PintUnit
        _ENC.update(dur=(Duration, isodate.duration_isoformat), unit=(PintUnit, str), qty=(PintQuantity, str))
    return _ENC


_NORM_CACHE: Dict[Tuple[str, str], Optional[str]] = {}


def real_norm(kind, s):
    """The real custom parser composed with the registered JSON encoder; None = refused."""
    key = (kind, s)
    if key not in _NORM_CACHE:
        from pydantic import parse_obj_as
        T, enc = _types()[kind]
        try:
            _NORM_CACHE[key] = enc(parse_obj_as(T, s))
        except Exception:  # noqa: BLE001
            _NORM_CACHE[key] = None
    return _NORM_CACHE[key]


def strings_in(j, acc):
    if isinstance(j, str):
        acc.add(j)
    elif isinstance(j, list):
        for x in j:
            strings_in(x, acc)
    elif isinstance(j, dict):
        for x in j.values():
            strings_in(x, acc)


def norm_table(kinds, jsons):
    """Finite normaliser table over every string in the given JSON values (closed under output)."""
    strs = set()
    for j in jsons:
        strings_in(j, strs)
    tab, bad = [], []
    for k in sorted(kinds):
        seen = set()
        todo = sorted(strs)
        while todo:
            s = todo.pop()
            if s in seen:
                continue
            seen.add(s)
            o = real_norm(k, s)
            if o is not None:
                tab.append([k, s, o])
                if o not in seen:
                    todo.append(o)
                o2 = real_norm(k, o)
                if o2 != o:
                    bad.append({"ckind": k, "input": s, "printed": o, "reparsed_printed": o2})
    return tab, bad


def pytype(env_cls, t):
    from typing import List as TList, Literal, Optional as TOpt, Set as TSet, Union
    from metador_core.schema import types as T
    if isinstance(t, str):
        return {"int": T.Int, "float": T.Float, "bool": T.Bool, "str": T.Str, "nestr": T.NonEmptyStr,
                "dur": T.Duration, "unit": T.PintUnit, "qty": T.PintQuantity}[t]
    k = t[0]
    if k == "lit":
        return Literal[tuple(t[1:])]
    if k == "opt":
        return TOpt[pytype(env_cls, t[1])]
    if k == "union":
        return Union[tuple(pytype(env_cls, a) for a in t[1:])]
    if k == "list":
        return TList[pytype(env_cls, t[1])]
    if k == "set":
        return TSet[pytype(env_cls, t[1])]
    if k == "obj":
        return env_cls[t[1]]
    raise ValueError(t)


def build_classes(uni):
    """Real MetadataSchema subclasses for a universe: name -> class."""
    from pydantic import Extra, Field
    from typing_extensions import Annotated
    from metador_core.schema import MetadataSchema
    from metador_core.schema.decorators import add_const_fields
    from metador_core.schema.ld import ld
    out: Dict[str, Any] = {}
    for c in uni["classes"]:
        ann, ns = {}, {"__module__": __name__, "__qualname__": c["name"]}
        for (n, a, t, has_d, d) in c["fields"]:
            T = pytype(out, t)
            if a != n:
                T = Annotated[T, Field(alias=a)]
            ann[n] = T
            if has_d:
                ns[n] = set() if (isinstance(t, list) and t[0] == "set") else copy.deepcopy(d)
        ns["__annotations__"] = ann
        if c["forbid"]:
            ns["Config"] = type("Config", (), {"extra": Extra.forbid})
        base = out[c["base"]] if c["base"] else MetadataSchema
        cls = type(base)(c["name"], (base,), ns)
        if c["ld"]:
            cls = ld(**c["ld"])(cls)
        if c["consts"]:
            cls = add_const_fields({k: copy.deepcopy(v) for k, v in c["consts"]}, override=True)(cls)
        out[c["name"]] = cls
    return out


class Untaggable(Exception):
    pass


def to_tval(env, t, v):
    """Typed value (model encoding) of what an instance holds; independent of the model's parser."""
    enc = _types()
    if t == "int":
        if type(v) is not int:
            raise Untaggable(f"int field holds {type(v).__name__}")
        return ["i", str(v)]
    if t == "float":
        if type(v) is not float:
            raise Untaggable(f"float field holds {type(v).__name__}")
        return ["f", repr(v)]
    if t == "bool":
        if type(v) is not bool:
            raise Untaggable(f"bool field holds {type(v).__name__}")
        return ["b", "T" if v else "F"]
    if t in ("str", "nestr"):
        if type(v) is not str:
            raise Untaggable(f"str field holds {type(v).__name__}")
        return ["s", v]
    if t in ("dur", "unit", "qty"):
        T, f = enc[t]
        if not isinstance(v, T):
            raise Untaggable(f"{t} field holds {type(v).__name__}")
        return ["cus", f(v)]
    k = t[0]
    if k == "lit":
        if not any(type(v) is type(x) and v == x for x in t[1:]):
            raise Untaggable(f"literal field holds {v!r}")
        return ["lit", jsx(v)]
    if k == "opt":
        return "none" if v is None else ["some", to_tval(env, t[1], v)]
    if k == "union":
        for i, a in enumerate(t[1:]):
            try:
                return ["un", str(i), to_tval(env, a, v)]
            except Untaggable:
                continue
        raise Untaggable(f"union field holds {type(v).__name__}")
    if k == "list":
        if not isinstance(v, list):
            raise Untaggable("list field")
        return ["list"] + [to_tval(env, t[1], x) for x in v]
    if k == "set":
        if not isinstance(v, (set, frozenset)):
            raise Untaggable("set field")
        return ["set"] + [to_tval(env, t[1], x) for x in v]     # iteration order = dump order
    if k == "obj":
        if type(v).__name__ != t[1]:
            raise Untaggable(f"obj field holds {type(v).__name__}")
        return ["obj"] + [field_tval(env, f, getattr(v, f[0])) for f in flat_fields(env, t[1])]
    raise ValueError(t)


def field_tval(env, f, v):
    t = f[2]
    if v is None and not (isinstance(t, list) and t[0] == "opt"):
        raise Untaggable("None in a non-optional field")
    return to_tval(env, t, v)


def _exc(e):
    return f"{type(e).__name__}: {str(e)}".replace("\n", " | ")[:300]


def materialise(j):
    """Replace {"$py": ...} markers by real Python objects of the custom types."""
    if isinstance(j, list):
        return [materialise(x) for x in j]
    if isinstance(j, dict) and "$py" in j:
        import pint
        from metador_core.schema.types import Duration, PintQuantity, PintUnit
        k = j["$py"]
        if k == "dur":
            return Duration(**j["kw"])
        if k == "unit":
            u = PintUnit(j["s"])
            return u ** j["pow"] if "pow" in j else u
        if k == "unit-reg":
            return pint.application_registry.get().Unit(j["s"])
        if k == "qty-reg":
            return pint.application_registry.get().Quantity(j["m"], j["u"])
        if "s" in j:
            return PintQuantity(j["s"])
        return PintQuantity(j["m"], PintUnit(j["u"]) if j.get("unitobj") else j["u"])
    if isinstance(j, dict):
        return {k: materialise(v) for k, v in j.items()}
    return j


class Unsupported(Exception):
    pass


def gen_for_type(tp, rng, depth):
    import datetime
    import enum
    import pathlib
    import typing
    from pydantic import AnyUrl, BaseModel, ConstrainedFloat, ConstrainedInt, ConstrainedList, ConstrainedStr
    from typing_extensions import Annotated, get_args, get_origin
    from metador_core.schema import types as T
    origin = get_origin(tp)
    if tp is typing.Any:
        return rng.choice([1, "any", [1, "x"], {"k": "v"}])
    if origin is Annotated:
        return gen_for_type(get_args(tp)[0], rng, depth)
    if origin is typing.Union:
        args = [a for a in get_args(tp) if a is not type(None)]
        if depth >= 2:
            simple = [a for a in args if not (isinstance(a, type) and issubclass(a, BaseModel))]
            args = simple or args
        return gen_for_type(rng.choice(args), rng, depth)
    if origin in (list, typing.List):
        (a,) = get_args(tp)
        return [gen_for_type(a, rng, depth) for _ in range(rng.choice([1, 1, 2]))]
    if origin in (set, frozenset):
        (a,) = get_args(tp)
        if get_origin(a) is typing.Union:      # models are unhashable: pick the hashable alternatives
            hs = [x for x in get_args(a) if not (isinstance(x, type) and issubclass(x, BaseModel))]
            if not hs:
                raise Unsupported("set of models (unhashable)")
            a = rng.choice(hs)
        elif isinstance(a, type) and issubclass(a, BaseModel):
            raise Unsupported("set of models (unhashable)")
        vals = []
        for _ in range(rng.choice([1, 2, 3])):
            v = gen_for_type(a, rng, depth)
            if v not in vals:
                vals.append(v)
        return vals
    if origin is typing.Literal:
        return rng.choice(get_args(tp))
    if origin in (dict, typing.Dict):
        return {"k": 1} if rng.random() < 0.5 else {}
    if origin is tuple:
        return [gen_for_type(a, rng, depth) for a in get_args(tp) if a is not Ellipsis]
    if isinstance(tp, type):
        if issubclass(tp, BaseModel):
            return gen_model_input(tp, rng, depth + 1)
        if issubclass(tp, T.Duration):
            return rng.choice(DUR_POOL)
        if issubclass(tp, T.PintUnit):
            return rng.choice(UNIT_POOL)
        if issubclass(tp, T.PintQuantity):
            return rng.choice(QTY_POOL)
        if issubclass(tp, AnyUrl):
            return rng.choice(["https://example.org/a/b?q=1", "http://w3id.org/x#y", "https://orcid.org/0000-0001-2345-6789"])
        if issubclass(tp, T.QualHashsumStr):
            return "sha256:" + "ab12" * 16
        if issubclass(tp, T.HashsumStr):
            return "0123abcdEF"
        if issubclass(tp, T.MimeTypeStr):
            return rng.choice(["text/plain", "image/png", "application/json;charset=utf-8"])
        if issubclass(tp, T.NonEmptyStr):
            return rng.choice(STR_POOL)
        if issubclass(tp, enum.Enum):
            return rng.choice(list(tp)).value
        if issubclass(tp, bool):
            return rng.choice([True, False])
        if issubclass(tp, ConstrainedInt) or tp is int:
            lo = 1 if getattr(tp, "gt", None) is not None or getattr(tp, "ge", None) is not None else -5
            return rng.choice([lo, lo + 1, 7, 1024])
        if issubclass(tp, ConstrainedFloat) or tp is float:
            return rng.choice([0.5, 2.25, 1e-3, 1234.5])
        if issubclass(tp, ConstrainedList):
            n = max(1, tp.min_items or 0)
            return [gen_for_type(tp.item_type, rng, depth) for _ in range(n)]
        if issubclass(tp, (ConstrainedStr, str)):
            return rng.choice(["abc", "some text", "x1"])
        if issubclass(tp, datetime.datetime):
            return rng.choice(["2020-01-02T03:04:05", "2021-12-31T23:59:59+00:00", "1999-06-15T12:00:00.250000"])
        if issubclass(tp, datetime.date):
            return rng.choice(["2020-01-02", "1999-12-31"])
        if issubclass(tp, datetime.time):
            return rng.choice(["03:04:05", "23:59:59.500000"])
        if issubclass(tp, pathlib.PurePath):
            return "/tmp/some/path"
    raise Unsupported(repr(tp))


def gen_model_input(S, rng, depth):
    from metador_core.schema.parser import get_parser
    consts = getattr(S, "__constants__", {}) or {}
    if depth > 0 and get_parser(S) is not None and rng.random() < 0.6:
        return rng.choice([5, 2.5, "5 px", "3 meter", "12"])    # custom-parser models (NumValue, SIValue)
    d = {}
    for name, f in S.__fields__.items():
        if name in consts:
            continue
        if not f.required and rng.random() < (0.5 if depth == 0 else 0.2 + 0.25 * depth):
            continue
        try:
            d[f.alias] = gen_for_type(f.outer_type_, rng, depth)
        except Unsupported:
            if f.required:
                raise
    return d


def _walk(x):
    yield x
    if isinstance(x, dict):
        for v in x.values():
            yield from _walk(v)
    elif isinstance(x, (list, tuple, set, frozenset)):
        for v in x:
            yield from _walk(v)


def list_installed(_=None):
    from metador_core.plugins import schemas
    return sorted((str(k.name), [int(x) for x in k.version]) for k in schemas.keys()
                  if not str(k.name).startswith("vt."))



def canon_json_ty(env, t, x):
    """Type-directed: arrays at Set positions are compared as sets (sorted); objects as maps."""
    if isinstance(t, str) or x == "null" or not isinstance(x, list):
        return x
    k = t[0]
    if k == "opt":
        return canon_json_ty(env, t[1], x)
    if k == "set" and x and x[0] == "a":
        return ["a"] + sorted((canon_json_ty(env, t[1], y) for y in x[1:]), key=lambda y: json.dumps(y))
    if k == "list" and x and x[0] == "a":
        return ["a"] + [canon_json_ty(env, t[1], y) for y in x[1:]]
    if k == "union":
        if x and x[0] == "o":
            for a in t[1:]:
                if isinstance(a, list) and a[0] == "obj":
                    return canon_json_ty(env, a, x)
        return canon_jsx(x)
    if k == "obj" and x and x[0] == "o":
        by = {f[1]: f[2] for f in flat_fields(env, t[1])}
        out = []
        for kv in x[1:]:
            out.append([kv[0], canon_json_ty(env, by[kv[0]], kv[1]) if kv[0] in by else canon_jsx(kv[1])])
        return ["o"] + sorted(out, key=lambda kv: kv[0])
    return canon_jsx(x)

# ==========================================================================================
# Part 2 (C20)

NE_FORMAT = "\\s*\\S[\\S\\s]*"
ANNOTATION_KEYS = {"title", "description", "examples", "default", "definitions", "$metador_plugin"}

# ---- harness schema family: 3 levels of inheritance, several versions, two packages, one
#      auxiliary schema, a nested non-plugin schema.  Same spec format as gen_universe.

FAMILY = {"classes": [
    {"name": "FPart", "base": None, "forbid": False, "ld": None, "consts": [],
     "fields": [["x", "x", "int", False, None], ["q", "q", ["opt", "qty"], False, None]]},
    {"name": "FBase1", "base": None, "forbid": False, "ld": None, "consts": [],
     "fields": [["title", "title", "nestr", False, None], ["count", "count", ["opt", "int"], False, None]]},
    {"name": "FBase2", "base": None, "forbid": False, "ld": None, "consts": [],
     "fields": [["title", "title", "nestr", False, None], ["count", "count", ["opt", "int"], False, None],
                ["tags", "tags", ["set", "nestr"], True, []]]},
    {"name": "FBase3", "base": None, "forbid": False, "ld": None, "consts": [],
     "fields": [["title", "title", "nestr", False, None], ["weight", "weight", "float", False, None]]},
    {"name": "FMid1", "base": "FBase1", "forbid": False, "ld": None, "consts": [],
     "fields": [["kind", "kind", ["lit", "a", "b", "c"], False, None], ["dur", "dur", ["opt", "dur"], False, None]]},
    {"name": "FMid2", "base": "FBase2", "forbid": False, "ld": None, "consts": [],
     "fields": [["kind", "kind", ["lit", "a", "b", "c"], False, None], ["dur", "dur", ["opt", "dur"], False, None],
                ["note", "note", ["opt", "str"], False, None]]},
    {"name": "FLeaf1", "base": "FMid1", "forbid": False, "ld": None, "consts": [["schemaVersion", 1]],
     "fields": [["values", "values", ["list", ["union", "int", "str"]], True, []]]},
    {"name": "FLeaf2", "base": "FMid2", "forbid": False,
     "ld": {"context": "https://w3id.org/ro/crate/1.1/context", "type": "Dataset"}, "consts": [],
     "fields": [["values", "values", ["list", ["union", "int", "str"]], True, []],
                ["unit", "unit", ["opt", "unit"], False, None]]},
    {"name": "FSolo", "base": None, "forbid": True, "ld": None, "consts": [],
     "fields": [["ident", "@id", "nestr", False, None], ["flag", "flag", "bool", True, True],
                ["part", "part", ["opt", ["obj", "FPart"]], False, None],
                ["mix", "mix", ["opt", ["lit", "x", 5]], False, None]]},
    {"name": "FAux", "base": None, "forbid": False, "ld": None, "consts": [],
     "fields": [["a", "a", "int", False, None]]},
    # a nested (non-plugin) JSON-LD entity, a child of it that OVERRIDES inherited constants
    # (@type and kind), and a schema with parent-typed fields (single, list, inside a Union):
    # pydantic keeps a child instance as it is in a parent-typed field
    {"name": "FEnt", "base": None, "forbid": False, "ld": {"context": "https://schema.org", "type": "Thing"},
     "consts": [["kind", "x"]], "fields": [["name", "name", "nestr", False, None]]},
    {"name": "FEntKid", "base": "FEnt", "forbid": False, "ld": {"context": {"@vocab": "http://ex.org/"}, "type": "Person"},
     "consts": [["kind", "y"]], "fields": [["nick", "nick", ["opt", "str"], False, None]]},
    {"name": "FHolder", "base": None, "forbid": False, "ld": None, "consts": [],
     "fields": [["one", "one", ["opt", ["obj", "FEnt"]], False, None],
                ["many", "many", ["list", ["obj", "FEnt"]], True, []],
                ["either", "either", ["opt", ["union", "int", ["obj", "FEnt"]]], False, None],
                ["label", "label", "nestr", False, None]]},
    # record-name order vs. inheritance: children of vt.base 1.0.0 whose names sort after
    # (same package) and before (other package) the parent's; vt.leaf < vt.mid (same package)
    # and vt.mid > vt.base (other package) complete the four combinations
    {"name": "FZeta", "base": "FBase3", "forbid": False, "ld": None, "consts": [],
     "fields": [["z", "z", ["opt", "int"], False, None]]},
    {"name": "FAble", "base": "FBase3", "forbid": False, "ld": None, "consts": [],
     "fields": [["able", "able", ["opt", "bool"], False, None]]},
], "main": "FSolo"}

# class name -> (plugin name, version, auxiliary)
FAMILY_PLUGINS = {
    "FBase1": ("vt.base", (0, 1, 0), False), "FBase2": ("vt.base", (0, 2, 0), False),
    "FBase3": ("vt.base", (1, 0, 0), False), "FMid1": ("vt.mid", (0, 1, 0), False),
    "FMid2": ("vt.mid", (0, 2, 0), False), "FLeaf1": ("vt.leaf", (0, 1, 0), False),
    "FLeaf2": ("vt.leaf", (1, 1, 0), False), "FSolo": ("vt.solo", (0, 1, 0), False),
    "FAux": ("vt.aux", (0, 1, 0), True),
    "FZeta": ("vt.zeta", (0, 1, 0), False), "FAble": ("vt.able", (0, 3, 1), False),
    "FHolder": ("vt.holder", (0, 1, 0), False),
}
# package name -> (version, class names)
FAMILY_PACKAGES = {
    "vpkg-alpha": ((1, 0, 0), ["FBase1", "FBase2", "FBase3", "FMid1", "FZeta", "FHolder"]),
    "vpkg-beta": ((2, 3, 4), ["FMid2", "FLeaf1", "FLeaf2", "FSolo", "FAux", "FAble"]),
}


def _module(name: str):
    import sys
    import types
    if name not in sys.modules:
        sys.modules[name] = types.ModuleType(name)
    return sys.modules[name]


def build_plugin_classes(uni, plugins: Dict[str, tuple], module: str):
    """Like build_classes, but classes named in `plugins` carry an inner Plugin class and every
    class is reachable as attribute of the synthetic module `module` (entry point target)."""
    from pydantic import Extra, Field
    from typing_extensions import Annotated
    from metador_core.schema import MetadataSchema
    from metador_core.schema.decorators import add_const_fields
    from metador_core.schema.ld import ld
    mod = _module(module)
    out: Dict[str, Any] = {}
    for c in uni["classes"]:
        ann, ns = {}, {"__module__": module, "__qualname__": c["name"]}
        for (n, a, t, has_d, d) in c["fields"]:
            T = pytype(out, t)
            if a != n:
                T = Annotated[T, Field(alias=a)]
            ann[n] = T
            if has_d:
                ns[n] = set() if (isinstance(t, list) and t[0] == "set") else copy.deepcopy(d)
        ns["__annotations__"] = ann
        if c["forbid"]:
            ns["Config"] = type("Config", (), {"extra": Extra.forbid})
        if c["name"] in plugins:
            pname, pver, aux = plugins[c["name"]]
            pd = {"name": pname, "version": tuple(pver)}
            if aux:
                pd["auxiliary"] = True
            ns["Plugin"] = type("Plugin", (), pd)
        base = out[c["base"]] if c["base"] else MetadataSchema
        cls = type(base)(c["name"], (base,), ns)
        if c["ld"]:
            cls = ld(**c["ld"])(cls)
        if c["consts"]:
            cls = add_const_fields({k: copy.deepcopy(v) for k, v in c["consts"]}, override=True)(cls)
        out[c["name"]] = cls
        setattr(mod, c["name"], cls)
    return out


def register_packages(module: str, classes: Dict[str, Any], plugins: Dict[str, tuple],
                      packages: Dict[str, tuple]):
    """Make the plugin system know the classes through real entry points that belong to
    (fake) distributions, and the distributions' package infos."""
    import importlib_metadata
    from metador_core.plugin.entrypoints import pkg_meta
    from metador_core.plugin.types import to_ep_name
    from metador_core.plugins import schemas
    from metador_core.schema.plugins import PluginPkgMeta, PluginRef
    for pkg, (pver, cnames) in packages.items():
        if pkg in pkg_meta:
            continue
        dist = type("FakeDist", (), {"name": pkg, "version": ".".join(map(str, pver))})
        refs = []
        for cn in cnames:
            pname, ver, _aux = plugins[cn]
            refs.append(PluginRef(group="schema", name=pname, version=tuple(ver)))
        pkg_meta[pkg] = PluginPkgMeta(name=pkg, version=tuple(pver), plugins={"schema": refs},
                                      repository_url=f"https://example.org/{pkg}")
        for cn in cnames:
            pname, ver, _aux = plugins[cn]
            epn = to_ep_name(pname, tuple(ver))
            ep = importlib_metadata.EntryPoint(epn, f"{module}:{cn}", "metador_schema")._for(dist)
            schemas._add_ep(epn, ep)


_FAMILY: Dict[str, Any] = {}


def install_family():
    if not _FAMILY:
        classes = build_plugin_classes(FAMILY, FAMILY_PLUGINS, "sdfam")
        register_packages("sdfam", classes, FAMILY_PLUGINS, FAMILY_PACKAGES)
        _FAMILY.update(classes)
    return _FAMILY


_UNIS: Dict[int, Any] = {}


def universe_plugins(uni, uid: int):
    plugins = {c["name"]: (f"vg.u{uid}c{i}", (0, 1 + (uid + i) % 3, i % 2), False)
               for i, c in enumerate(uni["classes"])}
    packages = {f"vpkg-gen{uid}": ((0, uid % 7, 1), [c["name"] for c in uni["classes"]])}
    return plugins, packages


def install_universe(uni, uid: int):
    """Every class of a generated universe becomes a schema plugin of one package."""
    if uid not in _UNIS:
        plugins, packages = universe_plugins(uni, uid)
        classes = build_plugin_classes(uni, plugins, "sdgen")
        register_packages("sdgen", classes, plugins, packages)
        _UNIS[uid] = (classes, plugins)
    return _UNIS[uid]


# ---- plugin-side truth

def ref_key(ref) -> List[str]:
    return [str(ref.name), ".".join(str(int(x)) for x in ref.version)]


def pkg_obs(info) -> list:
    """(name, version, url, schema plugin list) of a PluginPkgMeta."""
    return [str(info.name), ".".join(str(int(x)) for x in info.version), str(info.repository_url or ""),
            [ref_key(r) for r in info.plugins.get("schema", [])]]


def env_entry(name: str, ver) -> Dict[str, Any]:
    """Plugin-side values for the exact reference (name, ver).  `ok`: objects can be stored
    under it (it is what a request for it resolves to, and it is not auxiliary)."""
    from metador_core.plugins import schemas
    ref = schemas.PluginRef(name=name, version=tuple(ver))
    res = schemas.resolve(name, tuple(ver))
    cls = schemas.get(name, tuple(ver))
    js = cls.schema_json()
    return {"ref": ref_key(ref), "json": json.loads(js), "json_text": js,
            "parents": [ref_key(r) for r in schemas.parent_path(name, tuple(ver))],
            "provider": pkg_obs(schemas.provider(ref)),
            "aux": bool(cls.Plugin.auxiliary),
            "resolved": ref_key(res),
            "ok": ref_key(res) == ref_key(ref) and not cls.Plugin.auxiliary}


# ---- containers

def open_container(drv: str, d, mode: str):
    """mode "w": fresh; "r+": open the existing one for more changes; "r": read-only."""
    import h5py
    from metador_core.container import MetadorContainer
    from metador_core.ih5.container import IH5Record
    if drv == "h5":
        raw = h5py.File(d / "cont.h5", mode)
    else:
        raw = IH5Record(d / "rec", mode)
    return raw, MetadorContainer(raw)


def _is_ds(node) -> bool:
    import h5py
    return hasattr(node, "ndim") or isinstance(node, h5py.Dataset)


def raw_bookkeeping(raw) -> Dict[str, Any]:
    """What is stored, read through the raw (unwrapped) container only."""
    out: Dict[str, Any] = {"objects": [], "schemas": {}, "packages": {}, "links": []}
    toc = "metador_container"
    names: List[str] = []
    raw.visit(lambda n: names.append(n) or None)
    for n in sorted(names):
        segs = n.strip("/").split("/")
        node = raw[n]
        if segs[0] == toc:
            if len(segs) == 4 and segs[1] == "schemas":
                out["schemas"].setdefault(segs[2], {})[segs[3]] = bytes(node[()])
            elif len(segs) == 3 and segs[1] == "schemas":
                out["schemas"].setdefault(segs[2], {})
            elif len(segs) == 3 and segs[1] == "packages":
                out["packages"][segs[2]] = bytes(node[()])
            elif len(segs) == 4 and segs[1] == "links":
                out["links"].append([segs[2], segs[3], bytes(node[()]).decode()])
            continue
        metas = [i for i, s in enumerate(segs) if s.startswith("metador_meta_")]
        if metas and metas[-1] == len(segs) - 2 and _is_ds(node):
            epn, _, uuid = segs[-1].partition("=")
            md = segs[-2]
            if md == "metador_meta_":
                user = segs[:-2]
            else:
                user = segs[:-2] + [md[len("metador_meta_"):]]
            out["objects"].append({"node": "/" + "/".join(user), "schema": epn, "uuid": uuid,
                                   "path": "/" + n.strip("/"), "bytes": bytes(node[()])})
    return out


def ep_to_key(epn: str) -> List[str]:
    name, _, ver = epn.partition("__")
    return [name, ver]


def reports(mc) -> Dict[str, Any]:
    """What the container interface reports about schemas and packages."""
    out: Dict[str, Any] = {"schemas": {}, "packages": {}, "errors": []}
    ms = mc.metador.schemas
    for ref in sorted(ms.keys(), key=lambda r: (str(r.name), tuple(r.version))):
        k = "__".join(ref_key(ref))
        rec: Dict[str, Any] = {}
        for what, fn in (("json", lambda: ms[ref]),
                         ("get", lambda: ms.get(ref)),
                         ("parents", lambda: [ref_key(r) for r in ms.parent_path(ref.name, tuple(ref.version))]),
                         ("provider", lambda: pkg_obs(ms.provider(ref))),
                         ("contains", lambda: ref in ms)):
            try:
                rec[what] = fn()
            except Exception as e:  # noqa: BLE001
                rec[what] = {"$exc": type(e).__name__ + ": " + str(e)[:120]}
        out["schemas"][k] = rec
    try:
        for pk, info in ms.packages.items():
            out["packages"][str(pk[0]) + "__" + ".".join(str(int(x)) for x in pk[1])] = pkg_obs(info)
    except Exception as e:  # noqa: BLE001
        out["errors"].append(type(e).__name__ + ": " + str(e)[:120])
    out["len"] = len(ms)
    return out


# ---- JSON Schema: real export -> jschema wire format

class OutsideFragment(Exception):
    pass


def _int_bound(v):
    if isinstance(v, bool) or not isinstance(v, (int, float)) or (isinstance(v, float) and not v.is_integer()):
        raise OutsideFragment(f"non-integer bound {v!r}")
    return int(v)


def to_jschema(s, defs=None, stack=()):
    """Translate a JSON Schema (as exported by pydantic, any nesting of $ref into
    `definitions`) to the wire format of coq/Schema/JsonSchema.v; $refs are inlined.
    Raises OutsideFragment for anything the fragment does not cover."""
    if s is True:
        return ["bool", "T"]
    if s is False:
        return ["bool", "F"]
    if not isinstance(s, dict):
        raise OutsideFragment(f"schema is {type(s).__name__}")
    if defs is None:
        defs = s.get("definitions", {})
    if "$ref" in s:
        extra = set(s) - {"$ref"} - ANNOTATION_KEYS
        if extra:
            raise OutsideFragment(f"$ref with sibling keywords {sorted(extra)}")
        ref = s["$ref"]
        if not ref.startswith("#/definitions/"):
            raise OutsideFragment("foreign $ref " + ref)
        name = ref[len("#/definitions/"):]
        if name in stack:
            raise OutsideFragment("recursive $ref " + name)
        return to_jschema(defs[name], defs, stack + (name,))
    kws = []
    props = addl = None
    for k, v in s.items():
        if k in ANNOTATION_KEYS:
            continue
        if k == "type":
            if not isinstance(v, str):
                raise OutsideFragment("type list")
            kws.append(["type", v])
        elif k == "enum":
            kws.append(["enum"] + [jsx(x) for x in v])
        elif k == "const":
            kws.append(["const", jsx(v)])
        elif k == "anyOf":
            kws.append(["anyOf"] + [to_jschema(x, defs, stack) for x in v])
        elif k == "allOf":
            kws.extend(to_jschema(x, defs, stack) for x in v)
        elif k == "items":
            if isinstance(v, list):
                kws.append(["tuple"] + [to_jschema(x, defs, stack) for x in v])
            else:
                kws.append(["items", to_jschema(v, defs, stack)])
        elif k == "uniqueItems":
            if v:
                kws.append(["uniqueItems"])
        elif k in ("minItems", "maxItems", "minLength", "maxLength"):
            kws.append([k, str(int(v))])
        elif k == "properties":
            props = [[pk, to_jschema(pv, defs, stack)] for pk, pv in v.items()]
        elif k == "additionalProperties":
            addl = to_jschema(v, defs, stack)
        elif k == "required":
            if v:
                kws.append(["required"] + list(v))
        elif k == "minimum":
            kws.append(["min", "F", str(_int_bound(v))])
        elif k == "exclusiveMinimum":
            kws.append(["min", "T", str(_int_bound(v))])
        elif k == "maximum":
            kws.append(["max", "F", str(_int_bound(v))])
        elif k == "exclusiveMaximum":
            kws.append(["max", "T", str(_int_bound(v))])
        elif k == "format":
            kws.append(["format", v])
        elif k == "$metador_constants":
            kws.append(["consts"] + [[ck, jsx(cv)] for ck, cv in v.items()])
        else:
            raise OutsideFragment("keyword " + k)
    if props is not None or addl is not None:
        kws.append(["props", props or [], addl if addl is not None else ["bool", "T"]])
    return ["all"] + kws


def canon_jschema(x):
    """Order-insensitive normal form: nested conjunctions flattened, keywords / properties /
    required / constants / anyOf alternatives sorted; enum members keep their order."""
    if not isinstance(x, list) or not x:
        return x
    tag = x[0]
    if tag == "all":
        flat = []
        for k in x[1:]:
            k = canon_jschema(k)
            if isinstance(k, list) and k and k[0] == "all":
                flat.extend(k[1:])
            else:
                flat.append(k)
        return ["all"] + sorted(flat, key=lambda y: json.dumps(y))
    if tag == "anyOf":
        # alternatives as a set: validity does not depend on their order, and the order the
        # exporter sees is not always the declared one (typing caches Optional[Union[A, B]] and
        # Optional[Union[B, A]] as one object within a process)
        return [tag] + sorted((canon_jschema(y) for y in x[1:]), key=lambda y: json.dumps(y))
    if tag == "tuple":
        return [tag] + [canon_jschema(y) for y in x[1:]]
    if tag == "items":
        return [tag, canon_jschema(x[1])]
    if tag == "props":
        return [tag, sorted(([p[0], canon_jschema(p[1])] for p in x[1]), key=lambda p: p[0]), canon_jschema(x[2])]
    if tag == "required":
        return [tag] + sorted(x[1:])
    if tag == "consts":
        return [tag] + sorted(([c[0], canon_jsx(c[1])] for c in x[1:]), key=lambda c: c[0])
    if tag == "enum":
        return [tag] + [canon_jsx(y) for y in x[1:]]
    return x


def fragment_has_pattern(s) -> bool:
    if isinstance(s, dict):
        return "pattern" in s or any(fragment_has_pattern(v) for k, v in s.items() if k not in ("default", "examples", "enum", "const"))
    if isinstance(s, list):
        return any(fragment_has_pattern(v) for v in s)
    return False


_FC: List[Any] = []


def strict_format_checker():
    """A format checker that knows exactly one format: the NonEmptyStr expression."""
    if not _FC:
        import re
        import jsonschema
        fc = jsonschema.FormatChecker(formats=())
        rx = re.compile(NE_FORMAT)
        fc.checks(NE_FORMAT)(lambda v: (not isinstance(v, str)) or rx.fullmatch(v) is not None)
        _FC.append(fc)
    return _FC[0]


def real_valid(schema, instance, strict: bool) -> bool:
    import jsonschema
    v = jsonschema.Draft7Validator(schema, format_checker=strict_format_checker() if strict else None)
    return v.is_valid(instance)


def real_errors(schema, instance, limit=3) -> List[str]:
    import jsonschema
    v = jsonschema.Draft7Validator(schema)
    return [f"{'/'.join(map(str, e.absolute_path))}: {e.message[:160]}" for e in list(v.iter_errors(instance))[:limit]]


# ---- mutations of a JSON instance (for jvalid vs jsonschema)

MUT_VALUES = [None, True, False, 0, 1, 3, -1, 3.0, 2.5, "", " ", "a", "x", [], [1], [1, 1], [1, 1.0], ["a", "a"],
              {}, {"a": 1}, 10 ** 20, 1e16]


def _paths(j, pre=()):
    yield pre
    if isinstance(j, dict):
        for k, v in j.items():
            yield from _paths(v, pre + (k,))
    elif isinstance(j, list):
        for i, v in enumerate(j):
            yield from _paths(v, pre + (i,))


def _get(j, p):
    for k in p:
        j = j[k]
    return j


def _set(j, p, v):
    if not p:
        return v
    j = copy.deepcopy(j)
    cur = j
    for k in p[:-1]:
        cur = cur[k]
    cur[p[-1]] = v
    return j


def mutate_json(rng, j):
    """One random local change of a JSON value (deep copy)."""
    ps = list(_paths(j))
    p = rng.choice(ps)
    cur = _get(j, p)
    r = rng.random()
    if isinstance(cur, dict) and r < 0.35 and cur:
        k = rng.choice(list(cur))
        new = {a: b for a, b in cur.items() if a != k}
        return _set(j, p, new)
    if isinstance(cur, dict) and r < 0.6:
        new = dict(cur)
        new[rng.choice(["zz_extra", "extra key", "f0"])] = rng.choice(MUT_VALUES)
        return _set(j, p, new)
    if isinstance(cur, list) and r < 0.4 and cur:
        return _set(j, p, cur + [copy.deepcopy(rng.choice(cur))])
    if isinstance(cur, list) and r < 0.6:
        return _set(j, p, cur + [rng.choice(MUT_VALUES)])
    if isinstance(cur, bool) and r < 0.5:
        return _set(j, p, int(cur))
    if isinstance(cur, int) and not isinstance(cur, bool) and r < 0.5:
        return _set(j, p, rng.choice([float(cur), cur + 0.5, bool(cur % 2), str(cur)]))
    if isinstance(cur, float) and r < 0.5 and cur == cur and abs(cur) < 1e15:
        return _set(j, p, rng.choice([int(cur), str(cur)]))
    return _set(j, p, copy.deepcopy(rng.choice(MUT_VALUES)))


def json_ascii(j) -> bool:
    """The model's strings are bytes: keep non-ASCII and exotic floats out of the model cases."""
    if isinstance(j, str):
        return all(32 <= ord(c) < 127 or c in "\t\n" for c in j) and not any(0xe0 <= ord(c) <= 0xef for c in j)
    if isinstance(j, float):
        return j == j and j not in (float("inf"), float("-inf"))
    if isinstance(j, list):
        return all(json_ascii(x) for x in j)
    if isinstance(j, dict):
        return all(json_ascii(k) and json_ascii(v) for k, v in j.items())
    return True


# ---- child-schema instances in parent-typed fields

def schema_subclasses(P) -> list:
    """Proper schema subclasses of P (no partial models, no version-less markers), those that
    override an inherited constant first."""
    from metador_core.plugin.metaclass import UndefVersion
    from metador_core.schema.partial import PartialModel
    out, seen, stack = [], set(), list(P.__subclasses__())
    while stack:
        c = stack.pop()
        if c in seen:
            continue
        seen.add(c)
        stack.extend(c.__subclasses__())
        if issubclass(c, PartialModel) or UndefVersion._is_marked(c) or not hasattr(c, "__constants__"):
            continue
        out.append(c)
    pc = getattr(P, "__constants__", {}) or {}

    def overrides(c):
        cc = c.__constants__ or {}
        return any(k in cc and cc[k] != v for k, v in pc.items())
    out.sort(key=lambda c: (not overrides(c), c.__module__, c.__qualname__))
    return out


def child_instance(value, rng):
    """An instance of a child schema of type(value) carrying value's data, or None."""
    for C in schema_subclasses(type(value))[:4]:
        try:
            return C.parse_obj(value.json_dict())
        except Exception:  # noqa: BLE001
            pass
        try:
            return C.parse_obj(gen_model_input(C, rng, 1))
        except Exception:  # noqa: BLE001
            pass
    return None


def childify(cls, obj, rng):
    """(instance of cls whose schema-typed field values are replaced by instances of child
    schemas where such exist, number of replaced values); (obj, 0) when nothing applies."""
    from metador_core.schema import MetadataSchema
    consts = getattr(cls, "__constants__", {}) or {}
    vals, n = {}, 0
    for name, f in cls.__fields__.items():
        if name in consts:
            continue
        v = getattr(obj, name)
        if v is None:
            continue
        if isinstance(v, MetadataSchema):
            k = child_instance(v, rng)
            if k is not None:
                v, n = k, n + 1
        elif isinstance(v, list):
            new = []
            for x in v:
                k = child_instance(x, rng) if isinstance(x, MetadataSchema) else None
                if k is not None:
                    n += 1
                new.append(k if k is not None else x)
            v = new
        vals[f.alias] = v
    if not n:
        return obj, 0
    try:
        out = cls.parse_obj(vals)
    except Exception:  # noqa: BLE001
        return obj, 0
    # count what really is a child instance now
    kept = 0
    for name in cls.__fields__:
        v = getattr(out, name, None)
        for x in (v if isinstance(v, list) else [v]):
            if isinstance(x, MetadataSchema) and name not in consts:
                ft = cls.__fields__[name].type_
                if isinstance(ft, type) and type(x) is not ft and issubclass(type(x), MetadataSchema):
                    kept += 1
    return out, max(kept, 0) or n
