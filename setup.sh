#!/bin/sh
# MANIFEST.setup_cmd: builds the Coq development, extracts and compiles the model runner.
# Offline; everything comes from files under /verif and the pre-installed toolchain.
set -e
HERE="$(cd "$(dirname "$0")" && pwd)"
cd "$HERE"
export PYTHONPATH="$HERE/harness:/repo/src" PYTHONDONTWRITEBYTECODE=1
/venv/bin/python - <<'PY'
import sys
import vlib
ok, log = vlib.ensure_built()
print(log[-3000:])
hits = vlib.forbidden_tokens()
if hits:
    print("forbidden vernacular:", hits)
    sys.exit(1)
sys.exit(0 if ok else 1)
PY
echo "setup ok"
