#!/bin/sh
# seed_sweep.sh "<seeds>" "<ids>" : runs the quick checks with several seeds against /repo (evidence redirected),
# prints one line per run; any non-OK line is an alarm on the unchanged tree that must be investigated.
SEEDS="${1:-1 2 3}"; IDS="${2:-C01 C02 C03 C04 C05 C06 C07 C08 C09 C10 C11 C12 C13 C14 C15 C16 C17 C18 C19 C20}"
HERE="$(cd "$(dirname "$0")/.." && pwd)"; cd "$HERE"
export VERIF_EVIDENCE_DIR="${VERIF_EVIDENCE_DIR:-/tmp/sweep-ev}"
for s in $SEEDS; do for p in $IDS; do
  out=$(VERIF_SEED=$s timeout 1500 ./check $p --tier quick 2>&1); rc=$?
  echo "seed=$s $p rc=$rc $(echo "$out" | grep -E '^OK|^VIOLATION|^KNOWN' | head -3 | tr '\n' ' ' | cut -c1-260)"
done; done
