#!/bin/sh
# Re-checks every compiled Properties/*.vo and everything it depends on with the independent checker
# and lists the axioms they rely on (coqchk -o). Takes several minutes and GBs of memory.
HERE="$(cd "$(dirname "$0")/.." && pwd)"; cd "$HERE/coq"
MODS=$(ls Properties/*.v | sed 's#/#.#; s#\.v$##; s#^#MV.#')
( date; echo "coqchk -o -silent -Q . MV $MODS"; timeout 7200 coqchk -o -silent -Q . MV $MODS 2>&1 | tail -60 ) > "$HERE/trusted/coqchk-o.txt"
tail -25 "$HERE/trusted/coqchk-o.txt"
