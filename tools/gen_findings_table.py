#!/usr/bin/env python3
"""Rewrites the table between <!-- FINDINGS-BEGIN --> and <!-- FINDINGS-END --> in DESIGN.md from known_findings.json."""
import json
from pathlib import Path
V = Path(__file__).resolve().parent.parent
kf = json.loads((V / "known_findings.json").read_text())["findings"]
rows = ["| Prop | Defect on the pinned tree (short) | status | fix commit in /repo |", "|---|---|---|---|"]
for k in sorted(kf, key=lambda k: (k["property"], k.get("status") != "fixed")):
    short = k["line"].split(" ", 3)[-1] if k.get("status") == "fixed" else k["what"]
    if k.get("status") == "fixed":
        short = k["line"].split(k["commit"], 1)[-1].strip()
    rows.append(f"| {k['property']} | {short} | {k['status']} | {k.get('commit', '—')} |")
txt = (V / "DESIGN.md").read_text()
b, e = "<!-- FINDINGS-BEGIN -->", "<!-- FINDINGS-END -->"
i, j = txt.index(b) + len(b), txt.index(e)
txt = txt[:i] + "\n" + "\n".join(rows) + "\n" + txt[j:]
(V / "DESIGN.md").write_text(txt)
print(len(rows) - 2, "findings")
