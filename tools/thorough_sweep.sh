#!/bin/sh
# thorough_sweep.sh "<ids>" : runs the thorough tier of the checks against /repo (evidence redirected), one line per run.
IDS="${1:-C01 C02 C03 C04 C05 C06 C07 C08 C09 C10 C11 C12 C13 C14 C15 C16 C17 C18 C19 C20}"
HERE="$(cd "$(dirname "$0")/.." && pwd)"; cd "$HERE"
export VERIF_EVIDENCE_DIR="${VERIF_EVIDENCE_DIR:-/tmp/sweep-ev-thorough}"
for p in $IDS; do
  t0=$(date +%s); out=$(timeout 3000 ./check $p --tier thorough 2>&1); rc=$?; t1=$(date +%s)
  echo "thorough $p rc=$rc wall=$((t1-t0))s $(echo "$out" | grep -E '^OK|^VIOLATION|^KNOWN' | head -3 | tr '\n' ' ' | cut -c1-260)"
done
