#!/bin/sh
# Runs the repository's pinned baseline with the verification guard OFF and compares the
# passing set with /root/.vp/BASELINE.json (stable_pass).  Exit 0 iff every stable test passes.
unset METADOR_CORE_VERIF
OUT="$(mktemp -d)"
cd /repo && /venv/bin/python -m pytest -ra -q -p no:cacheprovider --timeout=900 \
  --continue-on-collection-errors --junitxml="$OUT/junit.xml" >"$OUT/log" 2>&1
/venv/bin/python - "$OUT/junit.xml" <<'PY'
import json, sys, xml.etree.ElementTree as ET
base = json.load(open("/root/.vp/BASELINE.json"))["stable_pass"]
ok = set()
for tc in ET.parse(sys.argv[1]).getroot().iter("testcase"):
    if not any(ch.tag in ("failure", "error", "skipped") for ch in tc):
        ok.add(f"{tc.get('classname')}::{tc.get('name')}")
missing = [t for t in base if t not in ok]
print(f"baseline: {len(base) - len(missing)}/{len(base)} stable tests pass")
for t in missing:
    print("MISSING", t)
sys.exit(1 if missing else 0)
PY
RC=$?
rm -rf "$OUT"
exit $RC
