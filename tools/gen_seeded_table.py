#!/usr/bin/env python3
"""Rewrites the table between <!-- SEEDED-BEGIN --> and <!-- SEEDED-END --> in DESIGN.md from
seeded/*/meta.json and seeded/RESULTS.json (written by tools/seeded.py)."""
import json
from pathlib import Path
V = Path(__file__).resolve().parent.parent
res = {r["name"]: r for r in json.loads((V / "seeded" / "RESULTS.json").read_text())}
rows = ["| seeded change | property | what it needs to manifest | result of the quick check |", "|---|---|---|---|"]
for d in sorted((V / "seeded").iterdir()):
    if not (d / "meta.json").exists():
        continue
    m = json.loads((d / "meta.json").read_text())
    if m.get("kind") == "benign":
        continue
    r = res.get(d.name, {})
    out = []
    for pid, c in r.get("checks", {}).items():
        v = [l for l in c["lines"] if l.startswith("VIOLATION")]
        nf = sum("no-failing-input-found" in l for l in v)
        if c["exit"] == 1 and v:
            out.append(f"{pid}: caught ({len(v) - nf} with failing input" + (f", {nf} as broken correspondence" if nf else "") + ")")
        else:
            out.append(f"{pid}: MISSED")
    needs = " ".join(str(m.get("needs", "")).split())[:260]
    hist = m.get("history", "")
    rows.append(f"| `{d.name}` | {m['property']} | {needs} | {'; '.join(out) or 'not run'}{(' — ' + hist) if hist else ''} |")
txt = (V / "DESIGN.md").read_text()
b, e = "<!-- SEEDED-BEGIN -->", "<!-- SEEDED-END -->"
if b in txt:
    i, j = txt.index(b) + len(b), txt.index(e)
    txt = txt[:i] + "\n" + "\n".join(rows) + "\n" + txt[j:]
    (V / "DESIGN.md").write_text(txt)
print("\n".join(rows))
