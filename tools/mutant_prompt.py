#!/usr/bin/env python3
"""Prints the prompt given to an independent sub-agent that seeds a property-breaking change.
Usage: mutant_prompt.py C16 [n]   (the agent sees only the property record, nothing from /verif)"""
import json, sys
pid = sys.argv[1]
n = sys.argv[2] if len(sys.argv) > 2 else "1"
rec = None
for l in open("/verif/properties.jsonl"):
    d = json.loads(l)
    if d["id"] == pid:
        rec = d
wt = f"/tmp/mut/{pid}" if n == "1" else f"/tmp/mut/{pid}-{n}"
print(f"""You are testing how robust a Python library's guarantees are against subtle regressions. The library is metador-core (metadata containers over HDF5). You have your own scratch git worktree of the repository at {wt} (work ONLY there; never touch /repo or /verif, and do not read anything under /verif).

Here is a semantic property the library is supposed to satisfy:

ID: {rec['id']} — {rec['title']}
Statement: {rec['statement']}
Quantifier: {rec['quantifier']['text']}
Anchors: {json.dumps(rec['anchors'], indent=1)}

Your task: produce ONE realistic change to the library source under {wt}/src/metador_core (the kind of change a developer could make in a refactoring, optimisation or "small fix") that BREAKS this property, while (a) the code still imports, and (b) the existing test suite still passes: run `cd {wt} && /venv/bin/python -m pytest -q -p no:cacheprovider --timeout=900 --continue-on-collection-errors 2>&1 | tail -5` before and after — the same tests must pass (66 pass on the unchanged tree; 24 others fail at collection for an unrelated numpy/pint incompatibility, ignore those).
The change must need something SPECIFIC to manifest — a particular multi-step sequence of operations, an unusual input, a particular interleaving or crash point, or two cooperating sites that each look fine alone — not something ordinary use would expose at once. Avoid trivial sabotage (e.g. `return None` at the top of a function); prefer an off-by-one, a wrong comparison, a missed case, a dropped guard in one code path, a stale cache, a wrong sort key, an early exit in an edge case.

Environment facts: run code with `PYTHONPATH=/tmp/mut:{wt}/src /venv/bin/python` and `import vshim` (a file at /tmp/mut/vshim.py that adds numpy aliases) BEFORE importing anything from metador_core, otherwise pint/bokeh imports fail. Always wrap runs in `timeout 120`. No network.

Deliverables, all under {wt}/_seed/ :
 - patch.diff  : `git -C {wt} diff -- src` of your change (unified diff, applies to the unchanged tree with `git apply`);
 - demo.py     : a small self-contained program (uses `import vshim` first, temp dirs only) that exits 0 on the UNCHANGED tree and exits non-zero (assertion with a clear message) WITH your change, demonstrating the property violation through the public API;
 - meta.json   : {{"property": "{pid}", "what": "<one paragraph: what was changed>", "needs": "<what specific circumstances are needed for it to manifest>", "ran": ["<commands you ran>"]}}.
Verify yourself: demo passes on unchanged tree (git stash or `git apply -R`), fails with the change; test suite result identical. Finish with the change APPLIED in the worktree and the three files written. In your final message summarise the change in 3 lines.""")
