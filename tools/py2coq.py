#!/usr/bin/env python3
"""py2coq — fail-closed translator from a small pure subset of Python to Gallina.

    translate(source_path, spec) -> Result(text, functions, constants, partial, assumed)

Everything outside the subset raises `Refuse` naming file:line and the ast node type; the
caller (harness/gentie.py) reports that as a broken tie, never as a skip.  The meaning of the
Python builtins is fixed by coq/Gen/PyLib.v (plus Coq's String/N/Z/List and Base/Cmp.v).

Subset: module-level functions and static/class/instance methods with positional parameters
(defaults allowed); `return`, `if/elif/else`, assignments to local names (rebinding = shadowing
`let`), `l[-1] = e`, `l.append(e)`, `l.pop()`, `del l[-1]`, declared mutator methods (`h.update(x)`) on locally created lists that are never aliased;
`and/or/not` (truth value of str/list/int where only the truth is used), comparisons (by inferred type), `in`/`not in` on literal tuples and on strings,
`is None`, `+ - *` on ints, `+` on str/list, str methods startswith/endswith/find/split/join/
strip/lstrip/rstrip, split/rsplit(sep, 1), partition/rpartition, `len`, `str`, slices `s[a:b]`, constant indices, f-strings of simple
expressions, `"..{}..".format(a, ..)` on a literal with plain `{}` fields, generator expressions /
list comprehensions as the sole argument of join/any/all/list, tuples, list literals, `any/all/map`, list comprehensions, conditional
expressions, attribute access on declared records, module/class constants, calls to other
functions of the same module, declared casts (identity) and declared opaque functions
(become parameters), declared extern pure functions (mapped to a Coq function).  Functions that
`raise X(msg)` / `assert c` (statements in sequence, not inside loops or try) return
`(string * string) + T` (`inl (exception class name, message)`; a procedure has T = unit); a call
of such a function as a statement or `x = f(..)` is a monadic bind; the stream read loop
(`while True: c = d.read(n); if not c: break; h.update(c)`, the walrus and the `iter(lambda..., b"")`
forms) becomes `py_read_loop`; `try: x = ..D[k].. except KeyError: raise ..` on a declared dict is a
lookup match; per-function `rewrites` map an exact statement text to subset source.  A nested
`def err(msg: str): return SomeError(<message>)` is allowed as a builder used in `raise err(..)`.  `if x is None` / `is not None`
on an Optional name or attribute chain becomes a `match` that narrows x in the Some branch (also
inside `x is None or ...` / `x is not None and ...`).  `super().m(...)` resolves through the
spec's `bases`; functions of `extra_sources` modules can be called.  Types: str->string, int->Z (N where declared), bool, List->list,
Tuple->right-nested product, Optional->option.
"""
from __future__ import annotations

import ast
import hashlib
import os
import re
import sys
from dataclasses import dataclass, field
from typing import Any, Dict, List, Optional, Tuple

STR, BOOL, Z, N = "str", "bool", "Z", "N"
TRUTH = "truth"          # `want` marker: only the truth value of the expression is used
RESERVED = set("""as at cofix else end exists exists2 fix for forall fun if IF in let match mod
Prop return Set then Type using where with andb orb negb true false Some None fst snd pair nil cons
""".split())


BUILTINS = ("any", "all", "len", "str", "int", "map", "list", "filter")


class Refuse(Exception):
    def __init__(self, path, node, why):
        self.path, self.line = path, getattr(node, "lineno", 0)
        self.node_type = type(node).__name__ if not isinstance(node, str) else node
        super().__init__(f"{path}:{self.line}: {self.node_type}: {why}")


@dataclass
class Result:
    text: str
    sha256: str
    functions: List[Dict[str, Any]] = field(default_factory=list)
    constants: List[str] = field(default_factory=list)
    partial: List[str] = field(default_factory=list)     # partial operations read totally
    assumed: List[str] = field(default_factory=list)     # casts / opaque functions used
    extra_sha256: Dict[str, str] = field(default_factory=dict)


def coq_type(t) -> str:
    if t in (STR,):
        return "string"
    if t in (BOOL, Z, N, "unit"):
        return t
    if t in ("bytes", "stream"):
        return "(list ascii)" if t == "bytes" else "py_stream"
    k = t[0]
    if k == "result":
        return f"((string * string) + {coq_type(t[1])})"
    if k == "list":
        return f"(list {coq_type(t[1])})"
    if k == "option":
        return f"(option {coq_type(t[1])})"
    if k == "tuple":
        parts = [coq_type(x) for x in t[1]]
        s = parts[-1]
        for p in reversed(parts[:-1]):
            s = f"({p} * {s})"
        return s
    if k in ("rec", "abs"):
        return t[2] if k == "rec" else t[1]
    raise ValueError(t)


def coq_str(s: str) -> str:
    return '"' + s.replace('"', '""') + '"'


class Tr:
    def __init__(self, path: str, src: str, spec: Dict[str, Any], extra=()):
        self.path, self.spec = path, spec
        self.funcs: Dict[str, Tuple[ast.FunctionDef, Optional[ast.ClassDef], str]] = {}
        self.consts: Dict[str, Tuple[ast.AST, Optional[ast.AST]]] = {}
        for mpath, msrc in [(path, src), *extra]:        # the first module wins on name clashes
            self.ipath = mpath
            for st in ast.parse(msrc, filename=mpath).body:
                self._index(st, None)
        self.nfresh = 0
        self.bind_node = None        # the raising call currently translated in statement position
        self.with_binders: set = set()
        self.binders_of: Dict[str, str] = {}     # function -> declared (or inherited) extra binders
        self.cur_fn: List[str] = []              # functions being translated, innermost last
        self._raising: Dict[str, bool] = {}
        self.out: Dict[str, str] = {}            # coq name -> definition text (in order)
        self.sigs: Dict[str, Any] = {}           # python qualname -> (coq name, param list, ret type)
        self.ctypes: Dict[str, Any] = {}
        self.busy: List[str] = []
        self.res = Result("", hashlib.sha256(src.encode()).hexdigest())

    def _index(self, st, cls):
        pre = f"{cls.name}." if cls else ""
        if isinstance(st, ast.FunctionDef):
            self.funcs.setdefault(pre + st.name, (st, cls, self.ipath))
        elif isinstance(st, ast.ClassDef) and cls is None:
            for s in st.body:
                self._index(s, st)
        elif isinstance(st, ast.Assign) and len(st.targets) == 1 and isinstance(st.targets[0], ast.Name):
            self.consts.setdefault(pre + st.targets[0].id, (st.value, None))
        elif isinstance(st, ast.AnnAssign) and isinstance(st.target, ast.Name) and st.value is not None:
            self.consts.setdefault(pre + st.target.id, (st.value, st.annotation))

    def no(self, node, why):
        raise Refuse(self.path, node, why)

    # ---------------------------------------------------------------- types
    def ann(self, a, node=None) -> Any:
        """Python annotation (ast or spec string) -> type."""
        if isinstance(a, str):
            a = ast.parse(a, mode="eval").body
        if isinstance(a, ast.Constant) and isinstance(a.value, str):
            return self.ann(a.value)
        if isinstance(a, ast.Name):
            if a.id in ("str", "bool", "N", "Z", "bytes", "stream"):
                return a.id
            if a.id == "int":
                return Z
            if a.id in self.spec.get("aliases", {}):
                return self.ann(self.spec["aliases"][a.id])
            if a.id in self.spec.get("records", {}):
                return ("rec", a.id, self.spec["records"][a.id]["coq"])
            if a.id in self.spec.get("abstract", []):
                return ("abs", a.id)
        if isinstance(a, ast.Subscript) and isinstance(a.value, ast.Name):
            args = a.slice.elts if isinstance(a.slice, ast.Tuple) else [a.slice]
            h = a.value.id
            if h in ("Final", "ClassVar") and len(args) == 1:
                return self.ann(args[0])
            if h in ("List", "list") and len(args) == 1:
                return ("list", self.ann(args[0]))
            if h == "Optional" and len(args) == 1:
                return ("option", self.ann(args[0]))
            if h in ("Tuple", "tuple") and args and not any(isinstance(x, ast.Constant) and x.value is Ellipsis for x in args):
                return ("tuple", [self.ann(x) for x in args])
        self.no(node or a, f"unsupported type annotation {ast.unparse(a)!r}")

    def dflt(self, t, node) -> str:
        d = {STR: '""', Z: "0%Z", N: "0%N", BOOL: "false"}.get(t if isinstance(t, str) else None)
        if d is None and t[0] == "rec":
            d = self.spec["records"][t[1]].get("default")
        if d is None:
            self.no(node, f"no default element for partial access at type {coq_type(t)}")
        return d

    def eqfun(self, t, node) -> str:
        if t == STR:
            return "String.eqb"
        if t in (Z, N):
            return f"{t}.eqb"
        if t == BOOL:
            return "Bool.eqb"
        if t[0] == "list":
            return f"(py_list_eqb {self.eqfun(t[1], node)})"
        if t[0] == "tuple":
            fs = [self.eqfun(x, node) for x in t[1]]
            s = fs[-1]
            for f in reversed(fs[:-1]):
                s = f"(py_pair_eqb {f} {s})"
            return s
        self.no(node, f"no equality at type {coq_type(t)}")

    def cmpfun(self, t, node) -> str:
        if t == STR:
            return "scmp"
        if t in (Z, N):
            return f"{t}.compare"
        if t[0] == "tuple":
            fs = [self.cmpfun(x, node) for x in t[1]]
            s = fs[-1]
            for f in reversed(fs[:-1]):
                s = f"(pcmp {f} {s})"
            return s
        if t[0] == "list":
            return f"(lcmp {self.cmpfun(t[1], node)})"
        self.no(node, f"no ordering at type {coq_type(t)}")

    # ---------------------------------------------------------------- names
    def ident(self, name: str, node) -> str:
        if name in RESERVED or name.startswith("py_"):
            return name + "_"
        if not name.isidentifier() or not name.isascii():
            self.no(node, f"identifier {name!r}")
        return name

    def coq_fname(self, qual: str) -> str:
        for f in self.spec.get("functions", []) + self.spec.get("helpers", []):
            if f["py"] == qual and f.get("coq"):
                return f["coq"]
        parts = []
        for p in qual.split("."):
            if p.startswith("__") and p.endswith("__"):
                p = "dunder_" + p[2:-2]
            elif p.startswith("_"):
                p = "u" + p
            parts.append(p)
        return "_".join(parts)

    # ---------------------------------------------------------------- constants
    def constant(self, key: str, node) -> Tuple[str, Any]:
        if key in self.ctypes:
            return self.ctypes[key]
        if key not in self.consts:
            self.no(node, f"unknown name {key!r} (not a parameter, local, module/class constant)")
        if key in self.busy:
            self.no(node, f"recursive constant {key}")
        self.busy.append(key)
        val, annot = self.consts[key]
        cls = key.split(".")[0] if "." in key else None
        term, t = self.expr(val, Env(self, cls, {}), self.ann(annot, val) if annot is not None and self._annot_ok(annot) else None)
        self.busy.pop()
        name = self.coq_fname(key)
        self.out[name] = f"(* {self.path}:{val.lineno} *)\nDefinition {name} : {coq_type(t)} := {term}.\n"
        self.res.constants.append(key)
        self.ctypes[key] = (name, t)
        return self.ctypes[key]

    def _annot_ok(self, annot) -> bool:
        try:
            self.ann(annot)
            return True
        except Refuse:
            return False

    # ---------------------------------------------------------------- call targets, raising functions
    def target(self, f, cls) -> Optional[str]:
        """Python qualname of the module function / method a call expression refers to, if any."""
        special = set(self.spec.get("opaque", {})) | set(self.spec.get("casts", {})) | set(self.spec.get("extern", {}))
        if ast.unparse(f) in special:
            return None
        if isinstance(f, ast.Name):
            return f.id if f.id in self.funcs and f.id not in BUILTINS else None
        if isinstance(f, ast.Attribute) and cls:
            if isinstance(f.value, ast.Name) and f.value.id in ("cls", "self") and f"{cls}.{f.attr}" in self.funcs:
                return f"{cls}.{f.attr}"
            if isinstance(f.value, ast.Call) and isinstance(f.value.func, ast.Name) and f.value.func.id == "super" \
                    and not f.value.args and not f.value.keywords:
                base = self.spec.get("bases", {}).get(cls)
                if base and f"{base}.{f.attr}" in self.funcs:
                    return f"{base}.{f.attr}"
        return None

    def raising(self, qual: str, seen=()) -> bool:
        """Syntactic: the function contains raise/assert or calls a function that does."""
        if qual in self._raising:
            return self._raising[qual]
        fn, cls, _ = self.funcs[qual]
        fsp = next((f for f in self.spec.get("functions", []) + self.spec.get("helpers", []) if f["py"] == qual), {})
        r = any("raise " in a["to"] for rw in fsp.get("rewrites", []) for a in (rw["alts"] if "alts" in rw else [rw]))
        for n in walk(fn):
            if isinstance(n, (ast.Raise, ast.Assert)):
                r = True
            elif isinstance(n, ast.Call):
                q = self.target(n.func, cls.name if cls else None)
                if q and q != qual and q not in seen and self.raising(q, (*seen, qual)):
                    r = True
        self._raising[qual] = r
        return r

    def raising_call(self, e, env) -> bool:
        if not isinstance(e, ast.Call):
            return False
        q = self.target(e.func, env.cls)
        return bool(q) and self.raising(q)

    def has_exit(self, stmts, env) -> bool:
        return any(isinstance(n, (ast.Return, ast.Raise, ast.Assert)) or self.raising_call(n, env)
                   for s in stmts for n in walk(s, False))

    def fresh(self, hint: str) -> str:
        self.nfresh += 1
        return re.sub(r"[^A-Za-z0-9_]", "_", hint) + f"_v{self.nfresh}"

    def none_test(self, e, env):
        """(subject expression, True for `is None`) if e is a None test on a pure name/attribute chain."""
        if isinstance(e, ast.Compare) and len(e.ops) == 1 and isinstance(e.ops[0], (ast.Is, ast.IsNot)) \
                and isinstance(e.comparators[0], ast.Constant) and e.comparators[0].value is None:
            x = e.left
            while isinstance(x, ast.Attribute):
                x = x.value
            if isinstance(x, ast.Name) and x.id in env.vars and x.id not in env.mutated \
                    and ast.unparse(e.left) not in env.narrow:
                return e.left, isinstance(e.ops[0], ast.Is)
        return None

    # ---------------------------------------------------------------- functions
    def function(self, qual: str, node=None):
        if qual in self.sigs:
            return self.sigs[qual]
        if qual not in self.funcs:
            self.no(node or "Module", f"function {qual!r} not found")
        if qual in self.busy:
            self.no(node or self.funcs[qual][0], f"recursive function {qual}")
        fn, cls, mpath = self.funcs[qual]
        saved_path, self.path = self.path, mpath
        fspec = next((f for f in self.spec.get("functions", []) + self.spec.get("helpers", []) if f["py"] == qual), {})
        a = fn.args
        if a.vararg or a.kwarg or a.kwonlyargs or a.posonlyargs:
            self.no(fn, "only plain positional parameters are supported")
        decos = [ast.unparse(d) for d in fn.decorator_list]
        kind = "class" if "classmethod" in decos else "static" if "staticmethod" in decos else ("inst" if cls else "fun")
        if [d for d in decos if d not in ("classmethod", "staticmethod")]:
            self.no(fn, f"decorators {decos}")
        args = list(a.args)
        if kind == "class":
            args = args[1:]
        defaults = [None] * (len(args) - len(a.defaults)) + list(a.defaults)
        env = Env(self, cls.name if cls else None, {})
        params = []
        for i, (p, d) in enumerate(zip(args, defaults)):
            if p.arg in fspec.get("params", {}):
                t = self.ann(fspec["params"][p.arg])
            elif p.annotation is not None:
                t = self.ann(p.annotation, p)
            elif kind == "inst" and i == 0 and cls.name in self.spec.get("records", {}):
                t = self.ann(cls.name)
            else:
                self.no(p, f"parameter {p.arg!r} of {qual} has no type (annotate it or declare it in the target spec)")
            env.vars[p.arg] = t
            env.params.add(p.arg)
            params.append((self.ident(p.arg, p), t, d))
        ret = self.ann(fspec["ret"]) if "ret" in fspec else (self.ann(fn.returns, fn) if fn.returns is not None and self._annot_ok(fn.returns) else None)
        env.ret = ret
        self.busy.append(qual)
        binders_txt = fspec.get("binders")
        caller = self.cur_fn[-1] if self.cur_fn else None
        inherited = False
        if not binders_txt and not fspec and cls is None and qual.startswith("_") and caller in self.binders_of \
                and self.funcs[caller][2] == mpath:
            # an undeclared private module-level helper of a function with declared binders (its abstract
            # environment) lives in the same environment: same binders, passed on at the call
            binders_txt, inherited = self.binders_of[caller], True
        self.cur_fn.append(qual)
        body = [s for s in fn.body if not (isinstance(s, ast.Expr) and isinstance(s.value, ast.Constant) and isinstance(s.value.value, str))]
        for rw0 in fspec.get("rewrites", []):      # declared statement models: exact source text -> subset source
            # an entry is {"from", "to", "why"} or {"alts": [{"from", "to"}, ..], "why"}: the spellings of one
            # declared reading; exactly one alternative must apply, exactly once
            alts = [dict(rw0, **a) for a in rw0["alts"]] if "alts" in rw0 else [rw0]
            found = [(a, [i for i, st in enumerate(body) if ast.unparse(st) == a["from"]]) for a in alts]
            found = [(a, h) for a, h in found if h]
            if len(found) != 1 or len(found[0][1]) != 1:
                self.no(fn, "declared statement model does not apply exactly once (source changed?): "
                            + " | ".join(repr(a["from"]) for a in alts))
            rw, hits = found[0]
            repl = ast.parse(rw["to"]).body
            for r_ in repl:
                for n_ in ast.walk(r_):
                    ast.copy_location(n_, body[hits[0]])
            body[hits[0]:hits[0] + 1] = repl
            self.res.assumed.append(f"{qual}: statement {rw['from']!r} read as {rw['to']!r}: {rw.get('why', '')}")
        fn_body_node = ast.Module(body=body, type_ignores=[])
        env.raises = self.raising(qual) or any(isinstance(n, (ast.Raise, ast.Assert)) for n in walk(fn_body_node))
        env.proc = not any(isinstance(n, ast.Return) and n.value is not None for s in body for n in walk(s, False))
        if env.proc and env.raises:
            env.ret = "unit"
        env.mutated = mutated_names(body)
        for m in env.mutated & env.params:
            self.no(fn, f"parameter {m!r} is mutated (side effect visible to the caller)")
        if fspec.get("binders"):
            self.binders_of[qual] = binders_txt      # visible to helpers called from the body
        term = self.block(body, env)
        self.busy.pop()
        self.cur_fn.pop()
        name = self.coq_fname(qual)
        binders = "".join(f" ({n} : {coq_type(t)})" for n, t, _ in params)
        extra, abst = "", []
        for oname, (ats, rt) in env.opaques.items():
            abst += [t[1] for t in ats + [rt] if t[0] == "abs"]
            extra += f" (py_{oname} : {' -> '.join(coq_type(x) for x in ats)} -> {coq_type(rt)})"
            self.res.assumed.append(f"{qual}: opaque function {oname}() is a parameter py_{oname}")
        abst += [t[1] for _, t, _ in params if t[0] == "abs"]
        extra = "".join(f" ({a} : Type)" for a in dict.fromkeys(abst)) + extra
        if binders_txt:
            extra = " " + binders_txt + extra
            self.with_binders.add(qual)
            self.binders_of[qual] = binders_txt
        rtype = ("result", env.ret) if env.raises else env.ret
        text = f"(* {self.path}:{fn.lineno} {qual} *)\nDefinition {name}{extra}{binders} : {coq_type(rtype)} :=\n  {term}.\n"
        if inherited:       # helpers extracted from a translated function are transparent to the proofs
            text += f"#[export] Hint Unfold {name} : pygen.\n"
            self.res.assumed.append(f"{qual}: undeclared private helper of {caller}, translated with the same extra binders")
        self.out[name] = text
        info = {"py": qual, "coq": name, "line": fn.lineno, "params": [n for n, _, _ in params], "variants": []}
        nd = sum(1 for _, _, d in params if d is not None)
        if nd and not extra and not env.raises:
            cenv = Env(self, cls.name if cls else None, {})
            req = params[:len(params) - nd]
            dterms = [self.expr(d, cenv, t)[0] for _, t, d in params[len(req):]]
            vname = f"{name}__dflt"
            self.out[vname] = (f"Definition {vname}{''.join(f' ({n} : {coq_type(t)})' for n, t, _ in req)} : {coq_type(env.ret)} :=\n"
                               f"  {name}{''.join(' ' + n for n, _, _ in req)}{''.join(' ' + d for d in dterms)}.\n")
            info["variants"].append(vname)
        self.res.functions.append(info)
        self.sigs[qual] = (name, params, env.ret, extra, env.raises, kind, dict(env.opaques))
        self.path = saved_path
        return self.sigs[qual]

    # ---------------------------------------------------------------- statements
    def block(self, stmts: List[ast.stmt], env: "Env", final=None) -> str:
        """Term for a statement list.  With final=None every path must end in `return`;
        otherwise (a branch that only assigns) the term ends in final(env), the tuple of the
        names the enclosing `if` assigns."""
        stmts = [s for s in stmts if not isinstance(s, ast.Pass)]
        if not stmts:
            if final is None and env.root.proc and env.root.raises:
                return "(inr tt)"
            if final is None:
                self.no(env.last or "FunctionDef", "control can fall off the end of the function (implicit None)")
            return final(env)
        s, rest = stmts[0], stmts[1:]
        env.last = s
        if isinstance(s, ast.FunctionDef):
            self.local_raiser(s, env)
            return self.block(rest, env, final)
        if isinstance(s, ast.Return) and s.value is None and final is None and env.root.proc and env.root.raises:
            if rest:
                self.no(rest[0], "unreachable statement after return")
            return "(inr tt)"
        if isinstance(s, ast.Return):
            if s.value is None:
                self.no(s, "bare return")
            if rest:
                self.no(rest[0], "unreachable statement after return")
            if final is not None:
                self.no(s, "return inside a branch that only assigns")
            self.bind_node = s.value if self.raising_call(s.value, env) else None
            term, t = self.expr(s.value, env.allow_bare() if isinstance(s.value, ast.Name) else env, env.ret)
            term, t = self.to_want(term, t, env.ret)
            if env.ret is None:
                env.ret = t
            elif not same(env.ret, t):
                self.no(s, f"return type {coq_type(t)} differs from {coq_type(env.ret)}")
            if env.root.raises and not self.raising_call(s.value, env):
                return f"(inr {term})"
            return term
        if isinstance(s, (ast.Raise, ast.Assert)):
            if final is not None or not env.root.raises:
                self.no(s, "raise/assert in an unsupported position")
            if isinstance(s, ast.Assert):
                cls_name, margs = "AssertionError", ([s.msg] if s.msg is not None else [])
            else:
                exc = s.exc
                if exc is None or s.cause is not None:
                    self.no(s, "bare raise / raise ... from ...")
                if isinstance(exc, ast.Call) and isinstance(exc.func, ast.Name) and exc.func.id in env.raisers:
                    return self.raise_local(s, exc, env, rest)
                if isinstance(exc, ast.Call) and isinstance(exc.func, ast.Name) and not exc.keywords:
                    cls_name, margs = exc.func.id, exc.args
                elif isinstance(exc, ast.Name):
                    cls_name, margs = exc.id, []
                else:
                    self.no(s, "raise of something other than ExceptionClass(message)")
                if cls_name in env.vars or cls_name in self.funcs or cls_name in self.consts:
                    self.no(s, f"raise of {cls_name!r}, which is not an exception class name")
            if len(margs) > 1:
                self.no(s, "exception with several arguments")
            msg = '""'
            if margs and self.spec.get("raise_messages", True):
                msg, mt = self.expr(margs[0], env)
                if mt != STR:
                    self.no(s, f"exception message of type {coq_type(mt)}")
            err = f'(inl ("{cls_name}", {msg}))'
            if isinstance(s, ast.Assert):
                return f"if {self.cond(s.test, env)} then {self.block(rest, env, final)}\n  else {err}"
            if rest:
                self.no(rest[0], "unreachable statement after raise")
            return err
        call = s.value if isinstance(s, (ast.Expr, ast.Assign, ast.AnnAssign)) else None
        if call is not None and self.raising_call(call, env):
            if final is not None:
                self.no(s, "call of a raising function inside a branch that only assigns")
            self.bind_node = call
            term, t = self.expr(call, env)
            if isinstance(s, ast.Expr):
                pat = "_"
            elif isinstance(s, ast.Assign) and len(s.targets) == 1 and isinstance(s.targets[0], ast.Name):
                pat = self.ident(s.targets[0].id, s)
                env.vars[s.targets[0].id] = t
                env.unnarrow(s.targets[0].id)
            else:
                self.no(s, "result of a raising call must be bound to one name")
            ev = self.fresh("exc")
            return f"match {term} with\n  | inl {ev} => inl {ev}\n  | inr {pat} => {self.block(rest, env, final)}\n  end"
        if isinstance(s, ast.If) and isinstance(s.test, ast.NamedExpr) and isinstance(s.test.target, ast.Name):
            # `if x := e:` is `x = e` followed by `if x:`
            asg = ast.copy_location(ast.Assign([ast.Name(s.test.target.id, ast.Store())], s.test.value), s)
            tst = ast.copy_location(ast.If(ast.copy_location(ast.Name(s.test.target.id, ast.Load()), s), s.body, s.orelse), s)
            return self.block([asg, tst] + rest, env, final)
        if isinstance(s, ast.Try):
            return self.try_lookup(s, rest, env, final)
        if isinstance(s, ast.While) or (isinstance(s, ast.For) and isinstance(s.iter, ast.Call)
                                        and isinstance(s.iter.func, ast.Name) and s.iter.func.id == "iter"):
            bind = self.read_loop(s, env)
            return f"let {bind[0]} := {bind[1]} in\n  {self.block(rest, env, final)}"
        if isinstance(s, ast.For):
            bind = self.for_accumulate(s, env)
            return f"let {bind[0]} := {bind[1]} in\n  {self.block(rest, env, final)}"
        if isinstance(s, ast.If) and self.none_test(s.test, env):
            subj, is_none = self.none_test(s.test, env)
            term, t = self.expr(subj, env)
            if t[0] != "option":
                self.no(s.test, f"None test on non-Optional {coq_type(t)}")
            some_b, none_b = (s.orelse, s.body) if is_none else (s.body, s.orelse)
            v = self.fresh(ast.unparse(subj))
            e1, e2 = env.fork(), env.fork()
            e1.narrow[ast.unparse(subj)] = (v, t[1])
            t1 = self.block(some_b + ([] if always_returns(some_b) else rest), e1, final)
            e2.ret = e1.ret
            t2 = self.block(none_b + ([] if always_returns(none_b) else rest), e2, final)
            env.ret = e2.ret
            return f"match {term} with\n  | Some {v} => {t1}\n  | None => {t2}\n  end"
        if isinstance(s, ast.If):
            c = self.cond(s.test, env)
            if not self.has_exit(s.body, env) and not self.has_exit(s.orelse, env):
                a1, a2 = assigned(s.body), assigned(s.orelse)
                # names bound in one branch only and not before are branch-local (unknown afterwards)
                names = sorted(v for v in a1 | a2 if v in env.vars or (v in a1 and v in a2))
                if not names:
                    self.no(s, "if statement without effect")
                pack = lambda e: "(" + ", ".join(e.name(v) for v in names) + ")" if len(names) != 1 else e.name(names[0])  # noqa: E731
                e1, e2 = env.fork(), env.fork()
                t1 = self.block(s.body, e1, pack)
                t2 = self.block(s.orelse, e2, pack)
                for v in names:
                    if not same(e1.vars[v], e2.vars[v]) or not same(e1.vars[v], env.vars.get(v, e1.vars[v])):
                        self.no(s, f"{v!r} changes type across branches")
                    env.vars[v] = e1.vars[v]
                pat = pack(env) if len(names) == 1 else "'" + pack(env)
                return f"let {pat} := if {c} then ({t1}) else ({t2}) in\n  {self.block(rest, env, final)}"
            e1, e2 = env.fork(), env.fork()
            t1 = self.block(s.body + ([] if always_returns(s.body) else rest), e1, final)
            e2.ret = e1.ret
            t2 = self.block(s.orelse + ([] if always_returns(s.orelse) else rest), e2, final)
            env.ret = e2.ret
            return f"if {c} then {t1}\n  else {t2}"
        bind = self.simple(s, env)
        return f"let {bind[0]} := {bind[1]} in\n  {self.block(rest, env, final)}"

    def for_accumulate(self, s, env):
        """`for x in xs: [if c:] acc.append(e)` on a local list acc = acc ++ map (filter xs)."""
        body = s.body
        test = None
        if len(body) == 1 and isinstance(body[0], ast.If) and not body[0].orelse:
            test, body = body[0].test, body[0].body
        ok = (not s.orelse and isinstance(s.target, ast.Name) and len(body) == 1 and isinstance(body[0], ast.Expr)
              and isinstance(body[0].value, ast.Call) and isinstance(body[0].value.func, ast.Attribute)
              and body[0].value.func.attr == "append" and isinstance(body[0].value.func.value, ast.Name)
              and len(body[0].value.args) == 1 and not body[0].value.keywords)
        if not ok:
            self.no(s, "for loop (only `for x in xs: [if c:] acc.append(e)` on a local list)")
        acc, x, elt = body[0].value.func.value.id, s.target.id, body[0].value.args[0]
        used = {n.id for part in ([test] if test is not None else []) + [elt, s.iter] for n in ast.walk(part) if isinstance(n, ast.Name)}
        t = env.vars.get(acc)
        if not t or t[0] != "list" or acc in used or acc == x or x in env.vars:
            self.no(s, "for loop: the accumulator must be a local list not read in the loop, the loop variable a new name")
        it, ity = self.iterable(s.iter, env)
        e2 = env.fork()
        e2.vars[x] = ity[1]
        xv = self.ident(x, s)
        if test is not None:
            it = f"(List.filter (fun {xv} => {self.cond(test, e2)}) {it})"
        term, et = self.expr(elt, e2, t[1])
        if t[1] is None:
            env.vars[acc] = t = ("list", et)
        if not same(et, t[1]):
            self.no(s, "element type changes")
        if not (isinstance(elt, ast.Name) and elt.id == x):
            it = f"(List.map (fun {xv} => {term}) {it})"
        name = self.ident(acc, s)          # not env.name: the accumulator may still have had no element type
        return name, f"({name} ++ {it})%list"

    def mutate(self, s, v, mut, args, env, argenv, target=None):
        fn, ptypes = mut
        if len(args) != len(ptypes):
            self.no(s, f"arguments of the declared mutator {fn}")
        terms = []
        for a, pt in zip(args, ptypes):
            term, t = self.expr(a, argenv, self.ann(pt))
            if not same(t, self.ann(pt)):
                self.no(a, f"argument of type {coq_type(t)} for the declared mutator {fn}")
            terms.append(term)
        cur = target or self.expr(ast.copy_location(ast.Name(v, ast.Load()), s), env.allow_bare())[0]
        env.unnarrow(v)
        return f"({fn} {cur} {' '.join(terms)})"

    def read_loop(self, s, env):
        """The stream read loop (three spellings) -> py_read_loop.  Anything else is refused."""
        def read_call(x):
            if isinstance(x, ast.Call) and isinstance(x.func, ast.Attribute) and x.func.attr == "read" \
                    and isinstance(x.func.value, ast.Name) and len(x.args) == 1 and not x.keywords:
                return x.func.value.id, x.args[0]
            return None
        c = d = size = None
        if isinstance(s, ast.While) and not s.orelse and isinstance(s.test, ast.Constant) and s.test.value is True \
                and len(s.body) >= 2 and isinstance(s.body[0], ast.Assign) and len(s.body[0].targets) == 1 \
                and isinstance(s.body[0].targets[0], ast.Name) and read_call(s.body[0].value) \
                and isinstance(s.body[1], ast.If) and not s.body[1].orelse and len(s.body[1].body) == 1 \
                and isinstance(s.body[1].body[0], ast.Break) and isinstance(s.body[1].test, ast.UnaryOp) \
                and isinstance(s.body[1].test.op, ast.Not) and isinstance(s.body[1].test.operand, ast.Name) \
                and s.body[1].test.operand.id == s.body[0].targets[0].id:
            c, (d, size), updates = s.body[0].targets[0].id, read_call(s.body[0].value), s.body[2:]
        elif isinstance(s, ast.While) and not s.orelse and isinstance(s.test, ast.NamedExpr) \
                and isinstance(s.test.target, ast.Name) and read_call(s.test.value):
            c, (d, size), updates = s.test.target.id, read_call(s.test.value), s.body
        elif isinstance(s, ast.For) and not s.orelse and isinstance(s.target, ast.Name) and isinstance(s.iter, ast.Call) \
                and isinstance(s.iter.func, ast.Name) and s.iter.func.id == "iter" and len(s.iter.args) == 2 \
                and not s.iter.keywords and isinstance(s.iter.args[0], ast.Lambda) and not s.iter.args[0].args.args \
                and read_call(s.iter.args[0].body) and isinstance(s.iter.args[1], ast.Constant) and s.iter.args[1].value == b"":
            c, (d, size), updates = s.target.id, read_call(s.iter.args[0].body), s.body
        if c is None or "iter" in self.funcs or env.vars.get(d) != "stream" or c in env.vars:
            self.no(s, "loop (only `for x in xs: [if c:] acc.append(e)` and the stream read loop "
                       "`while True: c = d.read(n); if not c: break; h.update(..)` / `while c := d.read(n)` / "
                       "`for c in iter(lambda: d.read(n), b'')` are supported)")
        hs = set()
        for u in updates:
            if not (isinstance(u, ast.Expr) and isinstance(u.value, ast.Call) and isinstance(u.value.func, ast.Attribute)
                    and isinstance(u.value.func.value, ast.Name) and not u.value.keywords):
                self.no(u, "statement in a read loop other than a declared mutator call on the accumulator")
            hs.add(u.value.func.value.id)
        if len(hs) != 1:
            self.no(s, "a read loop must update exactly one accumulator object")
        h = hs.pop()
        ht = env.narrow.get(h, (None, env.vars.get(h)))[1]
        if not ht or ht[0] != "rec" or h in env.params:
            self.no(s, "the accumulator of a read loop must be a local object of a declared record type")
        names = lambda x: {n.id for n in ast.walk(x) if isinstance(n, ast.Name)}     # noqa: E731
        if {c, d} & names(size) or any(d in names(a) or h in names(a) for u in updates for a in u.value.args):
            self.no(s, "read loop: the size may not depend on the chunk or the stream, the updates not on the stream")
        init = self.expr(ast.copy_location(ast.Name(h, ast.Load()), s), env)[0]
        e3 = env.fork()
        e3.unnarrow(h)
        e3.vars[h] = ht
        hv, cv, dv = self.ident(h, s), self.ident(c, s), env.name(d)
        sz, szt = self.expr(size, e3)
        sz = f"(Z.of_N {sz})" if szt == N else sz
        if szt not in (Z, N):
            self.no(size, "read size is not an int")
        e3.vars[c] = "bytes"
        step = hv
        for u in updates:
            mut = self.spec["records"][ht[1]].get("mutators", {}).get(u.value.func.attr)
            if not mut:
                self.no(u, f".{u.value.func.attr}() is not a declared mutator of {ht[1]}")
            step = self.mutate(u, h, mut, u.value.args, e3, e3, target=step)
        env.unnarrow(h)
        env.vars[h] = ht
        note = f"{self.path}:{s.lineno}: the stream {d!r} is consumed by the read loop; its final position is not part of the result"
        if note not in self.res.assumed:
            self.res.assumed.append(note)
        return f"'({hv}, {dv})", f"(py_read_loop (fun {hv} => {sz}) (fun {hv} {cv} => {step}) {dv} {init})"

    def try_lookup(self, s, rest, env, final):
        """`try: <assignments with one D[k]> [return e] except KeyError: <... raise>` for a declared dict D."""
        dicts = self.spec.get("dicts", {})
        h = s.handlers[0] if len(s.handlers) == 1 else None
        subs = [n for st in s.body for n in walk(st, False) if isinstance(n, ast.Subscript)
                and isinstance(n.value, ast.Name) and n.value.id in dicts and isinstance(n.ctx, ast.Load)]
        ok = (h is not None and isinstance(h.type, ast.Name) and h.type.id == "KeyError" and h.name is None
              and not s.orelse and not s.finalbody and always_returns(h.body) and len(subs) == 1
              and all((isinstance(st, ast.Assign) and len(st.targets) == 1 and isinstance(st.targets[0], ast.Name))
                      or (st is s.body[-1] and isinstance(st, ast.Return) and st.value is not None) for st in s.body))
        if ok:      # nothing else in the body may raise KeyError: only calls of the looked-up value itself
            for st in s.body:
                for n in walk(st, False):
                    if isinstance(n, ast.Call) and n.func is not subs[0]:
                        ok = False
        if not ok:
            self.no(s, "try statement (only `try: x = ..D[k].. except KeyError: ... raise` on a declared dict D)")
        d = dicts[subs[0].value.id]
        key, kt = self.expr(subs[0].slice, env)
        if not same(kt, self.ann(d["key"])):
            self.no(s, "key type of the declared dict")
        v = self.fresh(subs[0].value.id)
        e1, e2 = env.fork(), env.fork()
        e1.narrow[ast.unparse(subs[0])] = (v, self.ann(d["value"]))
        t1 = self.block(s.body + ([] if always_returns(s.body) else rest), e1, final)
        e2.ret = e1.ret
        t2 = self.block(h.body, e2, final)
        env.ret = e2.ret
        note = f"{subs[0].value.id}[k] read as the Coq function {d['coq']} (None = KeyError): {d.get('why', '')}"
        if note not in self.res.assumed:
            self.res.assumed.append(note)
        return f"match ({d['coq']} {key}) with\n  | Some {v} => {t1}\n  | None => {t2}\n  end"

    def local_raiser(self, fn, env):
        """`def err(msg: str): return SomeError(<str expr>)` inside a function: allowed only as a
        builder of exceptions that are raised (`raise err(..)`); any other use of the name is unknown."""
        a = fn.args
        body = [x for x in fn.body if not (isinstance(x, ast.Expr) and isinstance(x.value, ast.Constant))]
        ok = (not fn.decorator_list and not (a.vararg or a.kwarg or a.kwonlyargs or a.posonlyargs or a.defaults)
              and len(body) == 1 and isinstance(body[0], ast.Return) and isinstance(body[0].value, ast.Call)
              and isinstance(body[0].value.func, ast.Name) and not body[0].value.keywords
              and len(body[0].value.args) <= 1 and all(p.annotation is not None for p in a.args))
        if not ok or not env.root.raises:
            self.no(fn, "nested function (only `def f(typed params): return ExceptionClass(message)` used in `raise f(..)`)")
        cls_name = body[0].value.func.id
        if cls_name in env.vars or cls_name in self.funcs or cls_name in self.consts or fn.name in env.vars:
            self.no(fn, "nested function shadows a name or does not build an exception")
        env.raisers[fn.name] = ([(p.arg, self.ann(p.annotation, p)) for p in a.args], cls_name, body[0].value.args)

    def raise_local(self, s, exc, env, rest):
        params, cls_name, margs = env.raisers[exc.func.id]
        if exc.keywords or len(exc.args) != len(params):
            self.no(s, "arguments of the local exception builder")
        if rest:
            self.no(rest[0], "unreachable statement after raise")
        e2, lets = env.fork(), ""
        for (pn, pt), a in zip(params, exc.args):
            term, t = self.expr(a, env, pt)
            if not same(t, pt):
                self.no(a, f"argument of type {coq_type(t)} for parameter {pn} : {coq_type(pt)}")
            lets += f"let {self.ident(pn, s)} := {term} in "
            e2.vars[pn] = pt
            e2.unnarrow(pn)
        msg = '""'
        if margs and self.spec.get("raise_messages", True):
            msg, mt = self.expr(margs[0], e2)      # free names: the enclosing function's current bindings
            if mt != STR:
                self.no(s, f"exception message of type {coq_type(mt)}")
        return f'(inl ("{cls_name}", ({lets}{msg})))'

    def simple(self, s, env) -> Tuple[str, str]:
        """Assignment-like statement -> (bound name/pattern, term)."""
        if isinstance(s, ast.AnnAssign) and s.value is not None and isinstance(s.target, ast.Name):
            s = ast.copy_location(ast.Assign([s.target], s.value), s)
        if isinstance(s, ast.Assign) and len(s.targets) == 1:
            tg = s.targets[0]
            if isinstance(tg, ast.Name):
                env.late_ok = tg.id in env.mutated and isinstance(s.value, ast.List) and not s.value.elts
                term, t = self.expr(s.value, env)       # `acc = []`: element type fixed by the first append
                env.late_ok = False
                if tg.id in env.mutated and not fresh_list(s.value):
                    self.no(s, f"{tg.id!r} is mutated later but is not bound to a freshly created list here")
                env.vars[tg.id] = t
                env.unnarrow(tg.id)
                return self.ident(tg.id, tg), term
            if isinstance(tg, ast.Tuple) and all(isinstance(e, ast.Name) for e in tg.elts):
                term, t = self.expr(s.value, env)
                if t[0] != "tuple" or len(t[1]) != len(tg.elts):
                    self.no(s, f"unpacking of a value of type {coq_type(t)} (only fixed-size tuples)")
                for e, et in zip(tg.elts, t[1]):
                    env.vars[e.id] = et
                    env.unnarrow(e.id)
                pat = self.ident(tg.elts[-1].id, s)
                for e in reversed(tg.elts[:-1]):
                    pat = f"({self.ident(e.id, s)}, {pat})"
                return "'" + pat, term
            if isinstance(tg, ast.Subscript) and isinstance(tg.value, ast.Name) and const_int(tg.slice) == -1:
                v = tg.value.id
                t = env.vars.get(v)
                if not t or t[0] != "list":
                    self.no(s, "item assignment on something that is not a local list")
                term, et = self.expr(s.value, env, t[1])
                if not same(et, t[1]):
                    self.no(s, "element type changes")
                self.res.partial.append(f"{self.path}:{s.lineno}: {v}[-1] = ... (IndexError on an empty list is not modelled)")
                return env.name(v), f"(List.removelast {env.name(v)} ++ [{term}])%list"
        if isinstance(s, ast.Delete) and len(s.targets) == 1 and isinstance(s.targets[0], ast.Subscript) \
                and isinstance(s.targets[0].value, ast.Name) and const_int(s.targets[0].slice) == -1:
            v = s.targets[0].value.id
            t = env.vars.get(v)
            if not t or t[0] != "list":
                self.no(s, "del on something that is not a local list")
            self.res.partial.append(f"{self.path}:{s.lineno}: del {v}[-1] (IndexError on an empty list is not modelled)")
            return env.name(v), f"(List.removelast {env.name(v)})"
        if isinstance(s, ast.Expr) and isinstance(s.value, ast.Call) and isinstance(s.value.func, ast.Attribute) \
                and isinstance(s.value.func.value, ast.Name) and not s.value.keywords:
            v, meth, args = s.value.func.value.id, s.value.func.attr, s.value.args
            t = env.vars.get(v)
            if t and t[0] == "list" and meth == "append" and len(args) == 1:
                term, et = self.expr(args[0], env, t[1])
                if t[1] is None:
                    env.vars[v] = t = ("list", et)
                if not same(et, t[1]):
                    self.no(s, "element type changes")
                return env.name(v), f"({env.name(v)} ++ [{term}])%list"
            mut = self.spec["records"][t[1]].get("mutators", {}).get(meth) if t and t[0] == "rec" else None
            if mut:       # declared state-changing method of a local object: h.update(x) is h := upd h x
                if v in env.params:
                    self.no(s, f"parameter {v!r} is mutated (side effect visible to the caller)")
                return env.name(v), self.mutate(s, v, mut, args, env, env)
            if t and t[0] == "list" and meth == "pop" and not args:
                self.res.partial.append(f"{self.path}:{s.lineno}: {v}.pop() (IndexError on an empty list is not modelled)")
                return env.name(v), f"(List.removelast {env.name(v)})"
        self.no(s, "statement outside the supported subset")

    def cond(self, e, env) -> str:
        """Truth value of e (if/assert tests, operands of `not`, of and/or in such a position):
        bool as is, str/list by emptiness, int by != 0; anything else is refused."""
        term, t = self.expr(e, env, TRUTH)
        if t == BOOL:
            return term
        if t == STR:
            return f'(negb (String.eqb {term} ""))'
        if t in (Z, N):
            return f"(negb ({t}.eqb {term} 0%{t}))"
        if t[0] == "list" or t == "bytes":
            return f"(negb (py_is_nil {term}))"
        self.no(e, f"truth value of {coq_type(t)}")

    def strict_bool(self, e, env) -> str:
        term, t = self.expr(e, env, BOOL)
        if t != BOOL:
            self.no(e, f"and/or with a non-bool operand ({coq_type(t)}) where its value, not its truth, is used")
        return term

    # ---------------------------------------------------------------- expressions
    def expr(self, e, env: "Env", want=None) -> Tuple[str, Any]:
        if isinstance(e, (ast.Name, ast.Attribute, ast.Subscript)) and env.narrow and ast.unparse(e) in env.narrow:
            return env.narrow[ast.unparse(e)]
        m = getattr(self, "e_" + type(e).__name__, None)
        if m is None:
            self.no(e, "expression outside the supported subset")
        return m(e, env, want)

    def e_Constant(self, e, env, want):
        v = e.value
        if isinstance(v, bool):
            return ("true" if v else "false"), BOOL
        if isinstance(v, int):
            if want == N and v >= 0:
                return f"{v}%N", N
            return (f"{v}%Z" if v >= 0 else f"({v})%Z"), Z
        if isinstance(v, str):
            if not all(32 <= ord(c) < 127 for c in v):
                self.no(e, "non-printable or non-ASCII string literal")
            return coq_str(v), STR
        if v is None and want is not None and want[0] == "option":
            return "None", want
        self.no(e, f"literal {v!r}")

    def e_Name(self, e, env, want):
        if e.id in env.vars and env.vars[e.id] == ("list", None):
            self.no(e, f"{e.id!r} is an empty list whose element type is not known yet")
        if e.id in env.vars:
            if e.id in env.mutated and not env.bare_ok:
                self.no(e, f"mutated list {e.id!r} used as a whole value (possible alias)")
            return env.name(e.id), env.vars[e.id]
        return self.constant(e.id, e)

    def e_Attribute(self, e, env, want):
        if ast.unparse(e) in self.spec.get("attr_consts", {}):
            term, ty = self.spec["attr_consts"][ast.unparse(e)]
            return term, self.ann(ty)
        if isinstance(e.value, ast.Name) and e.value.id in ("cls", "self") and env.cls and f"{env.cls}.{e.attr}" in self.consts \
                and not (e.value.id == "self" and self._has_field(env, e)):
            return self.constant(f"{env.cls}.{e.attr}", e)
        term, t = self.expr(e.value, env)
        if t[0] == "rec":
            fields = self.spec["records"][t[1]]["fields"]
            if e.attr in fields:
                proj, ft = fields[e.attr]
                return f"({proj} {term})", self.ann(ft)
        self.no(e, f"attribute .{e.attr} on {coq_type(t)}")

    def _has_field(self, env, e) -> bool:
        t = env.vars.get("self")
        return bool(t) and t[0] == "rec" and e.attr in self.spec["records"][t[1]]["fields"]

    def e_BoolOp(self, e, env, want):
        is_and = isinstance(e.op, ast.And)
        op = "&&" if is_and else "||"
        operand = self.cond if want == TRUTH else self.strict_bool

        def narrows(v, en):
            nt = self.none_test(v, en)
            return nt if nt and nt[1] != is_and else None      # `x is None or ..` / `x is not None and ..`

        def go(values, en):
            if len(values) == 1:
                return operand(values[0], en)
            nt = narrows(values[0], en)
            if nt:
                term, t = self.expr(nt[0], en)
                if t[0] != "option":
                    self.no(values[0], f"None test on non-Optional {coq_type(t)}")
                v = self.fresh(ast.unparse(nt[0]))
                e2 = en.fork()
                e2.narrow[ast.unparse(nt[0])] = (v, t[1])
                return f"(match {term} with None => {'false' if is_and else 'true'} | Some {v} => {go(values[1:], e2)} end)"
            return f"({operand(values[0], en)} {op} {go(values[1:], en)})"
        if want != TRUTH and not is_and and len(e.values) == 2:
            a, ta = self.expr(e.values[0], env)
            inner = ta[1] if ta[0] == "option" else ta
            if inner == STR or inner[0] == "list":        # value of `a or b`: a if it is truthy, else b
                b, tb = self.expr(e.values[1], env, inner)
                if not same(tb, inner):
                    self.no(e, f"`or` between {coq_type(ta)} and {coq_type(tb)}")
                truthy = (lambda v: f'(negb (String.eqb {v} ""))') if inner == STR else (lambda v: f"(negb (py_is_nil {v}))")
                if ta[0] == "option":
                    v = self.fresh("or")
                    return f"(match {a} with Some {v} => if {truthy(v)} then {v} else {b} | None => {b} end)", inner
                v = self.fresh("or")
                return f"(let {v} := {a} in if {truthy(v)} then {v} else {b})", inner
        if not any(narrows(v, env) for v in e.values[:-1]):
            return "(" + f" {op} ".join(operand(v, env) for v in e.values) + ")", BOOL
        return go(list(e.values), env), BOOL

    def e_UnaryOp(self, e, env, want):
        if isinstance(e.op, ast.Not):
            return f"(negb {self.cond(e.operand, env)})", BOOL
        if isinstance(e.op, ast.USub) and isinstance(e.operand, ast.Constant) and type(e.operand.value) is int:
            return f"({-e.operand.value})%Z", Z
        self.no(e, "unary operator")

    def to_want(self, term, t, want):
        """A value of type T where Optional[T] is wanted is Some of it."""
        if want is not None and want != TRUTH and want[0] == "option" and same(t, want[1]):
            return f"(Some {term})", want
        return term, t

    def e_IfExp(self, e, env, want):
        c = self.cond(e.test, env)
        if want is not None and want != TRUTH and want[0] == "option":
            a, ta = self.to_want(*self.expr(e.body, env, want), want)
            b, tb = self.to_want(*self.expr(e.orelse, env, want), want)
        else:
            a, ta = self.expr(e.body, env, want)
            b, tb = self.expr(e.orelse, env, ta)
        if not same(ta, tb):
            self.no(e, "branches of conditional expression differ in type")
        return f"(if {c} then {a} else {b})", ta

    def pair(self, a, b, env):
        """Two operands, literals typed after the other side; N/Z mixed -> Z."""
        if isinstance(a, ast.Constant) and not isinstance(b, ast.Constant):
            tb_, tyb = self.expr(b, env)
            ta_, tya = self.expr(a, env, tyb)
        else:
            ta_, tya = self.expr(a, env)
            tb_, tyb = self.expr(b, env, tya)
        if isinstance(tya, str) and isinstance(tyb, str) and {tya, tyb} == {N, Z}:
            ta_ = f"(Z.of_N {ta_})" if tya == N else ta_
            tb_ = f"(Z.of_N {tb_})" if tyb == N else tb_
            tya = tyb = Z
        return ta_, tya, tb_, tyb

    def e_Compare(self, e, env, want):
        if len(e.ops) != 1:
            self.no(e, "chained comparison")
        op, a, b = e.ops[0], e.left, e.comparators[0]
        if isinstance(op, (ast.Is, ast.IsNot)):
            if not (isinstance(b, ast.Constant) and b.value is None):
                self.no(e, "`is` is only supported against None")
            term, t = self.expr(a, env)
            if t[0] != "option":
                self.no(e, f"None test on non-Optional {coq_type(t)}")
            yes, no_ = ("true", "false") if isinstance(op, ast.Is) else ("false", "true")
            return f"(match {term} with None => {yes} | Some _ => {no_} end)", BOOL
        if isinstance(op, (ast.In, ast.NotIn)):
            ta_, tya = self.expr(a, env)
            if isinstance(b, (ast.Tuple, ast.List)) and all(isinstance(x, ast.Constant) for x in b.elts):
                items = [self.expr(x, env, tya) for x in b.elts]
                if any(not same(t, tya) for _, t in items):
                    self.no(e, "membership test against literals of another type")
                r = f"(List.existsb ({self.eqfun(tya, e)} {ta_}) [{'; '.join(x for x, _ in items)}])"
            else:
                tb_, tyb = self.expr(b, env)
                if tya != STR or tyb != STR:
                    self.no(e, "`in` is supported on literal tuples and on strings only")
                r = f"(py_contains {tb_} {ta_})"
            return (r if isinstance(op, ast.In) else f"(negb {r})"), BOOL
        ta_, tya, tb_, tyb = self.pair(a, b, env.allow_bare())
        if not same(tya, tyb):
            self.no(e, f"comparison between {coq_type(tya)} and {coq_type(tyb)}")
        if isinstance(op, (ast.Eq, ast.NotEq)):
            r = f"({self.eqfun(tya, e)} {ta_} {tb_})"
            return (r if isinstance(op, ast.Eq) else f"(negb {r})"), BOOL
        if isinstance(op, (ast.GtE, ast.Gt)):       # a >= b is b <= a; a > b is b < a
            ta_, tb_ = tb_, ta_
        strict = isinstance(op, (ast.Lt, ast.Gt))
        if tya in (Z, N):
            return f"({tya}.{'ltb' if strict else 'leb'} {ta_} {tb_})", BOOL
        return f"(Cmp.{'ltb' if strict else 'leb'} {self.cmpfun(tya, e)} {ta_} {tb_})", BOOL

    def e_BinOp(self, e, env, want):
        ta_, tya, tb_, tyb = self.pair(e.left, e.right, env)
        if isinstance(e.op, ast.Add) and tya == STR and tyb == STR:
            return f"({ta_} ++ {tb_})%string", STR
        if isinstance(e.op, ast.Add) and tya[0] == "list" and same(tya, tyb):
            return f"({ta_} ++ {tb_})%list", tya
        if tya in (Z, N) and tya == tyb:
            if isinstance(e.op, ast.Sub) and tya == N:
                ta_, tb_, tya = f"(Z.of_N {ta_})", f"(Z.of_N {tb_})", Z
            opn = {ast.Add: "add", ast.Sub: "sub", ast.Mult: "mul"}.get(type(e.op))
            if opn:
                return f"({tya}.{opn} {ta_} {tb_})", tya
        self.no(e, f"binary operator {type(e.op).__name__} at {coq_type(tya)}, {coq_type(tyb)}")

    def e_JoinedStr(self, e, env, want):
        parts = []
        for v in e.values:
            if isinstance(v, ast.Constant):
                parts.append(self.e_Constant(v, env, None)[0])
            elif isinstance(v, ast.FormattedValue) and v.conversion == -1 and v.format_spec is None:
                parts.append(self.to_str(v.value, env))
            else:
                self.no(v, "f-string conversion or format spec")
        return ("(" + " ++ ".join(parts) + ")%string" if parts else '""'), STR

    def to_str(self, e, env) -> str:
        term, t = self.expr(e, env)
        if t == STR:
            return term
        if t in (Z, N):
            return f"(py_str_of_{t} {term})"
        if t[0] == "rec" and self.spec["records"][t[1]].get("str"):
            return f"({self.spec['records'][t[1]]['str']} {term})"
        self.no(e, f"str() of {coq_type(t)}")

    def e_Tuple(self, e, env, want):
        if not e.elts:
            self.no(e, "empty tuple")
        ws = want[1] if want and want[0] == "tuple" and len(want[1]) == len(e.elts) else [None] * len(e.elts)
        items = [self.expr(x, env, w) for x, w in zip(e.elts, ws)]
        if len(items) == 1:
            self.no(e, "1-tuple")
        s = items[-1][0]
        for x, _ in reversed(items[:-1]):
            s = f"({x}, {s})"
        return s, ("tuple", [t for _, t in items])

    def e_List(self, e, env, want):
        et = want[1] if want and want[0] == "list" else None
        items = []
        for x in e.elts:
            term, t = self.expr(x, env, et)
            if et is not None and not same(et, t):
                self.no(e, "heterogeneous list literal")
            et = t
            items.append(term)
        if et is None and not env.late_ok:
            self.no(e, "empty list literal of unknown element type")
        return "[" + "; ".join(items) + "]", ("list", et)

    def e_Subscript(self, e, env, want):
        env2 = env.allow_bare()
        term, t = self.expr(e.value, env2)
        if isinstance(e.slice, ast.Slice) and t[0] == "list" and e.slice.step is None and e.slice.lower is None \
                and e.slice.upper is not None and const_int(e.slice.upper) == -1:
            return f"(List.removelast {term})", t          # l[:-1]; [] for the empty list in Python too
        if isinstance(e.slice, ast.Slice):
            if e.slice.step is not None or t != STR:
                self.no(e, "only str[a:b] slices are supported")
            lo = f"(Some {self.intz(e.slice.lower, env)})" if e.slice.lower is not None else "None"
            hi = f"(Some {self.intz(e.slice.upper, env)})" if e.slice.upper is not None else "None"
            return f"(py_str_slice {term} {lo} {hi})", STR
        i = const_int(e.slice)
        if i is None:
            self.no(e, "index must be an integer literal")
        if t[0] == "tuple":
            n = len(t[1])
            if not -n <= i < n:
                self.no(e, "tuple index out of range")
            i %= n
            s = term
            for _ in range(i):
                s = f"(snd {s})"
            return (f"(fst {s})" if i < n - 1 else s), t[1][i]
        if t[0] == "list":
            d = self.dflt(t[1], e)
            self.res.partial.append(f"{self.path}:{e.lineno}: {ast.unparse(e)} (IndexError is not modelled; default {d})")
            if i == -1:
                return f"(List.last {term} {d})", t[1]
            if i >= 0:
                return (f"(List.hd {d} {term})" if i == 0 else f"(List.nth {i} {term} {d})"), t[1]
        if t == STR and i >= -1:
            # s[i] as the one-character slice s[i:i+1] (s[-1:] for i = -1): equal whenever s[i] does not raise
            self.res.partial.append(f"{self.path}:{e.lineno}: {ast.unparse(e)} (IndexError is not modelled; \"\" if out of range)")
            hi = "None" if i == -1 else f"(Some {i + 1}%Z)"
            return f"(py_str_slice {term} (Some ({i})%Z) {hi})", STR
        self.no(e, f"index {i} on {coq_type(t)}")

    def intz(self, e, env) -> str:
        term, t = self.expr(e, env)
        if t == N:
            return f"(Z.of_N {term})"
        if t != Z:
            self.no(e, "slice bound is not an int")
        return term

    def comp(self, g, env, node):
        if len(g) != 1 or g[0].is_async or not isinstance(g[0].target, ast.Name):
            self.no(node, "only one `for name in iterable` clause")
        it, t = self.iterable(g[0].iter, env)
        e2 = env.fork()
        v = g[0].target.id
        e2.vars[v] = t[1]
        conds = [self.cond(c, e2) for c in g[0].ifs]
        if conds:
            it = f"(List.filter (fun {self.ident(v, node)} => {' && '.join(conds)}) {it})"
        return it, e2, self.ident(v, node)

    def iterable(self, e, env):
        term, t = self.expr(e, env.allow_bare())
        if t[0] == "tuple" and all(same(x, t[1][0]) for x in t[1]):
            n = len(t[1])
            parts, s = [], term
            for k in range(n):
                parts.append(f"(fst {s})" if k < n - 1 else s)
                s = f"(snd {s})"
            return "[" + "; ".join(parts) + "]", ("list", t[1][0])
        if t[0] != "list":
            self.no(e, f"iteration over {coq_type(t)}")
        return term, t

    def listlike(self, e, env):
        """A list-valued argument: a generator expression / list comprehension (single `for name in
        iterable`, optional `if`s) is read as map/filter, anything else must have a list type."""
        if isinstance(e, (ast.GeneratorExp, ast.ListComp)):
            return self.e_ListComp(e, env, None)
        return self.expr(e, env.allow_bare())

    def str_format(self, e, fmt, args, env):
        """`"..{}..".format(a, b)` on a literal with plain `{}` fields = the f-string concatenation."""
        import string
        try:
            fields = list(string.Formatter().parse(fmt))
        except ValueError as err:
            self.no(e, f"malformed format string ({err})")
        parts, k = [], 0
        for lit, name, spec, conv in fields:
            if lit:
                parts.append(self.e_Constant(ast.copy_location(ast.Constant(lit), e), env, None)[0])
            if name is None:
                continue
            if name != "" or spec or conv:
                self.no(e, "str.format with named/numbered fields, a conversion or a format spec")
            if k >= len(args):
                self.no(e, "str.format with fewer arguments than fields")
            parts.append(self.to_str(args[k], env))
            k += 1
        if k != len(args):
            self.no(e, "str.format with more arguments than fields")
        return ("(" + " ++ ".join(parts) + ")%string" if parts else '""'), STR

    def e_ListComp(self, e, env, want):
        it, e2, v = self.comp(e.generators, env, e)
        body, bt = self.expr(e.elt, e2)
        if isinstance(e.elt, ast.Name) and e.elt.id == e.generators[0].target.id:
            return it, ("list", bt)
        return f"(List.map (fun {v} => {body}) {it})", ("list", bt)

    def e_Call(self, e, env, want):
        f, args = e.func, list(e.args)
        fname = ast.unparse(f)
        if e.keywords and fname in self.spec.get("opaque", {}) and all(k.arg for k in e.keywords):
            args += [k.value for k in e.keywords]       # opaque: keyword values passed on in source order
            note = f"{fname}: keyword arguments {[k.arg for k in e.keywords]} passed positionally in source order"
            if note not in self.res.assumed:
                self.res.assumed.append(note)
        elif e.keywords and fname in self.spec.get("extern", {}) and "kw" in self.spec["extern"][fname] \
                and all(k.arg for k in e.keywords):
            order = self.spec["extern"][fname]["kw"][len(args):]
            given = {k.arg: k.value for k in e.keywords}
            if sorted(given) != sorted(order) or len(given) != len(e.keywords):
                self.no(e, f"keyword arguments of extern function {fname} (declared: {order})")
            args += [given[k] for k in order]
        elif e.keywords:
            self.no(e, "keyword arguments")
        if any(isinstance(a, ast.Starred) for a in args):
            self.no(e, "starred arguments")
        if fname in self.spec.get("extern", {}):
            x = self.spec["extern"][fname]
            items = [self.expr(a, env) for a in args]
            pts = [self.ann(p) for p in x["params"]]
            if len(pts) != len(items) or any(not same(t, pt) for (_, t), pt in zip(items, pts)):
                self.no(e, f"arguments of extern function {fname}")
            note = f"{fname}(..) read as the Coq function {x['coq']}: {x.get('why', '')}"
            if note not in self.res.assumed:
                self.res.assumed.append(note)
            return f"({x['coq']} {' '.join(t for t, _ in items)})", self.ann(x["ret"])
        if isinstance(f, ast.Subscript) or (isinstance(f, ast.Name) and (f.id in env.vars or f.id in env.narrow)):
            term, t = self.expr(f, env)         # calling a value: only objects of a declared callable record type
            call = self.spec["records"][t[1]].get("call") if t[0] == "rec" else None
            if not call or args:
                self.no(e, f"call of a value of type {coq_type(t)}")
            return f"({call[0]} {term})", self.ann(call[1])
        tq = self.target(f, env.cls)
        if tq and isinstance(f, ast.Attribute):
            cname, ps, ret, extra, raises, kind, opq = self.function(tq, e)
            if kind == "inst":
                if "self" not in env.vars:
                    self.no(e, "method call without self")
                args = [ast.copy_location(ast.Name("self", ast.Load()), e)] + args
            return self.call_fn(e, tq, args, env)
        if isinstance(f, ast.Attribute) and f.attr == "format" and isinstance(f.value, ast.Constant) \
                and isinstance(f.value.value, str):
            return self.str_format(e, f.value.value, args, env)
        if isinstance(f, ast.Attribute):
            recv, rt = self.expr(f.value, env)
            pycls = self.spec["records"][rt[1]].get("class") if rt[0] == "rec" else None
            if pycls and f"{pycls}.{f.attr}" in self.funcs:       # method of a declared record's class
                return self.call_fn(e, f"{pycls}.{f.attr}", [f.value] + args, env)
            meth = self.spec["records"][rt[1]].get("methods", {}).get(f.attr) if rt[0] == "rec" else None
            if meth and not args:                                 # declared pure observer: h.hexdigest()
                return f"({meth[0]} {recv})", self.ann(meth[1])
            if rt == STR:
                return self.str_method(e, recv, f.attr, args, env)
            self.no(e, f"method .{f.attr}() on {coq_type(rt)}")
        if not isinstance(f, (ast.Name, ast.Attribute)):
            self.no(e, "call of a computed function")
        name = f.id if isinstance(f, ast.Name) else f"{env.cls}.{f.attr}"
        if name in env.vars or (name in BUILTINS and (name in self.funcs or name in self.consts)):
            self.no(e, f"call of {name!r}, which is a local value or a redefined builtin")
        if name in ("any", "all") and len(args) == 1 and isinstance(args[0], (ast.GeneratorExp, ast.ListComp)):
            it, e2, v = self.comp(args[0].generators, env, e)
            fn = "List.existsb" if name == "any" else "List.forallb"
            return f"({fn} (fun {v} => {self.cond(args[0].elt, e2)}) {it})", BOOL
        if name in ("any", "all") and len(args) == 1:
            it, t = self.iterable(args[0], env)
            if t[1] != BOOL:
                self.no(e, f"{name}() over non-bool elements (truthiness)")
            return f"({'List.existsb' if name == 'any' else 'List.forallb'} (fun b => b) {it})", BOOL
        if name == "filter" and len(args) == 2 and isinstance(args[0], ast.Lambda) and "filter" not in self.funcs:
            la = args[0].args
            if len(la.args) != 1 or la.defaults or la.vararg or la.kwarg or la.kwonlyargs or la.posonlyargs:
                self.no(e, "filter with a lambda that is not `lambda x: cond`")
            it, t = self.iterable(args[1], env)
            e2 = env.fork()
            e2.vars[la.args[0].arg] = t[1]
            return f"(List.filter (fun {self.ident(la.args[0].arg, e)} => {self.cond(args[0].body, e2)}) {it})", t
        if name == "list" and len(args) == 1 and "list" not in self.funcs and "list" not in self.consts:
            term, t = self.listlike(args[0], env)
            if t[0] == "list":
                return term, t
        if name == "len" and len(args) == 1:
            term, t = self.expr(args[0], env.allow_bare())
            if t == STR:
                return f"(py_len_str {term})", Z
            if t[0] == "list":
                return f"(py_len {term})", Z
            if t[0] == "tuple":
                return f"{len(t[1])}%Z", Z
        if name == "str" and len(args) == 1:
            return self.to_str(args[0], env), STR
        if name == "int" and len(args) == 1:                      # int(b) of a bool: 1 / 0; int(i) of an int: i
            term, t = self.expr(args[0], env)
            if t == BOOL:
                return f"(if {term} then 1%Z else 0%Z)", Z
            if t in (Z, N):
                return term, t
        if name == "map" and len(args) == 2 and isinstance(args[0], ast.Name):
            it, t = self.iterable(args[1], env)
            if args[0].id == "str" and t[1] in (Z, N):
                return f"(List.map py_str_of_{t[1]} {it})", ("list", STR)
            if args[0].id in self.funcs:
                cname, ps, ret, opq, raises = self.function(args[0].id, e)[:5]
                if len(ps) == 1 and same(ps[0][1], t[1]) and not opq and not raises:
                    return f"(List.map {cname} {it})", ("list", ret)
        if name in self.spec.get("casts", {}) and len(args) == 1:
            term, t = self.expr(args[0], env, want)
            note = f"{name}(x) read as x: {self.spec['casts'][name]}"
            if note not in self.res.assumed:
                self.res.assumed.append(note)
            return term, t
        if name in self.spec.get("opaque", {}):
            items = [self.expr(a, env) for a in args]
            rt = self.ann(self.spec["opaque"][name]["ret"])
            sig = ([t for _, t in items], rt)
            if env.root.opaques.setdefault(name, sig) != sig:
                self.no(e, f"opaque function {name} used at two different types")
            return f"(py_{name} {' '.join(x for x, _ in items)})", rt
        if name in self.funcs and name not in BUILTINS:
            return self.call_fn(e, name, args, env)
        self.no(e, f"call of {ast.unparse(f)!r}")

    def call_fn(self, e, qual, args, env):
        """Call of a translated function; opaque parameters of the callee are passed on."""
        saved_bind = self.bind_node              # translating the callee now must not disturb the caller's state
        cname, ps, ret, extra, raises, kind, opq = self.function(qual, e)
        self.bind_node = saved_bind
        pass_binders = []
        if qual in self.with_binders:
            me = self.cur_fn[-1] if self.cur_fn else None
            if me is None or self.binders_of.get(me) != self.binders_of.get(qual):
                self.no(e, f"call of {qual}, which has declared extra binders")
            pass_binders = [n for grp in re.findall(r"\(([^:()]+):", self.binders_of[qual]) for n in grp.split()]
        if raises and e is not self.bind_node:
            self.no(e, f"call of {qual}, which can raise, inside an expression (only `f(..)`, `x = f(..)`, `return f(..)`)")
        for oname, sig in opq.items():
            if env.root.opaques.setdefault(oname, sig) != sig:
                self.no(e, f"opaque function {oname} used at two different types")
        if extra and [t for o in opq.values() for t in o[0] + [o[1]] if t[0] == "abs"]:
            self.no(e, f"call of {qual}, which has abstract type parameters")
        if len(args) > len(ps) or any(d is None for _, _, d in ps[len(args):]):
            self.no(e, f"wrong number of arguments for {qual}")
        terms = pass_binders + [f"py_{o}" for o in opq]
        for a, (pn, pt, _) in zip(args, ps):
            term, t = self.expr(a, env, pt)
            if not same(t, pt):
                self.no(a, f"argument of type {coq_type(t)} for parameter {pn} : {coq_type(pt)}")
            terms.append(term)
        cenv = Env(self, qual.split(".")[0] if "." in qual else None, {})
        terms += [self.expr(d, cenv, pt)[0] for _, pt, d in ps[len(args):]]
        return f"({cname} {' '.join(terms)})", ret

    def str_method(self, e, recv, meth, args, env):
        def sarg(i):
            term, t = self.expr(args[i], env)
            if t != STR:
                self.no(e, f".{meth}() argument is {coq_type(t)}, expected str")
            return term
        if meth in ("startswith", "endswith", "find", "split", "strip", "lstrip", "rstrip") and len(args) == 1:
            a = sarg(0)
            if meth == "split" and not (isinstance(args[0], ast.Constant) and args[0].value):
                self.res.partial.append(f"{self.path}:{e.lineno}: .split({ast.unparse(args[0])}) (ValueError on an empty separator is not modelled)")
            ty = {"find": Z, "split": ("list", STR)}.get(meth, BOOL if meth.endswith("with") else STR)
            return f"(py_{meth} {recv} {a})", ty
        if meth in ("split", "rsplit") and len(args) == 2 and const_int(args[1]) == 1:
            a = sarg(0)
            if not (isinstance(args[0], ast.Constant) and args[0].value):
                self.res.partial.append(f"{self.path}:{e.lineno}: .{meth}({ast.unparse(args[0])}, 1) (ValueError on an empty separator is not modelled)")
            return f"(py_{meth}1 {recv} {a})", ("list", STR)
        if meth in ("partition", "rpartition") and len(args) == 1:
            a = sarg(0)
            if not (isinstance(args[0], ast.Constant) and args[0].value):
                self.res.partial.append(f"{self.path}:{e.lineno}: .{meth}({ast.unparse(args[0])}) (ValueError on an empty separator is not modelled)")
            return f"(py_{meth} {recv} {a})", ("tuple", [STR, STR, STR])
        if meth == "join" and len(args) == 1:
            term, t = self.listlike(args[0], env)
            if not same(t, ("list", STR)):
                self.no(e, f".join() of {coq_type(t)}")
            return f"(py_join {recv} {term})", STR
        self.no(e, f"str method .{meth}() with {len(args)} argument(s)")


class Env:
    def __init__(self, tr, cls, vars_):
        self.tr, self.cls, self.vars = tr, cls, vars_
        self.params, self.mutated, self.ret, self.last = set(), set(), None, None
        self.opaques: Dict[str, Any] = {}
        self.root, self.bare_ok = self, False
        self.raises, self.proc = False, False
        self.narrow: Dict[str, Any] = {}
        self.raisers: Dict[str, Any] = {}
        self.late_ok = False

    def unnarrow(self, name):
        for k in [k for k in self.narrow if re.search(rf"\b{re.escape(name)}\b", k)]:
            del self.narrow[k]

    def name(self, v):
        return self.tr.ident(v, "Name")

    def fork(self):
        e = Env(self.tr, self.cls, dict(self.vars))
        e.params, e.mutated, e.ret, e.root, e.bare_ok = self.params, self.mutated, self.ret, self.root, self.bare_ok
        e.narrow, e.raisers = dict(self.narrow), self.raisers
        return e

    def allow_bare(self):
        e = self.fork()
        e.vars, e.bare_ok, e.narrow = self.vars, True, self.narrow
        return e


def same(a, b) -> bool:
    return a == b


def const_int(e) -> Optional[int]:
    if isinstance(e, ast.Constant) and type(e.value) is int:
        return e.value
    if isinstance(e, ast.UnaryOp) and isinstance(e.op, ast.USub) and isinstance(e.operand, ast.Constant) and type(e.operand.value) is int:
        return -e.operand.value
    return None


def walk(node, enter=True):
    """ast.walk that does not descend into nested function definitions / lambdas
    (nor into `node` itself if it is one and enter=False: a statement of a function body)."""
    if not enter and isinstance(node, (ast.FunctionDef, ast.AsyncFunctionDef, ast.Lambda)):
        yield node
        return
    todo = [node]
    while todo:
        n = todo.pop()
        yield n
        for c in ast.iter_child_nodes(n):
            if not isinstance(c, (ast.FunctionDef, ast.AsyncFunctionDef, ast.Lambda)):
                todo.append(c)
            else:
                yield c          # the definition itself is seen, its body is not


def has_return(stmts) -> bool:
    return any(isinstance(n, ast.Return) for s in stmts for n in walk(s, False))


def always_returns(stmts) -> bool:
    if not stmts:
        return False
    s = stmts[-1]
    return isinstance(s, (ast.Return, ast.Raise)) or (isinstance(s, ast.If) and always_returns(s.body) and always_returns(s.orelse))


def assigned(stmts) -> set:
    out = set()
    for s in stmts:
        for n in walk(s, False):
            if isinstance(n, ast.Name) and isinstance(n.ctx, ast.Store):
                out.add(n.id)
    return out | mutated_names(stmts)


def mutated_names(stmts) -> set:
    out = set()
    for s in stmts:
        for n in walk(s, False):
            if isinstance(n, ast.Subscript) and isinstance(n.ctx, ast.Store) and isinstance(n.value, ast.Name):
                out.add(n.value.id)
            if isinstance(n, ast.Delete):
                out |= {t.value.id for t in n.targets if isinstance(t, ast.Subscript) and isinstance(t.value, ast.Name)}
            if isinstance(n, ast.Expr) and isinstance(n.value, ast.Call) and isinstance(n.value.func, ast.Attribute) \
                    and isinstance(n.value.func.value, ast.Name) and n.value.func.attr in ("append", "pop"):
                out.add(n.value.func.value.id)
    return out


def fresh_list(e) -> bool:
    return isinstance(e, (ast.List, ast.ListComp)) or (
        isinstance(e, ast.Call) and isinstance(e.func, ast.Attribute) and e.func.attr == "split")


HEADER = """(** GENERATED by tools/py2coq.py from {path}
    sha256 {sha} -- do not edit; rewritten on every check run. *)
From Coq Require Import List String Ascii NArith ZArith Bool.
From MV Require Import Base.Sx Base.Cmp Gen.PyLib.
Import ListNotations.
Local Open Scope string_scope.
Create HintDb pygen.
{extra}
"""


def translate(path: str, spec: Dict[str, Any], shown_path: Optional[str] = None, root: Optional[str] = None) -> Result:
    """`spec["extra_sources"]`: further modules (paths relative to `root`) whose functions may be called."""
    with open(path) as fh:
        src = fh.read()
    extra = []
    for rel in spec.get("extra_sources", []):
        with open(os.path.join(root or os.path.dirname(path), rel)) as fh:
            extra.append((rel, fh.read()))
    tr = Tr(shown_path or path, src, spec, extra)
    tr.res.extra_sha256 = {rel: hashlib.sha256(t.encode()).hexdigest() for rel, t in extra}
    for f in spec["functions"]:
        tr.function(f["py"])
    for c in spec.get("constants", []):
        tr.constant(c, "Module")
    tr.res.text = HEADER.format(path=shown_path or path, sha=tr.res.sha256, extra=spec.get("header", "")) + "\n".join(tr.out.values())
    return tr.res


if __name__ == "__main__":
    import json
    spec = json.loads(open(sys.argv[2]).read()) if len(sys.argv) > 2 else {"functions": [{"py": n} for n in sys.argv[3:]]}
    try:
        print(translate(sys.argv[1], spec).text)
    except Refuse as r:
        print("REFUSED:", r, file=sys.stderr)
        sys.exit(1)
