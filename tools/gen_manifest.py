#!/venv/bin/python
"""Writes /verif/MANIFEST.json from the table below (single source of truth for the checks)."""
import json
from pathlib import Path

VERIF = Path(__file__).resolve().parent.parent
ALL = [f"C{i:02d}" for i in range(1, 21)]

# pid -> {technique, level_text, level_note, design_ref}: tools/checks.json
CHECKS = {k: (v["technique"], v["level_text"], v["level_note"], v["design_ref"])
          for k, v in json.loads((VERIF / "tools" / "checks.json").read_text()).items()}
# pid -> reason, for properties that are not claimed: tools/not_claimed.json (optional)
_NC = VERIF / "tools" / "not_claimed.json"
NOT_CLAIMED = json.loads(_NC.read_text()) if _NC.exists() else {}

NOT_YET = "check not built yet (work in progress); no claim is made for this property at this commit"


def main():
    checks = []
    for pid, (tech, text, note, ref) in sorted(CHECKS.items()):
        checks.append({
            "property_id": pid,
            "quick_cmd": f"./check {pid} --tier quick",
            "thorough_cmd": f"./check {pid} --tier thorough",
            "evidence_file": f"evidence/{pid}.json",
            "replay_cmd_template": f"./check {pid} --replay {{path}}",
            "engine": "coq-model+correspondence",
            "level_claimed": {"category": "proof", "text": text, "design_ref": ref},
            "level_note": note,
            "technique": tech,
        })
    man = {
        "version": 1,
        "setup_cmd": "./setup.sh",
        "hooks": {
            "guard": "METADOR_CORE_VERIF",
            "enable": "no hooks are needed: every observable is reached through the public API and raw h5py reads; checks import /repo/src directly (PYTHONPATH)",
            "baseline_off_cmd": "tools/baseline.sh",
            "source_commits": [],
            "add_only": True,
        },
        "engines": [{
            "name": "coq-model+correspondence",
            "path": "coq/ (models, proofs, Properties/), runner/mrun.ml (extracted model runner), harness/ (correspondence, oracles)",
            "serves_properties": sorted(CHECKS),
            "kind_free_text": "Coq 8.16.1 theorems (434, all closed under the global context; coqchk -o: no axioms) over hand-written executable Gallina models; models tied to /repo on every run by differential correspondence (extracted OCaml runner + vm_compute cross-check) with a code-only oracle per property, and, for the pure functions of C03 C04 C07 C08 C16 C18 C19, by model text regenerated from the source with a fail-closed Python->Coq translator and re-checked equivalence theorems",
        }],
        "checks": checks,
        "notes": "See DESIGN.md (section 9 = as built) and README.md. The 39 fix: commits in /repo are listed in known_findings.json as fixed entries (they suppress nothing); two open entries (C15) are reported as KNOWN-FINDING lines. seeded/ holds 84 independently produced property-breaking changes (all caught) and 11 benign refactorings (all quiet); RESULTS.json / RESULTS-seed1.json record what the checks reported.",
        "not_applicable": [{"property_id": p, "reason": NOT_CLAIMED.get(p, NOT_YET)} for p in ALL if p not in CHECKS],
    }
    (VERIF / "MANIFEST.json").write_text(json.dumps(man, indent=1) + "\n")
    print("wrote MANIFEST.json with", len(checks), "checks")


if __name__ == "__main__":
    main()
