#!/bin/sh
# liveness.sh "<ids>" : corrupts every 5th answer of the extracted model runner (VERIF_PERTURB_MODEL) and runs the quick
# checks: every check must then report a broken correspondence (exit 1). A check that stays OK does not really compare.
IDS="${1:-C01 C02 C03 C04 C05 C06 C07 C08 C09 C10 C11 C12 C13 C14 C15 C16 C17 C18 C19 C20}"
HERE="$(cd "$(dirname "$0")/.." && pwd)"; cd "$HERE"
export VERIF_EVIDENCE_DIR="${VERIF_EVIDENCE_DIR:-/tmp/liveness-ev}" VERIF_PERTURB_MODEL=5
for p in $IDS; do
  out=$(timeout 1800 ./check $p --tier quick 2>&1); rc=$?
  n=$(echo "$out" | grep -c '^VIOLATION')
  echo "liveness $p rc=$rc violations=$n $( [ $rc -eq 1 ] && echo LIVE || echo NOT-LIVE )"
done
