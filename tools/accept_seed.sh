#!/bin/sh
# accept_seed.sh <worktree-name under /tmp/mut> <seed-name> : validate, store under seeded/, drop worktree, run the check on it
W=/tmp/mut/$1; N=$2
cd /verif
OUT=$(tools/validate_seed.sh $W 2>&1 | grep -v WARNING); echo "$OUT"
case "$OUT" in *SEED-VALID*) ;; *) echo "not accepted"; exit 1;; esac
mkdir -p seeded/$N && cp $W/_seed/patch.diff $W/_seed/demo.py $W/_seed/meta.json seeded/$N/
/venv/bin/python - seeded/$N/meta.json <<'PY'
import json,sys
p=sys.argv[1]; m=json.load(open(p))
m["confirmed_by_coordinator"]=["tools/validate_seed.sh <worktree>: demo exits 0 on unchanged tree, non-zero with change; 66/66 baseline tests pass with change"]
json.dump(m,open(p,"w"),indent=1)
PY
git -C /repo worktree remove --force $W
tools/seeded.py $N 2>&1 | grep -v WARNING | cut -c1-400
