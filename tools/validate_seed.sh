#!/bin/sh
# validate_seed.sh <worktree> : confirms a seeded change (worktree has the change applied and _seed/{patch.diff,demo.py,meta.json})
# 1. demo passes on the unchanged tree, 2. fails with the change, 3. the 66 stable baseline tests still pass with the change.
WT="$1"; S="$WT/_seed"
set -e
cd "$WT"
git apply -R "$S/patch.diff"
if [ -n "$(git status --porcelain -- src)" ]; then echo "FAIL: tree not clean after reverting patch"; git status --short -- src; exit 1; fi
set +e
PYTHONPATH=/tmp/mut:$WT/src timeout 300 /venv/bin/python "$S/demo.py" >/tmp/mut/demo0.log 2>&1; R0=$?
git apply "$S/patch.diff"
PYTHONPATH=/tmp/mut:$WT/src timeout 300 /venv/bin/python "$S/demo.py" >/tmp/mut/demo1.log 2>&1; R1=$?
echo "demo unchanged: exit $R0 ; demo with change: exit $R1 ($(tail -1 /tmp/mut/demo1.log | cut -c1-160))"
OUT=$(mktemp -d)
/venv/bin/python -m pytest -q -p no:cacheprovider --timeout=900 --continue-on-collection-errors --junitxml="$OUT/j.xml" >"$OUT/log" 2>&1
/venv/bin/python - "$OUT/j.xml" <<'PY'
import json, sys, xml.etree.ElementTree as ET
base = json.load(open("/root/.vp/BASELINE.json"))["stable_pass"]
ok = set()
for tc in ET.parse(sys.argv[1]).getroot().iter("testcase"):
    if not any(ch.tag in ("failure", "error", "skipped") for ch in tc):
        ok.add(f"{tc.get('classname')}::{tc.get('name')}")
missing = [t for t in base if t not in ok]
print(f"baseline with change: {len(base)-len(missing)}/{len(base)}", missing[:5])
sys.exit(1 if missing else 0)
PY
RT=$?
rm -rf "$OUT"
[ $R0 -eq 0 ] && [ $R1 -ne 0 ] && [ $RT -eq 0 ] && echo "SEED-VALID" || echo "SEED-INVALID"
