#!/usr/bin/env python3
"""Fail-closed regression cases for tools/py2coq.py: every program below must be REFUSED.
Run: /venv/bin/python tools/py2coq_selftest.py   (exit 0 iff all are refused)."""
import os
import sys
import tempfile

sys.path.insert(0, os.path.dirname(os.path.abspath(__file__)))
import py2coq  # noqa: E402

CASES = {
    "for loop": "def f(x: str) -> bool:\n    for c in x:\n        return True\n    return False\n",
    "while": "def f(x: int) -> int:\n    while x > 0:\n        x = x - 1\n    return x\n",
    "truthiness": "def f(x: str) -> bool:\n    if x:\n        return True\n    return False\n",
    "or on str": "def f(x: str, y: str) -> str:\n    return x or y\n",
    "alias then mutate": "def f(p: str) -> str:\n    a = p.split('/')\n    b = a\n    a[-1] = 'x'\n    return '/'.join(b)\n",
    "mutate param": "from typing import List\ndef f(a: List[str]) -> str:\n    a.append('x')\n    return '/'.join(a)\n",
    "fall off": "def f(x: int) -> bool:\n    if x > 0:\n        return True\n",
    "chained cmp": "def f(x: int) -> bool:\n    return 0 < x < 5\n",
    "str==int": "def f(x: str, y: int) -> bool:\n    return x == y\n",
    "kwargs call": "def g(a: int) -> int:\n    return a\ndef f(x: int) -> int:\n    return g(a=x)\n",
    "untyped param": "def f(x):\n    return x\n",
    "try": "def f(x: str) -> int:\n    try:\n        return 1\n    except Exception:\n        return 2\n",
    "split maxsplit": "def f(x: str) -> str:\n    return x.split('.', 1)[0]\n",
    "split no arg": "def f(x: str) -> str:\n    return x.split()[0]\n",
    "floor div": "def f(x: int) -> int:\n    return x // 2\n",
    "format spec": "def f(x: int) -> str:\n    return f'{x:03d}'\n",
    "unbound after if": "def f(c: bool) -> str:\n    if c:\n        y = 'a'\n    return y\n",
    "redefined len": "def len(x: str) -> int:\n    return 0\ndef f(x: str) -> int:\n    return len(x)\n",
    "non-ascii literal": "def f(x: str) -> bool:\n    return x == '\u00e9'\n",
    "print": "def f(x: str) -> str:\n    print(x)\n    return x\n",
    "lambda": "def f(x: int) -> int:\n    g = lambda y: y\n    return g(x)\n",
    "recursion": "def f(x: int) -> int:\n    return f(x)\n",
    "global mutation": "A = [1]\ndef f(x: int) -> int:\n    A.append(x)\n    return x\n",
    "variable index": "from typing import Tuple\ndef f(v: Tuple[int, int], i: int) -> int:\n    return v[i]\n",
    "list slice": "def f(p: str) -> str:\n    return '/'.join(p.split('/')[:-1])\n",
    "is not None on str": "def f(x: str) -> bool:\n    return x is not None\n",
    "star args": "def f(*a) -> int:\n    return 1\n",
    "decorator": "import functools\n@functools.lru_cache\ndef f(x: int) -> int:\n    return x\n",
    "augmented assign": "def f(x: int) -> int:\n    x += 1\n    return x\n",
    "unreachable": "def f(x: int) -> int:\n    return x\n    return 2\n",
}


def main() -> int:
    bad = 0
    for name, src in CASES.items():
        fd, path = tempfile.mkstemp(suffix=".py")
        os.write(fd, src.encode())
        os.close(fd)
        try:
            py2coq.translate(path, {"functions": [{"py": "f"}]})
            print("ACCEPTED (should be refused):", name)
            bad += 1
        except py2coq.Refuse as e:
            print("refused:", name, "--", str(e).split(": ", 1)[1][:100])
        finally:
            os.unlink(path)
    print(f"{len(CASES) - bad} of {len(CASES)} refused")
    return 1 if bad else 0


if __name__ == "__main__":
    sys.exit(main())
