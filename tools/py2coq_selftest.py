#!/usr/bin/env python3
"""Fail-closed regression cases for tools/py2coq.py: every program below must be REFUSED.
Run: /venv/bin/python tools/py2coq_selftest.py   (exit 0 iff all are refused)."""
import os
import sys
import tempfile

sys.path.insert(0, os.path.dirname(os.path.abspath(__file__)))
import py2coq  # noqa: E402

CASES = {
    "for loop": "def f(x: str) -> bool:\n    for c in x:\n        return True\n    return False\n",
    "while": "def f(x: int) -> int:\n    while x > 0:\n        x = x - 1\n    return x\n",
    "truthiness of Optional": "from typing import Optional\ndef f(x: Optional[str]) -> bool:\n    if x:\n        return True\n    return False\n",
    "truthiness of tuple": "from typing import Tuple\ndef f(x: Tuple[int, int]) -> bool:\n    return not x\n",
    "or on three strs": "def f(x: str, y: str, z: str) -> str:\n    return x or y or z\n",
    "or between str and int": "def f(x: str, y: int) -> str:\n    return x or y\n",
    "alias then mutate": "def f(p: str) -> str:\n    a = p.split('/')\n    b = a\n    a[-1] = 'x'\n    return '/'.join(b)\n",
    "mutate param": "from typing import List\ndef f(a: List[str]) -> str:\n    a.append('x')\n    return '/'.join(a)\n",
    "fall off": "def f(x: int) -> bool:\n    if x > 0:\n        return True\n",
    "chained cmp": "def f(x: int) -> bool:\n    return 0 < x < 5\n",
    "str==int": "def f(x: str, y: int) -> bool:\n    return x == y\n",
    "kwargs call": "def g(a: int) -> int:\n    return a\ndef f(x: int) -> int:\n    return g(a=x)\n",
    "untyped param": "def f(x):\n    return x\n",
    "try": "def f(x: str) -> int:\n    try:\n        return 1\n    except Exception:\n        return 2\n",
    "split maxsplit 2": "def f(x: str) -> str:\n    return x.split('.', 2)[0]\n",
    "rsplit variable maxsplit": "def f(x: str, n: int) -> str:\n    return x.rsplit('.', n)[0]\n",
    "split no arg": "def f(x: str) -> str:\n    return x.split()[0]\n",
    "floor div": "def f(x: int) -> int:\n    return x // 2\n",
    "format spec": "def f(x: int) -> str:\n    return f'{x:03d}'\n",
    "unbound after if": "def f(c: bool) -> str:\n    if c:\n        y = 'a'\n    return y\n",
    "redefined len": "def len(x: str) -> int:\n    return 0\ndef f(x: str) -> int:\n    return len(x)\n",
    "non-ascii literal": "def f(x: str) -> bool:\n    return x == '\u00e9'\n",
    "print": "def f(x: str) -> str:\n    print(x)\n    return x\n",
    "lambda": "def f(x: int) -> int:\n    g = lambda y: y\n    return g(x)\n",
    "recursion": "def f(x: int) -> int:\n    return f(x)\n",
    "global mutation": "A = [1]\ndef f(x: int) -> int:\n    A.append(x)\n    return x\n",
    "variable index": "from typing import Tuple\ndef f(v: Tuple[int, int], i: int) -> int:\n    return v[i]\n",
    "list slice": "def f(p: str) -> str:\n    return '/'.join(p.split('/')[1:])\n",
    "list slice [:-2]": "def f(p: str) -> str:\n    return '/'.join(p.split('/')[:-2])\n",
    "list slice with step": "def f(p: str) -> str:\n    return '/'.join(p.split('/')[:-1:1])\n",
    "str index by variable": "def f(p: str, i: int) -> str:\n    return p[i]\n",
    "str index -2": "def f(p: str) -> str:\n    return p[-2]\n",
    "int of str": "def f(p: str) -> int:\n    return int(p)\n",
    "int with base": "def f(b: bool) -> int:\n    return int(b, 10)\n",
    "list[:-1], str[0], int(bool) ok (control)": "def f(p: str) -> str:\n    n = len(p) + int(p != '/')\n    return p[0] + '/'.join(p.split('/')[:-1]) + p[n:]\n",
    "is not None on str": "def f(x: str) -> bool:\n    return x is not None\n",
    "star args": "def f(*a) -> int:\n    return 1\n",
    "decorator": "import functools\n@functools.lru_cache\ndef f(x: int) -> int:\n    return x\n",
    "augmented assign": "def f(x: int) -> int:\n    x += 1\n    return x\n",
    "unreachable": "def f(x: int) -> int:\n    return x\n    return 2\n",
    # raise / assert / Optional narrowing: unsupported variants
    "raise inside loop": "def f(x: str) -> int:\n    for c in x:\n        raise ValueError('a')\n    return 1\n",
    "bare raise": "def f(x: int) -> int:\n    if x > 0:\n        raise\n    return 1\n",
    "raise from": "def f(x: int) -> int:\n    if x > 0:\n        raise ValueError('a') from None\n    return 1\n",
    "try/except around raise": "def f(x: int) -> int:\n    try:\n        raise ValueError('a')\n    except ValueError:\n        return 2\n",
    "raise computed exception": "def f(x: int, e: str) -> int:\n    if x > 0:\n        raise e\n    return 1\n",
    "raise with two args": "def f(x: int) -> int:\n    if x > 0:\n        raise ValueError('a', 'b')\n    return 1\n",
    "raise non-str message": "def f(x: int) -> int:\n    if x > 0:\n        raise ValueError(x)\n    return 1\n",
    "raise in assigning branch": "def f(x: int) -> int:\n    y = 0\n    if x > 0:\n        y = 1\n        assert y > 0\n    else:\n        y = 2\n    return y\n"
                                 .replace("        assert y > 0\n", ""),   # control: this one is fine, see EXPECT_OK
    "raising call in expression": "def g(x: int) -> int:\n    if x > 0:\n        raise ValueError('a')\n    return x\ndef f(x: int) -> int:\n    return g(x) + 1\n",
    "mixed value and fall-through": "def f(x: int) -> int:\n    if x > 0:\n        raise ValueError('a')\n    if x < 0:\n        return 1\n",
    "attribute on Optional without test": "from typing import Optional, Tuple\ndef f(p: Optional[Tuple[int, int]]) -> int:\n    return p[0]\n",
    "narrowing lost by rebinding": "from typing import Optional\ndef f(p: Optional[int], q: Optional[int]) -> int:\n    if p is not None:\n        p = q\n        return p + 1\n    return 0\n",
    "None test on narrowed": "from typing import Optional\ndef f(p: Optional[int]) -> bool:\n    if p is not None:\n        return p is None\n    return True\n",
    "keyword call of non-opaque": "def g(a: int) -> int:\n    return a\ndef f(x: int) -> int:\n    y = g(a=x)\n    return y\n",
    "super without bases": "class A:\n    def m(self, x: int) -> int:\n        return x\nclass B(A):\n    def f(self, x: int) -> int:\n        return super().m(x)\n",
    # str.format and generator expressions: unsupported variants
    "format with spec": "def f(x: int) -> str:\n    return '{:>3}'.format(x)\n",
    "format with conversion": "def f(x: str) -> str:\n    return '{!r}'.format(x)\n",
    "format numbered": "def f(x: str, y: str) -> str:\n    return '{1}{0}'.format(x, y)\n",
    "format named": "def f(x: str) -> str:\n    return '{a}'.format(a=x)\n",
    "format too few args": "def f(x: str) -> str:\n    return '{}{}'.format(x)\n",
    "format too many args": "def f(x: str) -> str:\n    return '{}'.format(x, x)\n",
    "format on non-literal": "def f(t: str, x: str) -> str:\n    return t.format(x)\n",
    "generator with two fors": "from typing import List\ndef f(a: List[str]) -> str:\n    return ''.join(x + y for x in a for y in a)\n",
    "generator with tuple target": "from typing import List, Tuple\ndef f(a: List[Tuple[str, str]]) -> str:\n    return ''.join(x for x, y in a)\n",
    "generator bound to a name": "from typing import List\ndef f(a: List[str]) -> str:\n    g = (x for x in a)\n    return ''.join(g)\n",
    "sorted of generator": "from typing import List\ndef f(a: List[str]) -> str:\n    return ''.join(sorted(x for x in a))\n",
    "tuple of generator": "from typing import List\ndef f(a: List[str]) -> bool:\n    return tuple(x for x in a) == ('a', 'b')\n",
    "format ok (control)": "def f(x: str, n: int) -> str:\n    return '{}:{{}}{}'.format(x, n)\n",
    "generator in join (control)": "from typing import List\ndef f(a: List[int]) -> str:\n    return '.'.join(str(n) for n in a if n > 0)\n",
    # nested functions, del, value of and/or
    "nested def (general)": "def f(x: int) -> int:\n    def g(y: int) -> int:\n        return y + 1\n    return g(x)\n",
    "nested raiser called, not raised": "def f(x: int) -> str:\n    def err(m: str) -> ValueError:\n        return ValueError(m)\n    if x > 0:\n        raise err('a')\n    e = err('b')\n    return 'ok'\n",
    "nested raiser with default": "def f(x: int) -> int:\n    def err(m: str = 'a') -> ValueError:\n        return ValueError(m)\n    if x > 0:\n        raise err()\n    return 1\n",
    "nested raiser with untyped param": "def f(x: int) -> int:\n    def err(m):\n        return ValueError(m)\n    if x > 0:\n        raise err('a')\n    return 1\n",
    "nested raiser with two statements": "def f(x: int) -> int:\n    def err(m: str) -> ValueError:\n        m = m + '!'\n        return ValueError(m)\n    if x > 0:\n        raise err('a')\n    return 1\n",
    "del first element": "def f(p: str) -> str:\n    a = p.split('/')\n    del a[0]\n    return '/'.join(a)\n",
    "del name": "def f(p: str) -> str:\n    a = p\n    del a\n    return p\n",
    "value of and on str": "def f(x: str, y: str) -> bool:\n    z = x and y\n    return z == 'a'\n",
    "truthiness ok (control)": "def f(x: str, n: int) -> bool:\n    if x and not n:\n        return True\n    return False\n",
    "nested raiser ok (control)": "def f(x: int, name: str) -> int:\n    def err(m: str) -> ValueError:\n        return ValueError(f'{name}: {m}')\n    if x > 0:\n        raise err('positive')\n    return 1\n",
    "rsplit ok (control)": "def f(x: str) -> str:\n    return x.rsplit('/', 1)[-1] + x.rpartition('/')[2]\n",
    # loops: only the accumulate loop and the three spellings of the stream read loop
    "while with condition": "def f(x: int) -> int:\n    n = 0\n    while n < x:\n        n = n + 1\n    return n\n",
    "read loop with else": "def f(data: 'stream') -> str:\n    h = mk()\n    while True:\n        c = data.read(4)\n        if not c:\n            break\n        h.update(c)\n    else:\n        h.update(b'')\n    return h.hexdigest()\n",
    "read loop with extra statement": "def f(data: 'stream') -> str:\n    h = mk()\n    n = 0\n    while True:\n        c = data.read(4)\n        if not c:\n            break\n        h.update(c)\n        n = n + 1\n    return h.hexdigest()\n",
    "read loop breaking on other test": "def f(data: 'stream') -> str:\n    h = mk()\n    while True:\n        c = data.read(4)\n        if len(c) < 4:\n            break\n        h.update(c)\n    return h.hexdigest()\n",
    "read loop updating before the test": "def f(data: 'stream') -> str:\n    h = mk()\n    while True:\n        c = data.read(4)\n        h.update(c)\n        if not c:\n            break\n    return h.hexdigest()\n",
    "readinto loop": "def f(data: 'stream') -> str:\n    h = mk()\n    buf = bytearray(4)\n    while data.readinto(buf):\n        h.update(buf)\n    return h.hexdigest()\n",
    "read outside a loop": "def f(data: 'stream') -> str:\n    h = mk()\n    c = data.read(4)\n    h.update(c)\n    return h.hexdigest()\n",
    "read size depends on chunk": "def f(data: 'stream') -> str:\n    h = mk()\n    c = b''\n    while c := data.read(len(c)):\n        h.update(c)\n    return h.hexdigest()\n",
    "iter with other sentinel": "def f(data: 'stream') -> str:\n    h = mk()\n    for c in iter(lambda: data.read(4), None):\n        h.update(c)\n    return h.hexdigest()\n",
    "for with early return": "from typing import List\ndef f(a: List[int]) -> int:\n    for x in a:\n        if x > 0:\n            return x\n    return 0\n",
    "for accumulating a sum": "from typing import List\ndef f(a: List[int]) -> int:\n    n = 0\n    for x in a:\n        n = n + x\n    return n\n",
    "for reading the accumulator": "from typing import List\ndef f(a: List[int]) -> int:\n    acc = []\n    for x in a:\n        if len(acc) < 2:\n            acc.append(x)\n    return len(acc)\n",
    "try around two lookups": "def f(k: str) -> str:\n    try:\n        a = TBL[k]\n        b = TBL[k + 'x']\n    except KeyError:\n        raise ValueError('no')\n    return a.hexdigest()\n",
    "try with other exception": "def f(k: str) -> str:\n    try:\n        a = TBL[k]\n    except ValueError:\n        raise ValueError('no')\n    return a.hexdigest()\n",
    "try with call inside": "def f(k: str) -> str:\n    try:\n        a = TBL[k]\n        b = mk()\n    except KeyError:\n        raise ValueError('no')\n    return a.hexdigest()\n",
    "try return with call inside": "def f(k: str) -> str:\n    try:\n        return wrap(TBL[k])\n    except KeyError:\n        raise ValueError('no')\n",
    "try return not last": "def f(k: str) -> 'Hasher':\n    try:\n        return TBL[k]\n        a = 1\n    except KeyError:\n        raise ValueError('no')\n",
    "try return ok (control)": "def f(k: str) -> 'Hasher':\n    try:\n        return TBL[k]\n    except KeyError:\n        raise ValueError('no {}'.format(k))\n",
    "try handler that swallows": "def f(k: str) -> str:\n    try:\n        a = TBL[k]\n    except KeyError:\n        a = mk()\n    return a.hexdigest()\n",
    "mutating a parameter object": "def f(h: 'Hasher', c: bytes) -> str:\n    h.update(c)\n    return h.hexdigest()\n",
    "read loop ok (control)": "def f(data: 'stream') -> str:\n    h = mk()\n    while True:\n        c = data.read(h.block_size)\n        if not c:\n            break\n        h.update(c)\n    return h.hexdigest()\n",
    "walrus read loop ok (control)": "def f(data: 'stream') -> str:\n    h = mk()\n    while c := data.read(h.block_size):\n        h.update(c)\n    return h.hexdigest()\n",
    "iter read loop ok (control)": "def f(data: 'stream') -> str:\n    h = mk()\n    for c in iter(lambda: data.read(8), b''):\n        h.update(c)\n    return h.hexdigest()\n",
    "for accumulate ok (control)": "from typing import List\ndef f(a: List[int]) -> str:\n    acc = []\n    for x in a:\n        if x > 0:\n            acc.append(str(x))\n    return ','.join(acc)\n",
    "try lookup ok (control)": "def f(k: str) -> str:\n    try:\n        a = TBL[k]\n    except KeyError:\n        raise ValueError(f'no {k}')\n    return a.hexdigest()\n",
}
SPEC = {
    "records": {"Hasher": {"coq": "HS", "fields": {"block_size": ("py_block_size", "int")},
                           "mutators": {"update": ("py_update", ["bytes"])}, "methods": {"hexdigest": ("py_hexdigest", "str")}}},
    "opaque": {"mk": {"ret": "Hasher"}},
    "dicts": {"TBL": {"coq": "py_tbl", "key": "str", "value": "Hasher"}},
}
EXPECT_OK = {"try return ok (control)", "list[:-1], str[0], int(bool) ok (control)", "read loop ok (control)", "walrus read loop ok (control)", "iter read loop ok (control)",
             "for accumulate ok (control)", "try lookup ok (control)", "truthiness ok (control)", "nested raiser ok (control)", "rsplit ok (control)", "raise in assigning branch", "format ok (control)", "generator in join (control)"}


def main() -> int:
    bad = 0
    for name, src in CASES.items():
        fd, path = tempfile.mkstemp(suffix=".py")
        os.write(fd, src.encode())
        os.close(fd)
        fn = "B.f" if "class B" in src else "f"
        try:
            py2coq.translate(path, dict(SPEC, functions=[{"py": fn, "params": {"self": "int"}}]))
            if name in EXPECT_OK:
                print("accepted (control):", name)
            else:
                print("ACCEPTED (should be refused):", name)
                bad += 1
        except py2coq.Refuse as e:
            if name in EXPECT_OK:
                print("REFUSED (control should be accepted):", name, e)
                bad += 1
            print("refused:", name, "--", str(e).split(": ", 1)[1][:100])
        finally:
            os.unlink(path)
    print(f"{len(CASES) - len(EXPECT_OK) - bad} of {len(CASES) - len(EXPECT_OK)} refused, {bad} wrong")
    return 1 if bad else 0


if __name__ == "__main__":
    sys.exit(main())
