#!/usr/bin/env python3
"""Runs the registered quick check of a seeded change's property against the change.

  tools/seeded.py [--in-repo] [--tier quick|thorough] [name ...]

Each /verif/seeded/<name>/ holds patch.diff, the demonstration, and meta.json ({"property": ..}).
Default: the patch is applied in a scratch worktree of /repo (VERIF_REPO points the check at
it), so /repo itself is not disturbed while other work runs.  With --in-repo the patch is
applied to /repo with `git apply` and undone with `git checkout -- .` straight afterwards.
Prints one line per seeded change: CAUGHT / MISSED, and writes seeded/RESULTS.json.
"""
import json
import os
import shutil
import subprocess
import sys
import tempfile
import time
from pathlib import Path

VERIF = Path(__file__).resolve().parent.parent
SEEDED = VERIF / "seeded"


def sh(cmd, **kw):
    return subprocess.run(cmd, stdout=subprocess.PIPE, stderr=subprocess.STDOUT, text=True, **kw)


def run_one(name: str, in_repo: bool, tier: str):
    d = SEEDED / name
    meta = json.loads((d / "meta.json").read_text())
    pids = meta["property"] if isinstance(meta["property"], list) else [meta["property"]]
    patch = d / "patch.diff"
    res = {"name": name, "properties": pids, "checks": {}}
    if in_repo:
        tree = Path("/repo")
        p = sh(["git", "-C", "/repo", "apply", str(patch)])
        if p.returncode != 0:
            res["error"] = "patch does not apply: " + p.stdout[-500:]
            return res
    else:
        tree = Path(tempfile.mkdtemp(prefix="seedwt-"))
        shutil.rmtree(tree)
        p = sh(["git", "-C", "/repo", "worktree", "add", "--detach", str(tree), "HEAD"])
        p = sh(["git", "-C", str(tree), "apply", str(patch)])
        if p.returncode != 0:
            sh(["git", "-C", "/repo", "worktree", "remove", "--force", str(tree)])
            res["error"] = "patch does not apply: " + p.stdout[-500:]
            return res
    try:
        for pid in pids:
            env = dict(os.environ, VERIF_REPO=str(tree), VERIF_EVIDENCE_DIR=str(VERIF / "build" / "seeded-evidence"))
            t0 = time.time()
            p = sh([str(VERIF / "check"), pid, "--tier", tier], cwd=VERIF, env=env)
            lines = [l for l in p.stdout.splitlines() if l.startswith(("VIOLATION", "KNOWN-FINDING", "OK "))]
            res["checks"][pid] = {"exit": p.returncode, "lines": lines[:8], "wall_s": round(time.time() - t0, 1)}
    finally:
        if in_repo:
            sh(["git", "-C", "/repo", "checkout", "--", "."])
        else:
            sh(["git", "-C", "/repo", "worktree", "remove", "--force", str(tree)])
            shutil.rmtree(tree, ignore_errors=True)
    res["caught"] = any(c["exit"] == 1 and any(l.startswith("VIOLATION") for l in c["lines"])
                        for c in res["checks"].values())
    res["kind"] = meta.get("kind", "breaking")
    return res


def main():
    args = sys.argv[1:]
    in_repo = "--in-repo" in args
    tier = "quick"
    if "--tier" in args:
        tier = args[args.index("--tier") + 1]
        args.remove("--tier"); args.remove(tier)
    names = [a for a in args if not a.startswith("--")] or sorted(
        p.name for p in SEEDED.iterdir() if (p / "meta.json").exists())
    out = []
    for n in names:
        r = run_one(n, in_repo, tier)
        out.append(r)
        if "error" in r:
            tag = "ERROR " + r["error"]
        elif r.get("kind") == "benign":
            tag = "ALARM-ON-HARMLESS-CHANGE" if r["caught"] else "QUIET (as it should be)"
        else:
            tag = "CAUGHT" if r["caught"] else "MISSED"
        print(f"{n}: {tag} {json.dumps(r.get('checks', {}))[:400]}", flush=True)
    prev = {}
    f = SEEDED / "RESULTS.json"
    if f.exists():
        prev = {r["name"]: r for r in json.loads(f.read_text())}
    for r in out:
        prev[r["name"]] = r
    f.write_text(json.dumps(sorted(prev.values(), key=lambda r: r["name"]), indent=1) + "\n")


if __name__ == "__main__":
    main()
