#!/usr/bin/env python3
"""Rewrites the table between <!-- STATUS-BEGIN --> and <!-- STATUS-END --> in DESIGN.md from
evidence/*.json, coq/Properties/*.v and seeded/RESULTS.json."""
import json, re
from pathlib import Path
V = Path(__file__).resolve().parent.parent
res = json.loads((V / "seeded" / "RESULTS.json").read_text())
seeded = {}
for r in res:
    if r.get("kind") == "benign":
        continue
    for pid, c in r.get("checks", {}).items():
        s = seeded.setdefault(pid, [0, 0])
        s[1] += 1
        if c["exit"] == 1 and any(l.startswith("VIOLATION") for l in c["lines"]):
            s[0] += 1
kf = json.loads((V / "known_findings.json").read_text())["findings"]
rows = ["| id | theorems in Properties/ (all closed under the global context) | model / proof files | evaluations (quick) | wall s (quick) | fixed / open findings | seeded changes caught |",
        "|---|---|---|---|---|---|---|"]
proj = (V / "coq" / "_CoqProject").read_text().splitlines()
for i in range(1, 21):
    pid = f"C{i:02d}"
    ev = json.loads((V / "evidence" / f"{pid}.json").read_text())
    cov = ev["coverage"]
    src = (V / "coq" / "Properties" / f"{pid}.v").read_text()
    imports = sorted(set(re.findall(r"MV\.([A-Za-z0-9_.]+)|(?:^|\s)((?:Base|Util|IH5|Rec|Toc|Schema)\.[A-Za-z0-9_]+)", src)))
    files = sorted({(a or b) for a, b in imports if (a or b) and not (a or b).startswith("Base")})
    fixed = sum(1 for k in kf if k["property"] == pid and k["status"] == "fixed")
    opn = sum(1 for k in kf if k["property"] == pid and k["status"] == "open")
    s = seeded.get(pid, [0, 0])
    ax = cov.get("axioms_reported") or {}
    rows.append(f"| {pid} | {cov['obligations']} ({cov['discharged']} discharged{', axioms: ' + str(ax) if ax else ''}) | {', '.join(files)[:140]} | {cov.get('evaluations')} | {ev['wall_s']} | {fixed} / {opn} | {s[0]} of {s[1]} |")
txt = (V / "DESIGN.md").read_text()
b, e = "<!-- STATUS-BEGIN -->", "<!-- STATUS-END -->"
if b in txt:
    i, j = txt.index(b) + len(b), txt.index(e)
    txt = txt[:i] + "\n" + "\n".join(rows) + "\n" + txt[j:]
    (V / "DESIGN.md").write_text(txt)
print("\n".join(rows))
