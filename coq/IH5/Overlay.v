(** * Model of the IH5 overlay (properties C01, C05, C09, C10, C17).

    A record is a stack of containers (newest first), each a finite map from
    *reversed* paths to raw entries.  A path segment is [(false, k)] for a child
    named [k] and [(true, k)] for the attribute [k] of the node it hangs under, so
    attributes are leaf entries resolved by exactly the same newest-sighting rule as
    children ([overlay.py] [IH5InnerNode._children] serves both).

    Read path: [scan] = newest-first walk over the sightings of one path
    ([_children]: the newest non-virtual sighting decides, virtual group sightings
    only lower the bound until then), [status] = successive child lookup with the
    parent's creation index as lower bound ([_node_seq]/[_find]).

    Write path: every mutation rewrites the newest container only, as
    [graft M c q] (entries [M] rooted at [q] + virtual carrier groups for the
    ancestors of [q], what h5py's intermediate-group creation produces) and
    [cut q c] (raw subtree delete), cf. [overlay.py] [create_group],
    [create_dataset]/[_create_virtual], [__delitem__], [IH5AttributeManager].

    Specification: [tree] is a single plain map (no markers, no indices) with the
    h5py semantics of the same operations; [t_step]. *)
From stdpp Require Import gmap strings list.
From MV Require Base.Sx.

Notation seg := (bool * string)%type.
Notation path := (list seg).

Inductive rentry : Type := RDel | RData (v : string) | RGroup (subst : bool).
Global Instance rentry_eq_dec : EqDecision rentry.
Proof. solve_decision. Defined.

Notation cont := (gmap path rentry).
Notation stack := (list (nat * cont)).

(** [under q p]: [p] is [q] or lies below it (reversed paths: [q] is a suffix). *)
Notation under q p := (q `suffix_of` p).

(** ** Read path *)

Fixpoint scan (l : stack) (p : path) : option (nat * rentry) :=
  match l with
  | [] => None
  | (i, c) :: rest =>
      match c !! p with
      | None => scan rest p
      | Some (RGroup false) =>
          match scan rest p with None => Some (i, RGroup false) | Some r => Some r end
      | Some e => Some (i, e)
      end
  end.

Definition above (lb : nat) (l : stack) : stack := filter (λ ic, lb ≤ ic.1) l.

Definition post (r : option (nat * rentry)) : option (nat * rentry) :=
  match r with Some (_, RDel) => None | r => r end.

(** Can a node with entry [e] at path [par] hold a segment [s]?  Groups hold children
    and attributes, datasets hold attributes only, attributes hold nothing. *)
Definition holds (par : path) (e : rentry) (s : seg) : bool :=
  match par with
  | (true, _) :: _ => false
  | _ => match e with RGroup _ => true | RData _ => s.1 | RDel => false end
  end.

Fixpoint status (R : stack) (p : path) : option (nat * rentry) :=
  match p with
  | [] => Some (0, RGroup false)
  | s :: par =>
      match status R par with
      | Some (lb, e) => if holds par e s then post (scan (above lb R) p) else None
      | None => None
      end
  end.

(** ** Plain specification tree *)

Inductive tentry : Type := TData (v : string) | TGroup.
Global Instance tentry_eq_dec : EqDecision tentry.
Proof. solve_decision. Defined.
Notation tree := (gmap path tentry).

Definition erase (r : option (nat * rentry)) : option tentry :=
  match r with
  | Some (_, RData v) => Some (TData v)
  | Some (_, RGroup _) => Some TGroup
  | _ => None
  end.

(** The root is always a group and is not stored. *)
Definition tget (T : tree) (p : path) : option tentry :=
  match p with [] => Some TGroup | _ => T !! p end.

Definition vget (R : stack) (p : path) : option tentry := erase (status R p).

Definition tholds (par : path) (e : tentry) (s : seg) : bool :=
  match par with
  | (true, _) :: _ => false
  | _ => match e with TGroup => true | TData _ => s.1 end
  end.

(** ** Raw container updates *)

Fixpoint ancestors (q : path) : list path :=
  match q with
  | [] => []
  | _ :: par => match par with [] => [] | _ => par :: ancestors par end
  end.

Definition carr (q : path) : cont :=
  list_to_map (map (λ a, (a, RGroup false)) (ancestors q)).

Definition graft (M : cont) (c : cont) (q : path) : cont := M ∪ (c ∪ carr q).

Definition cut {X} (q : path) (c : gmap path X) : gmap path X :=
  filter (λ pe, ¬ under q pe.1) c.

(** ** Operations *)

Inductive op : Type :=
| OGroup (q : path)                       (* create_group *)
| OData (q : path) (v : string)           (* create_dataset / g[q] = v *)
| ODel (q : path)                         (* del g[q] *)
| OAttrSet (p : path) (k : string) (v : string)
| OAttrDel (p : path) (k : string)
| OCopy (src dst : path)
| OMove (src dst : path)
| OBoundary.                              (* commit_patch + create_patch *)

Definition is_node_path (q : path) : bool := forallb (λ s, negb s.1) q.

(** The IH5 deletion marker [np.void(b"\x7f")] as the harness encodes values. *)
Definition del_value : string := "v:7f".
Definition is_del_value (v : string) : bool := bool_decide (v = del_value).

(** *** Specification steps on the plain tree *)

(** Ensure a group exists at [q], creating missing ancestors; [None] = blocked by a dataset. *)
Fixpoint t_mkgroups (T : tree) (q : path) : option tree :=
  match q with
  | [] => Some T
  | s :: par =>
      match t_mkgroups T par with
      | None => None
      | Some T1 =>
          match T1 !! q with
          | Some TGroup => Some T1
          | Some (TData _) => None
          | None => Some (<[q := TGroup]> T1)
          end
      end
  end.

Definition t_parent (q : path) : path := tail q.

Definition t_create_group (T : tree) (q : path) : option tree :=
  match q with
  | [] => None
  | _ => match T !! q with Some _ => None | None => t_mkgroups T q end
  end.

Definition t_set_data (T : tree) (q : path) (v : string) : option tree :=
  match q with
  | [] => None
  | _ :: par =>
      match T !! q with
      | Some _ => None
      | None => match t_mkgroups T par with
                | None => None
                | Some T1 => Some (<[q := TData v]> T1)
                end
      end
  end.

Definition t_delete (T : tree) (q : path) : option tree :=
  match q with
  | [] => None
  | _ => match T !! q with None => None | Some _ => Some (cut q T) end
  end.

Definition t_attr_set (T : tree) (p : path) (k v : string) : option tree :=
  match tget T p with
  | None => None
  | Some _ => Some (<[(true, k) :: p := TData v]> T)
  end.

Definition t_attr_del (T : tree) (p : path) (k : string) : option tree :=
  match tget T p, T !! ((true, k) :: p) with
  | Some _, Some _ => Some (delete ((true, k) :: p) T)
  | _, _ => None
  end.

(** Snapshot of the subtree at [src], keyed by paths relative to [src]. *)
Definition strip (src p : path) : option path :=
  if decide (under src p) then Some (take (length p - length src) p) else None.

Definition rel_snap {X} (T : gmap path X) (src : path) : gmap path X :=
  list_to_map (omap (λ pe, (λ r, (r, pe.2)) <$> strip src pe.1) (map_to_list T)).

Definition t_graft_snap (S : gmap path tentry) (dst : path) : tree :=
  kmap (λ r, r ++ dst) S.

Definition t_copy (T : tree) (src dst : path) : option tree :=
  match src, dst with
  | [], _ | _, [] => None
  | _, _ :: dpar =>
      match T !! src, T !! dst with
      | Some _, None =>
          match t_mkgroups T dpar with
          | None => None
          | Some T1 => Some (t_graft_snap (rel_snap T src) dst ∪ T1)
          end
      | _, _ => None
      end
  end.

Definition t_move (T : tree) (src dst : path) : option tree :=
  if decide (under src dst) then None
  else match t_copy T src dst with
       | None => None
       | Some T1 => t_delete T1 src
       end.

Definition t_step (T : tree) (o : op) : tree * bool :=
  let r := match o with
           | OGroup q => if is_node_path q then t_create_group T q else None
           | OData q v => if is_node_path q && negb (is_del_value v) then t_set_data T q v else None
           | ODel q => if is_node_path q then t_delete T q else None
           | OAttrSet p k v => if is_node_path p && negb (is_del_value v) then t_attr_set T p k v else None
           | OAttrDel p k => if is_node_path p then t_attr_del T p k else None
           | OCopy s d => if is_node_path s && is_node_path d then t_copy T s d else None
           | OMove s d => if is_node_path s && is_node_path d then t_move T s d else None
           | OBoundary => Some T
           end in
  match r with Some T' => (T', true) | None => (T, false) end.

(** *** Overlay steps *)

Definition top_idx (R : stack) : nat := match R with [] => 0 | (n, _) :: _ => n end.
Definition is_patch (R : stack) : bool := match R with _ :: _ :: _ => true | _ => false end.

(** Replace the newest container. *)
Definition with_top (R : stack) (f : cont → cont) : stack :=
  match R with [] => [] | (n, c) :: rest => (n, f c) :: rest end.

Definition m_write1 (R : stack) (q : path) (e : rentry) : stack :=
  with_top R (λ c, graft {[q := e]} c q).

(** Ensure a group at [q]; new groups are overwrite groups when patching ([deep]: also those
    below the first created one — [create_group] after the repair creates every missing
    ancestor through the overlay, [_create_virtual] only the first). *)
Fixpoint m_mkgroups (deep : bool) (R : stack) (q : path) : option (stack * bool) :=
  match q with
  | [] => Some (R, false)
  | s :: par =>
      match m_mkgroups deep R par with
      | None => None
      | Some (R1, created) =>
          match status R1 q with
          | Some (_, RGroup _) => Some (R1, created)
          | Some _ => None
          | None =>
              let subst := is_patch R1 && (deep || negb created) in
              Some (m_write1 R1 q (RGroup subst), true)
          end
      end
  end.

Definition m_create_group (R : stack) (q : path) : option stack :=
  match q with
  | [] => None
  | _ => match status R q with
         | Some _ => None
         | None => fst <$> m_mkgroups true R q
         end
  end.

Definition m_set_data (R : stack) (q : path) (v : string) : option stack :=
  match q with
  | [] => None
  | _ :: par =>
      match status R q with
      | Some _ => None
      | None => match m_mkgroups false R par with
                | None => None
                | Some (R1, _) => Some (m_write1 R1 q (RData v))
                end
      end
  end.

Definition m_delete (R : stack) (q : path) : option stack :=
  match q with
  | [] => None
  | _ => match status R q with
         | None => None
         | Some _ =>
             if is_patch R then Some (with_top R (λ c, graft {[q := RDel]} (cut q c) q))
             else Some (with_top R (cut q))
         end
  end.

Definition m_attr_set (R : stack) (p : path) (k v : string) : option stack :=
  match status R p with
  | None => None
  | Some _ => Some (m_write1 R ((true, k) :: p) (RData v))
  end.

Definition m_attr_del (R : stack) (p : path) (k : string) : option stack :=
  match status R p, status R ((true, k) :: p) with
  | Some _, Some _ => m_delete R ((true, k) :: p)
  | _, _ => None
  end.

(** The overlay view as a finite map: candidates are all keys of all containers. *)
Definition all_keys (R : stack) : gmap path unit :=
  foldr (λ ic acc, ((λ _, ()) <$> ic.2) ∪ acc) ∅ R.

Definition viewmap (R : stack) : tree :=
  map_imap (λ p _, vget R p) (all_keys R).

Definition to_raw (subst : bool) (e : tentry) : rentry :=
  match e with TGroup => RGroup subst | TData v => RData v end.

Definition m_copy (R : stack) (src dst : path) : option stack :=
  match src, dst with
  | [], _ | _, [] => None
  | _, _ :: dpar =>
      match status R src, status R dst with
      | Some (_, esrc), None =>
          let S := rel_snap (viewmap R) src in
          (* a group is copied through [create_group] (every missing ancestor becomes an
             overwrite group), a dataset through [create_dataset] (only the first one) *)
          let deep := match esrc with RGroup _ => true | _ => false end in
          match m_mkgroups deep R dpar with
          | None => None
          | Some (R1, _) =>
              let M : cont := to_raw (is_patch R1) <$> t_graft_snap S dst in
              Some (with_top R1 (λ c, graft M c dst))
          end
      | _, _ => None
      end
  end.

Definition m_move (R : stack) (src dst : path) : option stack :=
  if decide (under src dst) then None
  else match m_copy R src dst with
       | None => None
       | Some R1 => m_delete R1 src
       end.

Definition m_boundary (R : stack) : stack := (S (top_idx R), ∅) :: R.

Definition m_step (R : stack) (o : op) : stack * bool :=
  let r := match o with
           | OGroup q => if is_node_path q then m_create_group R q else None
           | OData q v => if is_node_path q && negb (is_del_value v) then m_set_data R q v else None
           | ODel q => if is_node_path q then m_delete R q else None
           | OAttrSet p k v => if is_node_path p && negb (is_del_value v) then m_attr_set R p k v else None
           | OAttrDel p k => if is_node_path p then m_attr_del R p k else None
           | OCopy s d => if is_node_path s && is_node_path d then m_copy R s d else None
           | OMove s d => if is_node_path s && is_node_path d then m_move R s d else None
           | OBoundary => Some (m_boundary R)
           end in
  match r with Some R' => (R', true) | None => (R, false) end.

Definition m_init : stack := [(0, ∅)].

Definition run_m (ops : list op) : stack := foldl (λ R o, (m_step R o).1) m_init ops.
Definition run_t (ops : list op) : tree := foldl (λ T o, (t_step T o).1) ∅ ops.

(** ** The child-resolution rule of the pinned (unrepaired) code, kept for documentation

    [overlay.py] [IH5InnerNode._children] on the pinned tree records [is_virtual[k]] at the
    newest sighting only and never updates it: if the newest sighting of a path is a virtual
    group, *every* older sighting above the lower bound lowers the creation index, also those
    older than a non-virtual sighting.  [OverlayProofs.scan_pinned_refuted] shows that this
    rule breaks transparency. *)
Fixpoint scan_oldest (l : stack) (p : path) : option (nat * rentry) :=
  match l with
  | [] => None
  | (i, c) :: rest =>
      match scan_oldest rest p with
      | Some r => Some r
      | None => match c !! p with Some e => Some (i, e) | None => None end
      end
  end.

Fixpoint scan_pinned (l : stack) (p : path) : option (nat * rentry) :=
  match l with
  | [] => None
  | (i, c) :: rest =>
      match c !! p with
      | None => scan_pinned rest p
      | Some (RGroup false) =>
          match scan_oldest rest p with None => Some (i, RGroup false) | Some r => Some r end
      | Some e => Some (i, e)
      end
  end.

Fixpoint status_pinned (R : stack) (p : path) : option (nat * rentry) :=
  match p with
  | [] => Some (0, RGroup false)
  | s :: par =>
      match status_pinned R par with
      | Some (lb, e) => if holds par e s then post (scan_pinned (above lb R) p) else None
      | None => None
      end
  end.

Definition vget_pinned (R : stack) (p : path) : option tentry := erase (status_pinned R p).
