(** * Proofs about the IH5 overlay model ([IH5/Overlay.v]).

    Contents
    - path and container lookup lemmas ([graft], [cut], [carr]);
    - read path: [boundary_invisible], [scan_shadow], [status_shadow] (no resurrection),
      monotonicity of creation indices;
    - the generic frame lemma [frame_status] for a rewrite of the newest container, and the
      two write primitives [write1_status] (one entry + carriers) and [del_status];
    - invariant [Inv] (indices decrease; no entry of a container other than a deletion marker is
      dead on arrival), simulation relation [Sim R T] (= [Inv R], view of [R] equals the plain
      tree [T] at every path, no root key in [T]);
    - per-operation refinement lemmas [create_group_refines] ... [move_refines]
      (the overlay operation and the plain-tree operation fail together or re-establish [Sim]),
      [graft_sub_status] for the grafted snapshot of a copy;
    - [step_refines], the fold over arbitrary operation lists [transparent],
      [boundaries_unobservable], [viewmap_eq];
    - [scan_pinned_refuted]: the child-resolution rule of the pinned code is not transparent. *)
From stdpp Require Import gmap strings list.
From MV Require Import IH5.Overlay.

(** ** Paths *)

Lemma suffix_cons_inv' {A} (a : list A) k par :
  a `suffix_of` k :: par → a = k :: par ∨ a `suffix_of` par.
Proof.
  destruct a as [|x a]; [right; apply suffix_nil|]. apply suffix_cons_inv.
Qed.

Lemma not_under_cons (q : path) t y : ¬ under q (t :: y) → ¬ under q y.
Proof. intros H Hy. apply H. by apply suffix_cons_r. Qed.

Lemma suffix_neq_cons {A} (a : list A) t y : a `suffix_of` y → a ≠ t :: y.
Proof.
  intros H ->. by apply suffix_cons_not in H.
Qed.

Lemma elem_of_ancestors (a q : path) :
  a ∈ ancestors q ↔ a ≠ [] ∧ a ≠ q ∧ a `suffix_of` q.
Proof.
  induction q as [|s par IH]; cbn [ancestors].
  - rewrite elem_of_nil. split; [done|]. intros (Hn & _ & H). by apply suffix_nil_inv in H.
  - destruct par as [|s' par'].
    + rewrite elem_of_nil. split; [done|]. intros (Hn & Hq & H).
      apply suffix_cons_inv' in H as [H|H]; [done|]. by apply suffix_nil_inv in H.
    + rewrite elem_of_cons, IH. split.
      * intros [->|(Hn & Hq & H)].
        -- split; [done|]. split; [|apply suffix_cons_r; done].
           intros Heq. apply (f_equal length) in Heq. cbn in Heq. lia.
        -- split; [done|]. split; [by apply suffix_neq_cons|by apply suffix_cons_r].
      * intros (Hn & Hq & H). apply suffix_cons_inv' in H as [H|H]; [done|].
        destruct (decide (a = s' :: par')) as [->|Hne]; [by left|right; done].
Qed.

Lemma carr_lookup (q a : path) :
  carr q !! a = if decide (a ∈ ancestors q) then Some (RGroup false) else None.
Proof.
  unfold carr. case_decide as H.
  - apply elem_of_list_to_map_1'.
    + intros y Hy. apply elem_of_list_fmap in Hy as (? & [= _ ->] & _). done.
    + apply elem_of_list_fmap. by exists a.
  - apply not_elem_of_list_to_map_1. rewrite <-list_fmap_compose.
    intros Hin. apply elem_of_list_fmap in Hin as (? & -> & Hin). done.
Qed.

Lemma graft_lookup (M c : cont) q x :
  graft M c q !! x =
    match M !! x with
    | Some e => Some e
    | None => match c !! x with Some e => Some e | None => carr q !! x end
    end.
Proof.
  unfold graft. rewrite !lookup_union.
  destruct (M !! x), (c !! x), (carr q !! x); done.
Qed.

Lemma cut_lookup {X} (q : path) (c : gmap path X) x :
  cut q c !! x = if decide (under q x) then None else c !! x.
Proof.
  unfold cut. apply option_eq. intros e. rewrite map_filter_lookup_Some. cbn.
  case_decide; naive_solver.
Qed.

(** ** Read path: basic facts *)

Lemma above_cons (lb n : nat) (c : cont) (l : stack) :
  above lb ((n, c) :: l) = if decide (lb ≤ n) then (n, c) :: above lb l else above lb l.
Proof. reflexivity. Qed.

Lemma status_cons R s par :
  status R (s :: par) =
    match status R par with
    | Some (lb, e) => if holds par e s then post (scan (above lb R) (s :: par)) else None
    | None => None
    end.
Proof. reflexivity. Qed.

Definition idx_lt (n : nat) (rest : stack) : Prop := Forall (λ ic, ic.1 < n) rest.

Lemma above_idx_lt (n : nat) (rest : stack) (lb : nat) : idx_lt n rest → n ≤ lb → above lb rest = [].
Proof.
  induction 1 as [|[j c] rest Hj _ IH]; intros Hle; [done|].
  rewrite above_cons. cbn in Hj. case_decide; [lia|]. by apply IH.
Qed.

Lemma scan_le (l : stack) (n : nat) p i e :
  Forall (λ ic, ic.1 ≤ n) l → scan l p = Some (i, e) → i ≤ n.
Proof.
  induction 1 as [|[j c] l Hj _ IH]; cbn [scan]; [done|]. cbn in Hj.
  destruct (c !! p) as [[| |[]]|]; try (intros [= <- _]; done); [|done].
  destruct (scan l p) as [[i' e']|]; [|intros [= <- _]; done].
  intros [= -> ->]. by apply IH.
Qed.

Lemma scan_ge (l : stack) lb p i e : scan (above lb l) p = Some (i, e) → lb ≤ i.
Proof.
  induction l as [|[j c] l IH]; [done|]. rewrite above_cons. case_decide; [|done].
  cbn [scan]. destruct (c !! p) as [[| |[]]|]; try (intros [= <- _]; done); [|done].
  destruct (scan (above lb l) p) as [[i' e']|]; [|intros [= <- _]; done].
  intros [= -> ->]. by apply IH.
Qed.

Lemma above_Forall (P : nat * cont → Prop) (lb : nat) (l : stack) :
  Forall P l → Forall P (above lb l).
Proof.
  rewrite !Forall_forall. intros H x [_ Hx]%elem_of_list_filter. by apply H.
Qed.

Lemma post_Some r i e : post r = Some (i, e) → r = Some (i, e) ∧ e ≠ RDel.
Proof. destruct r as [[j [| |]]|]; cbn; naive_solver. Qed.

Lemma status_le (n : nat) (c : cont) (rest : stack) p lb e :
  idx_lt n rest → status ((n, c) :: rest) p = Some (lb, e) → lb ≤ n.
Proof.
  intros Hs. destruct p as [|s par]; [intros [= <- _]; lia|].
  rewrite status_cons. destruct (status _ par) as [[lb0 e0]|]; [|done].
  destruct (holds par e0 s); [|done]. intros [H _]%post_Some.
  eapply scan_le; [|exact H]. apply above_Forall. constructor; [cbn; lia|].
  eapply Forall_impl; [exact Hs|]. cbn. lia.
Qed.

Lemma status_not_del R p i : status R p ≠ Some (i, RDel).
Proof.
  destruct p as [|s par]; [done|]. rewrite status_cons.
  destruct (status R par) as [[lb e]|]; [|done]. destruct (holds par e s); [|done].
  intros [_ H]%post_Some. done.
Qed.

(** Creation indices grow along a path. *)
Lemma status_child_ge R s par lb e lb' e' :
  status R par = Some (lb, e) → status R (s :: par) = Some (lb', e') → lb ≤ lb'.
Proof.
  intros Hp. rewrite status_cons, Hp. destruct (holds par e s); [|done].
  intros [H _]%post_Some. by apply scan_ge in H.
Qed.

Lemma status_parent R s par : is_Some (status R (s :: par)) →
  ∃ lb e, status R par = Some (lb, e) ∧ holds par e s = true.
Proof.
  rewrite status_cons. destruct (status R par) as [[lb e]|]; [|by intros [? ?]].
  destruct (holds par e s) eqn:Hh; [|by intros [? ?]]. eauto.
Qed.

Lemma status_suffix_vis R (a p : path) :
  a `suffix_of` p → is_Some (status R p) → is_Some (status R a).
Proof.
  induction p as [|s par IH]; intros Ha Hp.
  - apply suffix_nil_inv in Ha as ->. done.
  - apply suffix_cons_inv' in Ha as [->|Ha]; [done|]. apply IH; [done|].
    apply status_parent in Hp as (lb & e & -> & _). done.
Qed.

Lemma status_none_under R (q x : path) : status R q = None → under q x → status R x = None.
Proof.
  intros Hq Hx. destruct (status R x) eqn:Hsx; [|done].
  assert (is_Some (status R q)) as [? Hc]; [|congruence].
  eapply status_suffix_vis; [exact Hx|]. rewrite Hsx. done.
Qed.

(** ** An empty container on top changes nothing *)

Lemma boundary_invisible (n : nat) (R : stack) p : status ((n, ∅) :: R) p = status R p.
Proof.
  induction p as [|s par IH]; [done|]. rewrite !status_cons, IH.
  destruct (status R par) as [[lb e]|]; [|done]. rewrite above_cons.
  case_decide; [|done]. cbn [scan]. by rewrite lookup_empty.
Qed.

(** ** Nothing older than the newest non-virtual sighting matters *)

Lemma scan_shadow (newer older older' : stack) (i : nat) (c : cont) p e :
  c !! p = Some e → e ≠ RGroup false →
  scan (newer ++ (i, c) :: older) p = scan (newer ++ (i, c) :: older') p.
Proof.
  intros Hc He. induction newer as [|[j d] newer IH]; cbn [scan app].
  - rewrite Hc. destruct e as [| |[]]; done.
  - by rewrite IH.
Qed.

Lemma above_app (lb : nat) (l1 l2 : stack) : above lb (l1 ++ l2) = above lb l1 ++ above lb l2.
Proof. unfold above. apply filter_app. Qed.

Lemma scan_stop_ge (newer older : stack) (i : nat) (c : cont) p e j e' :
  c !! p = Some e → e ≠ RGroup false → Forall (λ ic, i ≤ ic.1) newer →
  scan (newer ++ (i, c) :: older) p = Some (j, e') → i ≤ j.
Proof.
  intros Hc He. induction 1 as [|[k d] newer Hk _ IH]; cbn [scan app].
  - rewrite Hc. destruct e as [| |[]]; try done; intros [= <- _]; done.
  - cbn in Hk. destruct (d !! p) as [[| |[]]|]; try (intros [= <- _]; done); [|done].
    destruct (scan (newer ++ _) p) as [[j' e'']|] eqn:Hs; [|intros [= <- _]; done].
    intros [= -> ->]. by apply IH.
Qed.

(** [status_shadow]: if container [i] holds a non-virtual entry at [q], the status of [q] and of
    everything below it is the same whatever the containers older than [i] hold
    (provided the two records agree on the parent of [q]): replaced or deleted content never
    reappears, whatever is done in newer containers. *)
Lemma status_shadow (newer older older' : stack) (i : nat) (c : cont) s par e :
  let q := s :: par in
  let R := newer ++ (i, c) :: older in
  let R' := newer ++ (i, c) :: older' in
  c !! q = Some e → e ≠ RGroup false →
  Forall (λ ic, i ≤ ic.1) newer → idx_lt i older → idx_lt i older' →
  status R par = status R' par →
  ∀ x, under q x →
    status R x = status R' x ∧ ∀ lb ex, status R x = Some (lb, ex) → i ≤ lb.
Proof.
  intros q R R' Hc He Hnew Hold Hold' Hpar x. subst q. induction x as [|t y IH]; intros Hx.
  - apply suffix_nil_inv in Hx. done.
  - apply suffix_cons_inv' in Hx as [Hx|Hx].
    + injection Hx as <- <-. rewrite !status_cons, <-Hpar.
      destruct (status R par) as [[lb ep]|]; [|done].
      destruct (holds par ep s); [|done].
      assert (scan (above lb R) (s :: par) = scan (above lb R') (s :: par)) as Heq.
      { unfold R, R'. rewrite !above_app, !above_cons. case_decide.
        - by eapply scan_shadow.
        - rewrite (above_idx_lt i older), (above_idx_lt i older') by (done || lia). done. }
      rewrite <-Heq. split; [done|]. intros lb' ex [Hs _]%post_Some.
      apply scan_ge in Hs as Hge.
      unfold R in Hs. rewrite above_app, above_cons in Hs. case_decide as Hlb; [|lia].
      eapply scan_stop_ge; [exact Hc|exact He| |exact Hs].
      by apply above_Forall.
    + destruct (IH Hx) as [IH1 IH2]. rewrite !status_cons, <-IH1.
      destruct (status R y) as [[lb ey]|] eqn:Hy; [|done].
      destruct (holds y ey t); [|done].
      assert (i ≤ lb) as Hlb by (by eapply IH2).
      assert (above lb R = above lb R') as Heq.
      { unfold R, R'. rewrite !above_app, !above_cons.
        rewrite (above_idx_lt i older), (above_idx_lt i older') by done. done. }
      rewrite <-Heq. split; [done|]. intros lb' ex [Hs _]%post_Some.
      apply scan_ge in Hs. lia.
Qed.

(** ** Rewriting the newest container: the frame lemma *)

(** At path [x] the new top container [c'] is as the old one [c], or adds a virtual carrier
    group where [c] had nothing and [x] is visible anyway. *)
Definition frame_ok (R : stack) (c c' : cont) (x : path) : Prop :=
  c' !! x = c !! x ∨ (c !! x = None ∧ c' !! x = Some (RGroup false) ∧ is_Some (status R x)).

Lemma frame_status (n : nat) (c c' : cont) (rest : stack) (P : path → Prop) :
  idx_lt n rest →
  (∀ t y, P (t :: y) → P y) →
  (∀ x, P x → frame_ok ((n, c) :: rest) c c' x) →
  ∀ x, P x → status ((n, c') :: rest) x = status ((n, c) :: rest) x.
Proof.
  intros Hs Hdown Hfr x. induction x as [|t y IH]; intros HP; [done|].
  rewrite !status_cons, IH by eauto.
  destruct (status ((n, c) :: rest) y) as [[lb e]|] eqn:Hy; [|done].
  destruct (holds y e t) eqn:Hh; [|done]. f_equal.
  assert (lb ≤ n) by (eapply status_le; eauto).
  rewrite !above_cons. case_decide; [|lia]. cbn [scan].
  destruct (Hfr _ HP) as [->|(Hn & -> & Hvis)]; [done|]. rewrite Hn.
  rewrite status_cons, Hy, Hh, above_cons in Hvis. case_decide; [|lia].
  cbn [scan] in Hvis. rewrite Hn in Hvis.
  destruct (scan (above lb rest) (t :: y)); [done|]. by destruct Hvis.
Qed.

Lemma graft_frame (R : stack) (M c0 c : cont) (q x : path) :
  M !! x = None → c0 !! x = c !! x →
  (∀ a, a ∈ ancestors q → is_Some (status R a)) →
  frame_ok R c (graft M c0 q) x.
Proof.
  intros HM Hc0 Hanc. unfold frame_ok. rewrite graft_lookup, HM, Hc0.
  destruct (c !! x) eqn:Hc; [by left|]. rewrite carr_lookup. case_decide; [|by left].
  right. eauto.
Qed.

Lemma anc_vis (R : stack) s (par : path) :
  is_Some (status R par) → ∀ a, a ∈ ancestors (s :: par) → is_Some (status R a).
Proof.
  intros Hp a (_ & Hne & Ha)%elem_of_ancestors.
  apply suffix_cons_inv' in Ha as [Ha|Ha]; [done|]. by eapply status_suffix_vis.
Qed.

Lemma cons_neq_self {A} (t : A) (l : list A) : t :: l ≠ l.
Proof. intros H. apply (f_equal length) in H. cbn in H. lia. Qed.

Lemma cons_neq_self' {A} (t : A) (l : list A) : l ≠ t :: l.
Proof. intros H. symmetry in H. by apply cons_neq_self in H. Qed.

Lemma not_anc_below (q : path) t : t :: q ∉ ancestors q.
Proof. intros (_ & _ & H)%elem_of_ancestors. by apply suffix_cons_not in H. Qed.

(** *** Writing one entry (group, dataset or attribute value) with its carriers *)

Lemma write1_status (n : nat) (c : cont) (rest : stack) s par e lb ep :
  let q := s :: par in
  let R := (n, c) :: rest in
  idx_lt n rest →
  status R par = Some (lb, ep) → holds par ep s = true →
  e ≠ RDel → (e = RGroup false → scan (above lb rest) q = None) →
  (∀ t, holds q e t = true → c !! (t :: q) = None ∨ c !! (t :: q) = Some RDel) →
  (∀ t, status R (t :: q) = None) →
  ∀ x, status (m_write1 R q e) x = if decide (x = q) then Some (n, e) else status R x.
Proof.
  intros q R Hs Hpar Hh He Hv Hsub Hold.
  set (c' := graft {[q := e]} c q). change (m_write1 R q e) with ((n, c') :: rest).
  assert (Hanc : ∀ a, a ∈ ancestors q → is_Some (status R a)).
  { apply anc_vis. by rewrite Hpar. }
  assert (Hframe : ∀ x, ¬ under q x → status ((n, c') :: rest) x = status R x).
  { apply frame_status; [done|apply not_under_cons|]. intros x Hx.
    apply graft_frame; [|done|done]. apply lookup_singleton_ne. by intros ->. }
  assert (lb ≤ n) as Hlb by (eapply status_le; eauto).
  assert (Hq : status ((n, c') :: rest) q = Some (n, e)).
  { unfold q. rewrite status_cons, Hframe by apply suffix_cons_not. rewrite Hpar, Hh.
    rewrite above_cons. case_decide; [|lia]. cbn [scan].
    unfold c'. rewrite graft_lookup, lookup_singleton.
    destruct e as [| |[]]; [done|done|done|]. fold q. by rewrite Hv. }
  assert (Hbelow : ∀ x, under q x → x ≠ q →
            status ((n, c') :: rest) x = None ∧ status R x = None).
  { induction x as [|t y IH]; intros Hx Hne.
    - by apply suffix_nil_inv in Hx.
    - apply suffix_cons_inv' in Hx as [Hx|Hx]; [done|].
      destruct (decide (y = q)) as [->|Hy].
      + split; [|apply Hold]. rewrite status_cons, Hq.
        destruct (holds q e t) eqn:Hht; [|done].
        rewrite above_cons. case_decide; [|lia]. rewrite (above_idx_lt n) by done.
        cbn [scan]. unfold c'.
        rewrite graft_lookup, lookup_singleton_ne by apply cons_neq_self'.
        rewrite carr_lookup. case_decide as Ha; [by apply not_anc_below in Ha|].
        destruct (Hsub t Hht) as [-> | ->]; done.
      + destruct (IH Hx Hy) as [H1 H2]. by rewrite !status_cons, H1, H2. }
  intros x. case_decide as Hxq; [by subst|].
  destruct (decide (under q x)) as [Hu|Hu]; [|by apply Hframe].
  by destruct (Hbelow x Hu Hxq) as [-> ->].
Qed.

(** *** Deleting a subtree *)

Lemma del_status (n : nat) (c c' : cont) (rest : stack) (q : path) :
  let R := (n, c) :: rest in
  idx_lt n rest → is_Some (status R q) → q ≠ [] →
  (∀ x, ¬ under q x → frame_ok R c c' x) →
  (c' !! q = Some RDel ∨ (c' !! q = None ∧ rest = [])) →
  ∀ x, status ((n, c') :: rest) x = if decide (under q x) then None else status R x.
Proof.
  intros R Hs Hvis Hq Hfr Hcq x.
  assert (Hframe : ∀ x, ¬ under q x → status ((n, c') :: rest) x = status R x).
  { apply frame_status; [done|apply not_under_cons|done]. }
  case_decide as Hu; [|by apply Hframe].
  eapply status_none_under; [|exact Hu].
  destruct q as [|s par]; [done|]. apply status_parent in Hvis as (lb & ep & Hpar & Hh).
  rewrite status_cons, Hframe by apply suffix_cons_not. rewrite Hpar, Hh.
  assert (lb ≤ n) by (eapply status_le; eauto). rewrite above_cons. case_decide; [|lia].
  cbn [scan]. destruct Hcq as [->|[-> ->]]; done.
Qed.

(** ** Invariant and simulation relation *)

(** Nothing in the newest container is dead on arrival: every entry other than a deletion
    marker is visible in the record that ends with this container; indices decrease. *)
Definition top_ok (n : nat) (c : cont) (rest : stack) : Prop :=
  idx_lt n rest ∧ c !! [] = None ∧
  ∀ p e, c !! p = Some e → e ≠ RDel → is_Some (status ((n, c) :: rest) p).

Fixpoint wf_stack (R : stack) : Prop :=
  match R with
  | [] => True
  | (n, c) :: rest => top_ok n c rest ∧ wf_stack rest
  end.

Definition Inv (R : stack) : Prop := R ≠ [] ∧ wf_stack R.

(** The overlay view is the plain tree, at every path. *)
Definition Rel (R : stack) (T : tree) : Prop := ∀ p, vget R p = tget T p.

Definition Sim (R : stack) (T : tree) : Prop := Inv R ∧ Rel R T ∧ T !! [] = None.

Lemma Inv_cons (n : nat) (c : cont) (rest : stack) :
  Inv ((n, c) :: rest) ↔ top_ok n c rest ∧ wf_stack rest.
Proof. unfold Inv. cbn. naive_solver. Qed.

Lemma attr_no_child R (s : seg) (p : path) t : s.1 = true → status R (t :: s :: p) = None.
Proof.
  intros Hs. rewrite status_cons. destruct (status R (s :: p)) as [[lb e]|]; [|done].
  destruct s as [[] k]; done.
Qed.

Lemma status_under_attr R (s : seg) (p x : path) :
  s.1 = true → under (s :: p) x → x ≠ s :: p → status R x = None.
Proof.
  intros Hs. induction x as [|t y IH]; intros Hu Hne.
  - by apply suffix_nil_inv in Hu.
  - apply suffix_cons_inv' in Hu as [Hu|Hu]; [done|].
    destruct (decide (y = s :: p)) as [->|Hy]; [by apply attr_no_child|].
    by rewrite status_cons, IH.
Qed.

Lemma write1_spec (n : nat) (c : cont) (rest : stack) s par e lb ep :
  let q := s :: par in
  let R := (n, c) :: rest in
  top_ok n c rest →
  status R par = Some (lb, ep) → holds par ep s = true →
  e ≠ RDel → (e = RGroup false → scan (above lb rest) q = None) →
  (status R q = None ∨ s.1 = true) →
  (∀ x, status (m_write1 R q e) x = if decide (x = q) then Some (n, e) else status R x) ∧
  top_ok n (graft {[q := e]} c q) rest.
Proof.
  intros q R (Hs & Hroot & Hvis) Hpar Hh He Hv Hfresh.
  assert (Hst : ∀ x, status (m_write1 R q e) x
                     = if decide (x = q) then Some (n, e) else status R x).
  { apply (write1_status n c rest s par e lb ep); try done.
    - intros t Ht. destruct Hfresh as [Hq|Hattr].
      + destruct (c !! (t :: q)) as [e'|] eqn:Hc; [|by left].
        destruct (decide (e' = RDel)) as [->|Hne]; [by right|].
        destruct (Hvis _ _ Hc Hne) as [r Hr].
        assert (status R (t :: q) = None) as Hn; [|fold R in Hr; congruence].
        eapply status_none_under; [exact Hq|]. apply suffix_cons_r. done.
      + unfold q in Ht. destruct s as [[] k]; done.
    - intros t. destruct Hfresh as [Hq|Hattr].
      + eapply status_none_under; [exact Hq|]. by apply suffix_cons_r.
      + by apply attr_no_child. }
  split; [done|]. split; [done|]. split.
  - rewrite graft_lookup, lookup_singleton_ne, Hroot, carr_lookup by done.
    case_decide as Ha; [|done]. by apply elem_of_ancestors in Ha as (? & _).
  - intros p e' Hp Hne. change ((n, graft {[q := e]} c q) :: rest) with (m_write1 R q e).
    rewrite Hst. case_decide; [done|].
    rewrite graft_lookup, lookup_singleton_ne in Hp by done.
    destruct (c !! p) as [e0|] eqn:Hc.
    + injection Hp as ->. by eapply Hvis.
    + rewrite carr_lookup in Hp. case_decide as Ha; [|done].
      eapply anc_vis; [|exact Ha]. by rewrite Hpar.
Qed.

Lemma delete_core (R : stack) (q : path) :
  Inv R → is_Some (status R q) → q ≠ [] →
  ∃ R', m_delete R q = Some R' ∧ Inv R' ∧ tail R' = tail R ∧ top_idx R' = top_idx R ∧
        ∀ x, status R' x = if decide (under q x) then None else status R x.
Proof.
  intros [HR Hwf] Hq Hne. destruct R as [|[n c] rest]; [done|]. clear HR.
  destruct Hwf as [(Hs & Hroot & Hvis) Hwf].
  set (c' := if is_patch ((n, c) :: rest) then graft {[q := RDel]} (cut q c) q else cut q c).
  assert (Hanc : ∀ a, a ∈ ancestors q → is_Some (status ((n, c) :: rest) a)).
  { destruct q as [|s par]; [done|]. apply anc_vis.
    apply status_parent in Hq as (? & ? & -> & _). done. }
  assert (Hfr : ∀ x, ¬ under q x → frame_ok ((n, c) :: rest) c c' x).
  { intros x Hx. unfold c'. destruct (is_patch _).
    - apply graft_frame; [|by rewrite cut_lookup, decide_False|done].
      apply lookup_singleton_ne. by intros ->.
    - left. by rewrite cut_lookup, decide_False. }
  assert (Hcq : c' !! q = Some RDel ∨ (c' !! q = None ∧ rest = [])).
  { unfold c'. destruct rest as [|ic rest']; cbn [is_patch].
    - right. by rewrite cut_lookup, decide_True.
    - left. by rewrite graft_lookup, lookup_singleton. }
  pose proof (del_status n c c' rest q Hs Hq Hne Hfr Hcq) as Hst.
  exists ((n, c') :: rest). split; [|split; [|split; [done|split; [done|done]]]].
  - unfold m_delete. destruct q; [done|]. destruct Hq as [r ->]. unfold c'.
    by destruct (is_patch _).
  - apply Inv_cons. split; [|done]. split; [done|]. split.
    + unfold c'. destruct (is_patch _).
      * rewrite graft_lookup, lookup_singleton_ne, cut_lookup by done.
        assert (¬ under q []) by (by intros ?%suffix_nil_inv).
        rewrite decide_False, Hroot, carr_lookup by done. case_decide as Ha; [|done].
        by apply elem_of_ancestors in Ha as (? & _).
      * rewrite cut_lookup. by case_decide.
    + intros p e Hp He. rewrite Hst.
      assert (¬ under q p ∧ is_Some (status ((n, c) :: rest) p)) as [Hu Hv].
      { unfold c' in Hp. destruct (is_patch _).
        - rewrite graft_lookup in Hp. destruct (decide (p = q)) as [->|Hpq].
          { rewrite lookup_singleton in Hp. by injection Hp as <-. }
          rewrite lookup_singleton_ne, cut_lookup in Hp by done. case_decide as Hu.
          + rewrite carr_lookup in Hp. case_decide as Ha; [|done].
            apply elem_of_ancestors in Ha as (_ & Hpq' & Ha).
            exfalso. apply Hpq. by apply (anti_symm suffix).
          + split; [done|]. destruct (c !! p) as [e0|] eqn:Hc.
            * injection Hp as ->. by eapply Hvis.
            * rewrite carr_lookup in Hp. case_decide as Ha; [|done]. by apply Hanc.
        - rewrite cut_lookup in Hp. case_decide; [done|]. split; [done|]. by eapply Hvis. }
      by rewrite decide_False.
Qed.

(** ** Specification side: lookups after the plain-tree operations *)

Lemma tget_insert (T : tree) (q : path) e x :
  q ≠ [] → tget (<[q := e]> T) x = if decide (x = q) then Some e else tget T x.
Proof.
  intros Hq. destruct x as [|t y]; cbn [tget].
  - by rewrite decide_False.
  - case_decide as Hx; [rewrite Hx; apply lookup_insert|by apply lookup_insert_ne].
Qed.

Lemma tget_cut (T : tree) (q : path) x :
  q ≠ [] → tget (cut q T) x = if decide (under q x) then None else tget T x.
Proof.
  intros Hq. destruct x as [|t y]; cbn [tget].
  - rewrite decide_False; [done|]. by intros ?%suffix_nil_inv.
  - apply cut_lookup.
Qed.

Lemma tget_delete (T : tree) (q : path) x :
  q ≠ [] → tget (delete q T) x = if decide (x = q) then None else tget T x.
Proof.
  intros Hq. destruct x as [|t y]; cbn [tget].
  - by rewrite decide_False.
  - case_decide as Hx; [rewrite Hx; apply lookup_delete|by apply lookup_delete_ne].
Qed.

Lemma Rel_lookup R T (q : path) : Rel R T → q ≠ [] → erase (status R q) = T !! q.
Proof. intros H Hq. specialize (H q). by destruct q. Qed.

Lemma erase_None r : erase r = None → r = None ∨ ∃ i, r = Some (i, RDel).
Proof. destruct r as [[i [| |]]|]; cbn; eauto; done. Qed.

Lemma status_erase_None R p : erase (status R p) = None → status R p = None.
Proof. intros [H|[i H]]%erase_None; [done|]. by apply status_not_del in H. Qed.

(** ** Node paths *)

Lemma node_path_tail s (par : path) : is_node_path (s :: par) = true → is_node_path par = true.
Proof. cbn. by intros [_ H]%andb_prop. Qed.

Lemma node_path_holds_group (par : path) s b :
  is_node_path (s :: par) = true → holds par (RGroup b) s = true.
Proof. cbn. intros [_ Hp]%andb_prop. destruct par as [|[[] k] par']; cbn in *; done. Qed.

Lemma node_path_holds_attr (p : path) k e :
  is_node_path p = true → e ≠ RDel → holds p e (true, k) = true.
Proof. intros Hp He. destruct p as [|[[] k'] p'], e; cbn in *; done. Qed.

(** ** Creating missing groups *)

Lemma mkgroups_spec deep (q : path) :
  is_node_path q = true → ∀ R T, Inv R → Rel R T →
  match m_mkgroups deep R q, t_mkgroups T q with
  | Some (R1, cr), Some T1 =>
      Inv R1 ∧ Rel R1 T1 ∧
      (∃ lb b, status R1 q = Some (lb, RGroup b) ∧ (cr = true → lb = top_idx R1)) ∧
      (∀ x, ¬ x `suffix_of` q → status R1 x = status R x) ∧
      (T !! [] = None → T1 !! [] = None) ∧
      tail R1 = tail R ∧ top_idx R1 = top_idx R
  | None, None => True
  | _, _ => False
  end.
Proof.
  induction q as [|s par IH]; intros Hnp R T HI HR; cbn [m_mkgroups t_mkgroups].
  - split; [done|]. split; [done|]. split; [by exists 0, false|]. done.
  - specialize (IH (node_path_tail _ _ Hnp) R T HI HR).
    destruct (m_mkgroups deep R par) as [[R1 cr]|], (t_mkgroups T par) as [T1|]; try done.
    destruct IH as (HI1 & HR1 & (lb & b & Hpar & Hcr) & Hfr & Hroot & Htl & Hti).
    pose proof (Rel_lookup _ _ (s :: par) HR1 ltac:(done)) as Hq.
    destruct R1 as [|[n c1] rest1]; [by destruct HI1|].
    apply Inv_cons in HI1 as [Htop Hwf]. pose proof Htop as (Hs & _ & _).
    destruct (status ((n, c1) :: rest1) (s :: par)) as [[lbq [|v|bq]]|] eqn:Hsq;
      cbn [erase] in Hq; rewrite <-Hq.
    + by apply status_not_del in Hsq.
    + done.
    + split; [by apply Inv_cons|]. split; [done|]. split.
      { exists lbq, bq. split; [done|]. intros Hc. specialize (Hcr Hc). cbn [top_idx] in Hcr |- *.
        pose proof (status_child_ge _ _ _ _ _ _ _ Hpar Hsq).
        pose proof (status_le _ _ _ _ _ _ Hs Hsq). lia. }
      split; [|done]. intros x Hx. apply Hfr. intros Hx'. apply Hx. by apply suffix_cons_r.
    + set (sb := is_patch ((n, c1) :: rest1) && (deep || negb cr)).
      destruct (write1_spec n c1 rest1 s par (RGroup sb) lb (RGroup b)) as [Hst Htop'];
        try done.
      { by apply node_path_holds_group. }
      { intros Hsb. injection Hsb as Hsb. unfold sb in Hsb.
        apply andb_false_iff in Hsb as [Hp|Hc].
        - destruct rest1; [done|discriminate].
        - apply orb_false_iff in Hc as [_ Hc]. apply negb_false_iff in Hc.
          specialize (Hcr Hc). cbn in Hcr. subst lb. by rewrite (above_idx_lt n). }
      { by left. }
      split; [by apply Inv_cons|]. split.
      { intros x. unfold vget. rewrite Hst, tget_insert by done.
        case_decide; [done|]. apply HR1. }
      split.
      { exists n, sb. split; [|done]. rewrite Hst. by rewrite decide_True. }
      split.
      { intros x Hx. rewrite Hst. rewrite decide_False by (by intros ->).
        apply Hfr. intros Hx'. apply Hx. by apply suffix_cons_r. }
      split; [|done]. intros Hr. rewrite lookup_insert_ne by done. by apply Hroot.
Qed.

(** ** The operations, one by one *)

Definition refines (mr : option stack) (tr : option tree) : Prop :=
  match mr, tr with
  | Some R', Some T' => Sim R' T'
  | None, None => True
  | _, _ => False
  end.

Lemma create_group_refines R T (q : path) :
  Sim R T → is_node_path q = true → refines (m_create_group R q) (t_create_group T q).
Proof.
  intros (HI & HR & Hroot) Hnp. unfold m_create_group, t_create_group.
  destruct q as [|s par]; [done|].
  rewrite <-(Rel_lookup _ _ (s :: par) HR) by done.
  destruct (status R (s :: par)) as [[i e]|] eqn:Hq.
  - destruct e; cbn [erase]; try done. by apply status_not_del in Hq.
  - cbn [erase]. pose proof (mkgroups_spec true (s :: par) Hnp R T HI HR) as H.
    destruct (m_mkgroups true R (s :: par)) as [[R1 cr]|], (t_mkgroups T (s :: par)) as [T1|];
      try done.
    destruct H as (? & ? & _ & _ & Hr & _). cbn. split; [done|]. split; [done|]. by apply Hr.
Qed.

Lemma set_data_refines R T (q : path) v :
  Sim R T → is_node_path q = true → refines (m_set_data R q v) (t_set_data T q v).
Proof.
  intros (HI & HR & Hroot) Hnp. unfold m_set_data, t_set_data.
  destruct q as [|s par]; [done|].
  rewrite <-(Rel_lookup _ _ (s :: par) HR) by done.
  destruct (status R (s :: par)) as [[i e]|] eqn:Hq.
  - destruct e; cbn [erase]; try done. by apply status_not_del in Hq.
  - cbn [erase]. pose proof (mkgroups_spec false par (node_path_tail _ _ Hnp) R T HI HR) as H.
    destruct (m_mkgroups false R par) as [[R1 cr]|], (t_mkgroups T par) as [T1|]; try done.
    destruct H as (HI1 & HR1 & (lb & b & Hpar & _) & Hfr & Hr & _).
    destruct R1 as [|[n c1] rest1]; [by destruct HI1|].
    apply Inv_cons in HI1 as [Htop Hwf].
    destruct (write1_spec n c1 rest1 s par (RData v) lb (RGroup b)) as [Hst Htop'];
      try done.
    { by apply node_path_holds_group. }
    { left. rewrite Hfr; [done|]. apply suffix_cons_not. }
    cbn. split; [by apply Inv_cons|]. split.
    + intros x. unfold vget. rewrite Hst, tget_insert by done.
      case_decide; [done|]. apply HR1.
    + rewrite lookup_insert_ne by done. by apply Hr.
Qed.

Lemma Rel_delete R R' T (q : path) :
  Rel R T → q ≠ [] →
  (∀ x, status R' x = if decide (under q x) then None else status R x) →
  Rel R' (cut q T).
Proof.
  intros HR Hq Hst x. unfold vget. rewrite Hst, tget_cut by done.
  case_decide; [done|]. apply HR.
Qed.

Lemma delete_refines R T (q : path) :
  Sim R T → refines (m_delete R q) (t_delete T q).
Proof.
  intros (HI & HR & Hroot). unfold t_delete.
  destruct q as [|s par]; [by destruct R as [|[??]?]|].
  rewrite <-(Rel_lookup _ _ (s :: par) HR) by done.
  destruct (status R (s :: par)) as [[i e]|] eqn:Hq.
  - destruct (delete_core R (s :: par) HI) as (R' & -> & HI' & _ & _ & Hst); [by rewrite Hq|done|].
    destruct e; cbn [erase]; [by apply status_not_del in Hq| |].
    all: split; [done|]; split; [by eapply Rel_delete|].
    all: rewrite cut_lookup; by case_decide.
  - cbn [erase]. unfold m_delete. by rewrite Hq.
Qed.

Lemma attr_set_refines R T (p : path) k v :
  Sim R T → is_node_path p = true → refines (m_attr_set R p k v) (t_attr_set T p k v).
Proof.
  intros (HI & HR & Hroot) Hnp. unfold m_attr_set, t_attr_set.
  rewrite <-(HR p). unfold vget.
  destruct (status R p) as [[lb ep]|] eqn:Hp; [|done].
  assert (ep ≠ RDel) as Hne by (intros ->; by apply status_not_del in Hp).
  destruct ep; [done| |].
  all: cbn [erase].
  all: destruct R as [|[n c] rest]; [by destruct HI|].
  all: apply Inv_cons in HI as [Htop Hwf].
  all: edestruct (write1_spec n c rest (true, k) p (RData v)) as [Hst Htop'];
    [exact Htop|exact Hp|by apply node_path_holds_attr|done|done|by right|].
  all: split; [by apply Inv_cons|]; split; [|by rewrite lookup_insert_ne].
  all: intros x; unfold vget; rewrite Hst, tget_insert by done.
  all: case_decide; [done|]; apply HR.
Qed.

Lemma attr_del_refines R T (p : path) k :
  Sim R T → refines (m_attr_del R p k) (t_attr_del T p k).
Proof.
  intros (HI & HR & Hroot). unfold m_attr_del, t_attr_del.
  rewrite <-(HR p), <-(Rel_lookup _ _ ((true, k) :: p) HR) by done. unfold vget.
  destruct (status R p) as [[lb ep]|] eqn:Hp; [|done].
  assert (ep ≠ RDel) as Hne by (intros ->; by apply status_not_del in Hp).
  assert (∃ te, erase (Some (lb, ep)) = Some te) as [te ->] by (destruct ep; cbn; eauto; done).
  destruct (status R ((true, k) :: p)) as [[i e]|] eqn:Hq; [|done].
  assert (e ≠ RDel) as Hne' by (intros ->; by apply status_not_del in Hq).
  assert (∃ te', erase (Some (i, e)) = Some te') as [te' ->] by (destruct e; cbn; eauto; done).
  destruct (delete_core R ((true, k) :: p) HI) as (R' & -> & HI' & _ & _ & Hst);
    [by rewrite Hq|done|].
  split; [done|]. split; [|by rewrite lookup_delete_ne].
  intros x. unfold vget. rewrite Hst, tget_delete by done.
  case_decide as Hu.
  - case_decide; [done|]. rewrite <-HR. unfold vget.
    by rewrite (status_under_attr R (true, k) p x).
  - rewrite decide_False; [apply HR|]. intros ->. by apply Hu.
Qed.

(** ** Boundaries, initial state *)

Lemma boundary_refines R T : Sim R T → Sim (m_boundary R) T.
Proof.
  intros (HI & HR & Hroot). split; [|split; [|done]].
  - destruct R as [|[n c] rest]; [by destruct HI|]. destruct HI as [_ Hwf].
    pose proof Hwf as [(Hs & _) _]. unfold m_boundary. cbn [top_idx]. apply Inv_cons.
    split; [|done]. split; [|split; [done|]].
    + constructor; [cbn; lia|]. eapply Forall_impl; [exact Hs|]. cbn. lia.
    + intros p e Hp. by rewrite lookup_empty in Hp.
  - intros p. unfold vget, m_boundary. rewrite boundary_invisible. apply HR.
Qed.

Lemma status_nil s (par : path) : status [] (s :: par) = None.
Proof.
  rewrite status_cons. destruct (status [] par) as [[lb e]|]; [|done].
  by destruct (holds par e s).
Qed.

Lemma init_sim : Sim m_init ∅.
Proof.
  split; [|split; [|done]].
  - split; [done|]. split; [|done]. split; [constructor|]. split; [done|].
    intros p e Hp. by rewrite lookup_empty in Hp.
  - intros p. unfold vget, m_init. rewrite boundary_invisible.
    destruct p as [|s par]; [done|]. by rewrite status_nil.
Qed.

(** ** One step, any history *)

Definition basic_op (o : op) : Prop :=
  match o with OCopy _ _ | OMove _ _ => False | _ => True end.

Definition pack {X} (old : X) (r : option X) : X * bool :=
  match r with Some x => (x, true) | None => (old, false) end.

Lemma pack_refines R T mr tr :
  Sim R T → refines mr tr →
  Sim (pack R mr).1 (pack T tr).1 ∧ (pack R mr).2 = (pack T tr).2.
Proof. intros HS H. destruct mr, tr; cbn in *; done. Qed.

Lemma step_refines_basic R T o :
  Sim R T → basic_op o →
  Sim (m_step R o).1 (t_step T o).1 ∧ (m_step R o).2 = (t_step T o).2.
Proof.
  intros HS Hb. unfold m_step, t_step.
  destruct o as [q|q v|q|p k v|p k|s d|s d|]; try done.
  - apply (pack_refines R T); [done|]. destruct (is_node_path q) eqn:Hq; [|done].
    by apply create_group_refines.
  - apply (pack_refines R T); [done|]. destruct (is_node_path q) eqn:Hq; [|done].
    destruct (negb (is_del_value v)); [|done]. by apply set_data_refines.
  - apply (pack_refines R T); [done|]. destruct (is_node_path q) eqn:Hq; [|done].
    by apply delete_refines.
  - apply (pack_refines R T); [done|]. destruct (is_node_path p) eqn:Hq; [|done].
    destruct (negb (is_del_value v)); [|done]. by apply attr_set_refines.
  - apply (pack_refines R T); [done|]. destruct (is_node_path p) eqn:Hq; [|done].
    by apply attr_del_refines.
  - cbn. split; [|done]. by apply boundary_refines.
Qed.

Lemma fold_refines_basic ops :
  Forall basic_op ops → ∀ R T, Sim R T →
  Sim (foldl (λ R o, (m_step R o).1) R ops) (foldl (λ T o, (t_step T o).1) T ops).
Proof.
  induction 1 as [|o ops Ho _ IH]; intros R T HS; [done|]. cbn [foldl].
  apply IH. by apply step_refines_basic.
Qed.

Lemma run_refines_basic ops : Forall basic_op ops → Sim (run_m ops) (run_t ops).
Proof. intros H. apply fold_refines_basic; [done|apply init_sim]. Qed.

(** Boundaries do not exist on the specification side. *)
Fixpoint strip_bnd (ops : list op) : list op :=
  match ops with
  | [] => []
  | OBoundary :: r => strip_bnd r
  | o :: r => o :: strip_bnd r
  end.

Lemma fold_t_strip ops : ∀ T,
  foldl (λ T o, (t_step T o).1) T (strip_bnd ops) = foldl (λ T o, (t_step T o).1) T ops.
Proof. induction ops as [|o ops IH]; intros T; [done|]. destruct o; cbn; apply IH. Qed.

Lemma run_t_strip ops : run_t (strip_bnd ops) = run_t ops.
Proof. apply fold_t_strip. Qed.

Lemma strip_basic ops : Forall basic_op ops → Forall basic_op (strip_bnd ops).
Proof.
  induction 1 as [|o ops Ho _ IH]; [constructor|].
  destruct o; cbn; try done; by constructor.
Qed.

(** ** The view as a finite map *)

Lemma all_keys_None (R : stack) (p : path) :
  all_keys R !! p = None ↔ Forall (λ ic, ic.2 !! p = None) R.
Proof.
  induction R as [|[i c] R IH]; cbn [all_keys foldr].
  - split; [constructor|done].
  - rewrite lookup_union_None, lookup_fmap, fmap_None, Forall_cons. cbn. by rewrite <-IH.
Qed.

Lemma scan_None (l : stack) (p : path) : Forall (λ ic, ic.2 !! p = None) l → scan l p = None.
Proof. induction 1 as [|[i c] l Hc _ IH]; [done|]. cbn in *. by rewrite Hc. Qed.

Lemma vget_no_key (R : stack) s (par : path) :
  all_keys R !! (s :: par) = None → vget R (s :: par) = None.
Proof.
  intros H%all_keys_None. unfold vget. rewrite status_cons.
  destruct (status R par) as [[lb e]|]; [|done]. destruct (holds par e s); [|done].
  rewrite scan_None; [done|]. by apply above_Forall.
Qed.

Lemma wf_stack_no_root (R : stack) : wf_stack R → Forall (λ ic, ic.2 !! [] = None) R.
Proof.
  induction R as [|[n c] R IH]; [constructor|]. intros [(_ & Hr & _) Hwf].
  constructor; [done|]. by apply IH.
Qed.

Lemma viewmap_lookup (R : stack) (p : path) :
  wf_stack R → viewmap R !! p = match p with [] => None | _ => vget R p end.
Proof.
  intros Hwf. unfold viewmap. rewrite map_lookup_imap.
  destruct (all_keys R !! p) as [[]|] eqn:Hk; cbn.
  - destruct p; [|done]. assert (all_keys R !! [] = None) as Hn; [|congruence].
    apply all_keys_None. by apply wf_stack_no_root.
  - destruct p; [done|]. symmetry. by apply vget_no_key.
Qed.

Lemma viewmap_eq R T : Sim R T → viewmap R = T.
Proof.
  intros ((_ & Hwf) & HR & Hroot). apply map_eq. intros p. rewrite viewmap_lookup by done.
  destruct p as [|s par]; [done|]. apply (HR (s :: par)).
Qed.

(** ** The pinned child-resolution rule is not transparent *)

Local Open Scope string_scope.

(** /a/old in the base container; /a replaced (delete + create) in patch 1; /a/touch added in
    patch 2: under the pinned rule /a/old is visible again. *)
Definition witness_ops : list op :=
  [ OData [(false, "old"); (false, "a")] "i:1"; OBoundary;
    ODel [(false, "a")]; OGroup [(false, "a")]; OBoundary;
    OData [(false, "touch"); (false, "a")] "i:3" ].

Lemma scan_pinned_refuted :
  ∃ ops p, Forall basic_op ops ∧ vget_pinned (run_m ops) p ≠ tget (run_t ops) p.
Proof.
  exists witness_ops, [(false, "old"); (false, "a")]. split.
  - repeat constructor.
  - vm_compute. discriminate.
Qed.

Lemma witness_repaired :
  vget (run_m witness_ops) [(false, "old"); (false, "a")] = None ∧
  vget (run_m witness_ops) [(false, "touch"); (false, "a")] = Some (TData "i:3").
Proof. vm_compute. done. Qed.

Local Close Scope string_scope.

(** ** Transparency for histories of the basic operations *)

Lemma transparent_basic ops :
  Forall basic_op ops →
  Inv (run_m ops) ∧
  (∀ p, vget (run_m ops) p = tget (run_t ops) p) ∧
  viewmap (run_m ops) = run_t ops ∧
  (∀ o, basic_op o → (m_step (run_m ops) o).2 = (t_step (run_t ops) o).2).
Proof.
  intros H. pose proof (run_refines_basic ops H) as HS.
  split; [apply HS|]. split; [apply HS|]. split; [by apply viewmap_eq|].
  intros o Ho. by apply step_refines_basic.
Qed.

Lemma boundaries_unobservable_basic ops1 ops2 :
  Forall basic_op ops1 → Forall basic_op ops2 → strip_bnd ops1 = strip_bnd ops2 →
  viewmap (run_m ops1) = viewmap (run_m ops2) ∧
  (∀ o, basic_op o → (m_step (run_m ops1) o).2 = (m_step (run_m ops2) o).2).
Proof.
  intros H1 H2 Heq.
  destruct (transparent_basic ops1 H1) as (_ & _ & Hv1 & Hr1).
  destruct (transparent_basic ops2 H2) as (_ & _ & Hv2 & Hr2).
  assert (run_t ops1 = run_t ops2) as Ht by (by rewrite <-(run_t_strip ops1), Heq, run_t_strip).
  split; [by rewrite Hv1, Hv2|]. intros o Ho. by rewrite Hr1, Hr2, Ht.
Qed.

(** ** Copy and move *)

Lemma strip_Some (src p r : path) : strip src p = Some r ↔ p = r ++ src.
Proof.
  unfold strip. case_decide as H.
  - destruct H as [k ->]. rewrite app_length, Nat.add_sub, take_app. split.
    + by intros [= <-].
    + by intros ->%(inj (.++ src)).
  - split; [done|]. intros ->. destruct H. by eexists.
Qed.

Lemma rel_snap_elem {X} (T : gmap path X) (src r : path) e :
  (r, e) ∈ omap (λ pe : path * X, (λ r, (r, pe.2)) <$> strip src pe.1) (map_to_list T)
  ↔ T !! (r ++ src) = Some e.
Proof.
  rewrite elem_of_list_omap. split.
  - intros ([p e'] & Hin & Hf). cbn in Hf. destruct (strip src p) as [r'|] eqn:Hs; [|done].
    injection Hf as -> ->. apply strip_Some in Hs as ->. by apply elem_of_map_to_list in Hin.
  - intros H. exists (r ++ src, e). split; [by apply elem_of_map_to_list|]. cbn.
    by rewrite (proj2 (strip_Some src (r ++ src) r) eq_refl).
Qed.

Lemma rel_snap_lookup {X} (T : gmap path X) (src r : path) :
  rel_snap T src !! r = T !! (r ++ src).
Proof.
  unfold rel_snap. destruct (T !! (r ++ src)) as [e|] eqn:HT.
  - apply elem_of_list_to_map_1'; [|by apply rel_snap_elem].
    intros y Hy%rel_snap_elem. congruence.
  - apply not_elem_of_list_to_map_1. intros Hin.
    apply elem_of_list_fmap in Hin as ([r' y] & Heq & Hin). cbn in Heq. subst r'.
    apply rel_snap_elem in Hin. congruence.
Qed.

Lemma graft_snap_lookup (S : gmap path tentry) (dst r : path) :
  t_graft_snap S dst !! (r ++ dst) = S !! r.
Proof. unfold t_graft_snap. apply (lookup_kmap (λ r, r ++ dst)). Qed.

Lemma graft_snap_None (S : gmap path tentry) (dst x : path) :
  ¬ under dst x → t_graft_snap S dst !! x = None.
Proof.
  intros H. unfold t_graft_snap. apply (lookup_kmap_None (λ r, r ++ dst)).
  intros r ->. destruct H. by eexists.
Qed.

Lemma to_raw_not_del b e : to_raw b e ≠ RDel.
Proof. by destruct e. Qed.

Lemma erase_to_raw (i : nat) b e : erase (Some (i, to_raw b e)) = Some e.
Proof. by destruct e. Qed.

Lemma scan_single (n : nat) (c : cont) (p : path) :
  scan [(n, c)] p = (λ e, (n, e)) <$> c !! p.
Proof. cbn. by destruct (c !! p) as [[| |[]]|]. Qed.

(** Grafting a tree-shaped snapshot [S] at a fresh path [dst] whose parent is a visible group:
    outside [dst] nothing changes, below [dst] exactly [S] is visible. *)
Lemma graft_sub_status (n : nat) (c : cont) (rest : stack) (S : gmap path tentry) (b : bool)
    s (dpar : path) lb bb :
  let dst := s :: dpar in
  let R := (n, c) :: rest in
  let c' := graft (to_raw b <$> t_graft_snap S dst) c dst in
  let R' := (n, c') :: rest in
  top_ok n c rest →
  status R dpar = Some (lb, RGroup bb) → holds dpar (RGroup bb) s = true →
  status R dst = None →
  (b = false → rest = []) →
  is_Some (S !! []) →
  (∀ t r e, S !! (t :: r) = Some e →
     ∃ e', S !! r = Some e' ∧ holds (r ++ dst) (to_raw b e') t = true) →
  (∀ x, ¬ under dst x → status R' x = status R x) ∧
  (∀ r, status R' (r ++ dst) = (λ e, (n, to_raw b e)) <$> S !! r) ∧
  top_ok n c' rest.
Proof.
  intros dst R c' R' (Hs & Hroot & Hvis) Hpar Hh Hfresh Hb [e0 He0] Hshape.
  assert (Hanc : ∀ a, a ∈ ancestors dst → is_Some (status R a)).
  { apply anc_vis. by rewrite Hpar. }
  assert (HM : ∀ x, ¬ under dst x → (to_raw b <$> t_graft_snap S dst : cont) !! x = None).
  { intros x Hx. by rewrite lookup_fmap, graft_snap_None. }
  assert (Hframe : ∀ x, ¬ under dst x → status R' x = status R x).
  { apply frame_status; [done|apply not_under_cons|]. intros x Hx.
    apply graft_frame; [by apply HM|done|done]. }
  assert (HcS : ∀ r e, S !! r = Some e → c' !! (r ++ dst) = Some (to_raw b e)).
  { intros r e HS. unfold c'. by rewrite graft_lookup, lookup_fmap, graft_snap_lookup, HS. }
  assert (HcN : ∀ r, S !! r = None →
            c' !! (r ++ dst) = None ∨ c' !! (r ++ dst) = Some RDel).
  { intros r HS. unfold c'. rewrite graft_lookup, lookup_fmap, graft_snap_lookup, HS.
    cbn [fmap option_fmap option_map].
    destruct (c !! (r ++ dst)) as [e'|] eqn:Hce.
    - destruct (decide (e' = RDel)) as [->|Hne]; [by right|].
      destruct (Hvis _ _ Hce Hne) as [x Hx]. fold R in Hx.
      rewrite (status_none_under R dst (r ++ dst)) in Hx; [done|done|by eexists].
    - rewrite carr_lookup. case_decide as Ha; [|by left].
      apply elem_of_ancestors in Ha as (_ & Hne & Ha).
      exfalso. apply Hne. apply (anti_symm suffix); [done|by eexists]. }
  assert (lb ≤ n) as Hlb by (eapply status_le; eauto).
  assert (Hsub : ∀ r, status R' (r ++ dst) = (λ e, (n, to_raw b e)) <$> S !! r).
  { induction r as [|t r IH].
    - cbn [app]. unfold dst. rewrite status_cons, Hframe by apply suffix_cons_not.
      rewrite Hpar, Hh. unfold R'. rewrite above_cons. case_decide; [|lia]. cbn [scan]. fold dst.
      pose proof (HcS [] e0 He0) as H0. cbn [app] in H0. rewrite H0, He0. cbn. destruct e0 as [v|]; cbn; [done|].
      destruct b; [done|]. by rewrite (Hb eq_refl).
    - cbn [app]. rewrite status_cons, IH.
      destruct (S !! r) as [e'|] eqn:HSr; cbn [fmap option_fmap option_map].
      + destruct (holds (r ++ dst) (to_raw b e') t) eqn:Hht.
        * unfold R'. rewrite above_cons. case_decide; [|lia]. rewrite (above_idx_lt n) by done.
          rewrite scan_single. change (t :: r ++ dst) with ((t :: r) ++ dst).
          destruct (S !! (t :: r)) as [e|] eqn:HS.
          -- rewrite (HcS _ _ HS). cbn. by destruct e.
          -- destruct (HcN _ HS) as [-> | ->]; done.
        * destruct (S !! (t :: r)) as [e|] eqn:HS; [|done].
          destruct (Hshape _ _ _ HS) as (e'' & He'' & Hh''). congruence.
      + destruct (S !! (t :: r)) as [e|] eqn:HS; [|done].
        destruct (Hshape _ _ _ HS) as (e'' & He'' & _). congruence. }
  split; [done|]. split; [done|]. split; [done|]. split.
  - unfold c'. rewrite graft_lookup, HM, Hroot, carr_lookup by (by intros ?%suffix_nil_inv).
    case_decide as Ha; [|done]. by apply elem_of_ancestors in Ha as (? & _).
  - intros p e Hp Hne. fold c' R'. destruct (decide (under dst p)) as [[r ->]|Hu].
    + rewrite Hsub. destruct (S !! r) as [e'|] eqn:HS; [done|].
      destruct (HcN _ HS) as [Hn|Hn]; congruence.
    + rewrite Hframe by done. unfold c' in Hp. rewrite graft_lookup, HM in Hp by done.
      destruct (c !! p) as [e1|] eqn:Hcp.
      * injection Hp as ->. by eapply Hvis.
      * rewrite carr_lookup in Hp. case_decide; [|done]. by apply Hanc.
Qed.

Lemma tget_ne (T : tree) (x : path) : x ≠ [] → tget T x = T !! x.
Proof. by destruct x. Qed.

Lemma app_ne_nil_r {A} (r k : list A) : k ≠ [] → r ++ k ≠ [].
Proof. intros Hk H. apply app_eq_nil in H as [_ ?]. done. Qed.

Lemma holds_transfer (r src dst : path) ep te b t :
  src ≠ [] → dst ≠ [] → is_node_path src = true → is_node_path dst = true →
  erase (Some (0, ep)) = Some te →
  holds (r ++ src) ep t = true → holds (r ++ dst) (to_raw b te) t = true.
Proof.
  intros Hs Hd Hns Hnd He Hh.
  destruct src as [|[[] ks] src']; [done|done|].
  destruct dst as [|[[] kd] dst']; [done|done|].
  destruct r as [|[[] kr] r']; cbn in *.
  - destruct ep; cbn in He; [done| |]; by injection He as <-.
  - done.
  - destruct ep; cbn in He; [done| |]; by injection He as <-.
Qed.

Lemma copy_refines R T (src dst : path) :
  Sim R T → is_node_path src = true → is_node_path dst = true →
  refines (m_copy R src dst) (t_copy T src dst).
Proof.
  intros HS Hns Hnd. pose proof (viewmap_eq R T HS) as Hvm.
  destruct HS as (HI & HR & Hroot). unfold m_copy, t_copy. rewrite Hvm.
  destruct src as [|ss spar]; [done|]. destruct dst as [|s dpar]; [done|].
  set (src := ss :: spar) in *. set (dst := s :: dpar) in *.
  rewrite <-(Rel_lookup _ _ src HR), <-(Rel_lookup _ _ dst HR) by done.
  destruct (status R src) as [[isrc esrc]|] eqn:Hsrc; [|done].
  assert (esrc ≠ RDel) as Hne by (intros ->; by apply status_not_del in Hsrc).
  assert (∃ te, erase (Some (isrc, esrc)) = Some te) as [te Hte]
    by (destruct esrc; cbn; eauto; done).
  rewrite Hte.
  destruct (status R dst) as [[idst edst]|] eqn:Hdst.
  { assert (∃ te', erase (Some (idst, edst)) = Some te') as [te' ->]; [|done].
    destruct edst; cbn; eauto. by apply status_not_del in Hdst. }
  cbn [erase].
  set (deep := match esrc with RGroup _ => true | _ => false end).
  pose proof (mkgroups_spec deep dpar (node_path_tail _ _ Hnd) R T HI HR) as H.
  destruct (m_mkgroups deep R dpar) as [[R1 cr]|], (t_mkgroups T dpar) as [T1|]; try done.
  destruct H as (HI1 & HR1 & (lb & b & Hpar & _) & Hfr & Hr & _).
  destruct R1 as [|[n c1] rest1]; [by destruct HI1|].
  apply Inv_cons in HI1 as [Htop Hwf].
  set (S := rel_snap T src).
  assert (HS0 : S !! [] = Some te).
  { unfold S. rewrite rel_snap_lookup. cbn [app]. rewrite <-(Rel_lookup _ _ src HR) by done.
    by rewrite Hsrc. }
  assert (Hdst1 : status ((n, c1) :: rest1) dst = None).
  { rewrite Hfr; [done|]. apply suffix_cons_not. }
  destruct (graft_sub_status n c1 rest1 S (is_patch ((n, c1) :: rest1)) s dpar lb b)
    as (Hframe & Hsub & Htop'); try done.
  { by apply node_path_holds_group. }
  { by destruct rest1. }
  { intros t r e HSe. unfold S in HSe |- *. rewrite rel_snap_lookup in HSe |- *.
    change ((t :: r) ++ src) with (t :: r ++ src) in HSe.
    pose proof (HR (t :: r ++ src)) as Hx. cbn [tget] in Hx. rewrite HSe in Hx.
    unfold vget in Hx.
    destruct (status R (t :: r ++ src)) as [[i ex]|] eqn:Hst; [|done].
    destruct (status_parent R t (r ++ src)) as (lb' & ep & Hp & Hh); [by rewrite Hst|].
    assert (ep ≠ RDel) as Hnep by (intros ->; by apply status_not_del in Hp).
    assert (∃ te', erase (Some (0, ep)) = Some te') as [te' Hte']
      by (destruct ep; cbn; eauto; done).
    exists te'. split.
    - rewrite <-tget_ne by (by apply app_ne_nil_r). rewrite <-HR. unfold vget. rewrite Hp.
      by destruct ep.
    - eapply (holds_transfer r src dst); try done. }
  cbn [with_top]. fold dst. split; [by apply Inv_cons|]. split.
  - intros x. unfold vget. destruct (decide (under dst x)) as [[r ->]|Hu].
    + rewrite Hsub, tget_ne by (by apply app_ne_nil_r).
      rewrite lookup_union, graft_snap_lookup.
      destruct (S !! r) as [e|] eqn:HSr; cbn [fmap option_fmap option_map].
      * rewrite erase_to_raw. by destruct (T1 !! (r ++ dst)).
      * rewrite <-tget_ne by (by apply app_ne_nil_r). rewrite <-HR1. unfold vget.
        rewrite (status_none_under _ dst (r ++ dst)); [|done|by eexists].
        done.
    + rewrite Hframe by done. destruct x as [|t y]; [apply (HR1 [])|].
      cbn [tget]. rewrite lookup_union, graft_snap_None by done.
      rewrite <-(Rel_lookup _ _ (t :: y) HR1) by done.
      by destruct (erase (status _ (t :: y))).
  - rewrite lookup_union, graft_snap_None by (by intros ?%suffix_nil_inv).
    rewrite (Hr Hroot). done.
Qed.

Lemma move_refines R T (src dst : path) :
  Sim R T → is_node_path src = true → is_node_path dst = true →
  refines (m_move R src dst) (t_move T src dst).
Proof.
  intros HS Hns Hnd. unfold m_move, t_move. case_decide; [done|].
  pose proof (copy_refines R T src dst HS Hns Hnd) as Hc.
  destruct (m_copy R src dst) as [R1|], (t_copy T src dst) as [T1|]; try done.
  by apply delete_refines.
Qed.

(** ** One step of any operation, any history *)

Lemma step_refines R T o :
  Sim R T → Sim (m_step R o).1 (t_step T o).1 ∧ (m_step R o).2 = (t_step T o).2.
Proof.
  intros HS. destruct o as [q|q v|q|p k v|p k|s d|s d|]; try (by apply step_refines_basic).
  - unfold m_step, t_step. apply (pack_refines R T); [done|].
    destruct (is_node_path s) eqn:Hs; [|done]. destruct (is_node_path d) eqn:Hd; [|done].
    by apply copy_refines.
  - unfold m_step, t_step. apply (pack_refines R T); [done|].
    destruct (is_node_path s) eqn:Hs; [|done]. destruct (is_node_path d) eqn:Hd; [|done].
    by apply move_refines.
Qed.

Lemma fold_refines ops : ∀ R T, Sim R T →
  Sim (foldl (λ R o, (m_step R o).1) R ops) (foldl (λ T o, (t_step T o).1) T ops).
Proof.
  induction ops as [|o ops IH]; intros R T HS; [done|]. cbn [foldl].
  apply IH. by apply step_refines.
Qed.

Lemma run_refines ops : Sim (run_m ops) (run_t ops).
Proof. apply fold_refines, init_sim. Qed.

Lemma transparent ops :
  Inv (run_m ops) ∧
  (∀ p, vget (run_m ops) p = tget (run_t ops) p) ∧
  viewmap (run_m ops) = run_t ops ∧
  (∀ o, (m_step (run_m ops) o).2 = (t_step (run_t ops) o).2).
Proof.
  pose proof (run_refines ops) as HS.
  split; [apply HS|]. split; [apply HS|]. split; [by apply viewmap_eq|].
  intros o. by apply step_refines.
Qed.

Lemma boundaries_unobservable ops1 ops2 :
  strip_bnd ops1 = strip_bnd ops2 →
  viewmap (run_m ops1) = viewmap (run_m ops2) ∧
  (∀ o, (m_step (run_m ops1) o).2 = (m_step (run_m ops2) o).2).
Proof.
  intros Heq.
  destruct (transparent ops1) as (_ & _ & Hv1 & Hr1).
  destruct (transparent ops2) as (_ & _ & Hv2 & Hr2).
  assert (run_t ops1 = run_t ops2) as Ht by (by rewrite <-(run_t_strip ops1), Heq, run_t_strip).
  split; [by rewrite Hv1, Hv2|]. intros o. by rewrite Hr1, Hr2, Ht.
Qed.
