(** * The byte-value model [IH5/Bytes.v] seen through the overlay model [IH5/Overlay.v]
      (property C17): the guard of the overlay steps, on encoded values, is the guard of
      the byte model; plain-tree steps keep dataset values. *)
From stdpp Require Import gmap strings list.
From MV Require Import IH5.Overlay IH5.Bytes IH5.BytesProofs.

(** The overlay model's marker string is the encoding of the byte model's marker. *)
Lemma overlay_marker_enc : Overlay.del_value = enc Bytes.del_value.
Proof. reflexivity. Qed.

Lemma overlay_is_del_enc : forall v, is_del_value (enc v) = Bytes.is_del v.
Proof.
  intro v. unfold is_del_value. destruct (Bytes.is_del v) eqn:E.
  - apply is_del_iff in E. subst. reflexivity.
  - apply bool_decide_eq_false. intro X. apply enc_del_iff in X.
    apply is_del_iff in X. congruence.
Qed.

Lemma overlay_guard_iff : forall bs,
  is_del_value (enc (wrap bs)) = true <-> bs = del_bytes.
Proof. intro bs. rewrite overlay_is_del_enc. apply is_del_wrap_iff. Qed.

(** [create_dataset] / attribute assignment of the marker: refused, record unchanged --
    on the overlay and on the plain specification tree alike. *)
Lemma overlay_refuses_marker : forall R q k,
  m_step R (OData q (enc (wrap del_bytes))) = (R, false) /\
  m_step R (OAttrSet q k (enc (wrap del_bytes))) = (R, false) /\
  forall T, t_step T (OData q (enc (wrap del_bytes))) = (T, false) /\
            t_step T (OAttrSet q k (enc (wrap del_bytes))) = (T, false).
Proof.
  intros R q k. unfold m_step, t_step. simpl.
  rewrite !andb_false_r. repeat split.
Qed.

(** Every other byte string passes the guard: the step is the write path itself. *)
Lemma overlay_accepts_others : forall R q bs,
  bs <> del_bytes ->
  m_step R (OData q (enc (wrap bs))) =
    match (if is_node_path q then m_set_data R q (enc (wrap bs)) else None) with
    | Some R' => (R', true)
    | None => (R, false)
    end.
Proof.
  intros R q bs N. unfold m_step.
  assert (E : is_del_value (enc (wrap bs)) = false).
  { destruct (is_del_value (enc (wrap bs))) eqn:X; [|reflexivity].
    apply overlay_guard_iff in X. congruence. }
  rewrite E. simpl. rewrite andb_true_r. reflexivity.
Qed.

(** Distinct byte strings are distinct overlay values (nothing is conflated on the way
    into the overlay model). *)
Lemma enc_wrap_inj : forall a b, enc (wrap a) = enc (wrap b) -> a = b.
Proof. intros a b E. apply wrap_inj, enc_inj, E. Qed.

(** ** Dataset values on the plain specification tree of C01.

    [t_step] is the specification the overlay is proved to refine (C01); here: one
    specification step leaves the value of every dataset it does not remove untouched, and
    copy/move deliver the source value at the destination.  (The side condition "[p] is
    not below the copy destination" holds in every parent-closed tree, where a free
    destination has nothing below it.) *)

Lemma t_mkgroups_keeps : forall q T T' p e,
  t_mkgroups T q = Some T' -> T !! p = Some e -> T' !! p = Some e.
Proof.
  induction q as [|s par IH]; intros T T' p e M G; simpl in M.
  - injection M as <-. exact G.
  - destruct (t_mkgroups T par) as [T1|] eqn:M1; [|discriminate].
    specialize (IH _ _ _ _ M1 G).
    destruct (T1 !! (s :: par)) as [[v|]|] eqn:L; [discriminate| |].
    + injection M as <-. exact IH.
    + injection M as <-. rewrite lookup_insert_ne; [exact IH|]. intro X. subst. congruence.
Qed.

Lemma node_path_not_attr : forall p k (p' : path),
  p <> [] -> is_node_path p = true -> p <> (true, k) :: p'.
Proof.
  intros p k p' N I X. subst. unfold is_node_path in I. simpl in I. discriminate.
Qed.

Global Instance app_tail_inj {X} (d : list X) : Inj (=) (=) (λ r : list X, r ++ d).
Proof. intros a b E. eapply app_inv_tail, E. Qed.

Lemma graft_snap_None : forall (S : gmap path tentry) d p,
  ¬ under d p -> t_graft_snap S d !! p = None.
Proof.
  intros S d p N. unfold t_graft_snap. apply lookup_kmap_None; [apply _|].
  intros r ->. exfalso. apply N. apply suffix_app_r. reflexivity.
Qed.

Lemma graft_snap_root : forall (S : gmap path tentry) d, t_graft_snap S d !! d = S !! [].
Proof.
  intros S d. unfold t_graft_snap. exact (lookup_kmap (λ r : path, r ++ d) S []).
Qed.

Lemma strip_self : forall s, strip s s = Some [].
Proof.
  intro s. unfold strip. destruct (decide (under s s)) as [_|N].
  - rewrite Nat.sub_diag. reflexivity.
  - exfalso. apply N. reflexivity.
Qed.

Lemma strip_nil_inv : forall s p, strip s p = Some [] -> p = s.
Proof.
  intros s p. unfold strip. destruct (decide (under s p)) as [[r ->]|]; [|discriminate].
  intro E. injection E as E. rewrite app_length in E.
  replace (length r + length s - length s) with (length r) in E by lia.
  rewrite take_app in E. subst r. reflexivity.
Qed.

Lemma rel_snap_root : forall (T : tree) s e, T !! s = Some e -> rel_snap T s !! [] = Some e.
Proof.
  intros T s e G. unfold rel_snap. apply elem_of_list_to_map_1'.
  - intros y Y. apply elem_of_list_omap in Y. destruct Y as ([p x] & In & E). simpl in E.
    destruct (strip s p) as [r|] eqn:St; [|discriminate]. simpl in E. injection E as -> ->.
    apply strip_nil_inv in St. subst p. apply elem_of_map_to_list in In. congruence.
  - apply elem_of_list_omap. exists (s, e). split; [apply elem_of_map_to_list, G|].
    simpl. rewrite strip_self. reflexivity.
Qed.

Lemma t_copy_value : forall (T T' : tree) s d e,
  t_copy T s d = Some T' -> T !! s = Some e -> T' !! d = Some e.
Proof.
  intros T T' s d e C G. unfold t_copy in C.
  destruct s as [|s0 s']; [discriminate|]. destruct d as [|d0 dpar]; [discriminate|].
  rewrite G in C. destruct (T !! (d0 :: dpar)); [discriminate|].
  destruct (t_mkgroups T dpar) as [T1|]; [|discriminate]. injection C as <-.
  apply lookup_union_Some_l. rewrite graft_snap_root. apply rel_snap_root, G.
Qed.

Lemma t_copy_keeps : forall (T T' : tree) s d p e,
  t_copy T s d = Some T' -> T !! p = Some e -> ¬ under d p -> T' !! p = Some e.
Proof.
  intros T T' s d p e C G N. unfold t_copy in C.
  destruct s as [|s0 s']; [discriminate|]. destruct d as [|d0 dpar]; [discriminate|].
  destruct (T !! (s0 :: s')); [|discriminate]. destruct (T !! (d0 :: dpar)); [discriminate|].
  destruct (t_mkgroups T dpar) as [T1|] eqn:M; [|discriminate]. injection C as <-.
  rewrite lookup_union_r; [eapply t_mkgroups_keeps; eassumption|].
  apply graft_snap_None, N.
Qed.

Lemma t_delete_keeps : forall (T T' : tree) q p e,
  t_delete T q = Some T' -> T !! p = Some e -> ¬ under q p -> T' !! p = Some e.
Proof.
  intros T T' q p e Dl G N. unfold t_delete in Dl. destruct q; [discriminate|].
  destruct (T !! (p0 :: q)); [|discriminate]. injection Dl as <-.
  unfold cut. apply map_filter_lookup_Some. split; [exact G | exact N].
Qed.

(** copy / move deliver the value ... *)
Lemma t_move_value : forall (T T' : tree) s d e,
  t_move T s d = Some T' -> T !! s = Some e -> T' !! d = Some e /\ T' !! s = None.
Proof.
  intros T T' s d e M G. unfold t_move in M.
  destruct (decide (under s d)) as [|N]; [discriminate|].
  destruct (t_copy T s d) as [T1|] eqn:C; [|discriminate]. split.
  - eapply t_delete_keeps; [exact M | eapply t_copy_value; eassumption | exact N].
  - unfold t_delete in M. destruct s; [discriminate|]. destruct (T1 !! (p :: s)); [|discriminate].
    injection M as <-. unfold cut. apply map_filter_lookup_None. right. intros x _ X. apply X. reflexivity.
Qed.

(** ... and every step keeps the datasets it is not aimed at. *)
Definition t_keeps (p : path) (o : op) : Prop :=
  match o with
  | ODel q => ¬ under q p
  | OCopy s d => ¬ under d p
  | OMove s d => ¬ under s p /\ ¬ under d p
  | _ => True
  end.

Lemma t_step_keeps : forall (T : tree) o p e,
  p <> [] -> is_node_path p = true -> T !! p = Some e -> t_keeps p o ->
  (t_step T o).1 !! p = Some e.
Proof.
  intros T o p e NE NP G K. unfold t_step.
  destruct o; simpl in K.
  - (* OGroup *) destruct (is_node_path q); [|exact G].
    unfold t_create_group. destruct q as [|q0 q']; [exact G|].
    destruct (T !! (q0 :: q')); [exact G|].
    destruct (t_mkgroups T (q0 :: q')) as [T1|] eqn:M; [|exact G].
    simpl. eapply t_mkgroups_keeps; eassumption.
  - (* OData *) destruct (is_node_path q && negb (is_del_value v)); [|exact G].
    unfold t_set_data. destruct q as [|q0 q']; [exact G|].
    destruct (T !! (q0 :: q')) eqn:F; [exact G|].
    destruct (t_mkgroups T q') as [T1|] eqn:M; [|exact G]. simpl.
    rewrite lookup_insert_ne; [eapply t_mkgroups_keeps; eassumption|]. intro X. subst. congruence.
  - (* ODel *) destruct (is_node_path q); [|exact G].
    destruct (t_delete T q) as [T1|] eqn:Dl; [|exact G]. simpl. eapply t_delete_keeps; eassumption.
  - (* OAttrSet *) destruct (is_node_path p0 && negb (is_del_value v)); [|exact G].
    unfold t_attr_set. destruct (tget T p0); [|exact G]. simpl.
    rewrite lookup_insert_ne; [exact G|]. intro X. symmetry in X. revert X. apply node_path_not_attr; assumption.
  - (* OAttrDel *) destruct (is_node_path p0); [|exact G].
    unfold t_attr_del. destruct (tget T p0); [|exact G].
    destruct (T !! ((true, k) :: p0)); [|exact G]. simpl.
    rewrite lookup_delete_ne; [exact G|]. intro X. symmetry in X. revert X. apply node_path_not_attr; assumption.
  - (* OCopy *) destruct (is_node_path src && is_node_path dst); [|exact G].
    destruct (t_copy T src dst) as [T1|] eqn:C; [|exact G]. simpl. eapply t_copy_keeps; eassumption.
  - (* OMove *) destruct (is_node_path src && is_node_path dst); [|exact G].
    destruct K as [K1 K2]. unfold t_move.
    destruct (decide (under src dst)); [exact G|].
    destruct (t_copy T src dst) as [T1|] eqn:C; [|exact G].
    destruct (t_delete T1 src) as [T2|] eqn:Dl; [|exact G]. simpl.
    eapply t_delete_keeps; [exact Dl | eapply t_copy_keeps; eassumption | exact K1].
  - (* OBoundary *) exact G.
Qed.
