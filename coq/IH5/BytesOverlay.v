(** * The byte-value model [IH5/Bytes.v] seen through the overlay model [IH5/Overlay.v]
      (property C17): the guard of the overlay steps, on encoded values, is the guard of
      the byte model; plain-tree steps keep dataset values. *)
From stdpp Require Import gmap strings list.
From MV Require Import IH5.Overlay IH5.Bytes IH5.BytesProofs.

(** The overlay model's marker string is the encoding of the byte model's marker. *)
Lemma overlay_marker_enc : Overlay.del_value = enc Bytes.del_value.
Proof. reflexivity. Qed.

Lemma overlay_is_del_enc : forall v, is_del_value (enc v) = Bytes.is_del v.
Proof.
  intro v. unfold is_del_value. destruct (Bytes.is_del v) eqn:E.
  - apply is_del_iff in E. subst. reflexivity.
  - apply bool_decide_eq_false. intro X. apply enc_del_iff in X.
    apply is_del_iff in X. congruence.
Qed.

Lemma overlay_guard_iff : forall bs,
  is_del_value (enc (wrap bs)) = true <-> bs = del_bytes.
Proof. intro bs. rewrite overlay_is_del_enc. apply is_del_wrap_iff. Qed.

(** [create_dataset] / attribute assignment of the marker: refused, record unchanged --
    on the overlay and on the plain specification tree alike. *)
Lemma overlay_refuses_marker : forall R q k,
  m_step R (OData q (enc (wrap del_bytes))) = (R, false) /\
  m_step R (OAttrSet q k (enc (wrap del_bytes))) = (R, false) /\
  forall T, t_step T (OData q (enc (wrap del_bytes))) = (T, false) /\
            t_step T (OAttrSet q k (enc (wrap del_bytes))) = (T, false).
Proof.
  intros R q k. unfold m_step, t_step. simpl.
  rewrite !andb_false_r. repeat split.
Qed.

(** Every other byte string passes the guard: the step is the write path itself. *)
Lemma overlay_accepts_others : forall R q bs,
  bs <> del_bytes ->
  m_step R (OData q (enc (wrap bs))) =
    match (if is_node_path q then m_set_data R q (enc (wrap bs)) else None) with
    | Some R' => (R', true)
    | None => (R, false)
    end.
Proof.
  intros R q bs N. unfold m_step.
  assert (E : is_del_value (enc (wrap bs)) = false).
  { destruct (is_del_value (enc (wrap bs))) eqn:X; [|reflexivity].
    apply overlay_guard_iff in X. congruence. }
  rewrite E. simpl. rewrite andb_true_r. reflexivity.
Qed.

(** Distinct byte strings are distinct overlay values (nothing is conflated on the way
    into the overlay model). *)
Lemma enc_wrap_inj : forall a b, enc (wrap a) = enc (wrap b) -> a = b.
Proof. intros a b E. apply wrap_inj, enc_inj, E. Qed.
