(** * Model of skeletons, stubs and manifests (property C10).

    Built on the overlay model [IH5/Overlay.v] (a record is a stack of containers, newest
    first; attributes are flagged path segments) and on the user-block / chain model
    [Rec/Chain.v].  Transcribes from [metador_core/ih5/skeleton.py] and
    [metador_core/ih5/manifest.py]:

    - [IH5Skeleton.for_record]: every visible path (attributes included) with its node kind
      and the patch index of the container it was created in — [skelx]; the part the property
      speaks about (paths, kinds, attribute names) is [skel] of the view.
    - [init_stub_skeleton]: a fresh base container with [h5py.Empty(None)] at every dataset
      and attribute of the skeleton and a plain group at every group — [stub_of]; the loop
      itself is [stub_build].
    - "existence-based" updates: operations whose outcome and written content are fixed by
      the operation itself and the existence / kind of nodes ([eb_op]): create_group,
      create_dataset with a given value, delete, attribute set with a given value, attribute
      delete.  Copy and move transport stored values and are excluded, as are reads.
    - [IH5MFRecord.commit_patch]: fresh manifest (new uuid, copy of the user block without
      the manifest extension, skeleton of the record), extensions inherited from the loaded
      manifest unless given; user block extension [ih5mf_v01] = (is_stub, manifest uuid,
      hashsum of the manifest bytes); payload hash; manifest written next to the container —
      [mf_commit].  [create_patch] — [mf_create_patch].
    - [IH5MFRecord.create_stub]: user block of the manifest with [prev_patch := None], stub
      structure, commit with the stub flag — [create_stub].  The extensions of the source
      manifest are handed to that commit (repaired behaviour; the pinned code starts the stub
      with empty extensions, [create_stub_pinned]).
    - [IH5MFRecord.merge_files]: refused when any user block carries the stub flag —
      [mf_can_merge].

    Identifiers are numbers drawn from a counter ([uuid1()] is fresh), digests are abstract
    functions [H] (manifest bytes) and [Hp] (container payload).  Definitions only. *)
From Coq Require Import NArith.
From stdpp Require Import gmap strings list.
From MV Require Import Base.Sx IH5.Overlay IH5.OverlayRun.
From MV Require Rec.Chain.

(** ** Skeletons *)

Inductive kind : Type := KGroup | KData.
Global Instance kind_eq_dec : EqDecision kind.
Proof. solve_decision. Defined.

Notation skeleton := (gmap path kind).

Definition kind_of (e : tentry) : kind := match e with TGroup => KGroup | TData _ => KData end.

(** The skeleton of a plain tree: same keys (node paths and attribute paths), kinds only. *)
Definition skel (T : tree) : skeleton := kind_of <$> T.

(** Kind and creation index of a path of a record, as [SkeletonNodeInfo.for_node] reads them
    ([node._cidx], [node.attrs._find(key)]). *)
Definition xstat (R : stack) (p : path) : option (kind * nat) :=
  match status R p with
  | Some (i, RData _) => Some (KData, i)
  | Some (i, RGroup _) => Some (KGroup, i)
  | _ => None
  end.

Definition skelx (R : stack) : gmap path (kind * nat) :=
  map_imap (λ p _, xstat R p) (all_keys R).

(** ** Stubs *)

(** [h5py.Empty(None)] in the value encoding of the harness. *)
Definition placeholder : string := "e:".

Definition stub_entry (k : kind) : rentry :=
  match k with KGroup => RGroup false | KData => RData placeholder end.

Definition stub_of (s : skeleton) : cont := stub_entry <$> s.

(** The stub as a one-container record; [n] is the patch index copied from the real record. *)
Definition stub_stack (n : nat) (s : skeleton) : stack := [(n, stub_of s)].

(** The tree a stub shows: the same nodes, every value replaced by the placeholder. *)
Definition blank_entry (e : tentry) : tentry :=
  match e with TGroup => TGroup | TData _ => TData placeholder end.
Definition blank (T : tree) : tree := blank_entry <$> T.

(** [init_stub_skeleton] as the code runs it: one pass over the skeleton entries in the given
    order; a group is created unless present, a dataset / attribute is assigned the
    placeholder.  Entries are (path, kind); attribute entries follow their node. *)
Definition stub_op (pk : path * kind) : op :=
  match pk.1, pk.2 with
  | (true, k) :: p, _ => OAttrSet p k placeholder
  | q, KGroup => OGroup q
  | q, KData => OData q placeholder
  end.

Definition run_from (R : stack) (ops : list op) : stack :=
  foldl (λ R o, (m_step R o).1) R ops.

Fixpoint results_from (R : stack) (ops : list op) : list bool :=
  match ops with
  | [] => []
  | o :: rest => (m_step R o).2 :: results_from (m_step R o).1 rest
  end.

Definition stub_build (n : nat) (l : list (path * kind)) : stack :=
  run_from [(n, ∅)] (map stub_op l).

(** ** Existence-based updates and patches *)

Definition eb_op (o : op) : Prop :=
  match o with OCopy _ _ | OMove _ _ | OBoundary => False | _ => True end.

Definition eb_opb (o : op) : bool :=
  match o with OCopy _ _ | OMove _ _ | OBoundary => false | _ => true end.

Definition top_cont (R : stack) : cont := match R with [] => ∅ | (_, c) :: _ => c end.

(** The patch container an update produces on top of [R] (commit + create_patch, then the
    operations). *)
Definition patch_on (R : stack) (ops : list op) : cont :=
  top_cont (run_from (m_boundary R) ops).

(** Opening a patch container together with the files of [R]. *)
Definition apply_patch (R : stack) (P : cont) : stack := (S (top_idx R), P) :: R.

(** ** Manifests and manifest-carrying records *)

Notation exts := string.
Definition exts0 : exts := "{}".

Record manifest : Type := MkMf {
  mf_uuid : N;
  mf_ub : Chain.ublock;                (* copy of the user block, without the extension *)
  mf_skel : gmap path (kind * nat);
  mf_exts : exts
}.

Record mfrec : Type := MkRec {
  r_stack : stack;                     (* containers, newest first *)
  r_ubs : list Chain.ublock;           (* their user blocks, newest first *)
  r_mf : option manifest;              (* [self._manifest] *)
  r_disk : list (option manifest);     (* sidecar manifest of each container, newest first *)
  r_next : N                           (* supply of fresh identifiers *)
}.

Definition sans_ext (u : Chain.ublock) : Chain.ublock :=
  Chain.MkUb (Chain.rec_id u) (Chain.idx u) (Chain.pid u) (Chain.prev u) (Chain.hash u) None.

(** The identifying fields of a user block. *)
Definition ub_core (u : Chain.ublock) : N * N * N * option N :=
  (Chain.rec_id u, Chain.idx u, Chain.pid u, Chain.prev u).

Definition committed (st : mfrec) : bool :=
  match r_ubs st with u :: _ => Chain.is_some (Chain.hash u) | [] => false end.

Definition is_stub_ub (u : Chain.ublock) : bool :=
  match Chain.ext u with Some e => Chain.is_stub e | None => false end.

(** [merge_files] of IH5MFRecord is possible only without uncommitted patch and without stub. *)
Definition mf_can_merge (st : mfrec) : bool :=
  committed st && negb (existsb is_stub_ub (r_ubs st)).

(** [_create]: fresh record id and patch id, one writable base container. *)
Definition mf_new (next : N) : mfrec :=
  MkRec m_init [Chain.MkUb next 0 (next + 1) None None None] None [None] (next + 2).

Definition mf_ops (ops : list op) (st : mfrec) : mfrec :=
  MkRec (run_from (r_stack st) ops) (r_ubs st) (r_mf st) (r_disk st) (r_next st).

Definition mf_create_patch (st : mfrec) : option mfrec :=
  match r_ubs st with
  | u :: _ =>
      match Chain.hash u with
      | None => None                      (* "There already exists a writable container" *)
      | Some _ =>
          let p := r_next st in
          let u' := Chain.MkUb (Chain.rec_id u) (Chain.idx u + 1) p (Some (Chain.pid u)) None None in
          Some (MkRec (m_boundary (r_stack st)) (u' :: r_ubs st) (r_mf st) (None :: r_disk st)
                      (p + 1))
      end
  | [] => None
  end.

Section Hashes.
  Context (H : manifest → N) (Hp : cont → N).

  (** [commit_patch(manifest_exts=given, __is_stub__=stub)]. *)
  Definition mf_commit (stub : bool) (given : option exts) (st : mfrec) : option mfrec :=
    match r_stack st, r_ubs st, r_disk st with
    | (_, c) :: _, u :: us, _ :: ds =>
        match Chain.hash u with
        | Some _ => None                  (* "No patch to commit!" *)
        | None =>
            let id := r_next st in
            let inherited := match r_mf st with Some m => mf_exts m | None => exts0 end in
            let exts' := match given with Some e => e | None => inherited end in
            let m := MkMf id (sans_ext u) (skelx (r_stack st)) exts' in
            let u' := Chain.MkUb (Chain.rec_id u) (Chain.idx u) (Chain.pid u) (Chain.prev u)
                        (Some (Hp c)) (Some (Chain.MkExt stub id (H m))) in
            Some (MkRec (r_stack st) (u' :: us) (Some m) (Some m :: ds) (id + 1))
        end
    | _, _, _ => None
    end.

  (** [discard_patch]: only a pending patch above the base can be discarded. *)
  Definition mf_discard (st : mfrec) : option mfrec :=
    if committed st then None else
    match r_stack st, r_ubs st, r_disk st with
    | _ :: (_ :: _) as R, _ :: us, _ :: ds => Some (MkRec R us (r_mf st) ds (r_next st))
    | _, _, _ => None
    end.

  (** The operations a client can issue on the record, with their refusals: a commit needs a
      writable newest container, accepts no unknown keyword and no read-only handle (the guards
      of [IH5Record.commit_patch]); [create_patch] needs everything committed; [discard_patch]
      a pending patch.  A refused operation leaves the record — containers, user blocks, loaded
      manifest and the manifests on disk — as it was. *)
  Inductive mfop : Type :=
  | MCommit (given : option exts)
  | MCommitKw            (* commit_patch(<unknown keyword>=...) *)
  | MCommitRo            (* commit_patch() through a handle opened 'r' *)
  | MCreatePatch
  | MDiscard
  | MOps (ops : list op).

  Definition mf_step (st : mfrec) (o : mfop) : mfrec * bool :=
    let r := match o with
             | MCommit g => mf_commit false g st
             | MCommitKw | MCommitRo => None
             | MCreatePatch => mf_create_patch st
             | MDiscard => mf_discard st
             | MOps ops => Some (mf_ops ops st)
             end in
    match r with Some st' => (st', true) | None => (st, false) end.

  (** One round = (a new patch unless the newest container is still writable,) operations,
      commit.  A history of the real record is a list of rounds. *)
  Definition mf_round (r : list op * option exts) (st : mfrec) : option mfrec :=
    match (if committed st then mf_create_patch st else Some st) with
    | Some st1 => mf_commit false r.2 (mf_ops r.1 st1)
    | None => None
    end.

  Fixpoint mf_rounds (rs : list (list op * option exts)) (st : mfrec) : option mfrec :=
    match rs with
    | [] => Some st
    | r :: rest => match mf_round r st with Some st' => mf_rounds rest st' | None => None end
    end.

  (** [create_stub(record, manifest_file)].  [keep] = hand the extensions of the source
      manifest to the stub's own commit (repaired) or not (pinned). *)
  Definition create_stub_gen (keep : bool) (m : manifest) (next : N) : option mfrec :=
    let u := mf_ub m in
    let ub0 := Chain.MkUb (Chain.rec_id u) (Chain.idx u) (Chain.pid u) None None
                 (Some (Chain.MkExt true (mf_uuid m) 0)) in
    mf_commit true (if keep then Some (mf_exts m) else None)
      (MkRec (stub_stack (N.to_nat (Chain.idx u)) (fst <$> mf_skel m)) [ub0] None [None] next).

  Definition create_stub := create_stub_gen true.
  Definition create_stub_pinned := create_stub_gen false.

  (** Stub from the manifest, new patch on it, operations, commit. *)
  Definition stub_patch_gen (keep : bool) (m : manifest) (next : N)
      (r : list op * option exts) : option mfrec :=
    match create_stub_gen keep m next with
    | Some st0 => mf_round r st0
    | None => None
    end.

  Definition stub_patch := stub_patch_gen true.

  (** The newest container of [sp] (the patch made on the stub) opened together with the
      files of [real]. *)
  Definition graft_patch (real sp : mfrec) : option mfrec :=
    match r_stack sp, r_ubs sp, r_disk sp with
    | (_, P) :: _, u :: _, d :: _ =>
        Some (MkRec (apply_patch (r_stack real) P) (u :: r_ubs real) (r_mf sp)
                    (d :: r_disk real) (r_next sp))
    | _, _, _ => None
    end.

  (** The files of a record as [Rec/Chain.v] sees them, newest first. *)
  Fixpoint files_nf (R : stack) (us : list Chain.ublock) (ds : list (option manifest))
    : list Chain.file :=
    match R, us, ds with
    | (_, c) :: R', u :: us', d :: ds' =>
        Chain.MkFile u (Hp c) ((λ m, (mf_uuid m, H m)) <$> d) :: files_nf R' us' ds'
    | _, _, _ => []
    end.

  (** ... and oldest first. *)
  Definition files_of (st : mfrec) : list Chain.file :=
    rev (files_nf (r_stack st) (r_ubs st) (r_disk st)).

  (** What [C10_manifest_inv] demands of a committed record. *)
  Definition mf_linked (st : mfrec) : Prop :=
    match r_stack st, r_ubs st, r_mf st, r_disk st with
    | _ :: _, u :: _, Some m, d :: _ =>
        d = Some m ∧
        (∃ b, Chain.ext u = Some (Chain.MkExt b (mf_uuid m) (H m))) ∧
        ub_core (mf_ub m) = ub_core u ∧
        mf_skel m = skelx (r_stack st) ∧
        fst <$> mf_skel m = skel (viewmap (r_stack st))
    | _, _, _, _ => False
    end.
End Hashes.

(** ** Runner entry point.

    Case: [(rounds upd)], rounds = list of [(ops given)], upd = [(ops given)], given = [()]
    or [(text)].  Identifiers of the run: the counter starts at 1; the manifest digest of the
    runner is the manifest's own uuid (every manifest has a fresh one), the payload digest is
    not exhibited. *)

Definition sx_round (x : sx) : option (list op * option exts) :=
  match x with
  | L [o; g] =>
      match sx_map sx_op o, sx_opt sx_atom g with
      | Some ops, Some g => Some (List.filter (λ o, match o with OBoundary => false | _ => true end) ops, g)
      | _, _ => None
      end
  | _ => None
  end.

Definition of_kind (k : kind) : sx := A (match k with KGroup => "G" | KData => "D" end).

Definition of_skelx (s : gmap path (kind * nat)) : sx :=
  L (map (λ pe : path * (kind * nat), L [of_path pe.1; of_kind pe.2.1; of_nat pe.2.2])
       (map_to_list s)).

Definition of_ub (u : Chain.ublock) : sx :=
  L [of_N (Chain.rec_id u); of_N (Chain.idx u); of_N (Chain.pid u);
     of_opt of_N (Chain.prev u); of_bool (Chain.is_some (Chain.hash u));
     of_opt (λ e, L [of_bool (Chain.is_stub e); of_N (Chain.mf_id e); of_N (Chain.mf_hash e)])
       (Chain.ext u)].

Definition of_mf (m : manifest) : sx :=
  L [of_N (mf_uuid m); of_ub (mf_ub m); of_skelx (mf_skel m); A (mf_exts m)].

(** The same record with the identifier supply advanced (identifiers used elsewhere meanwhile). *)
Definition with_next (st : mfrec) (n : N) : mfrec :=
  MkRec (r_stack st) (r_ubs st) (r_mf st) (r_disk st) n.

Definition rH (m : manifest) : N := mf_uuid m.
Definition rHp (c : cont) : N := 0%N.

(** The state after every round (the manifest is read after every commit). *)
Fixpoint trace_rounds (rs : list (list op * option exts)) (st : mfrec) : list (option mfrec) :=
  match rs with
  | [] => []
  | r :: rest =>
      match mf_round rH rHp r st with
      | Some st' => Some st' :: trace_rounds rest st'
      | None => [None]
      end
  end.

Definition of_commit (st : mfrec) : sx :=
  L [of_opt of_mf (r_mf st);
     of_opt of_ub (head (r_ubs st));
     of_opt (of_opt (λ m, of_N (mf_uuid m))) (head (r_disk st));
     of_tree (viewmap (r_stack st))].

Definition of_open (fs : list Chain.file) : sx :=
  match Chain.open_res true false fs with
  | inl (e, pos) => L [A "err"; A (Chain.err_name e); of_N pos]
  | inr c => L [A "ok"; L (map (λ f, of_N (Chain.fpid f)) c)]
  end.

Definition of_conts (R : stack) : sx := L (map (λ ic : nat * cont, of_cont ic.2) (rev R)).

(** Second case form [(faults rounds)], rounds = list of [(ops given pending committed)]:
    [pending] / [committed] name operations issued before / after the commit of the round; the
    result says for each whether it took effect.  (Refused operations leave the state alone —
    [C10_refused_ops_frame] — so the main trace is not affected by them.) *)
Definition fault_of (s : string) : option mfop :=
  if String.eqb s "double_commit" then Some (MCommit None)
  else if String.eqb s "commit_kw" then Some MCommitKw
  else if String.eqb s "commit_ro" then Some MCommitRo
  else if String.eqb s "create_patch" then Some MCreatePatch
  else if String.eqb s "discard" then Some MDiscard
  else None.

Definition run_faults (st : mfrec) (fs : list string) : sx :=
  L (map (λ f, match fault_of f with
               | Some o => of_bool (mf_step rH rHp st o).2
               | None => A "?"
               end) fs).

Definition sx_fround (x : sx) : option ((list op * option exts) * (list string * list string)) :=
  match x with
  | L [o; g; p; c] =>
      match sx_round (L [o; g]), sx_strings p, sx_strings c with
      | Some r, Some p, Some c => Some (r, (p, c))
      | _, _, _ => None
      end
  | _ => None
  end.

Fixpoint trace_faults (rs : list ((list op * option exts) * (list string * list string)))
    (st : mfrec) : list sx :=
  match rs with
  | [] => []
  | (r, (p, c)) :: rest =>
      match (if committed st then mf_create_patch st else Some st) with
      | None => [A "stuck"]
      | Some st1 =>
          let st1' := mf_ops r.1 st1 in
          match mf_commit rH rHp false r.2 st1' with
          | None => [A "stuck"]
          | Some st2 => L [run_faults st1' p; run_faults st2 c] :: trace_faults rest st2
          end
      end
  end.

Definition run_c10 (x : sx) : sx :=
  match x with
  | L [A "faults"; rs] =>
      match sx_map sx_fround rs with
      | Some rounds => L (trace_faults rounds (mf_new 1))
      | None => sx_bad "c10 faults"
      end
  | L [rs; upd] =>
      match sx_map sx_round rs, sx_round upd with
      | Some rounds, Some u =>
          let tr := trace_rounds rounds (mf_new 1) in
          match mf_rounds rH rHp rounds (mf_new 1) with
          | None => L [A "refused"; L (map (of_opt of_commit) tr)]
          | Some real =>
              match r_mf real with
              | None => L [A "no-manifest"; L (map (of_opt of_commit) tr)]
              | Some m =>
                  let next := r_next real in
                  let stub := create_stub rH rHp m next in
                  let sp := stub_patch rH rHp m next u in
                  let sp_pinned := stub_patch_gen rH rHp false m next u in
                  let direct := mf_round rH rHp u
                                  (with_next real (match sp with Some s => r_next s | None => next end)) in
                  let grafted := match sp with Some s => graft_patch real s | None => None end in
                  let sk := fst <$> mf_skel m in
                  L [A "ok";
                     L (map (of_opt of_commit) tr);
                     of_conts (r_stack real);
                     (* the stub *)
                     of_opt (λ s, L [of_commit s; of_conts (r_stack s);
                                     of_bool (mf_can_merge s);
                                     of_bool (bool_decide
                                       (stub_build (N.to_nat (Chain.idx (mf_ub m)))
                                          (map (λ pe : path * (kind * nat), (pe.1, pe.2.1))
                                             (map_to_list (mf_skel m)))
                                        = r_stack s))]) stub;
                     (* the update made on the stub *)
                     of_opt (λ s, L [of_commit s; of_conts (r_stack s); of_bool (mf_can_merge s);
                                     L (map of_bool (results_from
                                          (m_boundary (stub_stack (N.to_nat (Chain.idx (mf_ub m))) sk))
                                          u.1));
                                     of_open (files_of rH rHp s)]) sp;
                     (* the same update made directly on the real record *)
                     of_opt (λ s, L [of_commit s; of_conts (r_stack s);
                                     L (map of_bool (results_from (m_boundary (r_stack real)) u.1))])
                       direct;
                     (* real files + the patch made on the stub *)
                     of_opt (λ s, L [of_commit s; of_open (files_of rH rHp s);
                                     of_bool (bool_decide (Some (r_stack s) = (r_stack <$> direct)))])
                       grafted;
                     (* extensions in the manifest of the stub-made patch: repaired / pinned *)
                     of_opt (λ s, of_opt (λ m, A (mf_exts m)) (r_mf s)) sp;
                     of_opt (λ s, of_opt (λ m, A (mf_exts m)) (r_mf s)) sp_pinned]
              end
          end
      | _, _ => sx_bad "c10"
      end
  | _ => sx_bad "c10"
  end.
