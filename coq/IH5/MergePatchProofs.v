(** * The patch container depends on the record only through its view (property C05).

    [step_top_view]: for two records in the simulation invariant with the SAME plain tree (equal
    views), equal newest containers and the same patch status, every operation — also copy and
    move, which read values through the view — writes the same newest container
    ("the top container written by [m_step] depends on the record only through its view").
    With [merge_view] this gives [patch_container_identical]: the same boundary-free operation
    list run after a boundary on the source and on the merged record writes identical patch
    containers, with identical outcomes.  The existence-based operations are covered by the
    twin lemmas of [IH5/StubProofs.v] (property C10) instantiated with equal trees; copy and
    move are added here. *)
From stdpp Require Import gmap strings list sorting.
From MV Require Import IH5.Overlay IH5.OverlayProofs IH5.Stub IH5.StubProofs.
From MV Require Import IH5.Merge IH5.MergeProofs.

(** Two records showing the same tree, with equal newest containers. *)
Definition VTwin (Ra Rb : stack) : Prop :=
  ∃ T, Sim Ra T ∧ Sim Rb T ∧ top_cont Ra = top_cont Rb ∧ is_patch Ra = is_patch Rb.

Lemma same_kstat Ra Rb T : Rel Ra T → Rel Rb T → ∀ p, kstat Ra p = kstat Rb p.
Proof. intros HA HB. by apply (rel_kstat Ra Rb T T). Qed.

Definition opt_top (ma mb : option stack) : Prop :=
  match ma, mb with
  | Some Ra1, Some Rb1 => top_cont Ra1 = top_cont Rb1
  | None, None => True
  | _, _ => False
  end.

Lemma copy_twin Ra Rb T (src dst : path) :
  Sim Ra T → Sim Rb T → top_cont Ra = top_cont Rb → is_patch Ra = is_patch Rb →
  is_node_path dst = true →
  opt_top (m_copy Ra src dst) (m_copy Rb src dst).
Proof.
  intros HSa HSb Htop Hpat Hnd.
  pose proof (viewmap_eq _ _ HSa) as Hva. pose proof (viewmap_eq _ _ HSb) as Hvb.
  destruct HSa as (HIa & HRa & _), HSb as (HIb & HRb & _).
  pose proof (same_kstat _ _ _ HRa HRb) as Hk.
  unfold m_copy, opt_top. rewrite Hva, Hvb.
  destruct src as [|ss spar]; [done|]. destruct dst as [|sd dpar]; [done|].
  pose proof (kstat_cases _ _ _ (Hk (ss :: spar))) as Hs.
  pose proof (kstat_cases _ _ _ (Hk (sd :: dpar))) as Hd.
  destruct (status Ra (ss :: spar)) as [[i ea]|], (status Rb (ss :: spar)) as [[j eb]|];
    try done; [|by destruct ea].
  destruct (status Ra (sd :: dpar)) as [[i' ea']|], (status Rb (sd :: dpar)) as [[j' eb']|];
    try done; try (by destruct ea'); try (by destruct ea, eb).
  set (deepa := match ea with RGroup _ => true | _ => false end).
  set (deepb := match eb with RGroup _ => true | _ => false end).
  assert (deepa = deepb) as Hdeep by (by destruct ea, eb).
  rewrite <-Hdeep.
  pose proof (mkgroups_twin deepa dpar (node_path_tail _ _ Hnd) Ra Rb T T
                HIa HRa HIb HRb eq_refl Htop Hpat) as H.
  destruct (m_mkgroups deepa Ra dpar) as [[Ra1 ca]|] eqn:Hma,
           (m_mkgroups deepa Rb dpar) as [[Rb1 cb]|] eqn:Hmb; try done.
  destruct H as [_ H].
  pose proof (mkgroups_shape _ _ _ _ _ Hma) as Sa. pose proof (mkgroups_shape _ _ _ _ _ Hmb) as Sb.
  assert (Ra ≠ []) as Hna by (by destruct HIa). assert (Rb ≠ []) as Hnb by (by destruct HIb).
  rewrite (is_patch_shape Ra Ra1), (is_patch_shape Rb Rb1), Hpat by done.
  destruct Sa as (_ & _ & Sa), Sb as (_ & _ & Sb).
  rewrite !top_cont_with_top by auto. by rewrite H.
Qed.

Lemma pack_top' (Ra Rb : stack) (ma mb : option stack) :
  top_cont Ra = top_cont Rb → opt_top ma mb →
  top_cont (match ma with Some R' => (R', true) | None => (Ra, false) end).1 =
  top_cont (match mb with Some R' => (R', true) | None => (Rb, false) end).1.
Proof. destruct ma, mb; done. Qed.

(** One step: the newest container written depends on the record only through its view. *)
Lemma step_top_view Ra Rb T o :
  Sim Ra T → Sim Rb T → top_cont Ra = top_cont Rb → is_patch Ra = is_patch Rb → nb_op o →
  top_cont (m_step Ra o).1 = top_cont (m_step Rb o).1.
Proof.
  intros HSa HSb Htop Hpat Ho.
  destruct o as [q|q v|q|p k v|p k|s d|s d|]; try (by apply (step_top Ra Rb T T)).
  - unfold m_step. apply pack_top'; [done|].
    destruct (is_node_path s); [|done]. destruct (is_node_path d) eqn:Hd; [|done]. cbn [andb].
    by eapply copy_twin.
  - unfold m_step. apply pack_top'; [done|].
    destruct (is_node_path s) eqn:Hs; [|done]. destruct (is_node_path d) eqn:Hd; [|done]. cbn [andb].
    unfold m_move. case_decide; [done|].
    pose proof (copy_twin Ra Rb T s d HSa HSb Htop Hpat Hd) as Hc.
    pose proof (copy_refines Ra T s d HSa Hs Hd) as Hra.
    pose proof (copy_refines Rb T s d HSb Hs Hd) as Hrb.
    destruct (m_copy Ra s d) as [Ra1|] eqn:Hca, (m_copy Rb s d) as [Rb1|] eqn:Hcb; try done.
    destruct (t_copy T s d) as [T1|]; [|done]. cbn in Hc, Hra, Hrb.
    assert (Ra ≠ []) as Hna by (by destruct HSa as [[? _] _]).
    assert (Rb ≠ []) as Hnb by (by destruct HSb as [[? _] _]).
    apply delete_twin.
    + by destruct Hra as [[? _] _].
    + by destruct Hrb as [[? _] _].
    + apply (same_kstat Ra1 Rb1 T1); [apply Hra|apply Hrb].
    + done.
    + rewrite (is_patch_shape Ra Ra1), (is_patch_shape Rb Rb1); [done|done| |done|].
      all: by eapply copy_shape.
Qed.

Lemma step_vtwin Ra Rb o :
  VTwin Ra Rb → nb_op o →
  VTwin (m_step Ra o).1 (m_step Rb o).1 ∧ (m_step Ra o).2 = (m_step Rb o).2.
Proof.
  intros (T & HSa & HSb & Htop & Hpat) Ho.
  destruct (step_refines Ra T o HSa) as [HSa' Hra].
  destruct (step_refines Rb T o HSb) as [HSb' Hrb].
  split; [|congruence]. exists (t_step T o).1.
  split; [done|]. split; [done|]. split; [by eapply step_top_view|].
  rewrite (is_patch_shape Ra (m_step Ra o).1), (is_patch_shape Rb (m_step Rb o).1); [done| | | |].
  - by destruct HSb as [[? _] _]. - by apply step_shape_nb.
  - by destruct HSa as [[? _] _]. - by apply step_shape_nb.
Qed.

Lemma run_vtwin ops : Forall nb_op ops → ∀ Ra Rb, VTwin Ra Rb →
  VTwin (run_from Ra ops) (run_from Rb ops) ∧ results_from Ra ops = results_from Rb ops.
Proof.
  induction 1 as [|o ops Ho _ IH]; intros Ra Rb HT; [done|].
  cbn [run_from foldl results_from]. destruct (step_vtwin Ra Rb o HT Ho) as [HT' Hr].
  destruct (IH _ _ HT') as [H1 H2]. split; [done|]. by rewrite Hr, H2.
Qed.

(** Any two records with the same view: after a boundary, the same operations write the same
    patch container with the same outcomes. *)
Lemma patch_depends_on_view R1 R2 ops :
  Inv R1 → Inv R2 → (∀ p, vget R2 p = vget R1 p) → Forall nb_op ops →
  patch_on R1 ops = patch_on R2 ops ∧
  results_from (m_boundary R1) ops = results_from (m_boundary R2) ops.
Proof.
  intros H1 H2 Hv Hops.
  pose proof (Inv_Sim_viewmap R1 H1) as S1.
  assert (Sim R2 (viewmap R1)) as S2.
  { split; [done|]. split; [|apply S1]. intros p. rewrite Hv. apply S1. }
  assert (VTwin (m_boundary R1) (m_boundary R2)) as HT.
  { exists (viewmap R1). split; [by apply boundary_refines|]. split; [by apply boundary_refines|].
    split; [done|]. destruct H1 as [H1 _], H2 as [H2 _]. by destruct R1, R2. }
  destruct (run_vtwin ops Hops _ _ HT) as [(T & _ & _ & Ht & _) Hr]. done.
Qed.

(** The patch written on the merged record is the patch written on the source. *)
Lemma patch_container_identical R ops :
  Inv R → Forall nb_op ops →
  patch_on (m_merge R) ops = patch_on R ops ∧
  results_from (m_boundary (m_merge R)) ops = results_from (m_boundary R) ops ∧
  run_from (m_boundary (m_merge R)) ops = (1, patch_on R ops) :: m_merge R ∧
  run_from (m_boundary R) ops = (S (top_idx R), patch_on R ops) :: R.
Proof.
  intros HI Hops.
  destruct (patch_depends_on_view R (m_merge R) ops HI (merge_inv R HI) (merge_view R HI) Hops)
    as [HP Hr].
  split; [done|]. split; [done|]. split.
  - destruct (run_shape_nb ops Hops (m_boundary (m_merge R))) as (Ht & Hi & Hne).
    rewrite (stack_eta (run_from (m_boundary (m_merge R)) ops)) by (by apply Hne).
    rewrite Ht, Hi. fold (patch_on (m_merge R) ops). by rewrite <-HP.
  - destruct (run_shape_nb ops Hops (m_boundary R)) as (Ht & Hi & Hne).
    rewrite (stack_eta (run_from (m_boundary R) ops)) by (by apply Hne).
    by rewrite Ht, Hi.
Qed.

(** ** The walk of the code ([preorder]) is parents-first *)

Lemma lexb_refl a : lexb a a = true.
Proof. induction a as [|x a IH]; [done|]. cbn [lexb app]. by rewrite Nat.ltb_irrefl. Qed.

Lemma lexb_total a : ∀ b, lexb a b = true ∨ lexb b a = true.
Proof.
  induction a as [|x a IH]; intros [|y b]; cbn [lexb]; auto.
  destruct (x <? y) eqn:H1; [auto|]. destruct (y <? x) eqn:H2; [auto|]. apply IH.
Qed.

Lemma lexb_trans a : ∀ b c, lexb a b = true → lexb b c = true → lexb a c = true.
Proof.
  induction a as [|x a IH]; intros [|y b] [|z c]; cbn [lexb]; try done.
  destruct (x <? y) eqn:H1.
  - apply Nat.ltb_lt in H1. intros _. destruct (y <? z) eqn:H2.
    + apply Nat.ltb_lt in H2. intros _. assert (x <? z = true) as -> by (apply Nat.ltb_lt; lia). done.
    + destruct (z <? y) eqn:H3; [done|]. apply Nat.ltb_ge in H2, H3.
      intros _. assert (x <? z = true) as -> by (apply Nat.ltb_lt; lia). done.
  - destruct (y <? x) eqn:H1'; [done|]. apply Nat.ltb_ge in H1, H1'. assert (x = y) as -> by lia.
    intros Hab. destruct (y <? z); [done|]. destruct (z <? y); [done|]. by apply IH.
Qed.

Lemma lexb_antisym a : ∀ b, lexb a b = true → lexb b a = true → a = b.
Proof.
  induction a as [|x a IH]; intros [|y b]; cbn [lexb]; try done.
  destruct (x <? y) eqn:H1, (y <? x) eqn:H2; try done.
  - apply Nat.ltb_lt in H1, H2. lia.
  - apply Nat.ltb_ge in H1, H2. assert (x = y) as -> by lia. intros ? ?. f_equal. by apply IH.
Qed.

Lemma lexb_prefix a b : lexb a (a ++ b) = true.
Proof. induction a as [|x a IH]; [done|]. cbn [lexb app]. by rewrite Nat.ltb_irrefl. Qed.

Lemma pkey_cons s (par : path) : pkey (s :: par) = pkey par ++ enc_seg s.
Proof. unfold pkey. rewrite reverse_cons, flat_map_app. cbn. by rewrite app_nil_r. Qed.

Global Instance pre_le_trans : Transitive pre_le.
Proof. intros a b c. unfold pre_le. apply lexb_trans. Qed.
Global Instance pre_le_total : Total pre_le.
Proof. intros a b. unfold pre_le. apply lexb_total. Qed.

(** A node never sorts before its parent. *)
Lemma pre_le_parent s (par : path) e e' : ¬ pre_le (s :: par, e) (par, e').
Proof.
  unfold pre_le. cbn [fst]. rewrite pkey_cons. intros H.
  pose proof (lexb_antisym _ _ H (lexb_prefix _ _)) as Heq.
  apply (f_equal length) in Heq. rewrite app_length in Heq. cbn in Heq. lia.
Qed.

Lemma sorted_pfirst_gen (Rl : relation (path * tentry)) (T : tree) :
  (∀ s par e e', ¬ Rl (s :: par, e) (par, e')) → treeish T →
  ∀ l acc, acc ++ l ≡ₚ map_to_list T → StronglySorted Rl l → pfirst acc l.
Proof.
  intros HR HT. induction l as [|[q e] l IH]; intros acc Hperm Hs; [done|].
  apply StronglySorted_inv in Hs as [Hs Hall]. split.
  - assert (T !! q = Some e) as Hq.
    { apply elem_of_map_to_list. rewrite <-Hperm. apply elem_of_app. right. by left. }
    unfold parent_in. cbn. destruct q as [|s [|s' par']]; [destruct HT as [? _]; congruence|done|].
    destruct (proj2 HT _ _ _ Hq) as (ep & Hep & _). cbn [tget] in Hep.
    apply elem_of_map_to_list in Hep. rewrite <-Hperm in Hep.
    apply elem_of_app in Hep as [Hin|Hin].
    + apply elem_of_list_fmap. by exists (s' :: par', ep).
    + apply elem_of_cons in Hin as [[= _ Heq _]|Hin].
      * apply (f_equal length) in Heq. cbn in Heq. lia.
      * rewrite Forall_forall in Hall. specialize (Hall _ Hin). by apply HR in Hall.
  - apply IH; [by rewrite <-app_assoc|done].
Qed.

Lemma preorder_pfirst (T : tree) : treeish T → pfirst [] (preorder T).
Proof.
  intros HT. apply (sorted_pfirst_gen pre_le T); [apply pre_le_parent|done| |].
  - cbn. unfold preorder. apply merge_sort_Permutation.
  - unfold preorder. apply StronglySorted_merge_sort; apply _.
Qed.

(** The construction in the order of the code yields the merged container. *)
Lemma build_preorder R : Inv R → attrs_data (viewmap R) →
  m_merge_preorder R = Some (m_merge R).
Proof.
  intros HI Ha. unfold m_merge_preorder, m_merge. pose proof (viewmap_treeish R HI) as HT.
  apply build_any_order; [done|done| |by apply preorder_pfirst].
  unfold preorder. apply merge_sort_Permutation.
Qed.

Lemma build_preorder_run ops : m_merge_preorder (run_m ops) = Some (m_merge (run_m ops)).
Proof.
  destruct (transparent ops) as (HI & _ & Hv & _). apply build_preorder; [done|].
  rewrite Hv. apply attrs_run.
Qed.

(** The walk really is the order described: attributes of a node first, a name before its
    extensions, a node before its descendants, siblings by name. *)
Local Open Scope string_scope.
Lemma preorder_example :
  (preorder (run_t [ OData [(false, "x"); (false, "run10"); (false, "data")] "i:1";
                     OGroup [(false, "run1"); (false, "data")];
                     OAttrSet [(false, "data")] "k" "i:2"; OAttrSet [] "z" "i:3";
                     OData [(false, "b")] "i:4" ])).*1
  = [ [(true, "z")]; [(false, "b")]; [(false, "data")]; [(true, "k"); (false, "data")];
      [(false, "run1"); (false, "data")]; [(false, "run10"); (false, "data")];
      [(false, "x"); (false, "run10"); (false, "data")] ].
Proof. by vm_compute. Qed.
