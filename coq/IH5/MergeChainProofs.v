(** * User-block part of the merge model ([IH5/Merge.v]), property C05: the merged file
    continues the patch chain ([Rec/Chain.v] [chain_ok]), frame and refusal of [merge_files],
    refutation of the pinned behaviour.  Plain Coq lists (as [Rec/ChainProofs.v]). *)
From Coq Require Import List NArith Bool Lia.
From MV Require Import Rec.Chain Rec.ChainProofs IH5.Overlay IH5.Merge.
Import ListNotations.
Local Open Scope N_scope.

(** ** User blocks: the merged container continues the chain *)

Lemma last_app_one {X} (l : list X) (x d : X) : List.last (l ++ [x]) d = x.
Proof. induction l as [|a l IH]; [reflexivity|]. simpl. destruct (l ++ [x]) eqn:E; [destruct l; discriminate|exact IH]. Qed.

Lemma split_last {X} (l : list X) (d : X) : l <> [] -> exists l', l = l' ++ [List.last l d].
Proof.
  intros H. destruct (exists_last H) as (l' & a & ->). exists l'. now rewrite last_app_one.
Qed.

Lemma nodup_app_r {X} (l1 l2 : list X) : NoDup (l1 ++ l2) -> NoDup l2.
Proof. induction l1 as [|a l1 IH]; [auto|]. simpl. inversion 1; auto. Qed.

Lemma merged_file_inv d c f :
  merged_file d c = Some f ->
  exists b r l n, c = b :: r /\ c = l ++ [n] /\
    f = MkFile (merged_ub d (ub b) (ub n)) d (mf n).
Proof.
  destruct c as [|b r]; [discriminate|]. intros [= <-].
  destruct (split_last (b :: r) b) as [l Hl]; [discriminate|].
  exists b, r, l, (List.last (b :: r) b). auto.
Qed.

Lemma in_base_or_rest {X} (b : X) r l n : b :: r = l ++ [n] -> n = b \/ In n r.
Proof.
  intros H. assert (In n (b :: r)) as [->|?] by (rewrite H; apply in_or_app; right; now left); auto.
Qed.

(** If the source files followed by a further patch file form a valid chain, so do the merged
    file and that patch file. *)
Lemma merged_chain mfm bl d c fP f :
  merged_file d c = Some f -> chain_ok mfm bl (c ++ [fP]) -> chain_ok mfm bl [f; fP].
Proof.
  intros Hm [Hbase Hlink Hnd Hcommit].
  destruct (merged_file_inv _ _ _ Hm) as (b & r & l & n & Hc & Hl & ->).
  destruct Hbase as (b' & ps & Hbp & Hprev & Hrec & Hstub).
  rewrite Hc in Hbp. simpl in Hbp. injection Hbp as <- <-.
  assert (frec n = frec b) as Hn.
  { rewrite Hc in Hl. destruct (in_base_or_rest _ _ _ _ Hl) as [->|Hin]; [reflexivity|].
    rewrite Forall_forall in Hrec. apply Hrec. apply in_or_app. now left. }
  constructor.
  - exists (MkFile (merged_ub d (ub b) (ub n)) d (mf n)), [fP]. split; [reflexivity|]. split; [exact Hprev|]. split.
    + constructor; [|constructor]. rewrite Forall_forall in Hrec.
      unfold frec at 2. simpl. fold (frec n). rewrite Hn. apply Hrec. apply in_or_app. right. now left.
    + intros Hm'. specialize (Hstub Hm'). rewrite Forall_forall in Hstub |- *.
      intros x [<-|[]]. apply Hstub. apply in_or_app. right. now left.
  - rewrite Hl, <-app_assoc in Hlink. simpl in Hlink.
    apply linked_app_mid in Hlink as [Hi Hp]. constructor; [exact Hi|exact Hp|constructor].
  - rewrite Hl, <-app_assoc, map_app in Hnd. apply nodup_app_r in Hnd. exact Hnd.
  - destruct Hcommit as (l0 & n0 & Heq & Hint & Hnew & Hmf).
    apply app_inj_tail in Heq as [_ <-].
    exists [MkFile (merged_ub d (ub b) (ub n)) d (mf n)], fP. split; [reflexivity|]. split; [|auto].
    constructor; [reflexivity|constructor].
Qed.

(** The merged file alone is a valid (committed) record. *)
Lemma merged_alone_ok mfm bl d c f :
  merged_file d c = Some f -> chain_ok mfm bl c -> chain_ok mfm bl [f].
Proof.
  intros Hm [Hbase Hlink Hnd Hcommit].
  destruct (merged_file_inv _ _ _ Hm) as (b & r & l & n & Hc & Hl & ->).
  destruct Hbase as (b' & ps & Hbp & Hprev & Hrec & Hstub).
  rewrite Hc in Hbp. injection Hbp as <- <-.
  constructor.
  - eexists _, []. split; [reflexivity|]. split; [exact Hprev|]. split; [constructor|]. intros _. constructor.
  - constructor.
  - constructor; [intros []|constructor].
  - destruct Hcommit as (l0 & n0 & Heq & Hint & Hnew & Hmf).
    rewrite Hl in Heq. apply app_inj_tail in Heq as [_ <-].
    eexists [], _. split; [reflexivity|]. split; [constructor|]. split; [right; reflexivity|].
    intros Hm' e He. exact (Hmf Hm' e He).
Qed.

(** Identity of the merged block. *)
Lemma merged_identity d c f :
  merged_file d c = Some f ->
  exists b r l n, c = b :: r /\ c = l ++ [n] /\
    frec f = frec n /\ fidx f = fidx n /\ fpid f = fpid n /\ fext f = fext n /\
    fprev f = fprev b /\ fhash f = Some d /\ dig f = d /\ mf f = mf n.
Proof.
  intros Hm. destruct (merged_file_inv _ _ _ Hm) as (b & r & l & n & Hc & Hl & ->).
  exists b, r, l, n. repeat split; assumption.
Qed.

(** Frame and refusal. *)
Lemma merge_frame mfm d S S' M f : merge_files mfm d S = MOk S' M f -> S' = S /\ M = m_merge (rs_stack S).
Proof.
  unfold merge_files. destruct (mfm && has_stub (rs_files S)); [discriminate|].
  destruct (rs_writable S); [discriminate|]. destruct (merged_file d (rs_files S)); [|discriminate].
  intros [= <- <- _]. auto.
Qed.

Lemma merge_refused mfm d S :
  rs_writable S = true \/ (mfm = true /\ exists f, In f (rs_files S) /\ stub_marked f = true) ->
  forall S' M f, merge_files mfm d S <> MOk S' M f.
Proof.
  intros H S' M f. unfold merge_files.
  destruct (mfm && has_stub (rs_files S)) eqn:Hs; [discriminate|].
  destruct (rs_writable S) eqn:Hw; [discriminate|].
  destruct H as [H|(-> & x & Hin & Hx)]; [discriminate|].
  simpl in Hs. unfold has_stub in Hs.
  assert (existsb stub_marked (rs_files S) = true) as E by (apply existsb_exists; eauto).
  congruence.
Qed.

Lemma merge_accepts mfm d S :
  rs_writable S = false -> rs_files S <> [] -> (mfm = true -> Forall not_stub (rs_files S)) ->
  exists f, merged_file d (rs_files S) = Some f /\ merge_files mfm d S = MOk S (m_merge (rs_stack S)) f.
Proof.
  intros Hw Hne Hst. unfold merge_files. rewrite Hw.
  assert (mfm && has_stub (rs_files S) = false) as ->.
  { destruct mfm; [|reflexivity]. simpl. unfold has_stub.
    destruct (existsb stub_marked (rs_files S)) eqn:E; [|reflexivity].
    apply existsb_exists in E as (x & Hin & Hx). specialize (Hst eq_refl).
    rewrite Forall_forall in Hst. apply Hst in Hin. apply stub_marked_false in Hin. congruence. }
  destruct (rs_files S) as [|b r] eqn:Hf; [congruence|]. simpl. eauto.
Qed.

(** The pinned behaviour changes the source state. *)
Definition ub0 : ublock := MkUb 1 0 10 None (Some 100) None.
Definition ub1 : ublock := MkUb 1 1 11 (Some 10) (Some 101) None.
Definition src_ex : rstate :=
  MkRs [] [MkFile ub0 100 None; MkFile ub1 101 None] false.

Lemma merge_pinned_refuted :
  exists mfm d S S' M f, merge_files_pinned mfm d S = MOk S' M f /\ rs_files S' <> rs_files S.
Proof.
  exists false, 102, src_ex. eexists _, _, _. split; [reflexivity|]. simpl. discriminate.
Qed.

(** The pinned [IH5MFRecord.commit_patch]: a refused commit leaves a manifest link in the
    source block which the following merge writes into the merged file; that file is not
    accepted as a record (the real code trips an assertion after creating the target). *)
Definition f_mf : file :=
  MkFile (MkUb 1 0 10 None (Some 100) (Some (MkExt false 50 500))) 100 (Some (50, 500)).

Lemma refused_commit_pinned_refuted :
  exists S o S' M f,
    checks true false (rs_files S) = None /\ rstep true false S o = None /\
    merge_files true 200 (rapply_pinned true false S o) = MOk S' M f /\
    checks true false [f] <> None /\
    (exists S2 M2 f2, merge_files true 200 (rapply true false S o) = MOk S2 M2 f2 /\
                      checks true false [f2] = None).
Proof.
  exists (MkRs [] [f_mf] false), (RCommit 51 501). eexists _, _, _.
  split; [reflexivity|]. split; [reflexivity|]. split; [reflexivity|].
  split; [vm_compute; discriminate|]. eexists _, _, _. split; reflexivity.
Qed.
