(** * Proofs about the merge model ([IH5/Merge.v]), property C05.

    - [merge_view]: the merged container shows exactly the overlay view of the source;
    - [merge_inv], [merge_sim]: it is a well-formed record, simulated by the same plain tree;
    - [continues_gen] / [merge_continues]: any patch container that is a legal newest container
      of the source ([Inv ((n, P) :: R)]) gives the same view when stacked on the merged
      container (as container 1) as on the source;
    - [ops_continue], [patch_transplant]: the same for patches produced by operation lists;
    - [build_any_order], [build_eq]: the fold of create operations over any parents-first
      enumeration of the view yields exactly [m_merge R];
    - user blocks: [merged_chain], [merged_alone_ok], frame and refusal lemmas, and the
      refutation of the pinned behaviour. *)
From stdpp Require Import gmap strings list sorting.
From MV Require Import IH5.Overlay IH5.OverlayProofs IH5.Merge.

(** ** A single base container *)

Lemma holds_erase (par : path) e e' s (i i' : nat) :
  erase (Some (i, e)) = erase (Some (i', e')) → holds par e s = holds par e' s.
Proof. destruct e, e'; cbn; try done; destruct par as [|[[] ?] ?]; done. Qed.

Lemma single_status (E : cont) s (par : path) :
  status [(0, E)] (s :: par) =
    match status [(0, E)] par with
    | Some (lb, e) => if holds par e s then post ((λ e, (0, e)) <$> E !! (s :: par)) else None
    | None => None
    end.
Proof.
  rewrite status_cons. destruct (status [(0, E)] par) as [[lb e]|] eqn:Hp; [|done].
  assert (lb ≤ 0) by (eapply status_le; [|exact Hp]; constructor).
  rewrite above_cons. case_decide; [|lia]. cbn [above filter]. by rewrite scan_single.
Qed.

Lemma export_lookup (T : tree) (x : path) : export T !! x = to_raw false <$> T !! x.
Proof. unfold export. by rewrite lookup_fmap. Qed.

(** [E] shows the view of [R]. *)
Definition shows (E : cont) (R : stack) : Prop :=
  ∀ x, x ≠ [] → E !! x = to_raw false <$> vget R x.

Lemma export_shows R : wf_stack R → shows (export (viewmap R)) R.
Proof.
  intros Hwf x Hx. rewrite export_lookup, viewmap_lookup by done. by destruct x.
Qed.

Lemma erase_post_raw (te : option tentry) :
  erase (post ((λ e, (0, e)) <$> (to_raw false <$> te))) = te.
Proof. by destruct te as [[v|]|]. Qed.

Lemma shows_view (E : cont) R : shows E R → ∀ x, vget [(0, E)] x = vget R x.
Proof.
  intros HE. induction x as [|s par IH]; [done|]. unfold vget in *.
  rewrite single_status.
  destruct (status [(0, E)] par) as [[lb e]|] eqn:HM.
  - destruct (status R par) as [[lb' e']|] eqn:HR.
    + rewrite (holds_erase par e e' s lb lb' IH). rewrite (status_cons R), HR.
      destruct (holds par e' s) eqn:Hh; [|done].
      rewrite HE by done. unfold vget. rewrite status_cons, HR, Hh. apply erase_post_raw.
    + destruct e; cbn in IH; try done. by apply status_not_del in HM.
  - symmetry in IH. apply status_erase_None in IH. by rewrite (status_cons R), IH.
Qed.

Lemma merge_view R : Inv R → ∀ p, vget (m_merge R) p = vget R p.
Proof. intros [_ Hwf]. apply shows_view. by apply export_shows. Qed.

Lemma shows_inv (E : cont) R : shows E R → E !! [] = None → Inv [(0, E)].
Proof.
  intros HE Hroot. split; [done|]. split; [|done]. split; [constructor|]. split; [done|].
  intros p e Hp Hne. destruct p as [|s par]; [congruence|].
  pose proof (shows_view E R HE (s :: par)) as Hv. unfold vget in Hv.
  rewrite HE in Hp by done. destruct (vget R (s :: par)) as [te|] eqn:Hte; [|done].
  unfold vget in Hte. rewrite Hte in Hv. by destruct (status [(0, E)] (s :: par)).
Qed.

Lemma merge_inv R : Inv R → Inv (m_merge R).
Proof.
  intros [_ Hwf]. eapply shows_inv; [by apply export_shows|].
  by rewrite export_lookup, viewmap_lookup.
Qed.

Lemma merge_sim R T : Sim R T → Sim (m_merge R) T.
Proof.
  intros (HI & HR & Hroot). split; [by apply merge_inv|]. split; [|done].
  intros p. rewrite merge_view by done. apply HR.
Qed.

(** ** A later patch container on top *)

Lemma scan_lt (l : stack) (n : nat) p i e : idx_lt n l → scan l p = Some (i, e) → i < n.
Proof.
  induction 1 as [|[j c] l Hj _ IH]; cbn [scan]; [done|]. cbn in Hj.
  destruct (c !! p) as [[| |[]]|]; try (intros [= <- _]; done); [|done].
  destruct (scan l p) as [[i' e']|]; [|intros [= <- _]; done].
  intros [= -> ->]. by apply IH.
Qed.

(** A status with creation index below the newest container does not depend on it. *)
Lemma status_below (n : nat) (P : cont) (R : stack) x lb e :
  idx_lt n R → status ((n, P) :: R) x = Some (lb, e) → lb < n → status R x = Some (lb, e).
Proof.
  intros Hs. revert lb e. induction x as [|s par IH]; intros lb e; [done|].
  rewrite !status_cons.
  destruct (status ((n, P) :: R) par) as [[lb0 e0]|] eqn:Hp; [|done].
  destruct (holds par e0 s) eqn:Hh; [|done]. intros [Hsc Hne]%post_Some Hlt.
  pose proof (scan_ge _ _ _ _ _ Hsc) as Hge.
  rewrite (IH lb0 e0) by (done || lia). rewrite Hh.
  rewrite above_cons in Hsc. case_decide; [|lia]. cbn [scan] in Hsc.
  destruct (P !! (s :: par)) as [[| |[]]|].
  - injection Hsc as <- _. lia.
  - injection Hsc as <- _. lia.
  - injection Hsc as <- _. lia.
  - destruct (scan (above lb0 R) (s :: par)) as [r|].
    + injection Hsc as ->. by destruct e.
    + injection Hsc as <- _. lia.
  - rewrite Hsc. by destruct e.
Qed.

(** Corresponding statuses on the source with patch [n] and on the merged container with the
    same patch as container [k]: same visible entry, created by the patch on both sides or
    below it on both sides. *)
Definition corr (n k : nat) (r r' : option (nat * rentry)) : Prop :=
  match r, r' with
  | None, None => True
  | Some (i, e), Some (i', e') =>
      erase (Some (i, e)) = erase (Some (i', e')) ∧ ((i = n ∧ i' = k) ∨ (i < n ∧ i' = 0))
  | _, _ => False
  end.

Lemma continues_corr (n k : nat) (P E : cont) (R : stack) :
  top_ok n P R → 0 < n → 0 < k → shows E R →
  ∀ x, corr n k (status ((n, P) :: R) x) (status ((k, P) :: [(0, E)]) x).
Proof.
  intros (Hs & _ & Hvis) Hn Hk HE. induction x as [|s par IH].
  { cbn. split; [done|]. right. done. }
  pose proof (Hvis (s :: par)) as Hv.
  rewrite status_cons in Hv. rewrite !status_cons.
  destruct (status ((n, P) :: R) par) as [[lb e]|] eqn:HS,
           (status ((k, P) :: [(0, E)]) par) as [[lb' e']|] eqn:HM; cbn in IH; try done.
  destruct IH as [Her Hidx]. rewrite <-(holds_erase par e e' s lb lb' Her).
  destruct (holds par e s) eqn:Hh; [|done].
  destruct Hidx as [[-> ->]|[Hlt ->]].
  - rewrite !above_cons. rewrite (above_idx_lt n R) by done.
    case_decide; [|lia]. case_decide; [|lia]. case_decide; [lia|]. cbn [above filter].
    rewrite !scan_single. destruct (P !! (s :: par)) as [[| |b]|]; cbn; try done.
    all: split; [done|by left].
  - pose proof (status_below n P R par lb e Hs HS Hlt) as HR.
    assert (HEx : E !! (s :: par) =
              to_raw false <$> erase (post (scan (above lb R) (s :: par)))).
    { rewrite HE by done. unfold vget. by rewrite status_cons, HR, Hh. }
    rewrite above_cons in Hv |- *. case_decide; [|lia].
    rewrite !above_cons. case_decide; [|lia]. case_decide; [|lia]. cbn [above filter].
    cbn [scan] in Hv |- *. rewrite HEx.
    destruct (scan (above lb R) (s :: par)) as [[i er]|] eqn:Hsc.
    + pose proof (scan_lt _ n _ _ _ (above_Forall _ lb R Hs) Hsc) as Hi.
      destruct (P !! (s :: par)) as [[| |[]]|] eqn:HP; cbn.
      * done.
      * split; [done|by left].
      * split; [done|by left].
      * destruct er as [|v|b]; cbn.
        -- destruct (Hv _ eq_refl) as [? Hc]; done.
        -- split; [done|by right].
        -- split; [done|by right].
      * destruct er as [|v|b]; cbn; try done; split; try done; by right.
    + destruct (P !! (s :: par)) as [[| |[]]|] eqn:HP; cbn; try done.
      all: split; [done|by left].
Qed.

Lemma corr_erase (n k : nat) r r' : corr n k r r' → erase r' = erase r.
Proof. destruct r as [[i e]|], r' as [[i' e']|]; cbn; try done. by intros [-> _]. Qed.

Lemma continues_gen (n k : nat) (P E : cont) (R : stack) :
  top_ok n P R → 0 < n → 0 < k → shows E R →
  ∀ x, vget ((k, P) :: [(0, E)]) x = vget ((n, P) :: R) x.
Proof.
  intros Htop Hn Hk HE x. unfold vget. eapply corr_erase. by apply continues_corr.
Qed.

Lemma Inv_top_pos (n : nat) (P : cont) (R : stack) : Inv ((n, P) :: R) → R ≠ [] → 0 < n.
Proof.
  intros [_ [(Hs & _) _]] HR. destruct R as [|[j c] R]; [done|].
  apply Forall_cons in Hs as [Hj _]. cbn in Hj. lia.
Qed.

Lemma merge_continues (n k : nat) (P : cont) (R : stack) :
  Inv ((n, P) :: R) → R ≠ [] → 0 < k →
  ∀ p, vget ((k, P) :: m_merge R) p = vget ((n, P) :: R) p.
Proof.
  intros HI HR Hk. pose proof (Inv_top_pos _ _ _ HI HR) as Hn.
  destruct HI as [_ [Htop Hwf]]. apply continues_gen; try done. by apply export_shows.
Qed.

(** The stacked record is again a well-formed record. *)
Lemma merge_continues_inv (n k : nat) (P : cont) (R : stack) :
  Inv ((n, P) :: R) → R ≠ [] → 0 < k → Inv ((k, P) :: m_merge R).
Proof.
  intros HI HR Hk. pose proof (merge_continues n k P R HI HR Hk) as Hv.
  assert (Inv R) as HIR by (split; [done|]; by destruct HI as [_ [_ ?]]).
  pose proof (merge_inv R HIR) as [_ Hwm].
  destruct HI as [_ [(Hs & Hroot & Hvis) Hwf]].
  split; [done|]. split; [|done]. split.
  { unfold m_merge. constructor; [cbn; lia|constructor]. }
  split; [done|]. intros p e Hp Hne. specialize (Hvis p e Hp Hne). specialize (Hv p).
  unfold vget in Hv. destruct Hvis as [[i e0] Hst]. rewrite Hst in Hv.
  destruct (status ((k, P) :: m_merge R) p) as [r|]; [done|].
  destruct e0; cbn in Hv; try done. by apply status_not_del in Hst.
Qed.

(** ** Patches produced by operation lists *)

Definition mfold (R : stack) (ops : list op) : stack := foldl (λ R o, (m_step R o).1) R ops.
Definition tfold (T : tree) (ops : list op) : tree := foldl (λ T o, (t_step T o).1) T ops.

Lemma mfold_sim ops R T : Sim R T → Sim (mfold R ops) (tfold T ops).
Proof. apply fold_refines. Qed.

Lemma ops_continue R T ops :
  Sim R T →
  let Rs := mfold (m_boundary R) ops in
  let Rm := mfold (m_boundary (m_merge R)) ops in
  (∀ p, vget Rm p = vget Rs p) ∧ viewmap Rm = viewmap Rs ∧
  (∀ o, (m_step Rm o).2 = (m_step Rs o).2).
Proof.
  intros HS Rs Rm.
  pose proof (mfold_sim ops _ _ (boundary_refines _ _ HS)) as Hs.
  pose proof (mfold_sim ops _ _ (boundary_refines _ _ (merge_sim _ _ HS))) as Hm.
  fold Rs in Hs. fold Rm in Hm. split; [|split].
  - intros p. destruct Hs as (_ & Hs & _), Hm as (_ & Hm & _). by rewrite Hs, Hm.
  - by rewrite (viewmap_eq _ _ Hs), (viewmap_eq _ _ Hm).
  - intros o. destruct (step_refines _ _ o Hs) as [_ ->], (step_refines _ _ o Hm) as [_ ->]. done.
Qed.

(** Operations other than a boundary rewrite the newest container only. *)
Definition same_base (R R' : stack) : Prop := tail R' = tail R ∧ top_idx R' = top_idx R.

Lemma same_base_refl R : same_base R R.
Proof. done. Qed.

Lemma same_base_trans R1 R2 R3 : same_base R1 R2 → same_base R2 R3 → same_base R1 R3.
Proof. intros [? ?] [? ?]. split; congruence. Qed.

Lemma with_top_base R f : same_base R (with_top R f).
Proof. by destruct R as [|[n c] rest]. Qed.

Lemma mkgroups_base deep (q : path) : ∀ R R1 cr,
  m_mkgroups deep R q = Some (R1, cr) → same_base R R1.
Proof.
  induction q as [|s par IH]; intros R R1 cr; cbn [m_mkgroups].
  - intros [= <- _]. done.
  - destruct (m_mkgroups deep R par) as [[R0 cr0]|] eqn:Hm; [|done].
    specialize (IH _ _ _ Hm).
    destruct (status R0 (s :: par)) as [[i [| |b]]|]; try done.
    + intros [= <- _]. done.
    + intros [= <- _]. eapply same_base_trans; [exact IH|]. apply with_top_base.
Qed.

Lemma delete_base R (q : path) R' : m_delete R q = Some R' → same_base R R'.
Proof.
  unfold m_delete. destruct q; [done|]. destruct (status R _); [|done].
  destruct (is_patch R); intros [= <-]; apply with_top_base.
Qed.

Lemma copy_base R (s d : path) R' : m_copy R s d = Some R' → same_base R R'.
Proof.
  unfold m_copy. destruct s as [|ss spar]; [done|]. destruct d as [|sd dpar]; [done|].
  destruct (status R (ss :: spar)) as [[i e]|]; [|done].
  destruct (status R (sd :: dpar)); [done|].
  destruct (m_mkgroups _ R dpar) as [[R1 cr]|] eqn:Hm; [|done].
  intros [= <-]. eapply same_base_trans; [by eapply mkgroups_base|]. apply with_top_base.
Qed.

Lemma step_base R o : o ≠ OBoundary → same_base R (m_step R o).1.
Proof.
  intros Ho. unfold m_step.
  destruct o as [q|q v|q|p k v|p k|s d|s d|]; [..|done].
  - destruct (is_node_path q); [|done]. unfold m_create_group.
    destruct q as [|s par]; [done|]. destruct (status R (s :: par)); [done|].
    destruct (m_mkgroups true R (s :: par)) as [[R1 cr]|] eqn:Hm; [|done].
    cbn. by eapply mkgroups_base.
  - destruct (is_node_path q && negb (is_del_value v)); [|done]. unfold m_set_data.
    destruct q as [|s par]; [done|]. destruct (status R (s :: par)); [done|].
    destruct (m_mkgroups false R par) as [[R1 cr]|] eqn:Hm; [|done].
    cbn. eapply same_base_trans; [by eapply mkgroups_base|]. apply with_top_base.
  - destruct (is_node_path q); [|done].
    destruct (m_delete R q) as [R'|] eqn:Hd; [|done]. by eapply delete_base.
  - destruct (is_node_path p && negb (is_del_value v)); [|done]. unfold m_attr_set.
    destruct (status R p); [|done]. apply with_top_base.
  - destruct (is_node_path p); [|done]. unfold m_attr_del.
    destruct (status R p); [|done]. destruct (status R ((true, k) :: p)); [|done].
    destruct (m_delete R _) as [R'|] eqn:Hd; [|done]. by eapply delete_base.
  - destruct (is_node_path s && is_node_path d); [|done].
    destruct (m_copy R s d) as [R'|] eqn:Hc; [|done]. by eapply copy_base.
  - destruct (is_node_path s && is_node_path d); [|done]. unfold m_move.
    case_decide; [done|]. destruct (m_copy R s d) as [R1|] eqn:Hc; [|done].
    destruct (m_delete R1 s) as [R'|] eqn:Hd; [|done].
    cbn. eapply same_base_trans; [by eapply copy_base|by eapply delete_base].
Qed.

Lemma fold_base ops : Forall (λ o, o ≠ OBoundary) ops → ∀ R, same_base R (mfold R ops).
Proof.
  induction 1 as [|o ops Ho _ IH]; intros R; [done|]. unfold mfold. cbn [foldl].
  eapply same_base_trans; [by apply step_base|apply IH].
Qed.

(** A patch written on the source by any list of operations (after a boundary) is one
    container [P] on top of the unchanged source; stacked as container 1 on the merged
    container it gives the same view as on the source, and the same view as performing the
    operations on the merged record itself. *)
Lemma patch_transplant R T ops :
  Sim R T → Forall (λ o, o ≠ OBoundary) ops →
  ∃ P, mfold (m_boundary R) ops = (S (top_idx R), P) :: R ∧
       (∀ p, vget ((1, P) :: m_merge R) p = vget ((S (top_idx R), P) :: R) p) ∧
       (∀ p, vget ((1, P) :: m_merge R) p = vget (mfold (m_boundary (m_merge R)) ops) p) ∧
       (∀ p, vget ((1, P) :: m_merge R) p = tget (tfold T ops) p).
Proof.
  intros HS Hops.
  pose proof (mfold_sim ops _ _ (boundary_refines _ _ HS)) as Hs.
  pose proof (fold_base ops Hops (m_boundary R)) as [Htl Hti].
  destruct (mfold (m_boundary R) ops) as [|[n P] rest] eqn:Hf; [by destruct Hs as [[? _] _]|].
  cbn in Htl, Hti. subst rest n. exists P. split; [done|].
  assert (R ≠ []) as HR by (by destruct HS as [[? _] _]).
  assert (∀ p, vget ((1, P) :: m_merge R) p = vget ((S (top_idx R), P) :: R) p) as Hv.
  { apply merge_continues; [apply Hs|done|lia]. }
  split; [done|]. split.
  - intros p. rewrite Hv. destruct (ops_continue R T ops HS) as (Hc & _). rewrite Hc, Hf. done.
  - intros p. rewrite Hv. apply Hs.
Qed.

(** ** The construction of the merged container by create operations *)

(** Shape of a view: no root key, every entry hangs under an entry that can hold it. *)
Definition treeish (T : tree) : Prop :=
  T !! [] = None ∧
  ∀ s par e, T !! (s :: par) = Some e → ∃ ep, tget T par = Some ep ∧ tholds par ep s = true.

(** Attributes are values. *)
Definition attrs_data (T : tree) : Prop := ∀ k par, T !! ((true, k) :: par) ≠ Some TGroup.

Lemma holds_to_raw (par : path) b e s : holds par (to_raw b e) s = tholds par e s.
Proof. by destruct e. Qed.

Lemma viewmap_treeish R : Inv R → treeish (viewmap R).
Proof.
  intros [_ Hwf]. split; [by rewrite viewmap_lookup|].
  intros s par e. rewrite viewmap_lookup by done. unfold vget. intros He.
  destruct (status R (s :: par)) as [[i er]|] eqn:Hst; [|done].
  destruct (status_parent R s par) as (lb & ep & Hp & Hh); [by rewrite Hst|].
  assert (ep ≠ RDel) as Hne by (intros ->; by apply status_not_del in Hp).
  assert (tget (viewmap R) par = erase (Some (lb, ep))) as Ht.
  { destruct par as [|s' par']; [by injection Hp as <- <-|].
    cbn [tget]. rewrite viewmap_lookup by done. unfold vget. by rewrite Hp. }
  rewrite Ht. destruct ep as [|v|b]; [done| |]; eexists; (split; [done|]); exact Hh.
Qed.

(** Status in a single tree-shaped base container is plain lookup. *)
Definition cshape (c : cont) : Prop :=
  c !! [] = None ∧
  ∀ s par e, c !! (s :: par) = Some e →
    e ≠ RDel ∧ (par = [] ∨ ∃ ep, c !! par = Some ep ∧ holds par ep s = true).

Lemma cshape_status (c : cont) : cshape c →
  ∀ s par, status [(0, c)] (s :: par) = (λ e, (0, e)) <$> c !! (s :: par).
Proof.
  intros [_ Hc] s par. revert s. induction par as [|s' par' IH]; intros s.
  - rewrite single_status. cbn [status].
    destruct (c !! [s]) as [e|] eqn:He; [|by destruct (holds _ _ _)].
    destruct (Hc _ _ _ He) as [Hne _]. destruct e; done.
  - rewrite single_status, IH.
    destruct (c !! (s :: s' :: par')) as [e|] eqn:He.
    + destruct (Hc _ _ _ He) as [Hne [?|(ep & -> & Hh)]]; [done|]. cbn [fmap option_fmap option_map]. rewrite Hh. by destruct e.
    + destruct (c !! (s' :: par')) as [ep|]; cbn [fmap option_fmap option_map]; [|done]. by destruct (holds _ _ _).
Qed.

Lemma node_parent_group (R : stack) s (par : path) lb e :
  status R par = Some (lb, e) → holds par e s = true → s.1 = false → ∃ b, e = RGroup b.
Proof.
  intros _ Hh Hs. destruct par as [|[[] k] par'], e as [|v|b]; cbn in Hh; try done; eauto.
  all: destruct s as [[] ?]; cbn in *; done.
Qed.

(** All groups down to an existing group exist: nothing is created. *)
Lemma mkgroups_existing deep R (q : path) i b :
  is_node_path q = true → status R q = Some (i, RGroup b) → m_mkgroups deep R q = Some (R, false).
Proof.
  revert i b. induction q as [|s par IH]; intros i b Hnp Hst; [done|]. cbn [m_mkgroups].
  destruct (status_parent R s par) as (lb & ep & Hp & Hh); [by rewrite Hst|].
  assert (s.1 = false) as Hs by (cbn in Hnp; apply andb_prop in Hnp as [H _]; by destruct (s.1)).
  destruct (node_parent_group R s par lb ep Hp Hh Hs) as [bp ->].
  rewrite (IH lb bp (node_path_tail _ _ Hnp) Hp). by rewrite Hst.
Qed.

Lemma write1_single (c : cont) (q : path) e :
  (∀ a, a ∈ ancestors q → is_Some (c !! a)) →
  m_write1 [(0, c)] q e = [(0, <[q := e]> c)].
Proof.
  intros Ha. unfold m_write1. cbn [with_top]. do 2 f_equal. apply map_eq. intros x.
  rewrite graft_lookup. destruct (decide (x = q)) as [->|Hx].
  - by rewrite lookup_singleton, lookup_insert.
  - rewrite lookup_singleton_ne, lookup_insert_ne by done.
    destruct (c !! x) eqn:Hc; [done|]. rewrite carr_lookup. case_decide as Hin; [|done].
    destruct (Ha _ Hin) as [? ?]. congruence.
Qed.

Lemma cshape_ancestors (c : cont) : cshape c →
  ∀ s par, (par = [] ∨ is_Some (c !! par)) → ∀ a, a ∈ ancestors (s :: par) → is_Some (c !! a).
Proof.
  intros Hc s par Hpar a Ha.
  assert (is_Some (status [(0, c)] a)) as Hv.
  { eapply anc_vis; [|exact Ha]. destruct Hpar as [->|[ep Hep]]; [by eexists|].
    destruct par as [|s' par']; [done|]. rewrite cshape_status, Hep by done. done. }
  apply elem_of_ancestors in Ha as (Hne & _). destruct a as [|sa a']; [done|].
  rewrite cshape_status in Hv by done. destruct (c !! (sa :: a')); [done|]. by destruct Hv.
Qed.

Definition cof (acc : list (path * tentry)) : cont := to_raw false <$> (list_to_map acc : tree).

(** One step of the construction on a tree-shaped base container. *)
Lemma build_step_single (c : cont) s (par : path) (e ep : tentry) :
  cshape c → c !! (s :: par) = None →
  (par = [] ∨ c !! par = Some (to_raw false ep)) → (par = [] → ep = TGroup) →
  tholds par ep s = true → (s.1 = true → ∃ v, e = TData v) →
  is_node_path par = true →
  build_step (Some [(0, c)]) (s :: par, e) = Some [(0, <[s :: par := to_raw false e]> c)].
Proof.
  intros Hc Hfresh Hpar Hroot Hh Hattr Hnp.
  assert (Hanc : ∀ a, a ∈ ancestors (s :: par) → is_Some (c !! a)).
  { apply cshape_ancestors; [done|]. destruct Hpar as [?|Hp]; [by left|right; by rewrite Hp]. }
  assert (Hq : status [(0, c)] (s :: par) = None) by (by rewrite cshape_status, Hfresh).
  assert (Hsp : status [(0, c)] par = Some (0, to_raw false ep)).
  { destruct Hpar as [->|Hp]; [by rewrite (Hroot eq_refl)|].
    destruct par as [|s' par']; [by destruct Hc as [Hr _]; congruence|].
    by rewrite cshape_status, Hp. }
  unfold build_step. destruct s as [[] k].
  - destruct (Hattr eq_refl) as [v ->]. unfold m_attr_set. rewrite Hsp.
    by rewrite write1_single.
  - assert (ep = TGroup) as -> by (destruct par as [|[[] ?] ?], ep; cbn in *; done).
    assert (Hmk : ∀ deep, m_mkgroups deep [(0, c)] par = Some ([(0, c)], false)).
    { intros deep. by eapply mkgroups_existing. }
    destruct e as [v|].
    + unfold m_set_data. rewrite Hq, Hmk. by rewrite write1_single.
    + unfold m_create_group. rewrite Hq. cbn [m_mkgroups]. rewrite Hmk, Hq. cbn [fmap option_fmap option_map fst].
      by rewrite write1_single.
Qed.

(** Parents first. *)
Definition parent_in (acc : list (path * tentry)) (x : path * tentry) : Prop :=
  match x.1 with
  | [] => False
  | [_] => True
  | _ :: par => par ∈ acc.*1
  end.

Fixpoint pfirst (acc l : list (path * tentry)) : Prop :=
  match l with
  | [] => True
  | x :: r => parent_in acc x ∧ pfirst (acc ++ [x]) r
  end.

Definition pclosed (acc : list (path * tentry)) : Prop :=
  ∀ s par, s :: par ∈ acc.*1 → par = [] ∨ par ∈ acc.*1.

Lemma treeish_node_parent (T : tree) s (par : path) e :
  treeish T → T !! (s :: par) = Some e → is_node_path par = true.
Proof.
  intros [_ HT] He. destruct (HT _ _ _ He) as (ep & Hep & Hh). clear He.
  revert s ep Hep Hh. induction par as [|s' par' IH]; intros s ep Hep Hh; [done|].
  cbn [tget] in Hep. destruct (HT _ _ _ Hep) as (ep' & Hep' & Hh').
  change (is_node_path (s' :: par')) with (negb s'.1 && is_node_path par').
  rewrite (IH _ _ Hep' Hh'). destruct s' as [[] k]; cbn in *; [done|done].
Qed.

Lemma build_from (T : tree) : treeish T → attrs_data T →
  ∀ l acc, acc ++ l ≡ₚ map_to_list T → pclosed acc → pfirst acc l →
  foldl build_step (Some [(0, cof acc)]) l = Some [(0, cof (acc ++ l))].
Proof.
  intros HT Hattr. induction l as [|[q e] l IH]; intros acc Hperm Hcl Hpf.
  { by rewrite app_nil_r. }
  destruct Hpf as [Hpar Hpf].
  assert (Hnd : NoDup (acc ++ (q, e) :: l).*1).
  { rewrite Hperm. apply NoDup_fst_map_to_list. }
  assert (HinT : ∀ p te, (p, te) ∈ acc ++ (q, e) :: l → T !! p = Some te).
  { intros p te Hin. rewrite Hperm in Hin. by apply elem_of_map_to_list in Hin. }
  rewrite fmap_app in Hnd. apply NoDup_app in Hnd as (Hnd1 & Hdisj & Hnd2).
  assert (Hacc : ∀ p te, (list_to_map acc : tree) !! p = Some te → T !! p = Some te).
  { intros p te Hl. apply elem_of_list_to_map in Hl; [|done]. apply HinT, elem_of_app. by left. }
  assert (Hkey : ∀ p, p ∈ acc.*1 → ∃ te, (list_to_map acc : tree) !! p = Some te).
  { intros p Hp. destruct ((list_to_map acc : tree) !! p) eqn:Hl; [eauto|].
    by apply not_elem_of_list_to_map in Hl. }
  assert (Hqe : T !! q = Some e).
  { apply HinT, elem_of_app. right. by left. }
  destruct q as [|s par]; [destruct HT as [Hr _]; congruence|].
  destruct (proj2 HT _ _ _ Hqe) as (ep & Hep & Hh).
  assert (Hshape : cshape (cof acc)).
  { split.
    - unfold cof. rewrite lookup_fmap. destruct ((list_to_map acc : tree) !! []) eqn:Hl; [|done].
      apply Hacc in Hl. destruct HT as [Hr _]. congruence.
    - intros s' par' er. unfold cof. rewrite lookup_fmap.
      destruct ((list_to_map acc : tree) !! (s' :: par')) as [te|] eqn:Hl; [|done].
      intros [= <-]. split; [apply to_raw_not_del|].
      destruct (Hcl s' par') as [->|Hin]; [|by left|].
      { apply elem_of_list_to_map in Hl; [|done]. apply elem_of_list_fmap. by exists (s' :: par', te). }
      right. destruct (Hkey _ Hin) as [tp Htp]. exists (to_raw false tp).
      rewrite lookup_fmap, Htp. split; [done|]. rewrite holds_to_raw.
      destruct (proj2 HT _ _ _ (Hacc _ _ Hl)) as (ep' & Hep' & Hh').
      destruct par' as [|? ?]; [apply Hacc in Htp; destruct HT as [Hr _]; congruence|]. cbn [tget] in Hep'.
      rewrite (Hacc _ _ Htp) in Hep'. by injection Hep' as ->. }
  assert (Hfresh : cof acc !! (s :: par) = None).
  { unfold cof. rewrite lookup_fmap.
    rewrite (not_elem_of_list_to_map_1 (M:=gmap path)); [done|].
    intros Hin. apply (Hdisj _ Hin). cbn. by left. }
  cbn [foldl].
  rewrite (build_step_single (cof acc) s par e ep); try done.
  - replace (<[s :: par := to_raw false e]> (cof acc)) with (cof (acc ++ [(s :: par, e)])).
    + rewrite (IH (acc ++ [(s :: par, e)])); [by rewrite <-app_assoc| by rewrite <-app_assoc| |done].
      intros s' par'. rewrite fmap_app, elem_of_app. intros [Hin|Hin].
      * destruct (Hcl _ _ Hin) as [?|?]; [by left|right]. rewrite elem_of_app. by left.
      * cbn in Hin. apply elem_of_list_singleton in Hin as [= -> ->].
        unfold parent_in in Hpar. cbn in Hpar. destruct par as [|s'' par'']; [by left|right].
        rewrite elem_of_app. by left.
    + unfold cof. rewrite list_to_map_snoc, fmap_insert; [done|].
      intros Hin. apply (Hdisj _ Hin). cbn. by left.
  - unfold parent_in in Hpar. cbn in Hpar. destruct par as [|s' par']; [by left|right].
    destruct (Hkey _ Hpar) as [tp Htp]. unfold cof. rewrite lookup_fmap, Htp.
    cbn [tget] in Hep. rewrite (Hacc _ _ Htp) in Hep. by injection Hep as ->.
  - intros ->. cbn in Hep. by injection Hep as <-.
  - intros Hs. destruct s as [[] k]; [|done]. destruct e as [v|]; [eauto|]. by destruct (Hattr k par).
  - by eapply treeish_node_parent.
Qed.

(** Any enumeration of the tree in which parents come first builds the exported container. *)
Lemma build_any_order (T : tree) (l : list (path * tentry)) :
  treeish T → attrs_data T → l ≡ₚ map_to_list T → pfirst [] l →
  build l = Some [(0, export T)].
Proof.
  intros HT Ha Hperm Hpf. unfold build, m_init.
  replace (∅ : cont) with (cof []) by (unfold cof; cbn; apply fmap_empty).
  rewrite (build_from T HT Ha l []); [|done|by intros s par Hin; apply elem_of_nil in Hin|done].
  cbn [app]. unfold cof, export. do 4 f_equal.
  rewrite (list_to_map_proper l (map_to_list T)); [apply list_to_map_to_list| |done].
  rewrite Hperm. apply NoDup_fst_map_to_list.
Qed.

(** The level order is parents-first. *)
Global Instance shorter_trans : Transitive shorter.
Proof. intros a b c. unfold shorter. lia. Qed.
Global Instance shorter_total : Total shorter.
Proof. intros a b. unfold shorter. lia. Qed.

Lemma sorted_pfirst (T : tree) : treeish T →
  ∀ l acc, acc ++ l ≡ₚ map_to_list T → StronglySorted shorter l → pfirst acc l.
Proof.
  intros HT. induction l as [|[q e] l IH]; intros acc Hperm Hs; [done|].
  apply StronglySorted_inv in Hs as [Hs Hall]. split.
  - assert (T !! q = Some e) as Hq.
    { apply elem_of_map_to_list. rewrite <-Hperm. apply elem_of_app. right. by left. }
    unfold parent_in. cbn. destruct q as [|s [|s' par']]; [destruct HT as [? _]; congruence|done|].
    destruct (proj2 HT _ _ _ Hq) as (ep & Hep & _). cbn [tget] in Hep.
    apply elem_of_map_to_list in Hep. rewrite <-Hperm in Hep.
    apply elem_of_app in Hep as [Hin|Hin].
    + apply elem_of_list_fmap. by exists (s' :: par', ep).
    + apply elem_of_cons in Hin as [[= _ Heq _]|Hin].
      * apply (f_equal length) in Heq. cbn in Heq. lia.
      * rewrite Forall_forall in Hall. specialize (Hall _ Hin). unfold shorter in Hall. cbn in Hall. lia.
  - apply IH; [by rewrite <-app_assoc|done].
Qed.

Lemma visit_pfirst (T : tree) : treeish T → pfirst [] (visit T).
Proof.
  intros HT. apply (sorted_pfirst T HT).
  - cbn. unfold visit. apply merge_sort_Permutation.
  - unfold visit. apply StronglySorted_merge_sort; apply _.
Qed.

Lemma build_eq R : Inv R → attrs_data (viewmap R) → m_merge_build R = Some (m_merge R).
Proof.
  intros HI Ha. unfold m_merge_build, m_merge. pose proof (viewmap_treeish R HI) as HT.
  apply build_any_order; [done|done| |by apply visit_pfirst].
  unfold visit. apply merge_sort_Permutation.
Qed.

(** Every record reached by operations has value-only attributes. *)
Lemma attrs_insert_data (T : tree) (q : path) v : attrs_data T → attrs_data (<[q := TData v]> T).
Proof.
  intros H k par. destruct (decide ((true, k) :: par = q)) as [<-|Hne].
  - by rewrite lookup_insert.
  - rewrite lookup_insert_ne by done. apply H.
Qed.

Lemma attrs_sub (T T' : tree) : (∀ x e, T' !! x = Some e → T !! x = Some e) → attrs_data T → attrs_data T'.
Proof. intros Hsub H k par He. by apply Hsub, H in He. Qed.

Lemma attrs_mkgroups (q : path) : is_node_path q = true → ∀ T T1,
  attrs_data T → t_mkgroups T q = Some T1 → attrs_data T1.
Proof.
  induction q as [|s par IH]; intros Hnp T T1 HT; cbn [t_mkgroups]; [by intros [= <-]|].
  destruct (t_mkgroups T par) as [T0|] eqn:Hm; [|done].
  specialize (IH (node_path_tail _ _ Hnp) _ _ HT Hm).
  destruct (T0 !! (s :: par)) as [[v|]|]; [done|by intros [= <-]|]. intros [= <-].
  intros k par'. destruct (decide ((true, k) :: par' = s :: par)) as [Heq|Hne].
  - injection Heq as <- <-. cbn in Hnp. done.
  - rewrite lookup_insert_ne by done. apply IH.
Qed.

Lemma attrs_copy (T : tree) (s d : path) T' :
  is_node_path d = true → attrs_data T → t_copy T s d = Some T' → attrs_data T'.
Proof.
  intros Hnd HT. unfold t_copy. destruct s as [|ss spar]; [done|]. destruct d as [|sd dpar]; [done|].
  destruct (T !! (ss :: spar)); [|done]. destruct (T !! (sd :: dpar)); [done|].
  destruct (t_mkgroups T dpar) as [T1|] eqn:Hm; [|done]. intros [= <-].
  pose proof (attrs_mkgroups dpar (node_path_tail _ _ Hnd) _ _ HT Hm) as H1.
  intros k par. rewrite lookup_union.
  destruct (decide (under (sd :: dpar) ((true, k) :: par))) as [[r Hr]|Hu].
  - rewrite Hr, graft_snap_lookup, rel_snap_lookup. rewrite <-Hr.
    destruct r as [|s' r'].
    + cbn in Hr. injection Hr as <- <-. cbn in Hnd. done.
    + cbn in Hr. injection Hr as <- ->. cbn [app].
      destruct (T !! ((true, k) :: r' ++ ss :: spar)) as [[v|]|] eqn:He.
      * by destruct (T1 !! _).
      * by apply HT in He.
      * specialize (H1 k (r' ++ sd :: dpar)). by destruct (T1 !! _) as [[?|]|].
  - rewrite graft_snap_None by done. specialize (H1 k par). by destruct (T1 !! _) as [[?|]|].
Qed.

Lemma attrs_delete (T : tree) (q : path) T' : attrs_data T → t_delete T q = Some T' → attrs_data T'.
Proof.
  intros HT. unfold t_delete. destruct q; [done|]. destruct (T !! _); [|done]. intros [= <-].
  eapply attrs_sub; [|exact HT]. intros x e. rewrite cut_lookup. by case_decide.
Qed.

Lemma attrs_step (T : tree) o : attrs_data T → attrs_data (t_step T o).1.
Proof.
  intros HT. unfold t_step.
  destruct o as [q|q v|q|p k v|p k|s d|s d|]; [..|done].
  - destruct (is_node_path q) eqn:Hq; [|done]. unfold t_create_group.
    destruct q as [|s par]; [done|]. destruct (T !! (s :: par)); [done|].
    destruct (t_mkgroups T (s :: par)) as [T1|] eqn:Hm; [|done]. cbn. by eapply attrs_mkgroups.
  - destruct (is_node_path q && negb (is_del_value v)) eqn:Hq; [|done].
    apply andb_prop in Hq as [Hq _]. unfold t_set_data.
    destruct q as [|s par]; [done|]. destruct (T !! (s :: par)); [done|].
    destruct (t_mkgroups T par) as [T1|] eqn:Hm; [|done]. cbn.
    apply attrs_insert_data. eapply attrs_mkgroups; [|done|done]. by eapply node_path_tail.
  - destruct (is_node_path q); [|done]. destruct (t_delete T q) as [T'|] eqn:Hd; [|done].
    cbn. by eapply attrs_delete.
  - destruct (is_node_path p && negb (is_del_value v)); [|done]. unfold t_attr_set.
    destruct (tget T p); [|done]. cbn. by apply attrs_insert_data.
  - destruct (is_node_path p); [|done]. unfold t_attr_del.
    destruct (tget T p); [|done]. destruct (T !! ((true, k) :: p)); [|done]. cbn.
    eapply attrs_sub; [|exact HT]. intros x e Hx. apply lookup_delete_Some in Hx as [_ ?]. done.
  - destruct (is_node_path s && is_node_path d) eqn:Hsd; [|done].
    apply andb_prop in Hsd as [_ Hd].
    destruct (t_copy T s d) as [T'|] eqn:Hc; [|done]. cbn. by eapply attrs_copy.
  - destruct (is_node_path s && is_node_path d) eqn:Hsd; [|done].
    apply andb_prop in Hsd as [_ Hd]. unfold t_move. case_decide; [done|].
    destruct (t_copy T s d) as [T1|] eqn:Hc; [|done].
    destruct (t_delete T1 s) as [T'|] eqn:Hdel; [|done]. cbn.
    eapply attrs_delete; [|exact Hdel]. by eapply attrs_copy.
Qed.

Lemma attrs_run ops : attrs_data (run_t ops).
Proof.
  unfold run_t. assert (attrs_data ∅) as H0 by (intros k par; by rewrite lookup_empty).
  revert H0. generalize (∅ : tree). induction ops as [|o ops IH]; intros T HT; [done|].
  cbn [foldl]. apply IH. by apply attrs_step.
Qed.

(** For every history, the construction by create operations yields the merged container. *)
Lemma build_eq_run ops : m_merge_build (run_m ops) = Some (m_merge (run_m ops)).
Proof.
  destruct (transparent ops) as (HI & _ & Hv & _). apply build_eq; [done|].
  rewrite Hv. apply attrs_run.
Qed.

(** ** Record operations around the merge *)

Import Chain.

(** Refused operations leave the record state, hence the result of a following merge, as it is. *)
Lemma refused_ops_frame mfm ro (S : rstate) (ops : list rop) :
  Forall (λ o, rstep mfm ro S o = None) ops →
  rrun mfm ro S ops = S ∧ ∀ d, merge_files mfm d (rrun mfm ro S ops) = merge_files mfm d S.
Proof.
  intros H. assert (rrun mfm ro S ops = S) as ->; [|done].
  induction H as [|o ops Ho _ IH]; [done|]. unfold rrun in *. cbn [foldl].
  unfold rapply at 2. by rewrite Ho.
Qed.

(** Which operations are refused: on a committed record everything but [create_patch]; through
    a read-only handle everything. *)
Lemma committed_refuses mfm ro (S : rstate) (o : rop) :
  rs_writable S = false → (∀ p, o = RCreate p → ro = true) → rstep mfm ro S o = None.
Proof.
  intros Hw Hc. destruct o as [mid mh|p| |o]; cbn; rewrite Hw.
  - by destruct ro.
  - by rewrite (Hc p eq_refl).
  - by destruct ro.
  - done.
Qed.

(** [create_patch], any writes, [discard_patch]: back to the same state. *)
Lemma create_discard_frame mfm (S : rstate) (p : N) (ws : list op) :
  rs_writable S = false → rs_files S ≠ [] → Forall (λ o, o ≠ OBoundary) ws →
  rrun mfm false S (RCreate p :: map RWrite ws ++ [RDiscard]) = S.
Proof.
  destruct S as [R fs w]. cbn. intros -> Hfs Hws.
  destruct fs as [|b fs']; [done|]. unfold rrun. cbn [foldl].
  unfold rapply at 2. cbn.
  set (nf := new_patch_file p (List.last (b :: fs') b)).
  assert (Hgen : ∀ R', same_base (m_boundary R) R' →
    foldl (rapply mfm false) (MkRs R' (b :: fs' ++ [nf]) true) (map RWrite ws ++ [RDiscard])
    = MkRs R (b :: fs') false).
  { induction Hws as [|o ws Ho _ IH]; intros R' [Htl Hti].
    - cbn. unfold rapply. cbn. destruct (fs' ++ [nf]) eqn:E; [by destruct fs'|]. rewrite <-E.
      f_equal; [done|]. f_equal. apply removelast_last.
    - cbn [map app foldl].
      assert (∃ R'', rapply mfm false (MkRs R' (b :: fs' ++ [nf]) true) (RWrite o)
                     = MkRs R'' (b :: fs' ++ [nf]) true ∧ same_base R' R'') as (R'' & -> & Hb).
      { unfold rapply. cbn. pose proof (step_base R' o Ho) as Hb.
        destruct o; try done.
        all: destruct (m_step R' _) as [R2 ok]; cbn in Hb; destruct ok; [by exists R2|by exists R']. }
      apply IH. eapply same_base_trans; [|exact Hb]. by split. }
  apply Hgen. done.
Qed.
