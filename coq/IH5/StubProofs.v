(** * Proofs about skeletons, stubs and manifests ([IH5/Stub.v], property C10).

    Contents
    - skeleton algebra ([skel] commutes with insert / cut / delete);
    - well-formed trees, [Sim_wf]; the stub of a skeleton simulates the blanked tree
      ([stub_sim]) — same paths, kinds and attribute names, every value the placeholder;
    - [t_step_skel]: an existence-based operation acts on skeletons;
    - [step_twin]: on two records with equal skeletons and equal newest container an
      existence-based operation has the same outcome and leaves equal newest containers
      (the patch depends on the base only through the skeleton), [run_twin], [patch_on_skel];
    - [stub_patch_applies]: the patch made on the stub, put on top of the real record, is the
      record obtained by the direct update;
    - chain: the user block of a patch made on the stub is accepted on top of the real chain;
    - manifest invariant over commit histories. *)
From Coq Require Import NArith.
From stdpp Require Import gmap strings list.
From MV Require Import IH5.Overlay IH5.OverlayProofs IH5.Stub.
From MV Require Rec.Chain Rec.ChainProofs.

(** ** Skeleton algebra *)

Lemma skel_lookup (T : tree) p : skel T !! p = kind_of <$> T !! p.
Proof. apply lookup_fmap. Qed.

Lemma skel_eq_lookup (Ta Tb : tree) :
  skel Ta = skel Tb → ∀ p, kind_of <$> Ta !! p = kind_of <$> Tb !! p.
Proof. intros H p. by rewrite <-!skel_lookup, H. Qed.

Lemma skel_eq_tget (Ta Tb : tree) :
  skel Ta = skel Tb → ∀ p, kind_of <$> tget Ta p = kind_of <$> tget Tb p.
Proof. intros H [|s par]; [done|]. by apply skel_eq_lookup. Qed.

Lemma skel_insert (T : tree) q e : skel (<[q := e]> T) = <[q := kind_of e]> (skel T).
Proof. apply fmap_insert. Qed.

Lemma skel_delete (T : tree) q : skel (delete q T) = delete q (skel T).
Proof. apply fmap_delete. Qed.

Lemma skel_cut (T : tree) q : skel (cut q T) = cut q (skel T).
Proof. unfold skel, cut. by rewrite map_filter_fmap. Qed.

Lemma fmap_eq_Some_kind (a b : option tentry) :
  kind_of <$> a = kind_of <$> b →
  match a, b with
  | Some TGroup, Some TGroup | Some (TData _), Some (TData _) | None, None => True
  | _, _ => False
  end.
Proof. destruct a as [[]|], b as [[]|]; cbn; done. Qed.

(** ** Well-formed trees *)

Definition wf_tree (T : tree) : Prop :=
  T !! [] = None ∧
  ∀ s par e, T !! (s :: par) = Some e → ∃ ep, tget T par = Some ep ∧ tholds par ep s = true.

Lemma holds_tholds par lb e te s :
  erase (Some (lb, e)) = Some te → holds par e s = tholds par te s.
Proof. destruct e; cbn; intros [= <-]; done. Qed.

Lemma Sim_wf R T : Sim R T → wf_tree T.
Proof.
  intros (HI & HR & Hroot). split; [done|]. intros s par e He.
  pose proof (HR (s :: par)) as Hq. cbn [tget] in Hq. rewrite He in Hq. unfold vget in Hq.
  destruct (status R (s :: par)) as [[i eq]|] eqn:Hs; [|done].
  assert (is_Some (status R (s :: par))) as Hv by (by rewrite Hs).
  apply status_parent in Hv as (lb & ep & Hp & Hh).
  pose proof (HR par) as Hpar. unfold vget in Hpar. rewrite Hp in Hpar.
  destruct (erase (Some (lb, ep))) as [te|] eqn:Hte.
  - exists te. split; [done|]. by rewrite <-(holds_tholds par lb ep te s).
  - destruct ep; cbn in Hte; try done. by apply status_not_del in Hp.
Qed.

Lemma Inv_Sim_viewmap R : Inv R → Sim R (viewmap R).
Proof.
  intros HI. pose proof HI as [_ Hwf]. split; [done|]. split.
  - intros [|s par]; [done|]. cbn [tget]. by rewrite viewmap_lookup.
  - by rewrite viewmap_lookup.
Qed.

(** ** The stub *)

Lemma skel_blank T : skel (blank T) = skel T.
Proof.
  unfold skel, blank. rewrite <-map_fmap_compose. apply map_fmap_ext.
  intros ? []; done.
Qed.

Lemma blank_values T p v : blank T !! p = Some (TData v) → v = placeholder.
Proof.
  unfold blank. rewrite lookup_fmap. destruct (T !! p) as [[]|]; cbn; congruence.
Qed.

Lemma blank_lookup T p : blank T !! p = blank_entry <$> T !! p.
Proof. apply lookup_fmap. Qed.

Definition stub_raw (n : nat) (e : tentry) : nat * rentry := (n, stub_entry (kind_of e)).

Lemma stub_of_lookup T p : stub_of (skel T) !! p = (λ e, stub_entry (kind_of e)) <$> T !! p.
Proof. unfold stub_of, skel. rewrite !lookup_fmap. by destruct (T !! p). Qed.

Lemma stub_status (n : nat) T :
  wf_tree T → ∀ s par, status (stub_stack n (skel T)) (s :: par) = stub_raw n <$> T !! (s :: par).
Proof.
  intros [Hroot Hwf]. intros s par. revert s.
  induction par as [|s' par IH]; intros s; rewrite status_cons.
  - cbn [status]. destruct (T !! [s]) as [e|] eqn:He.
    + destruct (Hwf _ _ _ He) as (ep & Hp & Hh). cbn in Hp. injection Hp as <-.
      replace (holds [] (RGroup false) s) with true by done.
      unfold stub_stack. rewrite above_cons. case_decide; [|lia]. cbn [scan above filter].
      rewrite stub_of_lookup, He. by destruct e.
    + replace (holds [] (RGroup false) s) with true by done.
      unfold stub_stack. rewrite above_cons. case_decide; [|lia]. cbn [scan].
      by rewrite stub_of_lookup, He.
  - rewrite IH. destruct (T !! (s' :: par)) as [ep|] eqn:Hp; cbn [fmap option_fmap option_map].
    + unfold stub_raw at 1.
      assert (holds (s' :: par) (stub_entry (kind_of ep)) s = tholds (s' :: par) ep s) as ->
        by (by destruct ep).
      destruct (T !! (s :: s' :: par)) as [e|] eqn:He.
      * destruct (Hwf _ _ _ He) as (ep' & Hp' & Hh). cbn [tget] in Hp'.
        rewrite Hp in Hp'. injection Hp' as <-. rewrite Hh.
        unfold stub_stack. rewrite above_cons. case_decide; [|lia]. cbn [scan above filter].
        rewrite stub_of_lookup, He. by destruct e.
      * destruct (tholds (s' :: par) ep s); [|done].
        unfold stub_stack. rewrite above_cons. case_decide; [|lia]. cbn [scan].
        by rewrite stub_of_lookup, He.
    + destruct (T !! (s :: s' :: par)) as [e|] eqn:He; [|done].
      destruct (Hwf _ _ _ He) as (ep' & Hp' & _). cbn [tget] in Hp'. congruence.
Qed.

Lemma stub_sim (n : nat) T : wf_tree T → Sim (stub_stack n (skel T)) (blank T).
Proof.
  intros HT. pose proof HT as [Hroot Hwf].
  split; [|split].
  - split; [done|]. split; [|done]. split; [constructor|]. split.
    + by rewrite stub_of_lookup, Hroot.
    + intros [|s par] e He Hne.
      * by rewrite stub_of_lookup, Hroot in He.
      * change ((n, stub_of (skel T)) :: []) with (stub_stack n (skel T)).
        rewrite stub_status by done. rewrite stub_of_lookup in He.
        by destruct (T !! (s :: par)).
  - intros [|s par]; [done|]. unfold vget. rewrite stub_status by done.
    cbn [tget]. rewrite blank_lookup. by destruct (T !! (s :: par)) as [[]|].
  - by rewrite blank_lookup, Hroot.
Qed.

Lemma stub_view (n : nat) T : wf_tree T → viewmap (stub_stack n (skel T)) = blank T.
Proof. intros HT. apply viewmap_eq. by apply stub_sim. Qed.

Lemma stub_skeleton (n : nat) T :
  wf_tree T →
  skel (viewmap (stub_stack n (skel T))) = skel T ∧
  ∀ p v, viewmap (stub_stack n (skel T)) !! p = Some (TData v) → v = placeholder.
Proof.
  intros HT. rewrite stub_view by done. split; [apply skel_blank|]. apply blank_values.
Qed.

(** For the view of a record. *)
Lemma stub_skeleton_record (n : nat) R :
  Inv R →
  let S := stub_stack n (skel (viewmap R)) in
  Inv S ∧ skel (viewmap S) = skel (viewmap R) ∧
  (∀ p v, viewmap S !! p = Some (TData v) → v = placeholder) ∧
  (∀ p, is_Some (vget S p) ↔ is_Some (vget R p)).
Proof.
  intros HI S. pose proof (Inv_Sim_viewmap R HI) as HS. pose proof (Sim_wf _ _ HS) as HT.
  destruct (stub_skeleton n _ HT) as [H1 H2]. pose proof (stub_sim n _ HT) as (HIs & HRs & _).
  split; [done|]. split; [done|]. split; [done|].
  intros p. subst S. destruct HS as (_ & HR & _). rewrite (HRs p), (HR p).
  destruct p as [|s par]; [done|]. cbn [tget]. rewrite blank_lookup.
  by rewrite !fmap_is_Some.
Qed.

(** ** Existence-based operations act on skeletons *)

Lemma t_mkgroups_skel (q : path) : ∀ Ta Tb : tree,
  skel Ta = skel Tb →
  match t_mkgroups Ta q, t_mkgroups Tb q with
  | Some Ta1, Some Tb1 => skel Ta1 = skel Tb1
  | None, None => True
  | _, _ => False
  end.
Proof.
  induction q as [|s par IH]; intros Ta Tb Hsk; cbn [t_mkgroups]; [done|].
  specialize (IH Ta Tb Hsk).
  destruct (t_mkgroups Ta par) as [Ta1|], (t_mkgroups Tb par) as [Tb1|]; try done.
  pose proof (fmap_eq_Some_kind _ _ (skel_eq_lookup _ _ IH (s :: par))) as Hk.
  destruct (Ta1 !! (s :: par)) as [[]|], (Tb1 !! (s :: par)) as [[]|]; try done.
  by rewrite !skel_insert, IH.
Qed.

Definition same_outcome (a b : tree * bool) : Prop := skel a.1 = skel b.1 ∧ a.2 = b.2.

Lemma t_step_skel (Ta Tb : tree) o :
  skel Ta = skel Tb → eb_op o → same_outcome (t_step Ta o) (t_step Tb o).
Proof.
  intros Hsk Ho. unfold same_outcome, t_step.
  destruct o as [q|q v|q|p k v|p k|s d|s d|]; try done.
  - destruct (is_node_path q); [|done]. unfold t_create_group.
    destruct q as [|s par]; [done|].
    pose proof (fmap_eq_Some_kind _ _ (skel_eq_lookup _ _ Hsk (s :: par))) as Hk.
    destruct (Ta !! (s :: par)) as [[]|], (Tb !! (s :: par)) as [[]|]; try done.
    pose proof (t_mkgroups_skel (s :: par) Ta Tb Hsk) as H.
    destruct (t_mkgroups Ta (s :: par)), (t_mkgroups Tb (s :: par)); done.
  - destruct (is_node_path q && negb (is_del_value v)); [|done]. unfold t_set_data.
    destruct q as [|s par]; [done|].
    pose proof (fmap_eq_Some_kind _ _ (skel_eq_lookup _ _ Hsk (s :: par))) as Hk.
    destruct (Ta !! (s :: par)) as [[]|], (Tb !! (s :: par)) as [[]|]; try done.
    pose proof (t_mkgroups_skel par Ta Tb Hsk) as H.
    destruct (t_mkgroups Ta par), (t_mkgroups Tb par); try done.
    cbn. by rewrite !skel_insert, H.
  - destruct (is_node_path q); [|done]. unfold t_delete.
    destruct q as [|s par]; [done|].
    pose proof (fmap_eq_Some_kind _ _ (skel_eq_lookup _ _ Hsk (s :: par))) as Hk.
    destruct (Ta !! (s :: par)) as [[]|], (Tb !! (s :: par)) as [[]|]; try done.
    all: cbn; by rewrite !skel_cut, Hsk.
  - destruct (is_node_path p && negb (is_del_value v)); [|done]. unfold t_attr_set.
    pose proof (fmap_eq_Some_kind _ _ (skel_eq_tget _ _ Hsk p)) as Hk.
    destruct (tget Ta p) as [[]|], (tget Tb p) as [[]|]; try done.
    all: cbn; by rewrite !skel_insert, Hsk.
  - destruct (is_node_path p); [|done]. unfold t_attr_del.
    pose proof (fmap_eq_Some_kind _ _ (skel_eq_tget _ _ Hsk p)) as Hk.
    pose proof (fmap_eq_Some_kind _ _ (skel_eq_lookup _ _ Hsk ((true, k) :: p))) as Hk'.
    destruct (tget Ta p) as [[]|], (tget Tb p) as [[]|]; try done.
    all: destruct (Ta !! ((true, k) :: p)) as [[]|], (Tb !! ((true, k) :: p)) as [[]|]; try done.
    all: cbn; by rewrite !skel_delete, Hsk.
Qed.

(** ** Two records with the same skeleton *)

Definition kstat (R : stack) (p : path) : option kind := kind_of <$> vget R p.

Lemma kstat_cases Ra Rb p : kstat Ra p = kstat Rb p →
  match status Ra p, status Rb p with
  | None, None => True
  | Some (_, RData _), Some (_, RData _) => True
  | Some (_, RGroup _), Some (_, RGroup _) => True
  | _, _ => False
  end.
Proof.
  unfold kstat, vget. intros H.
  destruct (status Ra p) as [[i ea]|] eqn:Ha, (status Rb p) as [[j eb]|] eqn:Hb.
  - destruct ea; [by apply status_not_del in Ha| |];
      (destruct eb; [by apply status_not_del in Hb| |]); cbn in H; done.
  - destruct ea; [by apply status_not_del in Ha| |]; cbn in H; done.
  - destruct eb; [by apply status_not_del in Hb| |]; cbn in H; done.
  - done.
Qed.

Lemma rel_kstat Ra Rb Ta Tb :
  Rel Ra Ta → Rel Rb Tb → skel Ta = skel Tb → ∀ p, kstat Ra p = kstat Rb p.
Proof. intros HA HB Hsk p. unfold kstat. rewrite (HA p), (HB p). by apply skel_eq_tget. Qed.

Lemma top_cont_with_top R f : R ≠ [] → top_cont (with_top R f) = f (top_cont R).
Proof. by destruct R as [|[n c] rest]. Qed.

Lemma tail_with_top R f : tail (with_top R f) = tail R.
Proof. by destruct R as [|[n c] rest]. Qed.

Lemma top_idx_with_top R f : top_idx (with_top R f) = top_idx R.
Proof. by destruct R as [|[n c] rest]. Qed.

Lemma with_top_ne R f : R ≠ [] → with_top R f ≠ [].
Proof. by destruct R as [|[n c] rest]. Qed.

Definition same_shape (R R1 : stack) : Prop :=
  tail R1 = tail R ∧ top_idx R1 = top_idx R ∧ (R ≠ [] → R1 ≠ []).

Lemma same_shape_refl R : same_shape R R.
Proof. done. Qed.

Lemma same_shape_with_top R f : same_shape R (with_top R f).
Proof. split; [apply tail_with_top|]. split; [apply top_idx_with_top|apply with_top_ne]. Qed.

Lemma same_shape_trans R R1 R2 : same_shape R R1 → same_shape R1 R2 → same_shape R R2.
Proof. intros (? & ? & ?) (? & ? & ?). split; [congruence|]. split; [congruence|auto]. Qed.

Lemma mkgroups_shape deep (q : path) : ∀ R R1 cr,
  m_mkgroups deep R q = Some (R1, cr) → same_shape R R1.
Proof.
  induction q as [|s par IH]; intros R R1 cr; cbn [m_mkgroups].
  - intros [= <- _]. apply same_shape_refl.
  - destruct (m_mkgroups deep R par) as [[R0 c0]|] eqn:H0; [|done].
    specialize (IH _ _ _ H0).
    destruct (status R0 (s :: par)) as [[i [|v|b]]|]; try done.
    + by intros [= <- _].
    + intros [= <- _]. eapply same_shape_trans; [exact IH|]. apply same_shape_with_top.
Qed.

Lemma is_patch_shape R R1 : R ≠ [] → same_shape R R1 → is_patch R1 = is_patch R.
Proof.
  intros HR (Ht & _ & Hne). specialize (Hne HR).
  destruct R as [|x r], R1 as [|y r1]; try done. cbn in Ht. subst r1. by destruct r.
Qed.

Lemma mkgroups_twin deep (q : path) : is_node_path q = true → ∀ Ra Rb Ta Tb,
  Inv Ra → Rel Ra Ta → Inv Rb → Rel Rb Tb → skel Ta = skel Tb →
  top_cont Ra = top_cont Rb → is_patch Ra = is_patch Rb →
  match m_mkgroups deep Ra q, m_mkgroups deep Rb q with
  | Some (Ra1, ca), Some (Rb1, cb) => ca = cb ∧ top_cont Ra1 = top_cont Rb1
  | None, None => True
  | _, _ => False
  end.
Proof.
  induction q as [|s par IH]; intros Hnp Ra Rb Ta Tb HIa HRa HIb HRb Hsk Htop Hpat;
    cbn [m_mkgroups]; [done|].
  specialize (IH (node_path_tail _ _ Hnp) Ra Rb Ta Tb HIa HRa HIb HRb Hsk Htop Hpat).
  pose proof (mkgroups_spec deep par (node_path_tail _ _ Hnp) Ra Ta HIa HRa) as Sa.
  pose proof (mkgroups_spec deep par (node_path_tail _ _ Hnp) Rb Tb HIb HRb) as Sb.
  pose proof (t_mkgroups_skel par Ta Tb Hsk) as Hsk1.
  destruct (m_mkgroups deep Ra par) as [[Ra1 ca]|] eqn:Hma,
           (m_mkgroups deep Rb par) as [[Rb1 cb]|] eqn:Hmb; try done.
  destruct (t_mkgroups Ta par) as [Ta1|]; [|done].
  destruct (t_mkgroups Tb par) as [Tb1|]; [|done].
  destruct IH as [-> Htop1].
  destruct Sa as (HIa1 & HRa1 & _). destruct Sb as (HIb1 & HRb1 & _).
  pose proof (kstat_cases _ _ (s :: par) (rel_kstat _ _ _ _ HRa1 HRb1 Hsk1 (s :: par))) as Hk.
  destruct (status Ra1 (s :: par)) as [[i [|v|b]]|], (status Rb1 (s :: par)) as [[j [|w|b']]|];
    try done.
  assert (is_patch Ra1 = is_patch Rb1) as ->.
  { rewrite (is_patch_shape Ra Ra1), (is_patch_shape Rb Rb1); [done| | | |].
    - by destruct HIb. - by eapply mkgroups_shape. - by destruct HIa. - by eapply mkgroups_shape. }
  split; [done|]. unfold m_write1. rewrite !top_cont_with_top; [by rewrite Htop1| |].
  - by destruct HIb1. - by destruct HIa1.
Qed.

Lemma pack_top (Ra Rb : stack) (ma mb : option stack) :
  top_cont Ra = top_cont Rb →
  match ma, mb with
  | Some Ra1, Some Rb1 => top_cont Ra1 = top_cont Rb1
  | None, None => True
  | _, _ => False
  end →
  top_cont (match ma with Some R' => (R', true) | None => (Ra, false) end).1 =
  top_cont (match mb with Some R' => (R', true) | None => (Rb, false) end).1.
Proof. destruct ma, mb; done. Qed.

Lemma delete_twin Ra Rb (q : path) :
  Ra ≠ [] → Rb ≠ [] → kstat Ra q = kstat Rb q →
  top_cont Ra = top_cont Rb → is_patch Ra = is_patch Rb →
  match m_delete Ra q, m_delete Rb q with
  | Some Ra1, Some Rb1 => top_cont Ra1 = top_cont Rb1
  | None, None => True
  | _, _ => False
  end.
Proof.
  intros Ha Hb Hk Htop Hpat. unfold m_delete. destruct q as [|s par]; [done|].
  apply kstat_cases in Hk. rewrite Hpat.
  destruct (status Ra (s :: par)) as [[i [|v|b]]|], (status Rb (s :: par)) as [[j [|w|b']]|];
    try done.
  all: destruct (is_patch Rb); rewrite !top_cont_with_top by done; by rewrite Htop.
Qed.

Lemma step_top Ra Rb Ta Tb o :
  Sim Ra Ta → Sim Rb Tb → skel Ta = skel Tb →
  top_cont Ra = top_cont Rb → is_patch Ra = is_patch Rb → eb_op o →
  top_cont (m_step Ra o).1 = top_cont (m_step Rb o).1.
Proof.
  intros (HIa & HRa & _) (HIb & HRb & _) Hsk Htop Hpat Ho.
  pose proof (rel_kstat _ _ _ _ HRa HRb Hsk) as Hk.
  assert (Ra ≠ []) as Hna by (by destruct HIa). assert (Rb ≠ []) as Hnb by (by destruct HIb).
  unfold m_step. destruct o as [q|q v|q|p k v|p k|s d|s d|]; try done; apply pack_top; try done.
  - destruct (is_node_path q) eqn:Hnp; [|done]. unfold m_create_group.
    destruct q as [|s par]; [done|]. specialize (Hk (s :: par)). apply kstat_cases in Hk.
    destruct (status Ra (s :: par)) as [[i [|v|b]]|], (status Rb (s :: par)) as [[j [|w|b']]|];
      try done.
    pose proof (mkgroups_twin true (s :: par) Hnp Ra Rb Ta Tb HIa HRa HIb HRb Hsk Htop Hpat) as H.
    destruct (m_mkgroups true Ra (s :: par)) as [[Ra1 ca]|],
             (m_mkgroups true Rb (s :: par)) as [[Rb1 cb]|]; try done. by destruct H.
  - destruct (is_node_path q) eqn:Hnp; [|done]. cbn [andb].
    destruct (negb (is_del_value v)); [|done]. unfold m_set_data.
    destruct q as [|s par]; [done|]. specialize (Hk (s :: par)). apply kstat_cases in Hk.
    destruct (status Ra (s :: par)) as [[i [|v'|b]]|], (status Rb (s :: par)) as [[j [|w|b']]|];
      try done.
    pose proof (mkgroups_twin false par (node_path_tail _ _ Hnp) Ra Rb Ta Tb
                  HIa HRa HIb HRb Hsk Htop Hpat) as H.
    destruct (m_mkgroups false Ra par) as [[Ra1 ca]|] eqn:Hma,
             (m_mkgroups false Rb par) as [[Rb1 cb]|] eqn:Hmb; try done.
    destruct H as [_ H]. unfold m_write1.
    apply mkgroups_shape in Hma as (_ & _ & Hma). apply mkgroups_shape in Hmb as (_ & _ & Hmb).
    rewrite !top_cont_with_top by auto. by rewrite H.
  - destruct (is_node_path q); [|done]. by apply delete_twin.
  - destruct (is_node_path p); [|done]. cbn [andb].
    destruct (negb (is_del_value v)); [|done]. unfold m_attr_set.
    specialize (Hk p). apply kstat_cases in Hk.
    destruct (status Ra p) as [[i [|v'|b]]|], (status Rb p) as [[j [|w|b']]|]; try done.
    all: unfold m_write1; rewrite !top_cont_with_top by done; by rewrite Htop.
  - destruct (is_node_path p); [|done]. unfold m_attr_del.
    pose proof (Hk p) as Hp. apply kstat_cases in Hp.
    pose proof (Hk ((true, k) :: p)) as Hq. pose proof Hq as Hq'. apply kstat_cases in Hq'.
    destruct (status Ra p) as [[i [|v'|b]]|], (status Rb p) as [[j [|w|b']]|]; try done.
    all: destruct (status Ra ((true, k) :: p)) as [[i' ea]|] eqn:Hsa,
                  (status Rb ((true, k) :: p)) as [[j' eb]|] eqn:Hsb; try done.
    all: try (by destruct ea). all: try (by destruct eb).
    all: by apply delete_twin.
Qed.

(** [Twin Ra Rb]: both records are in the simulation invariant, their views have the same
    skeleton, their newest containers are equal and both or neither are patches. *)
Definition Twin (Ra Rb : stack) : Prop :=
  ∃ Ta Tb, Sim Ra Ta ∧ Sim Rb Tb ∧ skel Ta = skel Tb ∧
           top_cont Ra = top_cont Rb ∧ is_patch Ra = is_patch Rb.

Lemma delete_shape R (q : path) R1 : m_delete R q = Some R1 → same_shape R R1.
Proof.
  unfold m_delete. destruct q; [done|]. destruct (status R _); [|done].
  destruct (is_patch R); intros [= <-]; apply same_shape_with_top.
Qed.

Lemma step_shape R o : eb_op o → same_shape R (m_step R o).1.
Proof.
  intros Ho. unfold m_step. destruct o as [q|q v|q|p k v|p k|s d|s d|]; try done.
  - destruct (is_node_path q); [|done]. unfold m_create_group. destruct q as [|s par]; [done|].
    destruct (status R (s :: par)); [done|].
    destruct (m_mkgroups true R (s :: par)) as [[R1 c]|] eqn:Hm; [|done].
    by eapply mkgroups_shape.
  - destruct (is_node_path q && negb (is_del_value v)); [|done]. unfold m_set_data.
    destruct q as [|s par]; [done|]. destruct (status R (s :: par)); [done|].
    destruct (m_mkgroups false R par) as [[R1 c]|] eqn:Hm; [|done]. cbn.
    eapply same_shape_trans; [by eapply mkgroups_shape|apply same_shape_with_top].
  - destruct (is_node_path q); [|done]. destruct (m_delete R q) eqn:Hd; [|done].
    by eapply delete_shape.
  - destruct (is_node_path p && negb (is_del_value v)); [|done]. unfold m_attr_set.
    destruct (status R p); [|done]. apply same_shape_with_top.
  - destruct (is_node_path p); [|done]. unfold m_attr_del.
    destruct (status R p); [|done]. destruct (status R ((true, k) :: p)); [|done].
    destruct (m_delete R _) eqn:Hd; [|done]. by eapply delete_shape.
Qed.

Lemma run_shape ops : Forall eb_op ops → ∀ R, same_shape R (run_from R ops).
Proof.
  induction 1 as [|o ops Ho _ IH]; intros R; [apply same_shape_refl|]. cbn [run_from foldl].
  eapply same_shape_trans; [by apply step_shape|apply IH].
Qed.

Lemma step_twin Ra Rb o :
  Twin Ra Rb → eb_op o →
  Twin (m_step Ra o).1 (m_step Rb o).1 ∧ (m_step Ra o).2 = (m_step Rb o).2.
Proof.
  intros (Ta & Tb & HSa & HSb & Hsk & Htop & Hpat) Ho.
  destruct (step_refines Ra Ta o HSa) as [HSa' Hra].
  destruct (step_refines Rb Tb o HSb) as [HSb' Hrb].
  destruct (t_step_skel Ta Tb o Hsk Ho) as [Hsk' Hres].
  split; [|congruence].
  exists (t_step Ta o).1, (t_step Tb o).1.
  split; [done|]. split; [done|]. split; [done|]. split; [by eapply step_top|].
  rewrite (is_patch_shape Ra (m_step Ra o).1), (is_patch_shape Rb (m_step Rb o).1); [done| | | |].
  - by destruct HSb as [[? _] _]. - by apply step_shape.
  - by destruct HSa as [[? _] _]. - by apply step_shape.
Qed.

Lemma run_twin ops : Forall eb_op ops → ∀ Ra Rb, Twin Ra Rb →
  Twin (run_from Ra ops) (run_from Rb ops) ∧ results_from Ra ops = results_from Rb ops.
Proof.
  induction 1 as [|o ops Ho _ IH]; intros Ra Rb HT; [done|].
  cbn [run_from foldl results_from]. destruct (step_twin Ra Rb o HT Ho) as [HT' Hr].
  destruct (IH _ _ HT') as [H1 H2]. split; [done|]. by rewrite Hr, H2.
Qed.

Lemma boundary_twin R1 R2 :
  Inv R1 → Inv R2 → skel (viewmap R1) = skel (viewmap R2) → Twin (m_boundary R1) (m_boundary R2).
Proof.
  intros H1 H2 Hsk. exists (viewmap R1), (viewmap R2).
  split; [by apply boundary_refines, Inv_Sim_viewmap|].
  split; [by apply boundary_refines, Inv_Sim_viewmap|]. split; [done|]. split; [done|].
  destruct H1 as [H1 _], H2 as [H2 _]. by destruct R1, R2.
Qed.

(** The patch depends on the base only through the skeleton. *)
Lemma patch_on_skel R1 R2 ops :
  Inv R1 → Inv R2 → skel (viewmap R1) = skel (viewmap R2) → Forall eb_op ops →
  patch_on R1 ops = patch_on R2 ops ∧
  results_from (m_boundary R1) ops = results_from (m_boundary R2) ops.
Proof.
  intros H1 H2 Hsk Hops.
  destruct (run_twin ops Hops _ _ (boundary_twin R1 R2 H1 H2 Hsk)) as [(Ta & Tb & _ & _ & _ & Ht & _) Hr].
  done.
Qed.

Lemma stack_eta (R : stack) : R ≠ [] → R = (top_idx R, top_cont R) :: tail R.
Proof. by destruct R as [|[n c] rest]. Qed.

(** Running an existence-based update rewrites only the new container. *)
Lemma run_decompose R ops :
  Forall eb_op ops → run_from (m_boundary R) ops = apply_patch R (patch_on R ops).
Proof.
  intros Hops. destruct (run_shape ops Hops (m_boundary R)) as (Ht & Hi & Hne).
  rewrite (stack_eta (run_from (m_boundary R) ops)) by (by apply Hne).
  unfold apply_patch, patch_on. by rewrite Ht, Hi.
Qed.

(** The patch made on the stub of [R], opened on top of [R], is the directly updated record;
    every operation has the same outcome in both runs; the resulting view is the plain-tree
    update of the view of [R]. *)
Lemma stub_patch_applies (n : nat) R ops :
  Inv R → Forall eb_op ops →
  let S := stub_stack n (skel (viewmap R)) in
  apply_patch R (patch_on S ops) = run_from (m_boundary R) ops ∧
  results_from (m_boundary S) ops = results_from (m_boundary R) ops ∧
  viewmap (apply_patch R (patch_on S ops)) = foldl (λ T o, (t_step T o).1) (viewmap R) ops.
Proof.
  intros HI Hops S. destruct (stub_skeleton_record n R HI) as (HIs & Hsk & _).
  destruct (patch_on_skel S R ops HIs HI Hsk Hops) as [HP Hr].
  rewrite HP, <-run_decompose by done. split; [done|]. split; [done|].
  apply viewmap_eq. apply fold_refines. by apply boundary_refines, Inv_Sim_viewmap.
Qed.

(** Copying transports stored values: it is not existence-based. *)
Local Open Scope string_scope.
Lemma copy_depends_on_data :
  ∃ R1 R2 ops, Inv R1 ∧ Inv R2 ∧ skel (viewmap R1) = skel (viewmap R2) ∧
               patch_on R1 ops ≠ patch_on R2 ops.
Proof.
  exists (run_m [OData [(false, "a")] "i:1"]), (run_m [OData [(false, "a")] "i:2"]),
         [OCopy [(false, "a")] [(false, "b")]].
  split; [apply run_refines|]. split; [apply run_refines|]. split.
  - rewrite !(viewmap_eq _ _ (run_refines _)). apply (bool_decide_unpack _). by vm_compute.
  - intros H. apply (f_equal (λ c : cont, c !! [(false, "b")])) in H. vm_compute in H. done.
Qed.
Local Close Scope string_scope.

(** ** Skeleton with creation indices *)

Lemma skelx_fst R : fst <$> skelx R = skel (viewmap R).
Proof.
  apply map_eq. intros p. unfold skelx, skel, viewmap.
  rewrite !lookup_fmap, !map_lookup_imap. destruct (all_keys R !! p) as [[]|]; [|done]. cbn.
  unfold xstat, vget. by destruct (status R p) as [[i [|v|b]]|].
Qed.

(** ** The chain: a patch made on the stub continues the real record *)

Section ChainSnoc.
  Import Chain ChainProofs.
  Local Open Scope N_scope.

  Lemma linked_snoc c : ∀ nf pf d,
    linked c → List.last c d = nf →
    fidx nf < fidx pf → fprev pf = Some (fpid nf) → linked (c ++ [pf]).
  Proof.
    induction c as [|a c IH]; intros nf pf d Hl Hlast Hi Hp; [inversion Hl|].
    destruct c as [|b c'].
    - cbn in Hlast. subst a. cbn. constructor; [done|done|constructor].
    - inversion Hl as [|? ? ? H1 H2 H3]; subst. cbn [app].
      constructor; [done|done|]. eapply (IH _ pf d); [done|reflexivity|done|done].
  Qed.

  Lemma last_in {X} (c : list X) d : c ≠ [] → In (List.last c d) c.
  Proof.
    induction c as [|a c IH]; [done|]. intros _. destruct c as [|b c']; [by left|].
    right. by apply IH.
  Qed.

  Lemma patch_accepted c nf pf :
    chain_ok true false c → Forall intact c → c ≠ [] → List.last c nf = nf →
    frec pf = frec nf → fidx nf < fidx pf → fprev pf = Some (fpid nf) →
    ¬ In (fpid pf) (map fpid c) →
    intact pf → mf_ok pf → not_stub pf →
    chain_ok true false (c ++ [pf]).
  Proof.
    intros [Hbase Hlinks Hnodup Hcommit] Hint Hne Hlast Hrec Hidx Hprev Hfresh Hipf Hmf Hns.
    destruct Hbase as (b & ps & -> & Hb & Hrecs & Hstubs).
    assert (frec nf = frec b) as Hnfb.
    { pose proof (last_in (b :: ps) nf Hne) as Hin. rewrite Hlast in Hin.
      destruct Hin as [->|Hin]; [done|]. rewrite Forall_forall in Hrecs.
      apply Hrecs. by apply elem_of_list_In. }
    constructor.
    - exists b, (ps ++ [pf]). split; [done|]. split; [done|]. split.
      + apply Forall_app. split; [done|]. constructor; [congruence|constructor].
      + intros _. apply Forall_app. split; [by apply Hstubs|]. by constructor.
    - by eapply linked_snoc.
    - apply NoDup_ListNoDup. apply NoDup_ListNoDup in Hnodup.
      rewrite map_app. apply NoDup_app. split; [done|]. split.
      + intros x Hx [<-|[]]%elem_of_list_In. apply Hfresh. by apply elem_of_list_In.
      + apply NoDup_singleton.
    - exists (b :: ps), pf. split; [done|]. split; [done|]. split; [by right|done].
  Qed.
End ChainSnoc.

(** ** Manifests *)

Section Manifest.
  Context (H : manifest → N) (Hp : cont → N).
  Local Open Scope N_scope.

  (** What one commit establishes. *)
  Definition exts_rule (given : option exts) (before : option manifest) (m' : manifest) : Prop :=
    mf_exts m' = match given with
                 | Some e => e
                 | None => match before with Some m => mf_exts m | None => exts0 end
                 end.

  Lemma commit_spec stub given st st' :
    mf_commit H Hp stub given st = Some st' →
    mf_linked H st' ∧ committed st' = true ∧ r_stack st' = r_stack st ∧
    (∃ m', r_mf st' = Some m' ∧ exts_rule given (r_mf st) m' ∧ mf_uuid m' = r_next st) ∧
    r_next st' = r_next st + 1 ∧
    (∃ u u' us, r_ubs st = u :: us ∧ r_ubs st' = u' :: us ∧ ub_core u' = ub_core u ∧
                is_stub_ub u' = stub) ∧
    tail (r_disk st') = tail (r_disk st).
  Proof.
    unfold mf_commit. destruct (r_stack st) as [|[n c] R] eqn:HR; [done|].
    destruct (r_ubs st) as [|u us] eqn:Hu; [done|]. destruct (r_disk st) as [|d ds] eqn:Hd; [done|].
    destruct (Chain.hash u) eqn:Hh; [done|]. intros [= <-]. cbn.
    split; [|split; [done|split; [done|split; [|split; [done|split; [|done]]]]]].
    - unfold mf_linked. cbn. split; [done|]. split; [by eexists|]. split; [done|].
      split; [done|]. apply skelx_fst.
    - eexists. split; [done|]. split; [|done]. unfold exts_rule. cbn. by destruct given.
    - eexists u, _, us. done.
  Qed.

  Lemma create_patch_spec st st' :
    mf_create_patch st = Some st' →
    r_stack st' = m_boundary (r_stack st) ∧ r_mf st' = r_mf st ∧ committed st' = false ∧
    r_next st' = r_next st + 1.
  Proof.
    unfold mf_create_patch. destruct (r_ubs st) as [|u us]; [done|].
    destruct (Chain.hash u); [|done]. by intros [= <-].
  Qed.

  (** One round: the manifest of the new commit is linked from the user block, lies on disk
      beside the newest container, carries the skeleton of the record, and its extensions
      are the given ones or else those of the manifest loaded before. *)
  Lemma round_spec r st st' :
    mf_round H Hp r st = Some st' →
    mf_linked H st' ∧ committed st' = true ∧
    ∃ m', r_mf st' = Some m' ∧ exts_rule r.2 (r_mf st) m'.
  Proof.
    unfold mf_round. destruct (committed st).
    - destruct (mf_create_patch st) as [st1|] eqn:H1; [|done].
      apply create_patch_spec in H1 as (_ & Hmf & _). intros Hc.
      apply commit_spec in Hc as (Hl & Hc & _ & (m' & Hm & He & _) & _).
      split; [done|]. split; [done|]. exists m'. split; [done|]. by rewrite <-Hmf.
    - intros Hc. apply commit_spec in Hc as (Hl & Hc & _ & (m' & Hm & He & _) & _).
      split; [done|]. split; [done|]. by exists m'.
  Qed.

  (** Over commit histories: after every commit. *)
  Lemma manifest_inv rs : ∀ st st',
    mf_rounds H Hp rs st = Some st' →
    ∀ pre r post, rs = pre ++ r :: post →
    ∃ s1 s2, mf_rounds H Hp pre st = Some s1 ∧ mf_round H Hp r s1 = Some s2 ∧
             mf_rounds H Hp post s2 = Some st' ∧
             mf_linked H s2 ∧ ∃ m', r_mf s2 = Some m' ∧ exts_rule r.2 (r_mf s1) m'.
  Proof.
    induction rs as [|r0 rs IH]; intros st st' Hrun pre r post Heq.
    - by destruct pre.
    - cbn [mf_rounds] in Hrun. destruct (mf_round H Hp r0 st) as [st1|] eqn:Hr0; [|done].
      destruct pre as [|p0 pre]; cbn in Heq; injection Heq as -> ->.
      + exists st, st1. split; [done|]. split; [done|]. split; [done|].
        apply round_spec in Hr0 as (? & _ & ?). done.
      + destruct (IH _ _ Hrun pre r post eq_refl) as (s1 & s2 & H1 & H2 & H3 & H4).
        exists s1, s2. split; [|done]. cbn [mf_rounds]. by rewrite Hr0.
  Qed.

  (** Extensions persist over any number of commits that do not give new ones. *)
  Lemma exts_persist opss : ∀ st st' m,
    mf_rounds H Hp (map (λ ops, (ops, None)) opss) st = Some st' →
    r_mf st = Some m → ∃ m', r_mf st' = Some m' ∧ mf_exts m' = mf_exts m.
  Proof.
    induction opss as [|ops opss IH]; intros st st' m Hrun Hm; cbn in Hrun.
    - injection Hrun as <-. by exists m.
    - destruct (mf_round H Hp (ops, None) st) as [st1|] eqn:Hr; [|done].
      apply round_spec in Hr as (_ & _ & m1 & Hm1 & He). unfold exts_rule in He. cbn in He.
      rewrite Hm in He. destruct (IH _ _ _ Hrun Hm1) as (m' & ? & ?). exists m'. split; [done|].
      congruence.
  Qed.

  (** *** The stub and the patch made on it *)

  Definition stub_ub0 (m : manifest) : Chain.ublock :=
    let u := mf_ub m in
    Chain.MkUb (Chain.rec_id u) (Chain.idx u) (Chain.pid u) None None
      (Some (Chain.MkExt true (mf_uuid m) 0)).

  Lemma create_stub_spec keep m next :
    ∃ st0 m0 u0,
      create_stub_gen H Hp keep m next = Some st0 ∧
      r_stack st0 = stub_stack (N.to_nat (Chain.idx (mf_ub m))) (fst <$> mf_skel m) ∧
      r_ubs st0 = [u0] ∧ r_mf st0 = Some m0 ∧ r_disk st0 = [Some m0] ∧ r_next st0 = next + 1 ∧
      Chain.rec_id u0 = Chain.rec_id (mf_ub m) ∧ Chain.idx u0 = Chain.idx (mf_ub m) ∧
      Chain.pid u0 = Chain.pid (mf_ub m) ∧ Chain.prev u0 = None ∧
      Chain.ext u0 = Some (Chain.MkExt true next (H m0)) ∧
      Chain.hash u0 = Some (Hp (stub_of (fst <$> mf_skel m))) ∧ mf_uuid m0 = next ∧
      mf_exts m0 = (if keep then mf_exts m else exts0) ∧
      mf_can_merge st0 = false.
  Proof.
    unfold create_stub_gen, mf_commit, stub_stack. cbn.
    eexists _, _, _. split; [done|]. cbn. repeat (split; [done|]).
    split; [by destruct keep|]. done.
  Qed.

  Lemma stub_patch_spec keep m next r :
    Forall eb_op r.1 →
    let S := stub_stack (N.to_nat (Chain.idx (mf_ub m))) (fst <$> mf_skel m) in
    let P := patch_on S r.1 in
    ∃ sp mp u0 up m0,
      stub_patch_gen H Hp keep m next r = Some sp ∧
      r_stack sp = apply_patch S P ∧ r_ubs sp = [up; u0] ∧ r_mf sp = Some mp ∧
      r_disk sp = [Some mp; Some m0] ∧
      Chain.rec_id up = Chain.rec_id (mf_ub m) ∧ Chain.idx up = Chain.idx (mf_ub m) + 1 ∧
      Chain.pid up = next + 1 ∧ Chain.prev up = Some (Chain.pid (mf_ub m)) ∧
      Chain.hash up = Some (Hp P) ∧ Chain.ext up = Some (Chain.MkExt false (next + 2) (H mp)) ∧
      mf_uuid mp = next + 2 ∧ mf_skel mp = skelx (apply_patch S P) ∧
      mf_exts mp = match r.2 with Some e => e | None => if keep then mf_exts m else exts0 end ∧
      is_stub_ub u0 = true ∧ mf_can_merge sp = false ∧
      Chain.rec_id u0 = Chain.rec_id (mf_ub m) ∧ Chain.idx u0 = Chain.idx (mf_ub m) ∧
      Chain.pid u0 = Chain.pid (mf_ub m) ∧ Chain.prev u0 = None ∧
      Chain.hash u0 = Some (Hp (stub_of (fst <$> mf_skel m))) ∧
      Chain.ext u0 = Some (Chain.MkExt true next (H m0)) ∧ mf_uuid m0 = next.
  Proof.
    intros Hops S P. unfold stub_patch_gen.
    destruct (create_stub_spec keep m next)
      as (st0 & m0 & u0 & -> & HS & Hu & Hm & Hd & Hn & Hr & Hi & Hpid & Hpr & Hext & Hh & Hid0 & Hex & _).
    unfold mf_round, committed. rewrite Hu. cbn. rewrite Hh. cbn.
    unfold mf_create_patch. rewrite Hu, Hh. unfold mf_ops, mf_commit. cbn.
    rewrite HS. fold S. rewrite (run_decompose S r.1 Hops). fold P. unfold apply_patch at 1. cbn.
    rewrite Hd. cbn. eexists _, _, u0, _, m0. split; [done|]. cbn.
    rewrite Hr, Hi, Hpid, Hm, Hn.
    replace (next + 1 + 1) with (next + 2) by lia.
    repeat (split; [done|]). split.
    { rewrite Hex. by destruct r.2. }
    split.
    { unfold is_stub_ub. by rewrite Hext. }
    split.
    { unfold mf_can_merge. cbn. unfold is_stub_ub. by rewrite Hext. }
    done.
  Qed.

  (** The patch made on the stub is accepted as the next patch of the real record:
      [c] are the files of the real record (oldest first, all committed), [nf] the newest,
      [m] a manifest whose user-block copy agrees with the newest user block, identifiers
      below [next] are used up. *)
  Lemma stub_patch_accepted (c : list Chain.file) nf m next r :
    Chain.chain_ok true false c → Forall Chain.intact c → c ≠ [] → List.last c nf = nf →
    ub_core (mf_ub m) = ub_core (Chain.ub nf) →
    (∀ f, In f c → Chain.fpid f < next) →
    Forall eb_op r.1 →
    ∃ sp pf,
      stub_patch H Hp m next r = Some sp ∧
      head (files_nf H Hp (r_stack sp) (r_ubs sp) (r_disk sp)) = Some pf ∧
      Chain.fprev pf = Some (Chain.fpid nf) ∧ Chain.fidx pf = Chain.fidx nf + 1 ∧
      ∀ fs, Permutation (c ++ [pf]) fs → Chain.open_check true false fs = Some (c ++ [pf]).
  Proof.
    intros Hc Hint Hne Hlast Hcore Hfresh Hops.
    destruct (stub_patch_spec true m next r Hops)
      as (sp & mp & u0 & up & m0 & Hsp & HS & Hu & Hm & Hd & Hr & Hi & Hpid & Hpr & Hh & Hext & Hid & _).
    unfold ub_core in Hcore. injection Hcore as Hc1 Hc2 Hc3 Hc4.
    exists sp. eexists. split; [exact Hsp|]. rewrite HS, Hu, Hd. unfold apply_patch. cbn.
    split; [done|]. unfold Chain.fprev, Chain.fidx, Chain.fpid. cbn.
    split; [by rewrite Hpr, Hc3|]. split; [by rewrite Hi, Hc2|].
    intros fs Hperm. apply ChainProofs.accept_chain. split; [done|].
    apply (patch_accepted c nf); try done.
    - unfold Chain.frec. cbn. by rewrite Hr, Hc1.
    - unfold Chain.fidx. cbn. rewrite Hi, Hc2. lia.
    - unfold Chain.fprev, Chain.fpid. cbn. by rewrite Hpr, Hc3.
    - unfold Chain.fpid at 1. cbn. rewrite Hpid. intros Hin.
      apply in_map_iff in Hin as (f & Hf & Hin). specialize (Hfresh f Hin). lia.
    - unfold Chain.mf_ok, Chain.fext. cbn. rewrite Hext. intros e [= <-]. cbn. by eexists.
    - unfold Chain.not_stub, Chain.fext. cbn. rewrite Hext. by intros e [= <-].
  Qed.

  (** A set containing a stub cannot be merged: the stub alone, and the stub with a patch. *)
  Lemma stub_merge_refused keep m next :
    (∀ st0, create_stub_gen H Hp keep m next = Some st0 → mf_can_merge st0 = false) ∧
    (∀ r sp, Forall eb_op r.1 → stub_patch_gen H Hp keep m next r = Some sp →
             mf_can_merge sp = false).
  Proof.
    split.
    - intros st0 Hst. destruct (create_stub_spec keep m next) as (st0' & ? & ? & Hst' & H').
      rewrite Hst in Hst'. injection Hst' as <-. apply H'.
    - intros r sp Hops Hsp. destruct (stub_patch_spec keep m next r Hops) as (sp' & ? & ? & ? & ? & Hsp' & H').
      rewrite Hsp in Hsp'. injection Hsp' as <-.
      by destruct H' as (_ & _ & _ & _ & _ & _ & _ & _ & _ & _ & _ & _ & _ & _ & ? & _).
  Qed.

  (** Any record with a stub-flagged user block refuses to merge. *)
  Lemma merge_refused_stub st u :
    u ∈ r_ubs st → is_stub_ub u = true → mf_can_merge st = false.
  Proof.
    intros Hin Hs. unfold mf_can_merge. apply andb_false_iff. right. apply negb_false_iff.
    apply existsb_exists. exists u. split; [by apply elem_of_list_In|done].
  Qed.

  (** Extensions through the stub: kept by the repaired [create_stub], dropped by the pinned. *)
  Lemma stub_exts_kept m next ops sp mp :
    Forall eb_op ops → stub_patch H Hp m next (ops, None) = Some sp → r_mf sp = Some mp →
    mf_exts mp = mf_exts m.
  Proof.
    intros Hops Hsp Hm. destruct (stub_patch_spec true m next (ops, None) Hops)
      as (sp' & mp' & ? & ? & ? & Hsp' & _ & _ & Hm' & _ & _ & _ & _ & _ & _ & _ & _ & _ & He & _).
    unfold stub_patch in Hsp. rewrite Hsp in Hsp'. injection Hsp' as <-. cbn in He. congruence.
  Qed.
End Manifest.

Lemma stub_exts_pinned_refuted :
  ∃ m next ops sp mp,
    Forall eb_op ops ∧ stub_patch_gen rH rHp false m next (ops, None) = Some sp ∧
    r_mf sp = Some mp ∧ mf_exts mp ≠ mf_exts m.
Proof.
  exists (MkMf 3 (Chain.MkUb 1 0 2 None None None) ∅ "{""packer"": 1}"), 4%N, [].
  destruct (stub_patch_spec rH rHp false (MkMf 3 (Chain.MkUb 1 0 2 None None None) ∅ "{""packer"": 1}")
              4%N ([], None) (Forall_nil_2 _))
    as (sp & mp & ? & ? & ? & Hsp & _ & _ & Hm & _ & _ & _ & _ & _ & _ & _ & _ & _ & He & _).
  exists sp, mp. split; [constructor|]. split; [done|]. split; [done|]. rewrite He. done.
Qed.

Lemma stub_view_spec (n : nat) (T : tree) :
  wf_tree T → Sim (stub_stack n (skel T)) (blank T) ∧ skel (blank T) = skel T.
Proof. intros HT. split; [by apply stub_sim|apply skel_blank]. Qed.

(** ** Whole histories: the real record is a well-formed chain, and the stub work flow closes *)

Definition nb_op (o : op) : Prop := match o with OBoundary => False | _ => True end.

Lemma copy_shape R (src dst : path) R1 : m_copy R src dst = Some R1 → same_shape R R1.
Proof.
  unfold m_copy. destruct src as [|s sp]; [done|]. destruct dst as [|t dpar]; [done|].
  destruct (status R (s :: sp)) as [[i e]|]; [|done]. destruct (status R (t :: dpar)); [done|].
  destruct (m_mkgroups _ R dpar) as [[R0 c]|] eqn:Hm; [|done]. intros [= <-].
  eapply same_shape_trans; [by eapply mkgroups_shape|apply same_shape_with_top].
Qed.

Lemma step_shape_nb R o : nb_op o → same_shape R (m_step R o).1.
Proof.
  intros Ho. destruct o as [q|q v|q|p k v|p k|s d|s d|]; try (by apply step_shape).
  - unfold m_step. destruct (is_node_path s && is_node_path d); [|apply same_shape_refl].
    destruct (m_copy R s d) eqn:Hc; [|apply same_shape_refl]. by eapply copy_shape.
  - unfold m_step. destruct (is_node_path s && is_node_path d); [|apply same_shape_refl].
    unfold m_move. case_decide; [apply same_shape_refl|].
    destruct (m_copy R s d) as [R1|] eqn:Hc; [|apply same_shape_refl].
    destruct (m_delete R1 s) as [R2|] eqn:Hd; [|apply same_shape_refl]. cbn.
    eapply same_shape_trans; [by eapply copy_shape|by eapply delete_shape].
Qed.

Lemma run_shape_nb ops : Forall nb_op ops → ∀ R, same_shape R (run_from R ops).
Proof.
  induction 1 as [|o ops Ho _ IH]; intros R; [apply same_shape_refl|]. cbn [run_from foldl].
  eapply same_shape_trans; [by apply step_shape_nb|apply IH].
Qed.

Lemma run_Inv ops R : Inv R → Inv (run_from R ops).
Proof.
  intros HI. pose proof (fold_refines ops R _ (Inv_Sim_viewmap R HI)) as [? _]. done.
Qed.

Section Histories.
  Context (H : manifest → N) (Hp : cont → N).
  Import Chain ChainProofs.
  Local Open Scope N_scope.

  Definition rec_wf (st : mfrec) : Prop :=
    Inv (r_stack st) ∧ committed st = true ∧
    length (r_ubs st) = length (r_stack st) ∧ length (r_disk st) = length (r_stack st) ∧
    chain_ok true false (files_of H Hp st) ∧ Forall intact (files_of H Hp st) ∧
    (∀ f, In f (files_of H Hp st) → fpid f < r_next st) ∧
    mf_linked H st.

  Lemma files_nf_length R : ∀ us ds,
    length us = length R → length ds = length R → length (files_nf H Hp R us ds) = length R.
  Proof.
    induction R as [|[n c] R IH]; intros [|u us] [|d ds]; cbn; try done.
    intros [= Hu] [= Hd]. by rewrite IH.
  Qed.

  (** The commit of a writable newest container [(n, c)] with user block [u]. *)
  Lemma commit_files stub given st st' (n : nat) c R u us d0 ds :
    r_stack st = (n, c) :: R → r_ubs st = u :: us → r_disk st = d0 :: ds →
    mf_commit H Hp stub given st = Some st' →
    ∃ u' m, r_stack st' = (n, c) :: R ∧ r_ubs st' = u' :: us ∧ r_disk st' = Some m :: ds ∧
            r_mf st' = Some m ∧ r_next st' = r_next st + 1 ∧
            rec_id u' = rec_id u ∧ idx u' = idx u ∧ pid u' = pid u ∧ prev u' = prev u ∧
            hash u' = Some (Hp c) ∧ ext u' = Some (MkExt stub (r_next st) (H m)) ∧
            mf_uuid m = r_next st ∧ mf_linked H st'.
  Proof.
    intros HR Hu Hd Hc. pose proof (commit_spec H Hp _ _ _ _ Hc) as (Hl & _).
    revert Hc. unfold mf_commit. rewrite HR, Hu, Hd. destruct (hash u); [done|].
    intros [= <-]. cbn. eexists _, _. do 12 (split; [done|]). exact Hl.
  Qed.

  Lemma first_round_wf r (next : N) st' :
    Forall nb_op r.1 → mf_round H Hp r (mf_new next) = Some st' → rec_wf st' ∧ next + 2 ≤ r_next st'.
  Proof.
    intros Hops. unfold mf_round. cbn [committed mf_new r_ubs Chain.hash Chain.is_some].
    intros Hc.
    destruct (run_shape_nb r.1 Hops m_init) as (Ht & Hi & Hne).
    pose proof (stack_eta _ (Hne ltac:(done))) as Heta. cbn in Ht, Hi. rewrite Ht, Hi in Heta.
    lazymatch type of Hc with mf_commit _ _ _ _ ?s = _ =>
      destruct (commit_files false r.2 s st' _ _ _ _ _ _ _ Heta eq_refl eq_refl Hc)
        as (u' & m & HR & Hu & Hd & Hm & Hn & Hrec & Hidx & Hpid & Hprev & Hh & Hext & Hid & Hl)
    end.
    cbn in Hn, Hrec, Hidx, Hpid, Hprev, Hext.
    assert (files_of H Hp st' = [MkFile u' (Hp (top_cont (run_from m_init r.1))) (Some (mf_uuid m, H m))]) as Hf.
    { unfold files_of. by rewrite HR, Hu, Hd. }
    split; [|lia]. split.
    { rewrite HR. rewrite <-Heta. apply run_Inv. apply init_sim. }
    split; [unfold committed; by rewrite Hu, Hh|].
    split; [by rewrite HR, Hu|]. split; [by rewrite HR, Hd|].
    rewrite Hf. split; [|split; [|split; [|done]]].
    - constructor.
      + eexists _, []. split; [done|]. split; [done|]. split; [constructor|]. intros _. constructor.
      + constructor.
      + cbn. apply NoDup_ListNoDup, NoDup_singleton.
      + eexists [], _. split; [done|]. split; [constructor|]. split.
        * right. unfold intact, fhash. by cbn.
        * intros _ e. unfold fext. cbn. rewrite Hext. intros [= <-]. cbn. by eexists.
    - constructor; [|constructor]. unfold intact, fhash. by cbn.
    - intros f [<-|[]]. unfold fpid. cbn. rewrite Hpid, Hn. lia.
  Qed.

  Lemma round_wf r st st' :
    rec_wf st → Forall nb_op r.1 → mf_round H Hp r st = Some st' →
    rec_wf st' ∧ r_next st ≤ r_next st'.
  Proof.
    intros (HI & Hcom & Hlu & Hld & Hchain & Hint & Hfresh & Hlink) Hops.
    unfold mf_round. rewrite Hcom. unfold mf_create_patch.
    destruct (r_stack st) as [|[n0 c0] R0] eqn:HR0; [by destruct HI|].
    destruct (r_ubs st) as [|u0 us0] eqn:Hu0; [done|].
    destruct (r_disk st) as [|d0 ds0] eqn:Hd0; [done|].
    unfold committed in Hcom. rewrite Hu0 in Hcom.
    destruct (hash u0) as [h0|] eqn:Hh0; [|done]. cbn [mf_ops r_stack r_ubs r_mf r_disk r_next].
    intros Hc.
    set (R := (n0, c0) :: R0) in *.
    destruct (run_shape_nb r.1 Hops (m_boundary R)) as (Ht & Hi & Hne).
    pose proof (stack_eta _ (Hne ltac:(done))) as Heta. cbn in Ht, Hi. rewrite Ht, Hi in Heta.
    set (P := top_cont (run_from (m_boundary R) r.1)) in *.
    lazymatch type of Hc with mf_commit _ _ _ _ ?s = _ =>
      destruct (commit_files false r.2 s st' _ _ _ _ _ _ _ Heta eq_refl eq_refl Hc)
        as (u' & m & HR & Hu & Hd & Hm & Hn & Hrec & Hidx & Hpid & Hprev & Hh & Hext & Hid & Hl)
    end.
    cbn in Hn, Hrec, Hidx, Hpid, Hprev, Hext.
    set (pf := MkFile u' (Hp P) (Some (mf_uuid m, H m))).
    set (nf := MkFile u0 (Hp c0) ((λ m, (mf_uuid m, H m)) <$> d0)).
    assert (files_of H Hp st = rev (files_nf H Hp R0 us0 ds0) ++ [nf]) as Hf0.
    { unfold files_of. by rewrite HR0, Hu0, Hd0. }
    assert (files_of H Hp st' = files_of H Hp st ++ [pf]) as Hf.
    { rewrite Hf0. unfold files_of. rewrite HR, Hu, Hd. done. }
    split; [|lia]. split.
    { rewrite HR, <-Heta. apply run_Inv. apply boundary_refines with (T := viewmap R).
      by apply Inv_Sim_viewmap. }
    split; [unfold committed; by rewrite Hu, Hh|].
    split; [rewrite HR, Hu; cbn; cbn in Hlu; lia|]. split; [rewrite HR, Hd; cbn; cbn in Hld; lia|].
    rewrite Hf.
    assert (List.last (files_of H Hp st) nf = nf) as Hlast by (rewrite Hf0; apply last_last).
    assert (files_of H Hp st ≠ []) as Hne0 by (rewrite Hf0; by destruct (rev _)).
    split; [|split; [|split; [|done]]].
    - apply (patch_accepted _ nf); [done|done|done|done| | | | | | |].
      + unfold frec. cbn. by rewrite Hrec.
      + unfold fidx. cbn. rewrite Hidx. lia.
      + unfold fprev, fpid. cbn. by rewrite Hprev.
      + unfold fpid at 1. cbn. rewrite Hpid. intros (f & Hf1 & Hin)%in_map_iff.
        specialize (Hfresh f Hin). lia.
      + unfold intact, fhash. cbn. done.
      + intros e. unfold fext. cbn. rewrite Hext. intros [= <-]. cbn. by eexists.
      + intros e. unfold fext. cbn. rewrite Hext. by intros [= <-].
    - apply Forall_app. split; [done|]. constructor; [|constructor]. unfold intact, fhash. by cbn.
    - intros f [Hin|[<-|[]]]%in_app_or.
      + specialize (Hfresh f Hin). lia.
      + unfold fpid. cbn. rewrite Hpid, Hn. lia.
  Qed.

  Lemma rounds_wf rs : ∀ st st',
    rec_wf st → Forall (λ r, Forall nb_op r.1) rs → mf_rounds H Hp rs st = Some st' → rec_wf st'.
  Proof.
    induction rs as [|r rs IH]; intros st st' Hwf Hops; cbn [mf_rounds].
    - by intros [= <-].
    - apply Forall_cons in Hops as [Hr Hrs].
      destruct (mf_round H Hp r st) as [st1|] eqn:Hr1; [|done].
      apply round_wf in Hr1 as [Hwf1 _]; [|done|done]. by apply IH.
  Qed.

  (** Every history that starts from a fresh record yields a well-formed committed record. *)
  Lemma history_wf rs (next : N) st :
    rs ≠ [] → Forall (λ r, Forall nb_op r.1) rs →
    mf_rounds H Hp rs (mf_new next) = Some st → rec_wf st.
  Proof.
    destruct rs as [|r rs]; [done|]. intros _ [Hr Hrs]%Forall_cons. cbn [mf_rounds].
    destruct (mf_round H Hp r (mf_new next)) as [st1|] eqn:H1; [|done].
    apply first_round_wf in H1 as [Hwf _]; [|done]. by apply rounds_wf.
  Qed.

  Lemma direct_round_exists r st (k : N) :
    committed st = true → r_stack st ≠ [] → Forall eb_op r.1 →
    ∃ d, mf_round H Hp r (with_next st k) = Some d ∧
         r_stack d = run_from (m_boundary (r_stack st)) r.1.
  Proof.
    intros Hcom Hne Hops. unfold mf_round, committed, with_next. cbn [r_ubs].
    unfold committed in Hcom. rewrite Hcom. unfold mf_create_patch. cbn [r_ubs].
    destruct (r_ubs st) as [|u0 us0]; [done|]. destruct (hash u0); [|done].
    unfold mf_ops, mf_commit. cbn [r_stack r_ubs r_disk r_mf r_next].
    rewrite (run_decompose (r_stack st) r.1 Hops). unfold apply_patch at 1. cbn.
    eexists. split; [done|]. done.
  Qed.

  (** The whole work flow on a well-formed committed record [real] with loaded manifest [m]:
      stub from [m], an existence-based update [r] on it, the resulting patch file [pf];
      [pf] is accepted on top of the real files in any listing order; the record so opened has
      the same containers as after the direct update [r] on [real] (so the same view at every
      path), which is the plain-tree update of the real view; the stub set refuses to merge. *)
  Lemma end_to_end real m r (k : N) :
    rec_wf real → r_mf real = Some m → Forall eb_op r.1 →
    ∃ sp pf g d,
      stub_patch H Hp m (r_next real) r = Some sp ∧
      mf_can_merge sp = false ∧
      head (files_nf H Hp (r_stack sp) (r_ubs sp) (r_disk sp)) = Some pf ∧
      (∀ fs, Permutation (files_of H Hp real ++ [pf]) fs →
             open_check true false fs = Some (files_of H Hp real ++ [pf])) ∧
      graft_patch real sp = Some g ∧ files_of H Hp g = files_of H Hp real ++ [pf] ∧
      mf_round H Hp r (with_next real k) = Some d ∧
      r_stack g = r_stack d ∧
      viewmap (r_stack g) = foldl (λ T o, (t_step T o).1) (viewmap (r_stack real)) r.1.
  Proof.
    intros (HI & Hcom & Hlu & Hld & Hchain & Hint & Hfresh & Hlink) Hm Hops.
    pose proof HI as HI'.
    unfold mf_linked in Hlink. rewrite Hm in Hlink.
    destruct (r_stack real) as [|[n0 c0] R0] eqn:HR0; [done|].
    destruct (r_ubs real) as [|u0 us0] eqn:Hu0; [done|].
    destruct (r_disk real) as [|d0 ds0] eqn:Hd0; [done|].
    destruct Hlink as (-> & _ & Hcore & _ & Hsk).
    set (R := (n0, c0) :: R0) in *.
    set (nf := MkFile u0 (Hp c0) (Some (mf_uuid m, H m))).
    assert (files_of H Hp real = rev (files_nf H Hp R0 us0 ds0) ++ [nf]) as Hf0.
    { unfold files_of. by rewrite HR0, Hu0, Hd0. }
    assert (List.last (files_of H Hp real) nf = nf) as Hlast by (rewrite Hf0; apply last_last).
    assert (files_of H Hp real ≠ []) as Hne0 by (rewrite Hf0; by destruct (rev _)).
    destruct (stub_patch_accepted H Hp (files_of H Hp real) nf m (r_next real) r
                Hchain Hint Hne0 Hlast Hcore Hfresh Hops) as (sp & pf & Hsp & Hpf & _ & _ & Hacc).
    destruct (stub_patch_spec H Hp true m (r_next real) r Hops)
      as (sp' & mp & u0' & up & m0 & Hsp' & HS & Hu & Hmp & Hd & _).
    unfold stub_patch in Hsp. rewrite Hsp in Hsp'. injection Hsp' as <-.
    destruct (stub_merge_refused H Hp true m (r_next real)) as [_ Hmerge].
    destruct (direct_round_exists r real k) as (d & Hd1 & Hd2);
      [exact Hcom|rewrite HR0; unfold R; done|done|].
    rewrite HS, Hu, Hd in Hpf. unfold apply_patch in Hpf. cbn in Hpf. injection Hpf as <-.
    eexists sp, _, _, d. split; [done|]. split; [by eapply Hmerge|].
    split; [by rewrite HS, Hu, Hd|]. split; [exact Hacc|].
    split; [unfold graft_patch; by rewrite HS, Hu, Hd|]. cbn [r_stack].
    split; [unfold files_of; cbn [r_stack r_ubs r_disk]; rewrite HR0, Hu0, Hd0; done|].
    split; [done|].
    rewrite Hsk, HR0 in *. fold R.
    destruct (stub_patch_applies (N.to_nat (idx (mf_ub m))) R r.1 HI' Hops) as (H1 & _ & H3).
    rewrite Hd2. split; [exact H1|exact H3].
  Qed.

  (** ... for every history from a fresh record. *)
  Lemma history_end_to_end rs (next : N) real m r (k : N) :
    rs ≠ [] → Forall (λ r, Forall nb_op r.1) rs →
    mf_rounds H Hp rs (mf_new next) = Some real → r_mf real = Some m → Forall eb_op r.1 →
    ∃ sp pf g d,
      stub_patch H Hp m (r_next real) r = Some sp ∧
      mf_can_merge sp = false ∧
      head (files_nf H Hp (r_stack sp) (r_ubs sp) (r_disk sp)) = Some pf ∧
      (∀ fs, Permutation (files_of H Hp real ++ [pf]) fs →
             open_check true false fs = Some (files_of H Hp real ++ [pf])) ∧
      graft_patch real sp = Some g ∧ files_of H Hp g = files_of H Hp real ++ [pf] ∧
      mf_round H Hp r (with_next real k) = Some d ∧
      r_stack g = r_stack d ∧
      viewmap (r_stack g) = foldl (λ T o, (t_step T o).1) (viewmap (r_stack real)) r.1.
  Proof.
    intros Hne Hnb Hrun. apply end_to_end. by eapply history_wf.
  Qed.
End Histories.

(** The manifest written with a patch made on a stub names the paths, kinds and attribute
    names of the patched real record, but carries the stub's patch index for every node the
    stub provided (the code computes the skeleton on stub + patch): /a is created in the base
    container (index 0), the record has two containers, the stub gets index 1. *)
Local Open Scope string_scope.
Definition index_case : option (option (kind * nat) * option (kind * nat) * bool) :=
  real ← mf_rounds rH rHp [([OData [(false, "a")] "i:1"], None); ([], None)] (mf_new 1);
  m ← r_mf real;
  sp ← stub_patch rH rHp m (r_next real) ([OData [(false, "b")] "i:2"], None);
  mp ← r_mf sp;
  g ← graft_patch real sp;
  Some (mf_skel mp !! [(false, "a")], skelx (r_stack g) !! [(false, "a")],
        bool_decide (fst <$> mf_skel mp = fst <$> skelx (r_stack g))).

Lemma stub_manifest_index_observed :
  index_case = Some (Some (KData, 1%nat), Some (KData, 0%nat), true).
Proof. vm_compute. reflexivity. Qed.
Local Close Scope string_scope.

(** ** The loop of [init_stub_skeleton] builds [stub_of] *)

(** Attributes are values (the skeleton of the code cannot say anything else). *)
Definition attrs_data (T : tree) : Prop :=
  ∀ s par e, T !! (s :: par) = Some e → s.1 = true → kind_of e = KData.

(** Every entry comes after its parent ([visititems] is a pre-order walk and the attributes
    of a node follow it). *)
Fixpoint parent_first (s1 : skeleton) (l : list (path * kind)) : Prop :=
  match l with
  | [] => True
  | pk :: r =>
      match pk.1 with
      | [] => False
      | [_] => True
      | _ :: par => is_Some (s1 !! par)
      end ∧ parent_first (<[pk.1 := pk.2]> s1) r
  end.

Definition restrict (T : tree) (s1 : skeleton) : tree :=
  filter (λ pe, is_Some (s1 !! pe.1)) T.

Definition sub_ok (T : tree) (s1 : skeleton) : Prop :=
  s1 ⊆ skel T ∧ ∀ s par, is_Some (s1 !! (s :: par)) → par ≠ [] → is_Some (s1 !! par).

Lemma restrict_lookup T s1 p :
  restrict T s1 !! p = if decide (is_Some (s1 !! p)) then T !! p else None.
Proof.
  unfold restrict. apply option_eq. intros e. rewrite map_filter_lookup_Some. cbn.
  case_decide; naive_solver.
Qed.

Lemma skel_restrict T s1 : s1 ⊆ skel T → skel (restrict T s1) = s1.
Proof.
  intros Hsub. apply map_eq. intros p. rewrite skel_lookup, restrict_lookup.
  case_decide as Hp.
  - destruct Hp as [k Hk]. rewrite Hk. rewrite <-skel_lookup.
    by apply (lookup_weaken _ _ _ _ Hk Hsub).
  - by apply eq_None_not_Some in Hp as ->.
Qed.

Lemma wf_restrict T s1 : wf_tree T → sub_ok T s1 → wf_tree (restrict T s1).
Proof.
  intros [Hroot Hwf] [Hsub Hcl]. split.
  - rewrite restrict_lookup. by case_decide.
  - intros s par e. rewrite restrict_lookup. case_decide as Hq; [|done]. intros He.
    destruct (Hwf _ _ _ He) as (ep & Hp & Hh). exists ep. split; [|done].
    destruct par as [|s' par']; [done|]. cbn [tget] in *. rewrite restrict_lookup.
    rewrite decide_True; [done|]. by apply (Hcl s).
Qed.

Lemma wf_node_path T : wf_tree T → ∀ par s e, T !! (s :: par) = Some e → is_node_path par = true.
Proof.
  intros [_ Hwf]. induction par as [|s' par IH]; intros s e He; [done|].
  destruct (Hwf _ _ _ He) as (ep & Hp & Hh). cbn [tget] in Hp.
  change (negb s'.1 && is_node_path par = true). rewrite (IH _ _ Hp), andb_true_r.
  destruct s' as [[] k']; [done|done].
Qed.

Lemma mkgroups_noop deep R (q : path) lb b :
  is_node_path q = true → status R q = Some (lb, RGroup b) → m_mkgroups deep R q = Some (R, false).
Proof.
  revert lb b. induction q as [|s par IH]; intros lb b Hnp Hq; [done|]. cbn [m_mkgroups].
  assert (is_Some (status R (s :: par))) as Hv by (by rewrite Hq).
  apply status_parent in Hv as (lbp & ep & Hp & Hh).
  assert (∃ bp, ep = RGroup bp) as [bp ->].
  { cbn in Hnp. apply andb_prop in Hnp as [Hs _]. destruct s as [[] k]; [done|].
    destruct par as [|[[] ?] ?], ep; cbn in Hh; try done; eauto. }
  rewrite (IH _ _ (node_path_tail _ _ Hnp) Hp). by rewrite Hq.
Qed.

Lemma stub_graft s1 (q : path) k :
  (∀ a, a ∈ ancestors q → is_Some (s1 !! a)) →
  graft {[q := stub_entry k]} (stub_of s1) q = stub_of (<[q := k]> s1).
Proof.
  intros Hanc. apply map_eq. intros x. rewrite graft_lookup. unfold stub_of.
  rewrite !lookup_fmap. destruct (decide (x = q)) as [->|Hx].
  - by rewrite lookup_singleton, lookup_insert.
  - rewrite lookup_singleton_ne, lookup_insert_ne by done.
    destruct (s1 !! x) as [kx|] eqn:Hsx; [done|]. cbn. rewrite carr_lookup.
    case_decide as Ha; [|done]. apply Hanc in Ha. rewrite Hsx in Ha. by destruct Ha.
Qed.

Lemma sub_ok_insert T s1 (q : path) k :
  sub_ok T s1 → skel T !! q = Some k →
  match q with [] => False | [_] => True | _ :: par => is_Some (s1 !! par) end →
  sub_ok T (<[q := k]> s1).
Proof.
  intros [Hsub Hcl] Hk Hpar. split.
  - by apply insert_subseteq_l.
  - intros s par. destruct (decide (s :: par = q)) as [<-|Hne].
    + intros _ Hp. destruct par as [|s' par']; [done|].
      destruct (decide (s' :: par' = s :: s' :: par')) as [Heq|Hne'].
      * apply (f_equal length) in Heq. cbn in Heq. lia.
      * by rewrite lookup_insert_ne.
    + rewrite lookup_insert_ne by done. intros Hs Hp. specialize (Hcl _ _ Hs Hp).
      destruct (decide (par = q)) as [->|]; [by rewrite lookup_insert|by rewrite lookup_insert_ne].
Qed.

Lemma sub_ok_ancestors T s1 (s : seg) (par : path) :
  sub_ok T s1 → (par = [] ∨ is_Some (s1 !! par)) →
  ∀ a, a ∈ ancestors (s :: par) → is_Some (s1 !! a).
Proof.
  intros [_ Hcl] Hpar a (Hne & Hq & Ha)%elem_of_ancestors.
  apply suffix_cons_inv' in Ha as [Ha|Ha]; [done|].
  destruct Hpar as [->|Hp]; [by apply suffix_nil_inv in Ha|].
  clear Hq. induction par as [|s' par' IH]; [by apply suffix_nil_inv in Ha|].
  apply suffix_cons_inv' in Ha as [->|Ha]; [done|]. apply IH; [|done].
  apply (Hcl s' par' Hp). intros ->. by apply suffix_nil_inv in Ha.
Qed.

Lemma build_step (n : nat) T s1 (q : path) k :
  wf_tree T → attrs_data T → sub_ok T s1 → skel T !! q = Some k → s1 !! q = None →
  match q with [] => False | [_] => True | _ :: par => is_Some (s1 !! par) end →
  (m_step (stub_stack n s1) (stub_op (q, k))).1 = stub_stack n (<[q := k]> s1).
Proof.
  intros HT Hattr Hok Hk Hfresh Hpar. pose proof Hok as [Hsub Hcl].
  destruct q as [|s par]; [done|].
  rewrite skel_lookup in Hk. destruct (T !! (s :: par)) as [e|] eqn:He; [|done].
  injection Hk as Hk.
  pose proof (wf_node_path T HT par s e He) as Hnp.
  destruct HT as [Hroot Hwf]. destruct (Hwf _ _ _ He) as (ep & Hp & Hh).
  set (T1 := restrict T s1).
  assert (wf_tree T1) as HT1 by (by apply wf_restrict).
  assert (skel T1 = s1) as Hsk1 by (by apply skel_restrict).
  assert (Hst : ∀ s0 p0, status (stub_stack n s1) (s0 :: p0) = stub_raw n <$> T1 !! (s0 :: p0)).
  { intros s0 p0. rewrite <-Hsk1. by apply stub_status. }
  assert (T1 !! (s :: par) = None) as Hq1.
  { unfold T1. rewrite restrict_lookup. rewrite decide_False; [done|]. rewrite Hfresh. by intros [? ?]. }
  assert (par = [] ∨ is_Some (s1 !! par)) as Hpar'.
  { destruct par as [|s' par']; [by left|by right]. }
  assert (Hparst : ∃ lb ep', status (stub_stack n s1) par = Some (lb, ep') ∧ erase (Some (lb, ep')) = Some (blank_entry ep)).
  { destruct par as [|s' par'].
    - cbn in Hp. injection Hp as <-. by exists 0, (RGroup false).
    - rewrite Hst. unfold T1. rewrite restrict_lookup, decide_True by done. cbn [tget] in Hp.
      rewrite Hp. cbn. eexists _, _. split; [done|]. by destruct ep. }
  destruct Hparst as (lbp & ep' & Hps & Her).
  assert (Hgraft : m_write1 (stub_stack n s1) (s :: par) (stub_entry k) = stub_stack n (<[s :: par := k]> s1)).
  { unfold m_write1, stub_stack. cbn [with_top]. f_equal. f_equal.
    apply stub_graft. by eapply sub_ok_ancestors. }
  destruct s as [[] key].
  - (* attribute *)
    assert (k = KData) as -> by (rewrite <-Hk; by eapply Hattr).
    cbn [stub_op fst snd]. unfold m_step. rewrite Hnp. cbn [andb negb is_del_value].
    replace (bool_decide (placeholder = del_value)) with false by done. cbn [negb].
    unfold m_attr_set. rewrite Hps. cbn. exact Hgraft.
  - (* node *)
    assert (ep = TGroup) as ->.
    { destruct ep; [|done]. destruct par as [|[[] ?] ?]; cbn in Hh; done. }
    assert (∃ b, ep' = RGroup b) as [b ->] by (destruct ep'; cbn in Her; try done; eauto).
    assert (is_node_path ((false, key) :: par) = true) as Hnq
      by (change (negb false && is_node_path par = true); by rewrite Hnp).
    destruct k.
    + cbn [stub_op fst snd]. unfold m_step. rewrite Hnq. unfold m_create_group.
      rewrite Hst, Hq1. cbn [fmap option_fmap option_map]. cbn [m_mkgroups].
      rewrite (mkgroups_noop true _ par lbp b Hnp Hps). rewrite Hst, Hq1.
      cbn [fmap option_fmap option_map is_patch stub_stack andb fst]. exact Hgraft.
    + cbn [stub_op fst snd]. unfold m_step. rewrite Hnq. cbn [andb].
      replace (is_del_value placeholder) with false by done. cbn [negb]. unfold m_set_data.
      rewrite Hst, Hq1. cbn [fmap option_fmap option_map].
      rewrite (mkgroups_noop false _ par lbp b Hnp Hps). cbn. exact Hgraft.
Qed.

Lemma build_from (n : nat) T : wf_tree T → attrs_data T → ∀ l s1,
  sub_ok T s1 → Forall (λ pk, skel T !! pk.1 = Some pk.2) l → NoDup l.*1 →
  (∀ p, p ∈ l.*1 → s1 !! p = None) → parent_first s1 l →
  ∃ s2, run_from (stub_stack n s1) (map stub_op l) = stub_stack n s2 ∧
        ∀ p, s2 !! p = match s1 !! p with Some k => Some k | None => (list_to_map l : skeleton) !! p end.
Proof.
  intros HT Hattr. induction l as [|[q k] l IH]; intros s1 Hok Hall Hnd Hfresh Hpf.
  - exists s1. split; [done|]. intros p. cbn. rewrite lookup_empty. by destruct (s1 !! p).
  - apply Forall_cons in Hall as [Hk Hall]. cbn in Hk. cbn [fmap list_fmap] in Hnd.
    apply NoDup_cons in Hnd as [Hq Hnd]. destruct Hpf as [Hpar Hpf]. cbn [fst snd] in *.
    assert (s1 !! q = None) as Hfq by (apply Hfresh; cbn; left).
    cbn [map run_from foldl]. rewrite (build_step n T s1 q k) by done.
    destruct (IH (<[q := k]> s1)) as (s2 & Hrun & Hlk); try done.
    + by apply sub_ok_insert.
    + intros p Hp. rewrite lookup_insert_ne; [apply Hfresh; cbn; by right|]. by intros <-.
    + exists s2. split; [exact Hrun|]. intros p. rewrite Hlk. cbn [list_to_map foldr fst snd].
      destruct (decide (p = q)) as [->|Hne].
      * by rewrite !lookup_insert, Hfq.
      * by rewrite !lookup_insert_ne.
Qed.

(** For every well-formed tree whose attributes are values, and every listing of its skeleton
    in which parents come first, the loop builds exactly the stub of the skeleton. *)
Lemma stub_build_eq (n : nat) T (l : list (path * kind)) :
  wf_tree T → attrs_data T → NoDup l.*1 → list_to_map l = skel T → parent_first ∅ l →
  stub_build n l = stub_stack n (skel T).
Proof.
  intros HT Hattr Hnd Hl Hpf.
  destruct (build_from n T HT Hattr l ∅) as (s2 & Hrun & Hlk); try done.
  - split; [apply map_empty_subseteq|]. intros s par. rewrite lookup_empty. by intros [? ?].
  - apply Forall_forall. intros [q k] Hin. cbn. rewrite <-Hl.
    by apply elem_of_list_to_map_1.
  - unfold stub_build.
    replace [(n, (∅ : cont))] with (stub_stack n ∅)
      by (unfold stub_stack, stub_of; by rewrite fmap_empty).
    rewrite Hrun. f_equal. apply map_eq. intros p. rewrite Hlk, lookup_empty. by rewrite Hl.
Qed.

(** *** Attributes are values in every reachable tree *)

Lemma attrs_data_insert (T : tree) (q : path) e :
  attrs_data T → (∀ s par, q = s :: par → s.1 = true → kind_of e = KData) →
  attrs_data (<[q := e]> T).
Proof.
  intros HT Hq s par e'. destruct (decide (s :: par = q)) as [<-|Hne].
  - rewrite lookup_insert. intros [= <-] Hs. by eapply Hq.
  - rewrite lookup_insert_ne by done. apply HT.
Qed.

Lemma node_path_head (s : seg) (par : path) : is_node_path (s :: par) = true → s.1 = false.
Proof. cbn. intros [H _]%andb_prop. by destruct s as [[] ?]. Qed.

Lemma attrs_data_mkgroups (q : path) : ∀ T T1,
  attrs_data T → is_node_path q = true → t_mkgroups T q = Some T1 → attrs_data T1.
Proof.
  induction q as [|s par IH]; intros T T1 HT Hnp; cbn [t_mkgroups]; [by intros [= <-]|].
  destruct (t_mkgroups T par) as [T0|] eqn:H0; [|done].
  specialize (IH _ _ HT (node_path_tail _ _ Hnp) H0).
  destruct (T0 !! (s :: par)) as [[]|]; [done|by intros [= <-]|]. intros [= <-].
  apply attrs_data_insert; [done|]. intros s' par' [= <- <-] Hs.
  apply node_path_head in Hnp. congruence.
Qed.

Lemma attrs_data_subset (T T' : tree) : attrs_data T → T' ⊆ T → attrs_data T'.
Proof. intros HT Hsub s par e He. eapply HT. by eapply lookup_weaken. Qed.

Lemma attrs_data_copy (T : tree) (src dst : path) T1 :
  attrs_data T → is_node_path dst = true → t_copy T src dst = Some T1 → attrs_data T1.
Proof.
  intros HT Hnd. unfold t_copy. destruct src as [|ss sp]; [done|]. destruct dst as [|t dpar]; [done|].
  destruct (T !! (ss :: sp)); [|done]. destruct (T !! (t :: dpar)); [done|].
  destruct (t_mkgroups T dpar) as [T0|] eqn:H0; [|done]. intros [= <-].
  pose proof (attrs_data_mkgroups dpar _ _ HT (node_path_tail _ _ Hnd) H0) as HT0.
  intros s par e He Hs. apply lookup_union_Some_raw in He as [He|[_ He]]; [|by eapply HT0].
  destruct (decide (under (t :: dpar) (s :: par))) as [[r Hr]|Hu].
  - rewrite Hr, graft_snap_lookup, rel_snap_lookup in He. destruct r as [|s' r'].
    + cbn in Hr. injection Hr as -> ->. apply node_path_head in Hnd. congruence.
    + cbn in Hr. injection Hr as <- _. by eapply HT.
  - by rewrite graft_snap_None in He.
Qed.

Lemma attrs_data_step (T : tree) o : attrs_data T → attrs_data (t_step T o).1.
Proof.
  intros HT. unfold t_step.
  destruct o as [q|q v|q|p k v|p k|s d|s d|]; cbn [fst]; try done.
  - destruct (is_node_path q) eqn:Hnp; [|done]. unfold t_create_group.
    destruct q as [|s par]; [done|]. destruct (T !! (s :: par)); [done|].
    destruct (t_mkgroups T (s :: par)) eqn:Hm; [|done]. by eapply attrs_data_mkgroups.
  - destruct (is_node_path q) eqn:Hnp; [|done]. cbn [andb].
    destruct (negb (is_del_value v)); [|done]. unfold t_set_data.
    destruct q as [|s par]; [done|]. destruct (T !! (s :: par)); [done|].
    destruct (t_mkgroups T par) eqn:Hm; [|done]. cbn.
    apply attrs_data_insert; [|done]. by eapply attrs_data_mkgroups, Hm; [|eapply node_path_tail].
  - destruct (is_node_path q); [|done]. unfold t_delete. destruct q as [|s par]; [done|].
    destruct (T !! (s :: par)); [|done]. cbn. eapply attrs_data_subset; [done|].
    apply map_filter_subseteq.
  - destruct (is_node_path p && negb (is_del_value v)); [|done]. unfold t_attr_set.
    destruct (tget T p); [|done]. cbn. by apply attrs_data_insert.
  - destruct (is_node_path p); [|done]. unfold t_attr_del.
    destruct (tget T p); [|done]. destruct (T !! ((true, k) :: p)); [|done]. cbn.
    eapply attrs_data_subset; [done|]. apply delete_subseteq.
  - destruct (is_node_path s); [|done]. destruct (is_node_path d) eqn:Hd; [|done]. cbn [andb].
    destruct (t_copy T s d) eqn:Hc; [|done]. by eapply attrs_data_copy.
  - destruct (is_node_path s); [|done]. destruct (is_node_path d) eqn:Hd; [|done]. cbn [andb].
    unfold t_move. case_decide; [done|]. destruct (t_copy T s d) as [T1|] eqn:Hc; [|done].
    pose proof (attrs_data_copy _ _ _ _ HT Hd Hc) as H1. unfold t_delete.
    destruct s as [|ss sp]; [done|]. destruct (T1 !! (ss :: sp)); [|done]. cbn.
    eapply attrs_data_subset; [done|]. apply map_filter_subseteq.
Qed.

Lemma attrs_data_fold ops : ∀ T, attrs_data T → attrs_data (foldl (λ T o, (t_step T o).1) T ops).
Proof.
  induction ops as [|o ops IH]; intros T HT; [done|]. cbn [foldl]. by apply IH, attrs_data_step.
Qed.

Lemma attrs_data_run ops : attrs_data (run_t ops).
Proof. apply attrs_data_fold. intros s par e. by rewrite lookup_empty. Qed.

(** For the view of every record history: the loop run on any parent-first listing of its
    skeleton yields the stub the other theorems speak about. *)
Lemma stub_build_history (n : nat) ops (l : list (path * kind)) :
  NoDup l.*1 → list_to_map l = skel (viewmap (run_m ops)) → parent_first ∅ l →
  stub_build n l = stub_stack n (skel (viewmap (run_m ops))).
Proof.
  pose proof (run_refines ops) as HS. rewrite (viewmap_eq _ _ HS). intros Hnd Hl Hpf.
  apply stub_build_eq; [by eapply Sim_wf|apply attrs_data_run|done|done|done].
Qed.

(** ** The stub and the patch made on it open as a set *)

Section StubSet.
  Context (H : manifest → N) (Hp : cont → N).
  Import Chain ChainProofs.
  Local Open Scope N_scope.

  Lemma chain_single f :
    fprev f = None → intact f → mf_ok f → chain_ok true false [f].
  Proof.
    intros Hprev Hint Hmf. constructor.
    - eexists _, []. split; [done|]. split; [done|]. split; [constructor|]. intros _. constructor.
    - constructor.
    - cbn. apply NoDup_ListNoDup, NoDup_singleton.
    - eexists [], _. split; [done|]. split; [constructor|]. split; [by right|done].
  Qed.

  (** [T] = the tree whose skeleton the manifest [m] holds; the stub file [sf] (flagged, without
      predecessor) and the patch file [pf] made on it are accepted by [IH5MFRecord] in any
      listing order, and the record shows the update applied to the blanked tree. *)
  Lemma stub_set_opens T m next r :
    wf_tree T → fst <$> mf_skel m = skel T → pid (mf_ub m) < next → Forall eb_op r.1 →
    ∃ sp sf pf,
      stub_patch H Hp m next r = Some sp ∧ files_of H Hp sp = [sf; pf] ∧
      stub_marked sf = true ∧ fprev sf = None ∧ fprev pf = Some (fpid sf) ∧
      (∀ fs, Permutation [sf; pf] fs → open_check true false fs = Some [sf; pf]) ∧
      viewmap (r_stack sp) = foldl (λ T o, (t_step T o).1) (blank T) r.1.
  Proof.
    intros HT Hsk Hfresh Hops.
    destruct (stub_patch_spec H Hp true m next r Hops)
      as (sp & mp & u0 & up & m0 & Hsp & HS & Hu & Hmp & Hd & Hr & Hi & Hpid & Hpr & Hh & Hext
          & Hid & _ & _ & _ & _ & Hr0 & Hi0 & Hpid0 & Hpr0 & Hh0 & Hext0 & Hid0).
    set (nn := N.to_nat (idx (mf_ub m))) in *.
    set (S := stub_stack nn (fst <$> mf_skel m)) in *.
    set (P := patch_on S r.1) in *.
    set (sf := MkFile u0 (Hp (stub_of (fst <$> mf_skel m))) (Some (mf_uuid m0, H m0))).
    set (pf := MkFile up (Hp P) (Some (mf_uuid mp, H mp))).
    exists sp, sf, pf. split; [exact Hsp|].
    split; [unfold files_of; by rewrite HS, Hu, Hd|].
    split; [unfold stub_marked, fext; cbn; by rewrite Hext0|].
    split; [unfold fprev; by cbn|].
    split; [unfold fprev, fpid; cbn; by rewrite Hpr, Hpid0|].
    split.
    - intros fs Hperm. apply accept_chain. split; [done|].
      apply (patch_accepted [sf] sf pf).
      + apply chain_single; [done|unfold intact, fhash; by cbn|].
        intros e. unfold fext. cbn. rewrite Hext0. intros [= <-]. cbn. by eexists.
      + constructor; [|constructor]. unfold intact, fhash. by cbn.
      + done.
      + done.
      + unfold frec. cbn. by rewrite Hr, Hr0.
      + unfold fidx. cbn. rewrite Hi, Hi0. lia.
      + unfold fprev, fpid. cbn. by rewrite Hpr, Hpid0.
      + unfold fpid. cbn. rewrite Hpid, Hpid0. intros [Heq|[]]. lia.
      + unfold intact, fhash. by cbn.
      + intros e. unfold fext. cbn. rewrite Hext. intros [= <-]. cbn. by eexists.
      + intros e. unfold fext. cbn. rewrite Hext. by intros [= <-].
    - rewrite HS. unfold P. rewrite <-run_decompose by done. apply viewmap_eq.
      apply fold_refines. apply boundary_refines. unfold S. rewrite Hsk. by apply stub_sim.
  Qed.
End StubSet.

(** ** Refused operations *)

Section Refusals.
  Context (H : manifest → N) (Hp : cont → N).

  (** A refused operation changes nothing: containers, user blocks, the loaded manifest, the
      manifests on disk and the identifier supply are as before. *)
  Lemma refused_ops_frame st o :
    (mf_step H Hp st o).2 = false → (mf_step H Hp st o).1 = st.
  Proof.
    unfold mf_step.
    destruct (match o with
              | MCommit g => mf_commit H Hp false g st
              | MCommitKw | MCommitRo => None
              | MCreatePatch => mf_create_patch st
              | MDiscard => mf_discard st
              | MOps ops => Some (mf_ops ops st)
              end); done.
  Qed.

  Lemma refused_keeps_linked st o :
    mf_linked H st → (mf_step H Hp st o).2 = false → mf_linked H (mf_step H Hp st o).1.
  Proof. intros Hl Hr. by rewrite refused_ops_frame. Qed.

  (** Which operations are refused: on a committed record a further commit and a discard, on a
      record with a writable container a new patch; a commit with an unknown keyword or through
      a read-only handle always. *)
  Lemma refusals st :
    (mf_step H Hp st MCommitKw).2 = false ∧ (mf_step H Hp st MCommitRo).2 = false ∧
    (committed st = true → ∀ g, (mf_step H Hp st (MCommit g)).2 = false) ∧
    (committed st = true → (mf_step H Hp st MDiscard).2 = false) ∧
    (committed st = false → (mf_step H Hp st MCreatePatch).2 = false).
  Proof.
    split; [done|]. split; [done|]. unfold mf_step, committed, mf_commit, mf_discard, mf_create_patch.
    split; [|split].
    - intros Hc g. destruct (r_stack st) as [|[n c] R]; [done|].
      destruct (r_ubs st) as [|u us]; [done|]. destruct (r_disk st); [done|].
      by destruct (Chain.hash u).
    - intros Hc. unfold committed. by rewrite Hc.
    - intros Hc. destruct (r_ubs st) as [|u us]; [done|]. by destruct (Chain.hash u).
  Qed.

  (** After every commit of a history, and after any sequence of refused operations issued
      then, the manifest invariant holds. *)
  Lemma linked_after_refused st os :
    mf_linked H st → Forall (λ o, (mf_step H Hp st o).2 = false) os →
    mf_linked H (foldl (λ s o, (mf_step H Hp s o).1) st os) ∧
    foldl (λ s o, (mf_step H Hp s o).1) st os = st.
  Proof.
    intros Hl Hos. assert (foldl (λ s o, (mf_step H Hp s o).1) st os = st) as ->; [|done].
    induction Hos as [|o os Ho _ IH]; [done|]. cbn [foldl]. by rewrite refused_ops_frame.
  Qed.
End Refusals.
