(** * Proofs about the embedded-bytes model [IH5/Bytes.v] (property C17). *)
From Coq Require Import List String Ascii NArith Bool Lia.
From MV Require Import Base.Sx IH5.Bytes.
Import ListNotations.
Local Open Scope string_scope.

(** ** Wrapping *)

Lemma unwrap_wrap : forall bs, unwrap (wrap bs) = bs.
Proof. destruct bs; reflexivity. Qed.

Lemma wrap_inj : forall a b, wrap a = wrap b -> a = b.
Proof. intros a b E. rewrite <- (unwrap_wrap a), <- (unwrap_wrap b), E. reflexivity. Qed.

Lemma wrap_empty_iff : forall bs, wrap bs = VEmpty <-> bs = "".
Proof. destruct bs; simpl; split; intro E; try reflexivity; discriminate. Qed.

Lemma wrap_nonempty : forall bs, bs <> "" -> wrap bs = VVoid bs.
Proof. destruct bs; [congruence | reflexivity]. Qed.

Lemma wrap_class : forall bs,
  (bs = "" /\ wrap bs = VEmpty) \/ (bs <> "" /\ wrap bs = VVoid bs).
Proof. destruct bs; [left | right]; split; try reflexivity; discriminate. Qed.

Lemma wrap_length : forall bs, String.length (unwrap (wrap bs)) = String.length bs.
Proof. intro. rewrite unwrap_wrap. reflexivity. Qed.

(** ** The marker and the guard *)

Lemma is_del_iff : forall v, is_del v = true <-> v = del_value.
Proof.
  destruct v; simpl; split; intro E; try discriminate.
  - apply String.eqb_eq in E. subst. reflexivity.
  - injection E as ->. apply String.eqb_refl.
Qed.

Lemma guard_refuses_iff : forall v, guard_value v = false <-> v = del_value.
Proof.
  intro v. unfold guard_value. rewrite negb_false_iff. apply is_del_iff.
Qed.

Lemma guard_accepts_iff : forall v, guard_value v = true <-> v <> del_value.
Proof.
  intro v. rewrite <- guard_refuses_iff. destruct (guard_value v); split; congruence.
Qed.

Lemma wrap_del_iff : forall bs, wrap bs = del_value <-> bs = del_bytes.
Proof.
  intro bs. split; intro E.
  - apply wrap_inj. rewrite E. reflexivity.
  - subst. reflexivity.
Qed.

(** Exactly one byte string is refused. *)
Lemma del_guard : forall bs, guard_value (wrap bs) = false <-> bs = del_bytes.
Proof. intro bs. rewrite guard_refuses_iff. apply wrap_del_iff. Qed.

Lemma is_del_wrap_iff : forall bs, is_del (wrap bs) = true <-> bs = del_bytes.
Proof. intro bs. rewrite is_del_iff. apply wrap_del_iff. Qed.

(** ** Bridge to the value strings of [Overlay.v]: [enc] is injective *)

Lemma unhex_byte : forall c,
  match unnib (byte_hi c), unnib (byte_lo c) with
  | Some (h0, h1, h2, h3), Some (l0, l1, l2, l3) => Ascii l0 l1 l2 l3 h0 h1 h2 h3 = c
  | _, _ => False
  end.
Proof.
  intro c. destruct c as [[] [] [] [] [] [] [] []]; vm_compute; reflexivity.
Qed.

Lemma hex_cons : forall c r, hex (String c r) = String (byte_hi c) (String (byte_lo c) (hex r)).
Proof. reflexivity. Qed.

(** The wire encoding of byte strings round-trips. *)
Lemma unhex_hex : forall bs, unhex (hex bs) = Some bs.
Proof.
  induction bs as [|c bs IH]; [reflexivity|].
  rewrite hex_cons. cbn [unhex]. rewrite IH.
  pose proof (unhex_byte c) as B.
  destruct (unnib (byte_hi c)) as [[[[h0 h1] h2] h3]|]; [|contradiction].
  destruct (unnib (byte_lo c)) as [[[[l0 l1] l2] l3]|]; [|contradiction].
  rewrite B. reflexivity.
Qed.

Lemma hex_inj : forall a b, hex a = hex b -> a = b.
Proof.
  intros a b E. pose proof (unhex_hex a) as A. rewrite E, unhex_hex in A. congruence.
Qed.

Lemma enc_inj : forall v w, enc v = enc w -> v = w.
Proof.
  destruct v, w; simpl; intro E; try reflexivity; try discriminate;
    injection E as E; apply hex_inj in E; subst; reflexivity.
Qed.

Lemma enc_del : enc del_value = "v:7f".
Proof. reflexivity. Qed.

Lemma enc_del_iff : forall v, enc v = "v:7f" <-> v = del_value.
Proof.
  intro v. rewrite <- enc_del. split; intro E; [apply enc_inj; exact E | subst; reflexivity].
Qed.

(** ** Association lists *)

Lemma alookup_aremove_eq : forall X k (l : list (string * X)), alookup k (aremove k l) = None.
Proof.
  induction l as [|[k' x] l IH]; simpl; [reflexivity|].
  destruct (String.eqb k k') eqn:E; [exact IH|]. simpl. rewrite E. exact IH.
Qed.

Lemma alookup_aremove_ne : forall X k q (l : list (string * X)),
  k <> q -> alookup k (aremove q l) = alookup k l.
Proof.
  induction l as [|[k' x] l IH]; simpl; intro N; [reflexivity|].
  destruct (String.eqb q k') eqn:E.
  - apply String.eqb_eq in E. subst k'.
    destruct (String.eqb k q) eqn:E2; [apply String.eqb_eq in E2; congruence|]. apply IH, N.
  - simpl. destruct (String.eqb k k'); [reflexivity|]. apply IH, N.
Qed.

Lemma alookup_in : forall X k (l : list (string * X)) x,
  alookup k l = Some x -> existsb (String.eqb k) (map fst l) = true.
Proof.
  induction l as [|[k' y] l IH]; simpl; intros x E; [discriminate|].
  destruct (String.eqb k k'); [reflexivity|]. simpl. eapply IH, E.
Qed.

Section WithDigest.
Variable D : Type.
Variable H : string -> D.

Notation entry := (entry D).
Notation stack := (stack D).
Notation s_step := (s_step D H).
Notation s_step_pinned := (s_step_pinned D H).
Notation s_apply := (s_apply D H).
Notation follow := (follow D H).
Notation keeps_all := (keeps_all D H).
Notation run_follow := (run_follow D H).
Notation harvest := (harvest D H).

(** ** Reading after raw updates *)

Lemma get_not_del : forall (R : stack) p e, get R p = Some e -> is_del (e_val e) = false.
Proof.
  unfold get. intros R p e. destruct (raw_get R p) as [e'|]; [|discriminate].
  destruct (is_del (e_val e')) eqn:E; [discriminate|]. intro X. injection X as <-. exact E.
Qed.

Lemma raw_get_put_eq : forall (R : stack) p e, R <> [] -> raw_get (put R p e) p = Some e.
Proof.
  destruct R as [|c R]; [congruence|]. intros. simpl. rewrite String.eqb_refl. reflexivity.
Qed.

Lemma raw_get_put_ne : forall (R : stack) p q e, p <> q -> raw_get (put R q e) p = raw_get R p.
Proof.
  destruct R as [|c R]; [reflexivity|]. intros p q e N. simpl.
  destruct (String.eqb p q) eqn:E; [apply String.eqb_eq in E; congruence|].
  rewrite alookup_aremove_ne by exact N. reflexivity.
Qed.

Lemma get_put_eq : forall (R : stack) p e,
  R <> [] -> is_del (e_val e) = false -> get (put R p e) p = Some e.
Proof. intros R p e N E. unfold get. rewrite raw_get_put_eq by exact N. rewrite E. reflexivity. Qed.

Lemma get_put_ne : forall (R : stack) p q e, p <> q -> get (put R q e) p = get R p.
Proof. intros. unfold get. rewrite raw_get_put_ne by assumption. reflexivity. Qed.

Lemma put_nonempty : forall (R : stack) p e, R <> [] -> put R p e <> [].
Proof. destruct R; [congruence|]. simpl. discriminate. Qed.

Lemma delete_nonempty : forall (R : stack) p, R <> [] -> delete R p <> [].
Proof.
  destruct R as [|c R]; [congruence|]. intros. unfold delete.
  destruct (is_patch (c :: R)); discriminate.
Qed.

Lemma get_delete_ne : forall (R : stack) p q, p <> q -> get (delete R q) p = get R p.
Proof.
  destruct R as [|c R]; [reflexivity|]. intros p q N. unfold delete, get.
  destruct (is_patch (c :: R)); simpl.
  - destruct (String.eqb p q) eqn:E; [apply String.eqb_eq in E; congruence|].
    rewrite alookup_aremove_ne by exact N. reflexivity.
  - rewrite alookup_aremove_ne by exact N. reflexivity.
Qed.

(** Deleting really deletes: nothing older shows through. *)
Lemma get_delete_eq : forall (R : stack) p, get (delete R p) p = None.
Proof.
  destruct R as [|c R]; [reflexivity|]. intro p. unfold delete, get.
  destruct R as [|c2 R]; simpl.
  - rewrite alookup_aremove_eq. reflexivity.
  - rewrite String.eqb_refl. reflexivity.
Qed.

Lemma get_boundary : forall (R : stack) p, get ([] :: R) p = get R p.
Proof. reflexivity. Qed.

(** ** Merge: the merged container shows exactly the visible nodes *)

Lemma alookup_collect : forall (R : stack) p ks,
  alookup p (collect D R ks) = if existsb (String.eqb p) ks then get R p else None.
Proof.
  induction ks as [|k ks IH]; simpl; [reflexivity|].
  destruct (String.eqb p k) eqn:E.
  - apply String.eqb_eq in E. subst k. simpl.
    destruct (get R p) as [e|] eqn:G.
    + simpl. rewrite String.eqb_refl. reflexivity.
    + rewrite IH. destruct (existsb (String.eqb p) ks); reflexivity.
  - simpl. destruct (get R k) as [e|]; [simpl; rewrite E|]; exact IH.
Qed.

Lemma raw_get_in_names : forall (R : stack) p e,
  raw_get R p = Some e -> existsb (String.eqb p) (names R) = true.
Proof.
  unfold names. induction R as [|c R IH]; simpl; intros p e E; [discriminate|].
  rewrite existsb_app. destruct (alookup p c) as [x|] eqn:A.
  - erewrite alookup_in by exact A. reflexivity.
  - erewrite IH by exact E. apply orb_true_r.
Qed.

Lemma get_merge : forall (R : stack) p, get [[]; flatten R] p = get R p.
Proof.
  intros R p. unfold get at 1. simpl. unfold flatten. rewrite alookup_collect.
  destruct (get R p) as [e|] eqn:G.
  - assert (I : existsb (String.eqb p) (names R) = true).
    { unfold get in G. destruct (raw_get R p) as [e'|] eqn:RG; [|discriminate].
      eapply raw_get_in_names, RG. }
    rewrite I. rewrite (get_not_del _ _ _ G). reflexivity.
  - destruct (existsb (String.eqb p) (names R)); reflexivity.
Qed.

(** ** Steps *)

Lemma step_unfold : forall g (R : stack) o,
  s_step_gen D H g R o = match Bytes.s_apply D H g R o with Some R' => (R', true) | None => (R, false) end.
Proof. reflexivity. Qed.

(** A refused operation changes nothing. *)
Lemma refused_unchanged : forall (R : stack) o, snd (s_step R o) = false -> fst (s_step R o) = R.
Proof.
  intros R o. unfold Bytes.s_step. rewrite step_unfold.
  destruct (s_apply true R o); simpl; [discriminate | reflexivity].
Qed.

Lemma s_create_spec : forall (R : stack) p e R',
  s_create D R p e = Some R' ->
  R <> [] /\ guard_value (e_val e) = true /\ get R p = None /\ R' = put R p e.
Proof.
  unfold s_create. intros R p e R'. destruct R as [|c R]; [discriminate|].
  destruct (guard_value (e_val e)); [|discriminate].
  destruct (get (c :: R) p); [discriminate|]. intro X. injection X as <-.
  repeat split; congruence.
Qed.

Lemma s_create_ok : forall (R : stack) p e,
  R <> [] -> guard_value (e_val e) = true -> get R p = None ->
  s_create D R p e = Some (put R p e).
Proof.
  unfold s_create. intros R p e N G F. destruct R; [congruence|]. rewrite G, F. reflexivity.
Qed.

(** The marker is refused by every value-assigning operation, whatever the state. *)
Lemma pack_marker_refused : forall (R : stack) p, s_step R (SPack p del_bytes) = (R, false).
Proof. intros. unfold Bytes.s_step. rewrite step_unfold. simpl. unfold s_create. destruct R; reflexivity. Qed.

Lemma set_marker_refused : forall (R : stack) p, s_step R (SSet p del_value) = (R, false).
Proof. intros. unfold Bytes.s_step. rewrite step_unfold. simpl. unfold s_create. destruct R; reflexivity. Qed.

Lemma write_marker_refused : forall (R : stack) p, s_step R (SWrite p del_value) = (R, false).
Proof.
  intros. unfold Bytes.s_step. rewrite step_unfold. simpl. unfold s_write.
  destruct (get R p); [|reflexivity]. simpl. rewrite andb_false_r. reflexivity.
Qed.

Lemma marker_refused : forall (R : stack) p,
  s_step R (SPack p del_bytes) = (R, false) /\
  s_step R (SSet p del_value) = (R, false) /\
  s_step R (SWrite p del_value) = (R, false).
Proof.
  intros. split; [apply pack_marker_refused|]. split; [apply set_marker_refused|].
  apply write_marker_refused.
Qed.

(** [pack_file] is refused exactly for the marker bytes or an occupied target. *)
Lemma pack_refused_iff : forall (R : stack) p bs,
  R <> [] ->
  (snd (s_step R (SPack p bs)) = false <-> bs = del_bytes \/ get R p <> None).
Proof.
  intros R p bs N. unfold Bytes.s_step. rewrite step_unfold. simpl. unfold s_create.
  destruct R as [|c R]; [congruence|].
  destruct (guard_value (wrap bs)) eqn:G.
  - destruct (get (c :: R) p) eqn:F; simpl; rewrite ?G; simpl; split; intro X.
    + right. discriminate.
    + reflexivity.
    + discriminate.
    + destruct X as [X|X]; [|exfalso; apply X; reflexivity]. apply del_guard in X. congruence.
  - simpl. rewrite ?G. simpl. split; [|reflexivity]. intros _. left. apply del_guard, G.
Qed.

(** An accepted [pack_file] stores the wrapped bytes and the harvested metadata. *)
Lemma pack_stores : forall (R : stack) p bs,
  snd (s_step R (SPack p bs)) = true ->
  get (fst (s_step R (SPack p bs))) p = Some (mkentry (wrap bs) (Some (harvest bs))).
Proof.
  intros R p bs. unfold Bytes.s_step. rewrite step_unfold. simpl.
  destruct (s_create D R p _) as [R'|] eqn:C; simpl; [|discriminate]. intros _.
  apply s_create_spec in C. destruct C as (N & G & _ & ->).
  apply get_put_eq; [exact N|]. simpl in *. unfold guard_value in G.
  apply negb_true_iff in G. exact G.
Qed.

Lemma filemeta_exact : forall (R : stack) p bs,
  snd (s_step R (SPack p bs)) = true ->
  exists e m, get (fst (s_step R (SPack p bs))) p = Some e /\
    unwrap (e_val e) = bs /\ e_meta e = Some m /\
    fm_size m = String.length bs /\ fm_sha m = H bs.
Proof.
  intros R p bs A. exists (mkentry (wrap bs) (Some (harvest bs))), (harvest bs).
  split; [apply pack_stores, A|]. simpl. rewrite unwrap_wrap. repeat split.
Qed.

(** With an injective digest the stored hash identifies the source bytes. *)
Lemma filemeta_identifies :
  (forall a b, H a = H b -> a = b) ->
  forall (R : stack) p bs bs',
  snd (s_step R (SPack p bs)) = true ->
  (exists e m, get (fst (s_step R (SPack p bs))) p = Some e /\ e_meta e = Some m /\
               fm_sha m = H bs') ->
  bs' = bs.
Proof.
  intros Hinj R p bs bs' A (e & m & G & M & S).
  rewrite (pack_stores _ _ _ A) in G. injection G as <-. simpl in M. injection M as <-.
  simpl in S. symmetry. apply Hinj, S.
Qed.

(** Markers are never ambiguous: a value accepted by an assigning operation is what is
    read back at that name -- it can never be taken for a deletion. *)
Lemma accepted_value_visible : forall (R : stack) o p v,
  (o = SSet p v \/ o = SWrite p v \/ exists bs, o = SPack p bs /\ v = wrap bs) ->
  snd (s_step R o) = true ->
  exists e, get (fst (s_step R o)) p = Some e /\ e_val e = v.
Proof.
  intros R o p v Ho. unfold Bytes.s_step. rewrite step_unfold.
  destruct Ho as [-> | [-> | (bs & -> & ->)]]; simpl.
  - destruct (s_create D R p _) as [R'|] eqn:C; simpl; [|discriminate]. intros _.
    apply s_create_spec in C. destruct C as (N & G & _ & ->). eexists. split.
    + apply get_put_eq; [exact N|]. apply negb_true_iff, G.
    + reflexivity.
  - unfold s_write. destruct (get R p) as [e|] eqn:G; simpl; [|discriminate].
    destruct (in_top R p) eqn:T; simpl; [|discriminate].
    destruct (guard_value v) eqn:GV; simpl; [|discriminate]. intros _.
    assert (N : R <> []) by (destruct R; [discriminate | discriminate]).
    eexists. split.
    + apply get_put_eq; [exact N|]. apply negb_true_iff, GV.
    + reflexivity.
  - destruct (s_create D R p _) as [R'|] eqn:C; simpl; [|discriminate]. intros _.
    apply s_create_spec in C. destruct C as (N & G & _ & ->). eexists. split.
    + apply get_put_eq; [exact N|]. apply negb_true_iff, G.
    + reflexivity.
Qed.

(** The pinned tree's unguarded in-place assignment: the operation is accepted and the
    node is gone -- silently. *)
Lemma write_pinned_refuted : exists (R : stack) p v,
  get R p <> None /\ snd (s_step_pinned R (SWrite p v)) = true /\
  get (fst (s_step_pinned R (SWrite p v))) p = None.
Proof.
  exists [[("x", mkentry (VVoid "a") None)]], "x", del_value.
  split; [discriminate|]. split; reflexivity.
Qed.

(** ** Value-preserving operations keep the followed node *)

Lemma step_nonempty : forall (R : stack) o, R <> [] -> fst (s_step R o) <> [].
Proof.
  intros R o N. unfold Bytes.s_step. rewrite step_unfold.
  destruct (s_apply true R o) as [R'|] eqn:A; simpl; [|exact N].
  destruct o; simpl in A.
  - apply s_create_spec in A. destruct A as (_ & _ & _ & ->). apply put_nonempty, N.
  - apply s_create_spec in A. destruct A as (_ & _ & _ & ->). apply put_nonempty, N.
  - unfold s_write in A. destruct (get R p); [|discriminate].
    destruct (in_top R p && _); [|discriminate]. injection A as <-. apply put_nonempty, N.
  - unfold s_delete in A. destruct (get R p); [|discriminate]. injection A as <-.
    apply delete_nonempty, N.
  - unfold s_copy in A. destruct (get R s); [|discriminate].
    apply s_create_spec in A. destruct A as (_ & _ & _ & ->). apply put_nonempty, N.
  - unfold s_copy in A. destruct (get R s); [|discriminate].
    destruct (s_create D R d e) as [R1|] eqn:C; [|discriminate].
    apply s_create_spec in C. destruct C as (_ & _ & _ & ->).
    unfold s_delete in A. destruct (get (put R d e) s); [|discriminate]. injection A as <-.
    apply delete_nonempty, put_nonempty, N.
  - destruct R; [congruence|]. injection A as <-. discriminate.
  - destruct R; [congruence|]. injection A as <-. discriminate.
  - destruct R; [congruence|]. injection A as <-. discriminate.
Qed.

Lemma eqb_false_ne : forall a b : string, String.eqb a b = false -> a <> b.
Proof. intros a b E. apply String.eqb_neq, E. Qed.

Lemma fresh_ne : forall (R : stack) cur d e, get R cur = Some e -> get R d = None -> cur <> d.
Proof. intros R cur d e G F X. subst. congruence. Qed.

Lemma step_preserves : forall (R : stack) o flag cur e,
  R <> [] -> get R cur = Some e -> keeps cur o = true ->
  get (fst (s_step R o)) (follow R cur (o, flag)) = Some e.
Proof.
  intros R o flag cur e N G K.
  destruct o; simpl in K.
  - (* SPack *) simpl. unfold Bytes.s_step. rewrite step_unfold. simpl.
    destruct (s_create D R p _) as [R'|] eqn:C; simpl; [|exact G].
    apply s_create_spec in C. destruct C as (_ & _ & F & ->).
    rewrite get_put_ne; [exact G | eapply fresh_ne; eassumption].
  - (* SSet *) simpl. unfold Bytes.s_step. rewrite step_unfold. simpl.
    destruct (s_create D R p _) as [R'|] eqn:C; simpl; [|exact G].
    apply s_create_spec in C. destruct C as (_ & _ & F & ->).
    rewrite get_put_ne; [exact G | eapply fresh_ne; eassumption].
  - (* SWrite *) simpl. unfold Bytes.s_step. rewrite step_unfold. simpl. unfold s_write.
    apply negb_true_iff, eqb_false_ne in K.
    destruct (get R p) as [e'|]; simpl; [|exact G].
    destruct (in_top R p && _); simpl; [|exact G].
    rewrite get_put_ne; [exact G | congruence].
  - (* SDel *) simpl. unfold Bytes.s_step. rewrite step_unfold. simpl. unfold s_delete.
    apply negb_true_iff, eqb_false_ne in K.
    destruct (get R p) as [e'|]; simpl; [|exact G].
    rewrite get_delete_ne; [exact G | congruence].
  - (* SCopy *)
    assert (P : forall c, get (fst (s_step R (SCopy s d))) c = Some e ->
                get (fst (s_step R (SCopy s d))) c = Some e) by auto.
    unfold Bytes.follow. unfold Bytes.s_step at 2. rewrite step_unfold.
    unfold Bytes.s_step. rewrite step_unfold. simpl. unfold s_copy.
    destruct (get R s) as [es|] eqn:GS; simpl.
    2:{ destruct flag; [rewrite andb_false_r|]; exact G. }
    destruct (s_create D R d es) as [R'|] eqn:C; simpl.
    2:{ destruct flag; [rewrite andb_false_r|]; exact G. }
    apply s_create_spec in C. destruct C as (_ & GV & F & ->).
    destruct flag.
    + rewrite andb_true_r. destruct (String.eqb s cur) eqn:E.
      * apply String.eqb_eq in E. subst s. rewrite G in GS. injection GS as <-.
        apply get_put_eq; [exact N|]. eapply get_not_del, G.
      * rewrite get_put_ne; [exact G | eapply fresh_ne; eassumption].
    + rewrite get_put_ne; [exact G | eapply fresh_ne; eassumption].
  - (* SMove *)
    unfold Bytes.follow. unfold Bytes.s_step at 2. rewrite step_unfold.
    unfold Bytes.s_step. rewrite step_unfold. simpl. unfold s_copy.
    destruct (get R s) as [es|] eqn:GS; simpl.
    2:{ rewrite andb_false_r. exact G. }
    destruct (s_create D R d es) as [R1|] eqn:C; simpl.
    2:{ rewrite andb_false_r. exact G. }
    apply s_create_spec in C. destruct C as (_ & GV & F & ->).
    assert (SD : s <> d) by (eapply fresh_ne; eassumption).
    unfold s_delete. rewrite get_put_ne by exact SD. rewrite GS. simpl.
    rewrite andb_true_r. destruct (String.eqb s cur) eqn:E.
    + apply String.eqb_eq in E. subst s. rewrite G in GS. injection GS as <-.
      rewrite get_delete_ne by congruence.
      apply get_put_eq; [exact N|]. eapply get_not_del, G.
    + apply eqb_false_ne in E. rewrite get_delete_ne by congruence.
      rewrite get_put_ne; [exact G | eapply fresh_ne; eassumption].
  - (* SBoundary *) simpl. unfold Bytes.s_step. rewrite step_unfold. simpl.
    destruct R; [congruence|]. simpl. exact G.
  - (* SReopen *) simpl. unfold Bytes.s_step. rewrite step_unfold. simpl.
    destruct R; [congruence|]. simpl. exact G.
  - (* SMerge *) simpl. unfold Bytes.s_step. rewrite step_unfold. simpl.
    destruct R as [|c R]; [congruence|]. simpl fst. rewrite get_merge. exact G.
Qed.

(** Any history that keeps the node -- copies, moves, patch boundaries, merges, reopens,
    unrelated packs, assignments and deletions, in any order and number -- leaves the
    entry (bytes *and* metadata) at the node's current name unchanged. *)
Lemma entry_preserved : forall h (R : stack) cur e,
  R <> [] -> get R cur = Some e -> keeps_all R cur h = true ->
  get (fst (run_follow R cur h)) (snd (run_follow R cur h)) = Some e.
Proof.
  induction h as [|[o flag] h IH]; intros R cur e N G K; simpl; [exact G|].
  simpl in K. apply andb_true_iff in K. destruct K as [K1 K2].
  apply IH.
  - apply step_nonempty, N.
  - apply step_preserves; assumption.
  - exact K2.
Qed.

Lemma bytes_preserved : forall (R0 : stack) p bs h,
  snd (s_step R0 (SPack p bs)) = true ->
  let R1 := fst (s_step R0 (SPack p bs)) in
  keeps_all R1 p h = true ->
  exists e m,
    get (fst (run_follow R1 p h)) (snd (run_follow R1 p h)) = Some e /\
    e_val e = wrap bs /\ unwrap (e_val e) = bs /\
    e_meta e = Some m /\ fm_size m = String.length bs /\ fm_sha m = H bs.
Proof.
  intros R0 p bs h A R1 K.
  assert (N0 : R0 <> []).
  { intro X. subst R0. unfold Bytes.s_step in A. rewrite step_unfold in A. simpl in A. discriminate. }
  exists (mkentry (wrap bs) (Some (harvest bs))), (harvest bs). split.
  - apply entry_preserved; [apply step_nonempty, N0 | apply pack_stores, A | exact K].
  - simpl. rewrite unwrap_wrap. repeat split.
Qed.

(** The source of a move is gone, the source of a copy stays. *)
Lemma move_source_gone : forall (R : stack) s d,
  snd (s_step R (SMove s d)) = true -> get (fst (s_step R (SMove s d))) s = None.
Proof.
  intros R s d. unfold Bytes.s_step. rewrite step_unfold. simpl.
  destruct (s_copy D R s d) as [R1|]; simpl; [|discriminate].
  unfold s_delete. destruct (get R1 s); simpl; [|discriminate]. intros _. apply get_delete_eq.
Qed.

End WithDigest.
