(** * Embedded bytes through whole histories of the overlay model (property C17).

    [IH5/BytesProofs.v] proves preservation of an embedded value on the flat transport model;
    here the same statement is proved directly over the overlay model of C01 ([IH5/Overlay.v]:
    groups, virtual nodes, attribute managers, patch containers) and the merge of C05
    ([IH5/Merge.v] [m_merge]): a dataset is followed through any history of overlay
    operations -- copies and moves of the node itself or of a group above it, patch
    boundaries, merges, any other accepted or refused operation -- and keeps its value.

    Proof: the plain specification tree keeps the value ([BytesOverlay.t_step_keeps],
    [t_copy] / [t_move] deliver it), the tree is parent-closed because it is the view of an
    overlay ([Sim]), and the overlay refines the tree step by step ([OverlayProofs.step_refines],
    [MergeProofs.merge_sim]). *)
From stdpp Require Import gmap strings list.
From MV Require Import IH5.Overlay IH5.OverlayProofs IH5.Merge IH5.MergeProofs.
From MV Require IH5.Bytes IH5.BytesProofs IH5.BytesOverlay.

(** ** Histories: overlay operations (boundaries are operations) and merges *)

Inductive hop : Type := HOp (o : op) | HMerge.

Definition h_m (R : stack) (h : hop) : stack :=
  match h with HOp o => (m_step R o).1 | HMerge => m_merge R end.
Definition h_t (T : tree) (h : hop) : tree :=
  match h with HOp o => (t_step T o).1 | HMerge => T end.
Definition ok_m (R : stack) (h : hop) : bool :=
  match h with HOp o => (m_step R o).2 | HMerge => true end.
Definition ok_t (T : tree) (h : hop) : bool :=
  match h with HOp o => (t_step T o).2 | HMerge => true end.

(** Where a node at [cur] is after the subtree at [s] went to [d]. *)
Definition retarget (s d cur : path) : path :=
  match strip s cur with Some r => r ++ d | None => cur end.

(** An accepted move takes the node along; an accepted copy creates a second node, which is
    followed when the flag says so. *)
Definition follow (ok : bool) (cur : path) (h : hop) (flag : bool) : path :=
  match h with
  | HOp (OMove s d) => if ok then retarget s d cur else cur
  | HOp (OCopy s d) => if ok && flag then retarget s d cur else cur
  | _ => cur
  end.

(** The only operation that does not keep the node: deleting it or a group above it. *)
Definition keepsb (cur : path) (h : hop) : bool :=
  match h with HOp (ODel q) => bool_decide (¬ under q cur) | _ => true end.

Fixpoint keeps_all_m (R : stack) (cur : path) (hs : list (hop * bool)) : bool :=
  match hs with
  | [] => true
  | (h, f) :: rest => keepsb cur h && keeps_all_m (h_m R h) (follow (ok_m R h) cur h f) rest
  end.

Fixpoint run_follow_m (R : stack) (cur : path) (hs : list (hop * bool)) : stack * path :=
  match hs with
  | [] => (R, cur)
  | (h, f) :: rest => run_follow_m (h_m R h) (follow (ok_m R h) cur h f) rest
  end.

Fixpoint keeps_all_t (T : tree) (cur : path) (hs : list (hop * bool)) : bool :=
  match hs with
  | [] => true
  | (h, f) :: rest => keepsb cur h && keeps_all_t (h_t T h) (follow (ok_t T h) cur h f) rest
  end.

Fixpoint run_follow_t (T : tree) (cur : path) (hs : list (hop * bool)) : tree * path :=
  match hs with
  | [] => (T, cur)
  | (h, f) :: rest => run_follow_t (h_t T h) (follow (ok_t T h) cur h f) rest
  end.

(** ** The view of an overlay is parent-closed *)

Lemma sim_closed R T (a p : path) e :
  Sim R T → T !! p = Some e → a `suffix_of` p → a ≠ [] → is_Some (T !! a).
Proof.
  intros (HI & HR & Hroot) Hp Ha Hne.
  assert (p ≠ []) as Hpne by (intros ->; congruence).
  pose proof (Rel_lookup R T p HR Hpne) as E1. rewrite Hp in E1.
  assert (is_Some (status R p)) as Hs.
  { destruct (status R p); [done|discriminate]. }
  pose proof (status_suffix_vis R a p Ha Hs) as [[i x] Hx].
  rewrite <-(Rel_lookup R T a HR Hne), Hx.
  destruct x; cbn; try done. exfalso. by eapply status_not_del.
Qed.

Lemma sim_fresh_not_under R T (d p : path) e :
  Sim R T → T !! p = Some e → T !! d = None → d ≠ [] → ¬ under d p.
Proof.
  intros HS Hp Hd Hne Hu. destruct (sim_closed R T d p e HS Hp Hu Hne) as [? ?]. congruence.
Qed.

Lemma suffix_total {A} (a b l : list A) :
  a `suffix_of` l → b `suffix_of` l → a `suffix_of` b ∨ b `suffix_of` a.
Proof.
  induction l as [|x l IH]; intros Ha Hb.
  - apply suffix_nil_inv in Ha as ->. left. apply suffix_nil.
  - apply suffix_cons_inv' in Ha as [->|Ha]; [by right|].
    apply suffix_cons_inv' in Hb as [->|Hb]; [left; by apply suffix_cons_r|]. by apply IH.
Qed.

(** ** One specification step, with the node followed *)

Lemma t_copy_sub_value (T T' : tree) (s d r : path) :
  t_copy T s d = Some T' → is_Some (T !! (r ++ s)) → T' !! (r ++ d) = T !! (r ++ s).
Proof.
  unfold t_copy. intros C [e G].
  destruct s as [|s0 s']; [done|]. destruct d as [|d0 dpar]; [done|].
  destruct (T !! (s0 :: s')); [|done]. destruct (T !! (d0 :: dpar)); [done|].
  destruct (t_mkgroups T dpar) as [T1|]; [|done]. injection C as <-.
  rewrite G. apply lookup_union_Some_l. by rewrite graft_snap_lookup, rel_snap_lookup.
Qed.

Lemma t_copy_inv (T T' : tree) (s d : path) :
  t_copy T s d = Some T' → s ≠ [] ∧ d ≠ [] ∧ is_Some (T !! s) ∧ T !! d = None.
Proof.
  unfold t_copy. intros C.
  destruct s as [|s0 s']; [done|]. destruct d as [|d0 dpar]; [done|].
  destruct (T !! (s0 :: s')) eqn:Es; [|done]. destruct (T !! (d0 :: dpar)) eqn:Ed; [done|].
  done.
Qed.

Lemma node_path_app (a b : path) : is_node_path (a ++ b) = is_node_path a && is_node_path b.
Proof. unfold is_node_path. apply forallb_app. Qed.

Lemma strip_None (s p : path) : strip s p = None → ¬ under s p.
Proof. unfold strip. by case_decide. Qed.

Lemma retarget_node (s d cur : path) :
  is_node_path cur = true → is_node_path d = true → d ≠ [] → cur ≠ [] →
  retarget s d cur ≠ [] ∧ is_node_path (retarget s d cur) = true.
Proof.
  intros Hc Hd Hdne Hcne. unfold retarget. destruct (strip s cur) as [r|] eqn:E; [|done].
  apply strip_Some in E as ->. rewrite node_path_app in Hc. apply andb_true_iff in Hc as [Hr _].
  split; [by intros [_ ?]%app_eq_nil|]. rewrite node_path_app, Hr, Hd. done.
Qed.

Lemma step_follow R T o (cur : path) e flag :
  Sim R T → cur ≠ [] → is_node_path cur = true → T !! cur = Some e →
  keepsb cur (HOp o) = true →
  let cur' := follow (t_step T o).2 cur (HOp o) flag in
  cur' ≠ [] ∧ is_node_path cur' = true ∧ (t_step T o).1 !! cur' = Some e.
Proof.
  intros HS Hne Hnp G K.
  destruct o as [q|q v|q|p k v|p k|s d|s d|]; cbn [follow];
    try (split; [done|]; split; [done|]; apply BytesOverlay.t_step_keeps; try done;
         cbn in *; by try apply bool_decide_eq_true in K).
  - (* OCopy *)
    unfold t_step. destruct (is_node_path s && is_node_path d) eqn:Hn; [|done].
    apply andb_true_iff in Hn as [Hns Hnd].
    destruct (t_copy T s d) as [T1|] eqn:C; cbn [fst snd]; [|done].
    apply t_copy_inv in C as HC. destruct HC as (Hsne & Hdne & Hs & Hd).
    assert (T1 !! cur = Some e) as Hkeep.
    { eapply BytesOverlay.t_copy_keeps; [exact C|exact G|]. by eapply sim_fresh_not_under. }
    destruct flag; cbn; [|done].
    destruct (retarget_node s d cur Hnp Hnd Hdne Hne) as [? ?]. split; [done|]. split; [done|].
    unfold retarget. destruct (strip s cur) as [r|] eqn:E; [|done].
    apply strip_Some in E as ->. rewrite (t_copy_sub_value _ _ _ _ _ C); [done|by rewrite G].
  - (* OMove *)
    unfold t_step. destruct (is_node_path s && is_node_path d) eqn:Hn; [|done].
    apply andb_true_iff in Hn as [Hns Hnd].
    destruct (t_move T s d) as [T2|] eqn:M; cbn [fst snd]; [|done].
    unfold t_move in M. destruct (decide (under s d)) as [|Hsd]; [done|].
    destruct (t_copy T s d) as [T1|] eqn:C; [|done].
    apply t_copy_inv in C as HC. destruct HC as (Hsne & Hdne & [es Hs] & Hd).
    destruct (retarget_node s d cur Hnp Hnd Hdne Hne) as [? ?]. split; [done|]. split; [done|].
    unfold retarget. destruct (strip s cur) as [r|] eqn:E.
    + apply strip_Some in E as ->.
      eapply BytesOverlay.t_delete_keeps; [exact M| |].
      * rewrite (t_copy_sub_value _ _ _ _ _ C); [done|by rewrite G].
      * intros Hu.
        destruct (suffix_total s d (r ++ d) Hu) as [?|Hds]; [by apply suffix_app_r|done|].
        destruct (sim_closed R T d s es HS Hs Hds Hdne) as [? ?]. congruence.
    + apply strip_None in E.
      eapply BytesOverlay.t_delete_keeps; [exact M| |exact E].
      eapply BytesOverlay.t_copy_keeps; [exact C|exact G|]. by eapply sim_fresh_not_under.
Qed.

(** ** Whole histories *)

Lemma h_sim R T h : Sim R T → Sim (h_m R h) (h_t T h) ∧ ok_m R h = ok_t T h.
Proof.
  intros HS. destruct h as [o|]; cbn.
  - by apply step_refines.
  - split; [by apply merge_sim|done].
Qed.

Lemma h_follow R T h (cur : path) e flag :
  Sim R T → cur ≠ [] → is_node_path cur = true → T !! cur = Some e → keepsb cur h = true →
  let cur' := follow (ok_t T h) cur h flag in
  cur' ≠ [] ∧ is_node_path cur' = true ∧ h_t T h !! cur' = Some e.
Proof.
  intros HS Hne Hnp G K. destruct h as [o|]; [by eapply step_follow|]. done.
Qed.

(** On the plain tree (of any overlay): the followed dataset keeps its value. *)
Lemma tree_history_keeps hs : ∀ R T (cur : path) e,
  Sim R T → cur ≠ [] → is_node_path cur = true → T !! cur = Some e →
  keeps_all_t T cur hs = true →
  (run_follow_t T cur hs).1 !! (run_follow_t T cur hs).2 = Some e.
Proof.
  induction hs as [|[h f] hs IH]; intros R T cur e HS Hne Hnp G K; [done|].
  cbn in K. apply andb_true_iff in K as [K1 K2].
  destruct (h_follow R T h cur e f HS Hne Hnp G K1) as (N1 & N2 & N3).
  cbn. eapply (IH (h_m R h)); try done. by apply h_sim.
Qed.

(** Overlay run and tree run stay in simulation, follow the same path and keep alike. *)
Lemma runs_agree hs : ∀ R T (cur : path),
  Sim R T →
  Sim (run_follow_m R cur hs).1 (run_follow_t T cur hs).1 ∧
  (run_follow_m R cur hs).2 = (run_follow_t T cur hs).2 ∧
  keeps_all_m R cur hs = keeps_all_t T cur hs.
Proof.
  induction hs as [|[h f] hs IH]; intros R T cur HS; [done|].
  destruct (h_sim R T h HS) as [HS' Hok]. cbn. rewrite Hok.
  destruct (IH (h_m R h) (h_t T h) (follow (ok_t T h) cur h f) HS') as (A & B & C).
  by rewrite C.
Qed.

Lemma overlay_history_keeps hs R T (cur : path) e :
  Sim R T → cur ≠ [] → is_node_path cur = true → vget R cur = Some e →
  keeps_all_m R cur hs = true →
  vget (run_follow_m R cur hs).1 (run_follow_m R cur hs).2 = Some e.
Proof.
  intros HS Hne Hnp G K.
  destruct (runs_agree hs R T cur HS) as (HS' & Hcur & Hk).
  assert (T !! cur = Some e) as GT.
  { destruct HS as (_ & HR & _). rewrite <-(Rel_lookup R T cur HR Hne). exact G. }
  rewrite Hk in K.
  pose proof (tree_history_keeps hs R T cur e HS Hne Hnp GT K) as Hfin.
  destruct HS' as (_ & HR' & Hroot'). rewrite Hcur, HR'.
  destruct ((run_follow_t T cur hs).2) as [|x y] eqn:E; [|exact Hfin].
  congruence.
Qed.

(** ** Embedded bytes *)

Definition run_pre (pre : list hop) : stack := foldl h_m m_init pre.

Lemma pre_sim pre : ∃ T, Sim (run_pre pre) T.
Proof.
  unfold run_pre. assert (∀ R T, Sim R T → ∃ T', Sim (foldl h_m R pre) T') as H.
  { induction pre as [|h pre IH]; intros R T HS; [by exists T|]. cbn.
    apply (IH _ (h_t T h)). by apply h_sim. }
  apply (H m_init ∅). apply init_sim.
Qed.

(** After any history [pre] (merges included), an accepted [create_dataset] of the wrapped
    bytes at [p], followed by any history that keeps the node: the value read at the node's
    current path is the encoding of exactly those bytes -- which are not the marker. *)
Lemma bytes_preserved_overlay (pre : list hop) (p : path) bs (hs : list (hop * bool)) :
  let R0 := run_pre pre in
  let v := Bytes.enc (Bytes.wrap bs) in
  (m_step R0 (OData p v)).2 = true →
  let R1 := (m_step R0 (OData p v)).1 in
  keeps_all_m R1 p hs = true →
  vget (run_follow_m R1 p hs).1 (run_follow_m R1 p hs).2 = Some (TData v) ∧ bs ≠ Bytes.del_bytes.
Proof.
  intros R0 v Hok R1 K.
  destruct (pre_sim pre) as [T0 HS0]. fold R0 in HS0.
  destruct (step_refines R0 T0 (OData p v) HS0) as [HS1 Hflag]. fold R1 in HS1.
  rewrite Hok in Hflag. symmetry in Hflag.
  unfold t_step in Hflag, HS1.
  destruct (is_node_path p && negb (is_del_value v)) eqn:Hg; [|done].
  apply andb_true_iff in Hg as [Hnp Hnd]. apply negb_true_iff in Hnd.
  destruct (t_set_data T0 p v) as [T1|] eqn:Hset; [|done]. cbn [fst] in HS1.
  assert (p ≠ [] ∧ T1 !! p = Some (TData v)) as [Hne HT1].
  { unfold t_set_data in Hset. destruct p as [|s par]; [done|].
    destruct (T0 !! (s :: par)); [done|]. destruct (t_mkgroups T0 par); [|done].
    injection Hset as <-. split; [done|]. apply lookup_insert. }
  split.
  - eapply overlay_history_keeps; try done.
    destruct HS1 as (_ & HR & _). by rewrite (HR p), (tget_ne T1 p Hne).
  - intros ->. unfold v in Hnd.
    assert (is_del_value (Bytes.enc (Bytes.wrap Bytes.del_bytes)) = true) by (by apply BytesOverlay.overlay_guard_iff).
    congruence.
Qed.
