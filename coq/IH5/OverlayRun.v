(** Runner entry for the overlay model: decodes an operation list, runs overlay model and
    plain-tree specification in lock-step, prints per-step results and views and the raw
    containers at the end. *)
From Coq Require Import Ascii.
From stdpp Require Import gmap strings list.
From MV Require Import Base.Sx IH5.Overlay.

Definition sx_path (x : sx) : option path :=
  option_map (λ l : list string, rev (map (λ k, (false, k)) l)) (sx_strings x).

Definition sx_op (x : sx) : option op :=
  match x with
  | L [A "grp"; p] => option_map OGroup (sx_path p)
  | L [A "set"; p; A v] => option_map (λ q, OData q v) (sx_path p)
  | L [A "del"; p] => option_map ODel (sx_path p)
  | L [A "aset"; p; A k; A v] => option_map (λ q, OAttrSet q k v) (sx_path p)
  | L [A "adel"; p; A k] => option_map (λ q, OAttrDel q k) (sx_path p)
  | L [A "copy"; s; d] =>
      match sx_path s, sx_path d with Some s, Some d => Some (OCopy s d) | _, _ => None end
  | L [A "move"; s; d] =>
      match sx_path s, sx_path d with Some s, Some d => Some (OMove s d) | _, _ => None end
  | L [A "bnd"] => Some OBoundary
  | _ => None
  end.

Definition of_seg (s : seg) : sx := A (if s.1 then "@" +:+ s.2 else s.2).
Definition of_path (p : path) : sx := L (map of_seg (rev p)).

Definition of_tentry (e : tentry) : list sx :=
  match e with TGroup => [A "G"] | TData v => [A "D"; A v] end.

Definition of_rentry (e : rentry) : list sx :=
  match e with
  | RDel => [A "DEL"]
  | RData v => [A "D"; A v]
  | RGroup b => [A "G"; of_bool b]
  end.

Definition of_tree (T : tree) : sx :=
  L (map (λ pe : path * tentry, L (of_path pe.1 :: of_tentry pe.2)) (map_to_list T)).

Definition of_cont (c : cont) : sx :=
  L (map (λ pe : path * rentry, L (of_path pe.1 :: of_rentry pe.2)) (map_to_list c)).

Fixpoint run_steps (R : stack) (T : tree) (ops : list op) : list sx :=
  match ops with
  | [] => []
  | o :: rest =>
      let '(R', mr) := m_step R o in
      let '(T', tr) := t_step T o in
      let V := viewmap R' in
      L [of_bool mr; of_bool tr; of_bool (bool_decide (V = T')); of_tree V]
        :: run_steps R' T' rest
  end.

(** Second case form, [(raw (container ...))]: containers given directly in the raw
    representation (oldest first, entries as [of_cont] prints them); the result is the view
    under the repaired and under the pinned child-resolution rule.  Used to compare the read
    path alone with [IH5InnerNode._children] on stacks the write path does not produce. *)
Definition seg_of_string (s : string) : seg :=
  match s with String "@"%char r => (true, r) | _ => (false, s) end.

Definition sx_rpath (x : sx) : option path :=
  option_map (λ l : list string, rev (map seg_of_string l)) (sx_strings x).

Definition sx_entry (x : sx) : option (path * rentry) :=
  match x with
  | L [p; A "DEL"] => option_map (λ q, (q, RDel)) (sx_rpath p)
  | L [p; A "D"; A v] => option_map (λ q, (q, RData v)) (sx_rpath p)
  | L [p; A "G"; A "T"] => option_map (λ q, (q, RGroup true)) (sx_rpath p)
  | L [p; A "G"; A "F"] => option_map (λ q, (q, RGroup false)) (sx_rpath p)
  | _ => None
  end.

Definition sx_cont (x : sx) : option cont :=
  option_map (λ l : list (path * rentry), (list_to_map l : cont)) (sx_map sx_entry x).

Fixpoint mk_stack (i : nat) (cs : list cont) (acc : stack) : stack :=
  match cs with [] => acc | c :: r => mk_stack (S i) r ((i, c) :: acc) end.

Definition viewmap_pinned (R : stack) : tree :=
  map_imap (λ p _, vget_pinned R p) (all_keys R).

Definition run_c01 (x : sx) : sx :=
  match x with
  | L [A "raw"; cs] =>
      match sx_map sx_cont cs with
      | None => sx_bad "c01 raw"
      | Some conts =>
          let R := mk_stack 0 conts [] in
          L [of_tree (viewmap R); of_tree (viewmap_pinned R)]
      end
  | _ =>
      match sx_map sx_op x with
      | None => sx_bad "c01 ops"
      | Some ops =>
          let R := run_m ops in
          L [L (run_steps m_init ∅ ops); L (map (λ ic : nat * cont, of_cont ic.2) (rev R))]
      end
  end.
