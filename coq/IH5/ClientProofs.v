(** Proofs about protocol clients ([IH5/Client.v]) for property C09: every read request is
    answered identically by the overlay read path and by the plain tree, hence any client
    produces the same trace on both, wherever patch boundaries are placed. *)
From stdpp Require Import gmap strings list sorting.
From MV Require Import Base.Sx Base.Cmp IH5.Overlay IH5.OverlayProofs IH5.Client.

(** ** Candidate keys *)

Lemma keys_at_elem {X} (c : gmap path X) (p : path) (a : bool) (k : string) :
  k ∈ keys_at c p a ↔ is_Some (c !! ((a, k) :: p)).
Proof.
  unfold keys_at. rewrite elem_of_list_to_set, elem_of_list_omap. split.
  - intros ([x e] & Hin & Hx). apply elem_of_map_to_list in Hin. cbn in Hx.
    destruct x as [|[a' k'] par]; [done|]. cbn in Hx.
    destruct (decide (par = p ∧ a' = a)) as [[-> ->]|]; [|done].
    injection Hx as ->. eauto.
  - intros [e He]. exists ((a, k) :: p, e). split; [by apply elem_of_map_to_list|].
    cbn. destruct (decide (p = p ∧ a = a)) as [|n]; [done|]. destruct n; done.
Qed.

Lemma cand_keys_elem (l : stack) (p : path) (a : bool) (k : string) :
  k ∈ cand_keys l p a ↔ ∃ ic, ic ∈ l ∧ is_Some (ic.2 !! ((a, k) :: p)).
Proof.
  induction l as [|ic l IH]; cbn.
  - split; [set_solver|]. intros (ic & Hin & _). by apply elem_of_nil in Hin.
  - rewrite elem_of_union, keys_at_elem, IH. split.
    + intros [H|(ic' & Hin & H)]; [exists ic; split; [left|done]|exists ic'; split; [by right|done]].
    + intros (ic' & Hin & H). apply elem_of_cons in Hin as [->|Hin]; [by left|right; eauto].
Qed.

Lemma scan_Some_key (l : stack) (x : path) r :
  scan l x = Some r → ∃ ic, ic ∈ l ∧ is_Some (ic.2 !! x).
Proof.
  intros Hs. destruct (decide (Forall (λ ic : nat * cont, ic.2 !! x = None) l)) as [Hall|Hn].
  - rewrite (scan_None _ _ Hall) in Hs. done.
  - apply not_Forall_Exists in Hn; [|intros ic; apply _].
    apply Exists_exists in Hn as (ic & Hin & Hne). exists ic. split; [done|].
    cbn in Hne. destruct (ic.2 !! x); [eauto|by destruct Hne].
Qed.

Lemma holds_tholds (p : path) (e : rentry) (te : tentry) (i : nat) (s : seg) :
  erase (Some (i, e)) = Some te → holds p e s = tholds p te s.
Proof.
  unfold holds, tholds. destruct e; cbn; [done|intros [= <-]; done|intros [= <-]; done].
Qed.

(** ** Listings: [_children] over the stack = children in the plain tree *)

Lemma children_equiv R T (p : path) (a : bool) :
  Sim R T → m_children R p a = t_children T p a.
Proof.
  intros (HI & HR & Hroot). unfold m_children, t_children.
  pose proof (HR p) as Hp. unfold vget in Hp.
  destruct (status R p) as [[lb e]|] eqn:Hs; [|cbn in Hp; by rewrite <- Hp].
  destruct (tget T p) as [te|] eqn:Ht;
    [|destruct e; cbn in Hp; try done; by destruct (status_not_del R p lb)].
  rewrite (holds_tholds p e te lb _ Hp).
  destruct (tholds p te (a, EmptyString)) eqn:Hh; [|done].
  f_equal. apply set_eq. intros k.
  rewrite elem_of_filter, cand_keys_elem, keys_at_elem.
  assert (Hst : status R ((a, k) :: p) = post (scan (above lb R) ((a, k) :: p))).
  { cbn [status]. rewrite Hs.
    replace (holds p e (a, k)) with (holds p e (a, EmptyString)) by (by unfold holds).
    by rewrite (holds_tholds p e te lb _ Hp), Hh. }
  pose proof (HR ((a, k) :: p)) as Hk. unfold vget in Hk. cbn [tget] in Hk. rewrite Hst in Hk.
  split.
  - intros [[[i e'] Hpost] _]. rewrite Hpost in Hk. apply post_Some in Hpost as [_ Hne].
    rewrite <- Hk. destruct e'; cbn; eauto. done.
  - intros [te' Hte]. rewrite Hte in Hk.
    destruct (post (scan (above lb R) ((a, k) :: p))) as [[i e']|] eqn:Hpost; [|done].
    split; [eauto|]. apply post_Some in Hpost as [Hsc _]. eapply scan_Some_key; eauto.
Qed.

Lemma visit_go_equiv R T : Sim R T →
  ∀ fuel (p : path), m_visit_go fuel R p = t_visit_go fuel T p.
Proof.
  intros HS. induction fuel as [|f IH]; intros p; [done|]. cbn.
  rewrite (children_equiv R T p false HS).
  destruct (t_children T p false) as [ks|]; [|done].
  induction (ssort (elements ks)) as [|k l IHl]; [done|]. cbn.
  destruct HS as (HI & HR & Hroot).
  rewrite (HR ((false, k) :: p)), IHl. cbn [tget]. destruct (T !! ((false, k) :: p)); [|done].
  by rewrite IH.
Qed.

(** ** Every read request *)

Lemma read_equiv R T : Sim R T → ∀ q, read_m R q = read_t T q.
Proof.
  intros HS q. pose proof HS as (HI & HR & Hroot).
  destruct q as [p|p|p|p|p|p]; cbn [read_m read_t].
  - by rewrite HR.
  - by rewrite HR.
  - by rewrite (children_equiv R T p false HS).
  - by rewrite (children_equiv R T p true HS).
  - rewrite (children_equiv R T p false HS), (viewmap_eq R T HS).
    by rewrite (visit_go_equiv R T HS).
  - by rewrite HR.
Qed.

(** ** Traces *)

Lemma reopen_sim R T : Sim R T → Sim (m_reopen R) T.
Proof. done. Qed.

Lemma exec_equiv (prog : client) (bs : nat → bool) (n : nat) :
  Sim (exec_m prog bs n).1 (exec_t prog n).1 ∧ (exec_m prog bs n).2 = (exec_t prog n).2.
Proof.
  induction n as [|k [IHs IHh]]; [split; [exact init_sim|done]|].
  cbn [exec_m exec_t].
  destruct (exec_m prog bs k) as [R h] eqn:Em, (exec_t prog k) as [T h'] eqn:Et.
  cbn in IHs, IHh. subst h'.
  destruct (prog h) as [[o|q]|]; [| |done].
  - assert (HS0 : Sim (if bs k then m_boundary (m_reopen R) else R) T).
    { destruct (bs k); [apply boundary_refines, reopen_sim|]; done. }
    pose proof (step_refines _ _ o HS0) as [HS1 Hok].
    destruct (m_step _ o) as [R' ok], (t_step T o) as [T' ok']. cbn in *. by subst.
  - assert (HS0 : Sim (if bs k then m_boundary (m_reopen R) else R) T).
    { destruct (bs k); [apply boundary_refines, reopen_sim|]; done. }
    cbn. split; [done|]. by rewrite (read_equiv _ _ HS0).
Qed.

Lemma driver_equiv (prog : client) (bs : nat → bool) (n : nat) :
  trace_m prog bs n = trace_t prog n.
Proof. apply exec_equiv. Qed.

Lemma driver_state_sim (prog : client) (bs : nat → bool) (n : nat) :
  Sim (state_m prog bs n) (state_t prog n).
Proof. apply exec_equiv. Qed.

Lemma driver_view_equiv (prog : client) (bs : nat → bool) (n : nat) :
  viewmap (state_m prog bs n) = state_t prog n ∧
  ∀ q, read_m (state_m prog bs n) q = read_t (state_t prog n) q.
Proof.
  pose proof (driver_state_sim prog bs n) as HS.
  split; [by apply viewmap_eq|by apply read_equiv].
Qed.

(** Anything computed from the answers (the container layer's user-visible data, attributes,
    metadata objects, query results) is the same on both drivers. *)
Lemma layer_equiv {X} (f : list obs → X) (prog : client) (bs : nat → bool) (n : nat) :
  f (trace_m prog bs n) = f (trace_t prog n).
Proof. by rewrite driver_equiv. Qed.

(** Where the boundaries (and reopen points) fall is unobservable for any client. *)
Lemma schedule_unobservable (prog : client) (bs bs' : nat → bool) (n : nat) :
  trace_m prog bs n = trace_m prog bs' n ∧
  viewmap (state_m prog bs n) = viewmap (state_m prog bs' n).
Proof.
  rewrite !driver_equiv. split; [done|].
  by rewrite (proj1 (driver_view_equiv prog bs n)), (proj1 (driver_view_equiv prog bs' n)).
Qed.

(** ** The listing is what it should be: exactly the children present in the plain tree,
    each once, in alphabetical order. *)

Lemma sinsert_perm k l : sinsert k l ≡ₚ k :: l.
Proof.
  induction l as [|x r IH]; [done|]. cbn. destruct (scmp k x); [done|done|].
  rewrite IH. apply Permutation_swap.
Qed.

Lemma ssort_perm l : ssort l ≡ₚ l.
Proof.
  induction l as [|x r IH]; [done|]. cbn. by rewrite sinsert_perm, IH.
Qed.

Definition sle (a b : string) : Prop := scmp a b ≠ Gt.

Lemma sinsert_sorted k l : Sorted sle l → Sorted sle (sinsert k l).
Proof.
  induction 1 as [|x r Hs IH Hhd]; cbn; [repeat constructor|].
  destruct (scmp k x) eqn:E.
  - constructor; [by constructor|]. constructor. unfold sle. by rewrite E.
  - constructor; [by constructor|]. constructor. unfold sle. by rewrite E.
  - constructor; [done|].
    assert (Hxk : sle x k).
    { unfold sle. rewrite (c_anti scmp_ok k x), E. done. }
    destruct r as [|y r']; cbn; [by constructor|].
    destruct (scmp k y); constructor; try done. by inversion Hhd.
Qed.

Lemma ssort_sorted l : Sorted sle (ssort l).
Proof. induction l; cbn; [constructor|by apply sinsert_sorted]. Qed.

Lemma keys_listing R T (p : path) (a : bool) ks :
  Sim R T → m_children R p a = Some ks →
  let l := ssort (elements ks) in
  NoDup l ∧ Sorted sle l ∧ ∀ k, k ∈ l ↔ is_Some (T !! ((a, k) :: p)).
Proof.
  intros HS Hm l. rewrite (children_equiv R T p a HS) in Hm. unfold t_children in Hm.
  destruct (tget T p); [|done]. destruct (tholds _ _ _); [|done]. injection Hm as <-.
  subst l. split; [|split].
  - rewrite ssort_perm. apply NoDup_elements.
  - apply ssort_sorted.
  - intros k. by rewrite ssort_perm, elem_of_elements, keys_at_elem.
Qed.

(** ** The visit shows exactly the nodes below the start group *)

Definition wf_t (T : tree) : Prop :=
  ∀ s par, is_Some (T !! (s :: par)) → ∃ te, tget T par = Some te ∧ tholds par te s = true.

Lemma sim_wf R T : Sim R T → wf_t T.
Proof.
  intros (HI & HR & Hroot) s par [e He].
  pose proof (HR (s :: par)) as H1. cbn [tget] in H1. rewrite He in H1. unfold vget in H1.
  rewrite status_cons in H1.
  destruct (status R par) as [[lb e0]|] eqn:Hs; [|done].
  destruct (holds par e0 s) eqn:Hh; [|done].
  pose proof (HR par) as H2. unfold vget in H2. rewrite Hs in H2.
  destruct (tget T par) as [te|] eqn:Ht.
  - exists te. split; [done|]. by rewrite <- (holds_tholds par e0 te lb s H2).
  - destruct e0; cbn in H2; try done. unfold holds in Hh. by destruct par as [|[[] ?] ?].
Qed.

Lemma wf_suffix T (a b : path) : wf_t T → is_Some (T !! (a ++ b)) → b ≠ [] → is_Some (T !! b).
Proof.
  intros Hwf. induction a as [|s a IH]; [done|]. intros Hs Hb. apply IH; [|done].
  destruct (Hwf s (a ++ b) Hs) as (te & Ht & _).
  destruct (a ++ b) eqn:E; [by destruct a, b|]. cbn in Ht. eauto.
Qed.

Lemma tholds_false_seg (p : path) te (k k' : string) :
  tholds p te (false, k) = tholds p te (false, k').
Proof. done. Qed.

Lemma node_path_app (a b : path) : is_node_path (a ++ b) = is_node_path a && is_node_path b.
Proof. unfold is_node_path. apply forallb_app. Qed.

Lemma t_visit_sound T : ∀ fuel (p x : path) e,
  (x, e) ∈ t_visit_go fuel T p →
  ∃ r, r ≠ [] ∧ is_node_path r = true ∧ x = r ++ p ∧ T !! x = Some e.
Proof.
  induction fuel as [|f IH]; intros p x e Hin; [by apply elem_of_nil in Hin|].
  cbn in Hin. destruct (t_children T p false) as [ks|]; [|by apply elem_of_nil in Hin].
  apply elem_of_list_In, in_flat_map in Hin as (k & _ & Hin). apply elem_of_list_In in Hin.
  cbn [tget] in Hin.
  destruct (T !! ((false, k) :: p)) as [e1|] eqn:E1; [|by apply elem_of_nil in Hin].
  apply elem_of_cons in Hin as [[= -> ->]|Hin].
  - exists [(false, k)]. done.
  - apply IH in Hin as (r & Hr & Hn & -> & Hx). exists (r ++ [(false, k)]).
    split; [by destruct r|]. split; [by rewrite node_path_app, Hn|].
    by rewrite <- app_assoc.
Qed.

Lemma t_visit_complete T : wf_t T → ∀ (r : path) fuel (p : path) e,
  length r ≤ fuel → r ≠ [] → is_node_path r = true → T !! (r ++ p) = Some e →
  (r ++ p, e) ∈ t_visit_go fuel T p.
Proof.
  intros Hwf. induction r as [|s r' IH] using rev_ind; intros fuel p e Hlen Hne Hnode Hx; [done|].
  rewrite app_length in Hlen. cbn in Hlen. destruct fuel as [|f]; [lia|].
  rewrite node_path_app in Hnode. apply andb_prop in Hnode as [Hn' Hs]. cbn in Hs.
  destruct s as [[] k]; [done|]. rewrite <- app_assoc in Hx |- *. cbn [app] in Hx |- *.
  assert (Hsp : is_Some (T !! ((false, k) :: p))) by (eapply (wf_suffix T r'); eauto).
  destruct (Hwf _ _ Hsp) as (te & Htp & Hth). destruct Hsp as [e1 He1].
  cbn [t_visit_go]. unfold t_children. rewrite Htp.
  rewrite (tholds_false_seg p te _ k), Hth.
  apply elem_of_list_In, in_flat_map. exists k. split.
  - apply elem_of_list_In. rewrite ssort_perm, elem_of_elements, keys_at_elem. eauto.
  - apply elem_of_list_In. cbn [tget]. rewrite He1.
    destruct r' as [|s' r''] eqn:Er.
    + cbn in Hx |- *. rewrite He1 in Hx. injection Hx as ->. left.
    + right. rewrite <- Er in *. apply IH; [lia|by subst|done|done].
Qed.

(** Depth is bounded by the number of entries. *)
Lemma chain_length (T : tree) : ∀ (r p : path),
  (∀ r1 r2, r = r1 ++ r2 → r2 ≠ [] → is_Some (T !! (r2 ++ p))) → length r ≤ size T.
Proof.
  intros r. revert T. induction r as [|s r IH]; intros T p Hch; [cbn; lia|].
  assert (Hx : is_Some (T !! ((s :: r) ++ p))) by (apply (Hch []); done).
  destruct Hx as [e He].
  assert (Hsz : size T = S (size (delete ((s :: r) ++ p) T))).
  { rewrite <- (insert_delete T _ _ He) at 1. rewrite map_size_insert_None; [done|]. apply lookup_delete. }
  rewrite Hsz. cbn [length]. apply le_n_S. apply (IH _ p).
  intros r1 r2 -> Hr2. rewrite lookup_delete_ne.
  - apply (Hch (s :: r1)); done.
  - intros Heq. apply (f_equal length) in Heq. cbn in Heq. rewrite !app_length in Heq. lia.
Qed.

Lemma wf_chain T (r p : path) : wf_t T → is_Some (T !! (r ++ p)) →
  ∀ r1 r2, r = r1 ++ r2 → r2 ≠ [] → is_Some (T !! (r2 ++ p)).
Proof.
  intros Hwf Hx r1 r2 -> Hr2. rewrite <- app_assoc in Hx.
  eapply wf_suffix; eauto. by destruct r2.
Qed.

Lemma t_visit_exact T (p x : path) e : wf_t T →
  (x, e) ∈ t_visit_go (S (size T)) T p ↔
  ∃ r, r ≠ [] ∧ is_node_path r = true ∧ x = r ++ p ∧ T !! x = Some e.
Proof.
  intros Hwf. split; [apply t_visit_sound|].
  intros (r & Hr & Hn & -> & Hx). apply t_visit_complete; try done.
  etrans; [|apply Nat.le_succ_diag_r]. apply (chain_length T r p).
  apply wf_chain; eauto.
Qed.

Lemma visit_exact R T (p x : path) e : Sim R T →
  (x, e) ∈ m_visit_go (S (size (viewmap R))) R p ↔
  ∃ r, r ≠ [] ∧ is_node_path r = true ∧ x = r ++ p ∧ vget R x = Some e.
Proof.
  intros HS. rewrite (viewmap_eq R T HS), (visit_go_equiv R T HS).
  rewrite (t_visit_exact T p x e (sim_wf R T HS)).
  destruct HS as (_ & HR & _).
  split; intros (r & Hr & Hn & -> & Hx); exists r; (split; [done|split; [done|split; [done|]]]).
  - rewrite HR. by destruct r.
  - rewrite HR in Hx. by destruct r.
Qed.

(** ** Non-vacuity: the adaptive client takes different branches depending on the answers,
    and gives the same trace under different schedules. *)

Definition prep1 : list op := [OData pay "i:1"; OData pax "i:2"; OAttrSet pa "k" "i:3"].
Definition every : nat → bool := λ _, true.
Definition never : nat → bool := λ _, false.

Lemma witness_adaptive :
  trace_m (after prep1 (ensure_client "i:7")) every 10 =
    [AWrite true; AWrite true; AWrite true;
     AEntry (Some (TData "i:2")); AWrite true; AWrite true;
     ANames (Some ["x"; "y"]); AWrite true;
     AVisit (Some [(pa, TGroup); (pax, TData "i:7")])]
  ∧ trace_m (ensure_client "i:7") every 10 =
    [AEntry None; AWrite true; ANames (Some ["x"]);
     AVisit (Some [(pa, TGroup); (pax, TData "i:7")])]
  ∧ length (state_m (after prep1 (ensure_client "i:7")) every 10) = 10
  ∧ length (state_m (after prep1 (ensure_client "i:7")) never 10) = 1.
Proof. vm_compute. done. Qed.
