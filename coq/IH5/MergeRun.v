(** Runner entry for the merge model (property C05).

    Case: [(history follow (mfm writable (file ...) d read-only (pre-op ...)))] — [history] and [follow] are operation
    lists in the wire format of [OverlayRun.v], the files are rows as in [Rec/Chain.v] (source
    containers in index order), [d] the digest of the merged payload.

    Result:
    [(merged-container merged-view source-view built-equal
      (flags-on-source flags-on-merged same-patch-container
       view-source+patch view-merged+transplanted-patch view-merged+own-patch)
      ((pre-op-accepted ...) (ok merged-file (source-files-after writable-after) pinned-source-files-after) | (refused kind)))]
    where the follow-up patch is produced by running [follow] after a boundary on the source
    and, separately, on the merged record; "transplanted" is the patch container produced on
    the source stacked as container 1 on the merged container. *)
From stdpp Require Import gmap strings list.
From MV Require Import Base.Sx IH5.Overlay IH5.OverlayRun IH5.Merge.
From MV Require Rec.Chain.

Fixpoint run_flags (R : stack) (ops : list op) : stack * list bool :=
  match ops with
  | [] => (R, [])
  | o :: rest =>
      let '(R', b) := m_step R o in
      let '(R'', bs) := run_flags R' rest in (R'', b :: bs)
  end.

Definition top_cont (R : stack) : cont := match R with [] => ∅ | (_, c) :: _ => c end.

Definition of_ext (e : Chain.mfext) : sx :=
  L [of_bool (Chain.is_stub e); of_N (Chain.mf_id e); of_N (Chain.mf_hash e)].

Definition of_file (f : Chain.file) : sx :=
  let u := Chain.ub f in
  L [of_N (Chain.rec_id u); of_N (Chain.idx u); of_N (Chain.pid u); of_opt of_N (Chain.prev u);
     of_opt of_N (Chain.hash u); of_opt of_ext (Chain.ext u); of_N (Chain.dig f);
     of_opt (of_pair of_N of_N) (Chain.mf f)].

Definition sx_rop (x : sx) : option rop :=
  match x with
  | L [A "commit"; i; h] =>
      match sx_N i, sx_N h with Some i, Some h => Some (RCommit i h) | _, _ => None end
  | L [A "create"; p] => option_map RCreate (sx_N p)
  | L [A "discard"] => Some RDiscard
  | L [A "write"; o] => option_map RWrite (sx_op o)
  | _ => None
  end.

Fixpoint rrun_flags (mfm ro : bool) (S : rstate) (ops : list rop) : rstate * list bool :=
  match ops with
  | [] => (S, [])
  | o :: rest =>
      let '(St', bs) := rrun_flags mfm ro (rapply mfm ro S o) rest in
      (St', bool_decide (is_Some (rstep mfm ro S o)) :: bs)
  end.

(** [(mfm writable files d ro pre)]: the operations [pre] are performed first (flags: accepted /
    refused), then the merge. *)
Definition run_ub (R : stack) (x : sx) : sx :=
  match x with
  | L [m; w; fs; d; r; pre] =>
      match sx_bool m, sx_bool w, sx_map Chain.sx_file fs, sx_N d, sx_bool r, sx_map sx_rop pre with
      | Some m, Some w, Some fs, Some d, Some r, Some pre =>
          let '(St, flags) := rrun_flags m r (MkRs R fs w) pre in
          L [L (map of_bool flags);
             match merge_files m d St, merge_files_pinned m d St with
             | MOk S' _ f, MOk Sp _ _ =>
                 L [A "ok"; of_file f;
                    L [L (map of_file (rs_files S')); of_bool (rs_writable S')];
                    L (map of_file (rs_files Sp))]
             | MRefusedWritable, _ => L [A "refused"; A "writable"]
             | MRefusedStub, _ => L [A "refused"; A "stub"]
             | _, _ => L [A "refused"; A "empty"]
             end]
      | _, _, _, _, _, _ => sx_bad "c05 ub"
      end
  | _ => sx_bad "c05 ub"
  end.

Definition run_c05 (x : sx) : sx :=
  match x with
  | L [h; fo; u] =>
      match sx_map sx_op h, sx_map sx_op fo with
      | Some ops, Some follow =>
          let R := run_m ops in
          let M := m_merge R in
          let '(Rs, fs) := run_flags (m_boundary R) follow in
          let '(Rm, fm) := run_flags (m_boundary M) follow in
          let P := top_cont Rs in
          L [of_cont (top_cont M); of_tree (viewmap M); of_tree (viewmap R);
             of_bool (bool_decide (m_merge_build R = Some M) && bool_decide (m_merge_preorder R = Some M));
             L [L (map of_bool fs); L (map of_bool fm);
                of_bool (bool_decide (top_cont Rm = P));
                of_tree (viewmap Rs); of_tree (viewmap ((1, P) :: M)); of_tree (viewmap Rm)];
             run_ub R u]
      | _, _ => sx_bad "c05 ops"
      end
  | _ => sx_bad "c05"
  end.
