(** * Model of [IH5Record.merge_files] (property C05).

    Source: [metador_core/ih5/record.py] [merge_files], [overlay.py] [h5_copy_from_to],
    [manifest.py] [IH5MFRecord.merge_files] / [_fixes_after_merge].

    Tree part.  The merged record is a single fresh *base* container.  [merge_files] opens a
    new record in mode ["x"] and copies the overlay view of the source into it: the root
    attributes, then every entity through [h5_copy_from_to], which walks the source with
    [visititems] (every node after its parent) and creates each node with
    [create_group] / [create_dataset] and each attribute with [attrs[k] = v] on the target.
    A base container is not a patch, so no group becomes an overwrite group and no deletion
    marker is ever written: the result is [export (viewmap R)], the view with every group a
    plain group ([m_merge]).  [m_merge_build] is the construction as the code performs it —
    a fold of [m_create_group] / [m_set_data] / [m_attr_set] over the entries of the view,
    parents first, starting from the empty record [m_init]; [MergeProofs.build_eq] shows that
    it yields exactly [m_merge R], for *every* enumeration of the view in which parents come
    before their children ([MergeProofs.build_any_order]), in particular for the pre-order
    walk of the code and for the level order [visit] used here.

    Record part ([Rec/Chain.v] supplies user blocks and files).  The merged user block is a
    copy of the newest source block in which [prev_patch] is the [prev_patch] of the oldest
    source container and [hdf5_hashsum] is the digest [d] of the new payload; the manifest
    extension of the newest block is carried over and (manifest-aware class) the source's
    manifest file is saved beside the merged container.  The merge is refused while the record
    has an uncommitted (writable) container and, for the manifest-aware class, when any
    container is marked as a stub.  The source state is returned unchanged ([merge_files]);
    [merge_files_pinned] is the behaviour of the pinned code, which assigns the merged block
    to the source handle's newest container ([self._set_ublock(-1, ub)]).

    Definitions only. *)
From stdpp Require Import gmap strings list sorting.
From MV Require Import Base.Sx IH5.Overlay.
From MV Require Rec.Chain.

(** ** Tree part *)

(** A plain tree as a base container: no markers, every group a plain group. *)
Definition export (T : tree) : cont := to_raw false <$> T.

Definition m_merge (R : stack) : stack := [(0, export (viewmap R))].

(** The construction as the code performs it. *)
Definition build_step (acc : option stack) (pe : path * tentry) : option stack :=
  match acc with
  | None => None
  | Some R =>
      match pe with
      | ((true, k) :: par, TData v) => m_attr_set R par k v      (* trg.attrs[k] = v *)
      | ((true, _) :: _, TGroup) => None
      | (q, TData v) => m_set_data R q v                         (* trg_root[name] = value *)
      | (q, TGroup) => m_create_group R q                        (* trg_root.create_group(name) *)
      end
  end.

Definition build (l : list (path * tentry)) : option stack := foldl build_step (Some m_init) l.

Definition shorter (a b : path * tentry) : Prop := length a.1 ≤ length b.1.
Global Instance shorter_dec a b : Decision (shorter a b).
Proof. unfold shorter. apply _. Defined.

(** Level order: every entry after its parent. *)
Definition visit (T : tree) : list (path * tentry) := merge_sort shorter (map_to_list T).

Definition m_merge_build (R : stack) : option stack := build (visit (viewmap R)).

(** ** Record part *)

Import Chain.

Record rstate : Type := MkRs {
  rs_stack : stack;            (* containers, newest first *)
  rs_files : list file;        (* the same containers as files, oldest first (index order) *)
  rs_writable : bool           (* the newest container is an uncommitted patch / base *)
}.

Definition has_stub (fs : list file) : bool := existsb stub_marked fs.

(** Merged file: block of the newest container [n] with the [prev_patch] of the oldest [b]
    and the digest [d] of the new payload; the manifest of [n] is carried over. *)
Definition merged_ub (d : N) (b n : ublock) : ublock :=
  MkUb (rec_id n) (idx n) (pid n) (prev b) (Some d) (ext n).

Definition merged_file (d : N) (fs : list file) : option file :=
  match fs with
  | [] => None
  | b :: _ => let n := List.last fs b in Some (MkFile (merged_ub d (ub b) (ub n)) d (mf n))
  end.

Inductive merge_result : Type :=
| MRefusedWritable        (* "Cannot merge, please commit or discard your changes!" *)
| MRefusedStub            (* "Cannot merge, files contain a stub!" *)
| MRefusedEmpty           (* record not open *)
| MOk (src : rstate) (merged : stack) (mfile : file).

(** [merge_files(target)] of the class selected by [mfm] ([true] = IH5MFRecord); [d] is the
    digest of the payload written for the merged container. *)
Definition merge_files (mfm : bool) (d : N) (S : rstate) : merge_result :=
  if mfm && has_stub (rs_files S) then MRefusedStub else
  if rs_writable S then MRefusedWritable else
  match merged_file d (rs_files S) with
  | None => MRefusedEmpty
  | Some f => MOk S (m_merge (rs_stack S)) f
  end.

(** The pinned code additionally stores the merged block as the block of the source handle's
    newest container. *)
Fixpoint set_last_ub (fs : list file) (u : ublock) : list file :=
  match fs with
  | [] => []
  | [f] => [MkFile u (dig f) (mf f)]
  | f :: r => f :: set_last_ub r u
  end.

Definition merge_files_pinned (mfm : bool) (d : N) (S : rstate) : merge_result :=
  match merge_files mfm d S with
  | MOk S' M f => MOk (MkRs (rs_stack S') (set_last_ub (rs_files S') (ub f)) (rs_writable S')) M f
  | r => r
  end.

(** ** Record operations around the merge: commit, create_patch, discard_patch, writes

    [rstep] returns [None] when the code refuses the operation (raises before any effect):
    [commit_patch] / [discard_patch] without a writable container or on a read-only handle,
    [create_patch] on a read-only handle or with a writable container present, a write without
    a writable container, and any write the overlay itself refuses.  A refused operation leaves
    the state as it is ([rapply]).  [mid], [mh]: identifier and digest of the manifest a
    manifest-aware commit writes; [p]: the patch id a new patch gets. *)
Inductive rop : Type :=
| RCommit (mid mh : N)
| RCreate (p : N)
| RDiscard
| RWrite (o : op).

Fixpoint map_last {X} (f : X -> X) (l : list X) : list X :=
  match l with
  | [] => []
  | [x] => [f x]
  | x :: r => x :: map_last f r
  end.

Definition commit_file (mfm : bool) (mid mh : N) (f : file) : file :=
  let u := ub f in
  let e := if mfm then Some (MkExt (stub_marked f) mid mh) else ext u in
  MkFile (MkUb (rec_id u) (idx u) (pid u) (prev u) (Some (dig f)) e) (dig f)
         (if mfm then Some (mid, mh) else mf f).

Definition new_patch_file (p : N) (n : file) : file :=
  MkFile (MkUb (frec n) (N.succ (fidx n)) p (Some (fpid n)) None None) 0%N None.

Definition rstep (mfm ro : bool) (S : rstate) (o : rop) : option rstate :=
  match o with
  | RCommit mid mh =>
      if ro then None else
      if rs_writable S then Some (MkRs (rs_stack S) (map_last (commit_file mfm mid mh) (rs_files S)) false)
      else None
  | RCreate p =>
      if ro || rs_writable S then None else
      match rs_files S with
      | [] => None
      | b :: _ => Some (MkRs (m_boundary (rs_stack S))
                             (rs_files S ++ [new_patch_file p (List.last (rs_files S) b)]) true)
      end
  | RDiscard =>
      if ro then None else
      if negb (rs_writable S) then None else
      match rs_files S with
      | [] | [_] => None                       (* "Cannot discard base container!" *)
      | _ => Some (MkRs (tail (rs_stack S)) (List.removelast (rs_files S)) false)
      end
  | RWrite o =>
      if negb (rs_writable S) then None else
      match o with
      | OBoundary => None
      | _ => let '(R', ok) := m_step (rs_stack S) o in
             if ok then Some (MkRs R' (rs_files S) true) else None
      end
  end.

Definition rapply (mfm ro : bool) (S : rstate) (o : rop) : rstate :=
  match rstep mfm ro S o with Some S' => S' | None => S end.

Definition rrun (mfm ro : bool) (S : rstate) (ops : list rop) : rstate :=
  foldl (rapply mfm ro) S ops.

(** The pinned [IH5MFRecord.commit_patch] prepares the new block as a shallow copy of the old
    one and writes the link to the prospective manifest into the shared [ub_exts] before the
    checks: a refused commit leaves that link (to a manifest never written) in the block. *)
Definition pollute (mid mh : N) (f : file) : file :=
  let u := ub f in
  MkFile (MkUb (rec_id u) (idx u) (pid u) (prev u) (hash u) (Some (MkExt false mid mh))) (dig f) (mf f).

Definition rapply_pinned (mfm ro : bool) (S : rstate) (o : rop) : rstate :=
  match rstep mfm ro S o, o with
  | Some S', _ => S'
  | None, RCommit mid mh =>
      if mfm then MkRs (rs_stack S) (map_last (pollute mid mh) (rs_files S)) (rs_writable S) else S
  | None, _ => S
  end.

(** ** The walk of the code: pre-order, attributes of a node before its children

    [merge_files] copies the root attributes, then every top-level entity with
    [h5_copy_from_to]: the node, its attributes, then its descendants in the order of
    [visititems] (pre-order, names ascending), each followed by its attributes.  This is the
    ascending order of the root-first paths, compared segment by segment, attribute segments
    before child segments, names by character code.  [pkey] flattens a path into one list of
    numbers whose plain lexicographic order [lexb] is that order: per segment a marker (1 =
    attribute, 2 = child), the character codes shifted by 3, and the terminator 0 (smaller than
    every character, so a name sorts before its extensions: "run1" before "run10"). *)
Definition enc_seg (s : seg) : list nat :=
  (if s.1 then 1 else 2) :: map (λ c, 3 + Ascii.nat_of_ascii c) (String.list_ascii_of_string s.2) ++ [0].

Definition pkey (p : path) : list nat := flat_map enc_seg (reverse p).

Fixpoint lexb (a b : list nat) : bool :=
  match a, b with
  | [], _ => true
  | _ :: _, [] => false
  | x :: a', y :: b' => if x <? y then true else if y <? x then false else lexb a' b'
  end.

Definition pre_le (a b : path * tentry) : Prop := lexb (pkey a.1) (pkey b.1) = true.
Global Instance pre_le_dec a b : Decision (pre_le a b).
Proof. unfold pre_le. apply _. Defined.

Definition preorder (T : tree) : list (path * tentry) := merge_sort pre_le (map_to_list T).

Definition m_merge_preorder (R : stack) : option stack := build (preorder (viewmap R)).
