(** * Model of embedded file bytes, their file metadata and the deletion-marker guard
      (property C17).

    Transcribes, as total Gallina functions:
    - [packer/utils.py] [_h5_wrap_bytes] ([wrap]: [numpy.void(bs)] if non-empty, else
      [h5py.Empty]) and [pack_file] ([SPack]: refuse an existing target, store the
      wrapped bytes through [create_dataset], attach [core.file] metadata);
    - [harvester/common.py] [FileMetaHarvester.run] ([harvest]: [contentSize] = number
      of bytes, [sha256] = digest of the bytes, for an abstract digest function [H]);
    - [ih5/overlay.py] [DEL_VALUE], [_is_del_mark] ([is_del]), [_guard_value]
      ([guard_value]) and the places where a *value* enters a container:
      [IH5Group.create_dataset] ([SSet], [SPack], [SCopy]), [IH5Dataset.__setitem__]
      ([SWrite], in place), and where the marker is written by the overlay itself
      ([IH5Group.__delitem__], [SDel]); [h5_copy_from_to] ([SCopy]: the value read from
      the visible source node is written to a fresh destination), [IH5Group.move]
      ([SMove] = copy, then delete);
    - [ih5/record.py] [commit_patch]+[create_patch] ([SBoundary]), close + open "r+"
      ([SReopen]: a new patch container on top), [merge_files] + open of the merged
      record ([SMerge]: one container holding exactly the visible nodes).

    This is a *value-transport* model: a record is a stack of containers (newest first),
    each a finite association from flat node names to raw entries, and the deletion
    marker is an ordinary raw value -- exactly the reason why the marker must never be
    accepted as a user value.  Group structure, virtual groups and attribute managers are
    the subject of [IH5/Overlay.v] (C01); [enc] below is the bridge to the value strings
    used there (and by the harness, [ih5lib.enc]).

    Byte strings are Coq [string]s (lists of 8-bit [ascii] characters), which is also
    what an [sx] atom carries, so byte strings cross the wire unconverted. *)
From Coq Require Import List String Ascii NArith Bool.
From MV Require Import Base.Sx.
Import ListNotations.
Local Open Scope string_scope.

Notation bytes := string (only parsing).

(** ** Values *)

Inductive value : Type :=
| VEmpty                 (* h5py.Empty *)
| VVoid (bs : bytes)     (* numpy.void(bs): scalar of HDF5 opaque type *)
| VStr (bs : bytes).     (* any other scalar, e.g. a bytes/str dataset; never a marker *)

Definition wrap (bs : bytes) : value :=
  match bs with "" => VEmpty | _ => VVoid bs end.

Definition unwrap (v : value) : bytes :=
  match v with VEmpty => "" | VVoid bs => bs | VStr bs => bs end.

(** [DEL_VALUE = np.void(b"\x7f")] *)
Definition del_byte : ascii := "127"%char.
Definition del_bytes : bytes := String del_byte "".
Definition del_value : value := VVoid del_bytes.

(** [_is_del_mark]: an [np.void] whose bytes are exactly [b"\x7f"]. *)
Definition is_del (v : value) : bool :=
  match v with VVoid bs => String.eqb bs del_bytes | _ => false end.

(** [_guard_value]: [true] = the value may be assigned, [false] = [ValueError]. *)
Definition guard_value (v : value) : bool := negb (is_del v).

(** ** Bridge to the value strings of [IH5/Overlay.v] / [ih5lib.enc] *)

(** Hex digit of a nibble given by its bits ([b0] least significant); no arithmetic, so
    that 70 000-byte strings cost nothing in the extracted runner. *)
Definition nib (b0 b1 b2 b3 : bool) : ascii :=
  match b3, b2, b1, b0 with
  | false, false, false, false => "0"
  | false, false, false, true => "1"
  | false, false, true, false => "2"
  | false, false, true, true => "3"
  | false, true, false, false => "4"
  | false, true, false, true => "5"
  | false, true, true, false => "6"
  | false, true, true, true => "7"
  | true, false, false, false => "8"
  | true, false, false, true => "9"
  | true, false, true, false => "a"
  | true, false, true, true => "b"
  | true, true, false, false => "c"
  | true, true, false, true => "d"
  | true, true, true, false => "e"
  | true, true, true, true => "f"
  end%char.

Definition byte_hi (c : ascii) : ascii :=
  match c with Ascii _ _ _ _ b4 b5 b6 b7 => nib b4 b5 b6 b7 end.
Definition byte_lo (c : ascii) : ascii :=
  match c with Ascii b0 b1 b2 b3 _ _ _ _ => nib b0 b1 b2 b3 end.

Fixpoint hex (bs : bytes) : string :=
  match bs with
  | "" => ""
  | String c rest => String (byte_hi c) (String (byte_lo c) (hex rest))
  end.

Definition enc (v : value) : string :=
  match v with
  | VEmpty => "e:"
  | VVoid bs => "v:" ++ hex bs
  | VStr bs => "b:" ++ hex bs
  end.

(** Wire decoding of byte strings (the harness sends and receives them hex-encoded). *)
Definition unnib (c : ascii) : option (bool * bool * bool * bool) :=
  match c with
  | "0" => Some (false, false, false, false)
  | "1" => Some (true, false, false, false)
  | "2" => Some (false, true, false, false)
  | "3" => Some (true, true, false, false)
  | "4" => Some (false, false, true, false)
  | "5" => Some (true, false, true, false)
  | "6" => Some (false, true, true, false)
  | "7" => Some (true, true, true, false)
  | "8" => Some (false, false, false, true)
  | "9" => Some (true, false, false, true)
  | "a" => Some (false, true, false, true)
  | "b" => Some (true, true, false, true)
  | "c" => Some (false, false, true, true)
  | "d" => Some (true, false, true, true)
  | "e" => Some (false, true, true, true)
  | "f" => Some (true, true, true, true)
  | _ => None
  end%char.

Fixpoint unhex (s : string) : option bytes :=
  match s with
  | "" => Some ""
  | String a (String b rest) =>
      match unnib a, unnib b, unhex rest with
      | Some (h0, h1, h2, h3), Some (l0, l1, l2, l3), Some r =>
          Some (String (Ascii l0 l1 l2 l3 h0 h1 h2 h3) r)
      | _, _, _ => None
      end
  | _ => None
  end.

(** ** Association lists *)

Fixpoint alookup {X : Type} (k : string) (l : list (string * X)) : option X :=
  match l with
  | [] => None
  | (k', x) :: rest => if String.eqb k k' then Some x else alookup k rest
  end.

Fixpoint aremove {X : Type} (k : string) (l : list (string * X)) : list (string * X) :=
  match l with
  | [] => []
  | (k', x) :: rest => if String.eqb k k' then aremove k rest else (k', x) :: aremove k rest
  end.

Section WithDigest.

(** The digest: SHA-256 in the code, abstract here. *)
Variable D : Type.
Variable H : bytes -> D.

(** ** File metadata ([core.file]: only the two fields the property speaks about) *)

Record fmeta : Type := mkmeta { fm_size : nat; fm_sha : D }.

(** [FileMetaHarvester.run] on a file with content [bs]. *)
Definition harvest (bs : bytes) : fmeta := mkmeta (String.length bs) (H bs).

(** ** Records *)

Record entry : Type := mkentry { e_val : value; e_meta : option fmeta }.

Definition layer : Type := list (string * entry).
Definition stack : Type := list layer.          (* newest container first *)

(** Newest sighting of a name, markers included. *)
Fixpoint raw_get (R : stack) (p : string) : option entry :=
  match R with
  | [] => None
  | c :: rest => match alookup p c with Some e => Some e | None => raw_get rest p end
  end.

(** What the user sees: the newest sighting unless it is the deletion marker. *)
Definition get (R : stack) (p : string) : option entry :=
  match raw_get R p with
  | Some e => if is_del (e_val e) then None else Some e
  | None => None
  end.

Definition is_patch (R : stack) : bool :=
  match R with _ :: _ :: _ => true | _ => false end.

(** Write a raw entry into the newest container (replacing what it had there, e.g. a
    deletion marker: [create_dataset] removes the marker before creating). *)
Definition put (R : stack) (p : string) (e : entry) : stack :=
  match R with
  | [] => []
  | c :: rest => ((p, e) :: aremove p c) :: rest
  end.

Definition in_top (R : stack) (p : string) : bool :=
  match R with
  | [] => false
  | c :: _ => match alookup p c with Some _ => true | None => false end
  end.

Definition del_entry : entry := mkentry del_value None.

(** [__delitem__]: raw delete in the newest container, marker when patching. *)
Definition delete (R : stack) (p : string) : stack :=
  match R with
  | [] => []
  | c :: rest =>
      if is_patch R then ((p, del_entry) :: aremove p c) :: rest
      else aremove p c :: rest
  end.

(** All names occurring anywhere, and the merged container: the visible nodes only. *)
Definition names (R : stack) : list string := List.concat (map (map fst) R).

Fixpoint collect (R : stack) (ks : list string) : layer :=
  match ks with
  | [] => []
  | k :: rest =>
      match get R k with
      | Some e => (k, e) :: collect R rest
      | None => collect R rest
      end
  end.

Definition flatten (R : stack) : layer := collect R (names R).

(** ** Operations *)

Inductive sop : Type :=
| SPack (p : string) (bs : bytes)     (* pack_file(container, file with content bs, target=p) *)
| SSet (p : string) (v : value)       (* container[p] = v / create_dataset(p, data=v) *)
| SWrite (p : string) (v : value)     (* container[p][()] = v  (in place) *)
| SDel (p : string)                   (* del container[p] *)
| SCopy (s d : string)                (* container.copy(s, d) *)
| SMove (s d : string)                (* container.move(s, d) *)
| SBoundary                           (* commit_patch(); create_patch() *)
| SReopen                             (* close(); open "r+" *)
| SMerge.                             (* commit; merge_files; continue on the merged record *)

(** Create a dataset with a user-supplied raw entry: guard, freshness, write. *)
Definition s_create (R : stack) (p : string) (e : entry) : option stack :=
  match R with
  | [] => None
  | _ =>
      if guard_value (e_val e) then
        match get R p with
        | Some _ => None
        | None => Some (put R p e)
        end
      else None
  end.

Definition s_copy (R : stack) (s d : string) : option stack :=
  match get R s with
  | None => None
  | Some e => s_create R d e
  end.

Definition s_delete (R : stack) (p : string) : option stack :=
  match get R p with
  | None => None
  | Some _ => Some (delete R p)
  end.

(** In-place assignment: only a node of the newest container can be written; the value
    is guarded like any other assigned value; attached metadata is not touched. *)
Definition s_write (guarded : bool) (R : stack) (p : string) (v : value) : option stack :=
  match get R p with
  | None => None
  | Some e =>
      if in_top R p && (negb guarded || guard_value v)
      then Some (put R p (mkentry v (e_meta e)))
      else None
  end.

Definition s_apply (guarded_write : bool) (R : stack) (o : sop) : option stack :=
  match o with
  | SPack p bs => s_create R p (mkentry (wrap bs) (Some (harvest bs)))
  | SSet p v => s_create R p (mkentry v None)
  | SWrite p v => s_write guarded_write R p v
  | SDel p => s_delete R p
  | SCopy s d => s_copy R s d
  | SMove s d => match s_copy R s d with
                 | None => None
                 | Some R1 => s_delete R1 s
                 end
  | SBoundary => match R with [] => None | _ => Some ([] :: R) end
  | SReopen => match R with [] => None | _ => Some ([] :: R) end
  | SMerge => match R with [] => None | _ => Some [[]; flatten R] end
  end.

(** One step: the new record and whether the operation was accepted; a refused
    operation (an exception in the code) leaves the record as it was. *)
Definition s_step_gen (guarded_write : bool) (R : stack) (o : sop) : stack * bool :=
  match s_apply guarded_write R o with
  | Some R' => (R', true)
  | None => (R, false)
  end.

(** The behaviour the property demands ... *)
Definition s_step : stack -> sop -> stack * bool := s_step_gen true.
(** ... and the pinned tree, whose [IH5Dataset.__setitem__] does not call
    [_guard_value]. *)
Definition s_step_pinned : stack -> sop -> stack * bool := s_step_gen false.

Definition s_init : stack := [[]].

Definition s_run (R : stack) (ops : list sop) : stack :=
  fold_left (fun R o => fst (s_step R o)) ops R.

(** ** Following one node through a history.

    A history is a list of operations, each with a flag "from here on look at the copy"
    (meaningful for an accepted [SCopy] from the followed node). *)
Definition follow (R : stack) (cur : string) (of : sop * bool) : string :=
  match of with
  | (SMove s d, _) => if String.eqb s cur && snd (s_step R (SMove s d)) then d else cur
  | (SCopy s d, true) => if String.eqb s cur && snd (s_step R (SCopy s d)) then d else cur
  | _ => cur
  end.

(** Operations that do not keep the followed node (they are outside the property's
    quantifier): deleting it and overwriting its content in place. *)
Definition keeps (cur : string) (o : sop) : bool :=
  match o with
  | SDel p => negb (String.eqb p cur)
  | SWrite p _ => negb (String.eqb p cur)
  | _ => true
  end.

Fixpoint keeps_all (R : stack) (cur : string) (h : list (sop * bool)) : bool :=
  match h with
  | [] => true
  | of :: rest =>
      keeps cur (fst of) && keeps_all (fst (s_step R (fst of))) (follow R cur of) rest
  end.

Fixpoint run_follow (R : stack) (cur : string) (h : list (sop * bool)) : stack * string :=
  match h with
  | [] => (R, cur)
  | of :: rest => run_follow (fst (s_step R (fst of))) (follow R cur of) rest
  end.

End WithDigest.

Arguments mkmeta {D}.
Arguments fm_size {D}.
Arguments fm_sha {D}.
Arguments mkentry {D}.
Arguments e_val {D}.
Arguments e_meta {D}.
Arguments raw_get {D}.
Arguments get {D}.
Arguments put {D}.
Arguments delete {D}.
Arguments flatten {D}.
Arguments names {D}.
Arguments in_top {D}.
Arguments is_patch {D}.
Arguments s_init {D}.

(** ** Entry point of the extracted runner.

    The digest is instantiated by the identity (the "digest" of [bs] is [bs] itself,
    trivially injective); the harness composes it with [hashlib.sha256] before comparing
    with the code's [sha256] field.  Byte strings travel hex-encoded ([hex]/[unhex]).

    Cases:
    - [(wrap hexbs)]                  -> [(class hex-unwrapped is_del guard enc)]
    - [(val class hexbs)]             -> same for an explicitly given value
    - [(hist pinned? every? (paths) (ops))] -> per step [(ok (obs per path))] or [(ok -)]
    with class = E / V / S, obs = [()] absent or [(class hexbytes ())] or
    [(class hexbytes (size hex-sha-preimage))], the preimage abbreviated [=] when it is the
    node's own content. *)

Definition cls_of (v : value) : string :=
  match v with VEmpty => "E" | VVoid _ => "V" | VStr _ => "S" end.

Definition value_of (c : string) (hx : string) : option value :=
  match unhex hx with
  | None => None
  | Some bs =>
      match c with
      | "E" => Some VEmpty
      | "V" => Some (VVoid bs)
      | "S" => Some (VStr bs)
      | _ => None
      end
  end.

Definition describe (v : value) : sx :=
  L [A (cls_of v); A (hex (unwrap v)); of_bool (is_del v); of_bool (guard_value v); A (enc v)].

Definition sx_sop (x : sx) : option sop :=
  match x with
  | L [A "pack"; A p; A hx] => option_map (SPack p) (unhex hx)
  | L [A "set"; A p; A c; A hx] => option_map (SSet p) (value_of c hx)
  | L [A "write"; A p; A c; A hx] => option_map (SWrite p) (value_of c hx)
  | L [A "del"; A p] => Some (SDel p)
  | L [A "copy"; A s; A d] => Some (SCopy s d)
  | L [A "move"; A s; A d] => Some (SMove s d)
  | L [A "bnd"] => Some SBoundary
  | L [A "reopen"] => Some SReopen
  | L [A "merge"] => Some SMerge
  | _ => None
  end.

Definition of_obs (o : option (entry string)) : sx :=
  match o with
  | None => L []
  | Some e =>
      L [A (cls_of (e_val e)); A (hex (unwrap (e_val e)));
         match e_meta e with
         | None => L []
         | Some m =>
             (* "=": the digest preimage is the node's own content (the usual case) *)
             L [of_nat (fm_size m);
                if String.eqb (fm_sha m) (unwrap (e_val e)) then A "=" else A (hex (fm_sha m))]
         end]
  end.

(** [every]: observe all paths after every step; otherwise only after the last one
    (large payloads). *)
Fixpoint run_hist (pinned every : bool) (paths : list string) (R : stack string)
  (ops : list sop) : list sx :=
  match ops with
  | [] => []
  | o :: rest =>
      let r := s_step_gen string (fun bs => bs) (negb pinned) R o in
      let show := match rest with [] => true | _ => every end in
      L [of_bool (snd r);
         if show then L (map (fun p => of_obs (get (fst r) p)) paths) else A "-"]
        :: run_hist pinned every paths (fst r) rest
  end.

Definition run_c17 (x : sx) : sx :=
  match x with
  | L [A "wrap"; A hx] =>
      match unhex hx with Some bs => describe (wrap bs) | None => sx_bad "wrap" end
  | L [A "val"; A c; A hx] =>
      match value_of c hx with Some v => describe v | None => sx_bad "val" end
  | L [A "hist"; pinned; every; paths; ops] =>
      match sx_bool pinned, sx_bool every, sx_strings paths, sx_map sx_sop ops with
      | Some b, Some ev, Some ps, Some os => L (run_hist b ev ps s_init os)
      | _, _, _, _ => sx_bad "hist"
      end
  | _ => sx_bad "c17"
  end.
