(** * Clients of the H5GroupLike protocol (property C09).

    A *client* is any deterministic program over the protocol of [util/types.py]: a function
    from the observations made so far to the next request.  Requests are the write operations
    of [Overlay.op] and read requests; observations are result classes and answers.  The
    container layer ([container/wrappers.py], [container/interface.py]) is such a client: it
    touches the underlying file only through this protocol and everything it shows to the user
    (data, attributes, metadata objects stored as datasets, query results computed from
    listings and visits) is a function of the answers it received.

    A client runs against the plain tree ([exec_t]: writes by [t_step], reads from the tree)
    and against the overlay stack ([exec_m]: writes by [m_step], reads by the read path of
    [overlay.py], patch boundaries inserted by an arbitrary schedule [bs]).

    Read path of the overlay, transcribed from [IH5InnerNode._children]: the candidate names
    are the keys found in the containers at or above the node's creation index, every
    candidate is decided by the newest-sighting walk [scan], deletion markers are dropped,
    the result is sorted.  [IH5Group.visititems] is the depth-first walk over [_children]
    (explicit fuel, as the recursion is on the tree, not on a structural argument).

    Closing and reopening a record does not change its containers (reopening is only possible
    at a patch boundary: [close] commits, a reopened record needs [create_patch] before the
    next write), so reopen points are instances of the boundary schedule ([m_reopen]). *)
From stdpp Require Import gmap strings list.
From MV Require Import Base.Sx Base.Cmp IH5.Overlay IH5.OverlayRun.

(** ** Requests and observations *)

Inductive rreq : Type :=
| QGet (p : path)      (* g[p] / g.get(p): kind (and value) of the node at p *)
| QHas (p : path)      (* p in g *)
| QKeys (p : path)     (* keys / iter / len / items of the group at p *)
| QAttrs (p : path)    (* attrs.keys() of the node at p *)
| QVisit (p : path)    (* visit / visititems from the group at p *)
| QValue (p : path).   (* value of the dataset (or attribute, last segment an attribute) at p *)

Inductive request : Type := Write (o : op) | Read (q : rreq).

Inductive obs : Type :=
| AWrite (ok : bool)
| AEntry (e : option tentry)
| ABool (b : bool)
| ANames (l : option (list string))
| AVisit (l : option (list (path * tentry)))
| AValue (v : option string).

Global Instance obs_eq_dec : EqDecision obs.
Proof. solve_decision. Defined.

Definition client := list obs → option request.

(** ** Listings *)

(** Alphabetical order ([sorted] in [_children]; HDF5's name index). *)
Fixpoint sinsert (k : string) (l : list string) : list string :=
  match l with
  | [] => [k]
  | x :: r => match scmp k x with Gt => x :: sinsert k r | _ => k :: l end
  end.
Definition ssort (l : list string) : list string := foldr sinsert [] l.

(** Names [k] with an entry at [(a, k) :: p] in one map ([obj.keys()] of one file). *)
Definition keys_at {X} (c : gmap path X) (p : path) (a : bool) : gset string :=
  list_to_set (omap (λ pe : path * X,
                       match pe.1 with
                       | s :: par => if decide (par = p ∧ s.1 = a) then Some s.2 else None
                       | [] => None
                       end) (map_to_list c)).

Definition cand_keys (l : stack) (p : path) (a : bool) : gset string :=
  foldr (λ ic acc, keys_at ic.2 p a ∪ acc) ∅ l.

(** [_children] of the group ([a = false]) or attribute manager ([a = true]) at [p]. *)
Definition m_children (R : stack) (p : path) (a : bool) : option (gset string) :=
  match status R p with
  | Some (lb, e) =>
      if holds p e (a, EmptyString) then
        Some (filter (λ k, is_Some (post (scan (above lb R) ((a, k) :: p))))
                     (cand_keys (above lb R) p a))
      else None
  | None => None
  end.

Definition t_children (T : tree) (p : path) (a : bool) : option (gset string) :=
  match tget T p with
  | Some e => if tholds p e (a, EmptyString) then Some (keys_at T p a) else None
  | None => None
  end.

Fixpoint m_visit_go (fuel : nat) (R : stack) (p : path) : list (path * tentry) :=
  match fuel with
  | 0 => []
  | S f =>
      match m_children R p false with
      | None => []
      | Some ks =>
          flat_map (λ k, let x := (false, k) :: p in
                         match vget R x with
                         | Some e => (x, e) :: m_visit_go f R x
                         | None => []
                         end) (ssort (elements ks))
      end
  end.

Fixpoint t_visit_go (fuel : nat) (T : tree) (p : path) : list (path * tentry) :=
  match fuel with
  | 0 => []
  | S f =>
      match t_children T p false with
      | None => []
      | Some ks =>
          flat_map (λ k, let x := (false, k) :: p in
                         match tget T x with
                         | Some e => (x, e) :: t_visit_go f T x
                         | None => []
                         end) (ssort (elements ks))
      end
  end.

Definition value_of (e : option tentry) : option string :=
  match e with Some (TData v) => Some v | _ => None end.

(** ** Answering read requests *)

Definition read_m (R : stack) (q : rreq) : obs :=
  match q with
  | QGet p => AEntry (vget R p)
  | QHas p => ABool (bool_decide (is_Some (vget R p)))
  | QKeys p => ANames ((λ ks, ssort (elements ks)) <$> m_children R p false)
  | QAttrs p => ANames ((λ ks, ssort (elements ks)) <$> m_children R p true)
  | QVisit p => AVisit ((λ _, m_visit_go (S (size (viewmap R))) R p) <$> m_children R p false)
  | QValue p => AValue (value_of (vget R p))
  end.

Definition read_t (T : tree) (q : rreq) : obs :=
  match q with
  | QGet p => AEntry (tget T p)
  | QHas p => ABool (bool_decide (is_Some (tget T p)))
  | QKeys p => ANames ((λ ks, ssort (elements ks)) <$> t_children T p false)
  | QAttrs p => ANames ((λ ks, ssort (elements ks)) <$> t_children T p true)
  | QVisit p => AVisit ((λ _, t_visit_go (S (size T)) T p) <$> t_children T p false)
  | QValue p => AValue (value_of (tget T p))
  end.

(** ** Running a client *)

(** Close + reopen: the same containers. *)
Definition m_reopen (R : stack) : stack := R.

Fixpoint exec_t (prog : client) (n : nat) : tree * list obs :=
  match n with
  | 0 => (∅, [])
  | S k =>
      let '(T, h) := exec_t prog k in
      match prog h with
      | None => (T, h)
      | Some (Write o) => let '(T', ok) := t_step T o in (T', h ++ [AWrite ok])
      | Some (Read q) => (T, h ++ [read_t T q])
      end
  end.

(** [bs k = true]: a patch boundary (commit_patch, optionally close and reopen, create_patch)
    is placed before the [k]-th request. *)
Fixpoint exec_m (prog : client) (bs : nat → bool) (n : nat) : stack * list obs :=
  match n with
  | 0 => (m_init, [])
  | S k =>
      let '(R, h) := exec_m prog bs k in
      match prog h with
      | None => (R, h)
      | Some rq =>
          let R0 := if bs k then m_boundary (m_reopen R) else R in
          match rq with
          | Write o => let '(R', ok) := m_step R0 o in (R', h ++ [AWrite ok])
          | Read q => (R0, h ++ [read_m R0 q])
          end
      end
  end.

Definition trace_t (prog : client) (n : nat) : list obs := (exec_t prog n).2.
Definition trace_m (prog : client) (bs : nat → bool) (n : nat) : list obs := (exec_m prog bs n).2.
Definition state_t (prog : client) (n : nat) : tree := (exec_t prog n).1.
Definition state_m (prog : client) (bs : nat → bool) (n : nat) : stack := (exec_m prog bs n).1.

(** ** A small adaptive client (non-vacuity; later requests depend on earlier answers)

    "Make sure [a/x] holds value [v] and [a] has no child [y]": asks for [a/x]; creates it when
    absent; deletes and re-creates it when it is a group or holds another value; then lists
    [a] and deletes [a/y] only if the listing shows it; finally visits the root. *)
Definition pa : path := [(false, "a")].
Definition pax : path := [(false, "x"); (false, "a")].
Definition pay : path := [(false, "y"); (false, "a")].

Definition is_names (o : obs) : bool := match o with ANames _ => true | _ => false end.

Definition ensure_client (v : string) : client := λ h,
  match h with
  | [] => Some (Read (QGet pax))
  | [AEntry None] => Some (Write (OData pax v))
  | [AEntry (Some (TData w))] =>
      if decide (w = v) then Some (Read (QKeys pa)) else Some (Write (ODel pax))
  | [AEntry (Some TGroup)] => Some (Write (ODel pax))
  | [AEntry (Some _); AWrite true] => Some (Write (OData pax v))
  | _ =>
      match last h with
      | Some (AWrite _) =>
          if existsb is_names h then Some (Read (QVisit [])) else Some (Read (QKeys pa))
      | Some (ANames (Some ks)) =>
          if bool_decide ("y" ∈ ks) then Some (Write (ODel pay)) else Some (Read (QVisit []))
      | _ => None
      end
  end.

(** A client that first replays a fixed preparation and then behaves like [c]. *)
Definition after (pre : list op) (c : client) : client := λ h,
  if decide (length h < length pre) then Write <$> pre !! length h
  else c (drop (length pre) h).

(** ** Runner entry

    Case: a list of items — an operation in the form of [OverlayRun.sx_op] ([(bnd)] places a
    boundary before the next request), a read [(get p)] [(has p)] [(keys p)] [(akeys p)]
    [(visit p)] [(val p)] [(aval p k)], or [(cond A B)]: request [A] if the previous answer
    was positive (operation succeeded / true / something found), else [B].  The items are
    turned into a client and a schedule and run through [exec_m] and [exec_t]. *)

Inductive item : Type := IPlain (r : request) | ICond (a b : request).

Definition sx_read (x : sx) : option rreq :=
  match x with
  | L [A "get"; p] => option_map QGet (sx_path p)
  | L [A "has"; p] => option_map QHas (sx_path p)
  | L [A "keys"; p] => option_map QKeys (sx_path p)
  | L [A "akeys"; p] => option_map QAttrs (sx_path p)
  | L [A "visit"; p] => option_map QVisit (sx_path p)
  | L [A "val"; p] => option_map QValue (sx_path p)
  | L [A "aval"; p; A k] => option_map (λ q, QValue ((true, k) :: q)) (sx_path p)
  | _ => None
  end.

Definition sx_request (x : sx) : option request :=
  match sx_read x with
  | Some q => Some (Read q)
  | None => match sx_op x with
            | Some OBoundary => None
            | Some o => Some (Write o)
            | None => None
            end
  end.

Definition sx_item (x : sx) : option item :=
  match x with
  | L [A "cond"; a; b] =>
      match sx_request a, sx_request b with
      | Some a, Some b => Some (ICond a b)
      | _, _ => None
      end
  | _ => option_map IPlain (sx_request x)
  end.

(** Split the case into requests and "boundary before request k" flags. *)
Fixpoint split_items (xs : list sx) (pending : bool) : option (list (item * bool)) :=
  match xs with
  | [] => Some []
  | x :: rest =>
      match x with
      | L [A "bnd"] => split_items rest true
      | _ => match sx_item x, split_items rest false with
             | Some it, Some r => Some ((it, pending) :: r)
             | _, _ => None
             end
      end
  end.

Definition positive (o : obs) : bool :=
  match o with
  | AWrite b | ABool b => b
  | AEntry (Some _) | ANames (Some _) | AVisit (Some _) | AValue (Some _) => true
  | _ => false
  end.

Definition prog_of (its : list item) : client := λ h,
  match its !! length h with
  | Some (IPlain r) => Some r
  | Some (ICond a b) =>
      Some (if match last h with Some o => positive o | None => false end then a else b)
  | None => None
  end.

Definition sched_of (bl : list bool) : nat → bool := λ k, default false (bl !! k).

Definition of_obs (o : obs) : sx :=
  match o with
  | AWrite b => L [A "w"; of_bool b]
  | AEntry e => L [A "e"; of_opt (λ e, L (of_tentry e)) e]
  | ABool b => L [A "b"; of_bool b]
  | ANames l => L [A "n"; of_opt of_strings l]
  | AVisit l => L [A "v"; of_opt (of_list (λ pe : path * tentry, L (of_path pe.1 :: of_tentry pe.2))) l]
  | AValue v => L [A "x"; of_opt A v]
  end.

Definition run_c09 (x : sx) : sx :=
  match x with
  | L xs =>
      match split_items xs false with
      | None => sx_bad "c09 items"
      | Some ib =>
          let prog := prog_of (map fst ib) in
          let bs := sched_of (map snd ib) in
          let n := length ib in
          let '(R, hm) := exec_m prog bs n in
          let '(T, ht) := exec_t prog n in
          L [L (map of_obs hm); of_bool (bool_decide (hm = ht));
             of_bool (bool_decide (viewmap R = T)); of_tree (viewmap R); of_nat (length R)]
      end
  | _ => sx_bad "c09 case"
  end.
