(** Property C17 — embedded file bytes and their file metadata are exact.
    This file holds only the property theorems; each is closed by [exact] of a lemma
    proved in [IH5/BytesProofs.v] or [IH5/BytesOverlay.v] and followed by
    [Print Assumptions].  [D], [H] stand for SHA-256 (an arbitrary function; injectivity
    is a premise only where it is used). *)
From Coq Require Import List String Ascii Bool.
From MV Require Import IH5.Bytes IH5.BytesProofs.
From MV Require IH5.Overlay IH5.BytesOverlay.
Import ListNotations.
Local Open Scope string_scope.

(** Wrapping loses nothing: any length, empty, NUL bytes, trailing NULs. *)
Theorem C17_unwrap_wrap : forall bs, unwrap (wrap bs) = bs.
Proof. exact unwrap_wrap. Qed.
Print Assumptions C17_unwrap_wrap.

Theorem C17_wrap_inj : forall a b, wrap a = wrap b -> a = b.
Proof. exact wrap_inj. Qed.
Print Assumptions C17_wrap_inj.

(** Empty content is [h5py.Empty], everything else an opaque scalar of those bytes. *)
Theorem C17_wrap_class : forall bs,
  (bs = "" /\ wrap bs = VEmpty) \/ (bs <> "" /\ wrap bs = VVoid bs).
Proof. exact wrap_class. Qed.
Print Assumptions C17_wrap_class.

(** The guard refuses a value iff it is the marker ... *)
Theorem C17_guard_refuses_iff : forall v, guard_value v = false <-> v = del_value.
Proof. exact guard_refuses_iff. Qed.
Print Assumptions C17_guard_refuses_iff.

(** ... and exactly one byte string wraps to the marker. *)
Theorem C17_del_guard : forall bs, guard_value (wrap bs) = false <-> bs = del_bytes.
Proof. exact del_guard. Qed.
Print Assumptions C17_del_guard.

(** Refusal is loud (the step reports it) and changes nothing, in every state and for
    every way of assigning a value: [pack_file], dataset creation, in-place assignment. *)
Theorem C17_marker_refused : forall D H (R : stack D) p,
  s_step D H R (SPack p del_bytes) = (R, false) /\
  s_step D H R (SSet p del_value) = (R, false) /\
  s_step D H R (SWrite p del_value) = (R, false).
Proof. exact marker_refused. Qed.
Print Assumptions C17_marker_refused.

Theorem C17_refused_unchanged : forall D H (R : stack D) o,
  snd (s_step D H R o) = false -> fst (s_step D H R o) = R.
Proof. exact refused_unchanged. Qed.
Print Assumptions C17_refused_unchanged.

(** [pack_file] is refused for nothing else than the marker bytes or an occupied target. *)
Theorem C17_pack_refused_iff : forall D H (R : stack D) p bs,
  R <> [] ->
  (snd (s_step D H R (SPack p bs)) = false <-> bs = del_bytes \/ get R p <> None).
Proof. exact pack_refused_iff. Qed.
Print Assumptions C17_pack_refused_iff.

(** Markers are never ambiguous: an accepted value is read back, never taken for deleted. *)
Theorem C17_accepted_value_visible : forall D H (R : stack D) o p v,
  (o = SSet p v \/ o = SWrite p v \/ exists bs, o = SPack p bs /\ v = wrap bs) ->
  snd (s_step D H R o) = true ->
  exists e, get (fst (s_step D H R o)) p = Some e /\ e_val e = v.
Proof. exact accepted_value_visible. Qed.
Print Assumptions C17_accepted_value_visible.

(** The pinned tree's unguarded in-place assignment loses the node silently. *)
Theorem C17_write_pinned_refuted : forall D H, exists (R : stack D) p v,
  get R p <> None /\ snd (s_step_pinned D H R (SWrite p v)) = true /\
  get (fst (s_step_pinned D H R (SWrite p v))) p = None.
Proof. exact write_pinned_refuted. Qed.
Print Assumptions C17_write_pinned_refuted.

(** Stored size and hash are those of the source bytes. *)
Theorem C17_filemeta_exact : forall D H (R : stack D) p bs,
  snd (s_step D H R (SPack p bs)) = true ->
  exists e m, get (fst (s_step D H R (SPack p bs))) p = Some e /\
    unwrap (e_val e) = bs /\ e_meta e = Some m /\
    fm_size m = String.length bs /\ fm_sha m = H bs.
Proof. exact filemeta_exact. Qed.
Print Assumptions C17_filemeta_exact.

Theorem C17_filemeta_identifies : forall D (H : string -> D),
  (forall a b, H a = H b -> a = b) ->
  forall (R : stack D) p bs bs',
  snd (s_step D H R (SPack p bs)) = true ->
  (exists e m, get (fst (s_step D H R (SPack p bs))) p = Some e /\ e_meta e = Some m /\
               fm_sha m = H bs') ->
  bs' = bs.
Proof. exact filemeta_identifies. Qed.
Print Assumptions C17_filemeta_identifies.

(** One value-preserving step, and any history of them (copy, move, patch boundary,
    merge, reopen, unrelated packs/assignments/deletions): the entry at the node's
    current name -- bytes and metadata -- is the one that was embedded. *)
Theorem C17_step_preserves : forall D H (R : stack D) o flag cur e,
  R <> [] -> get R cur = Some e -> keeps cur o = true ->
  get (fst (s_step D H R o)) (follow D H R cur (o, flag)) = Some e.
Proof. exact step_preserves. Qed.
Print Assumptions C17_step_preserves.

Theorem C17_bytes_preserved : forall D H (R0 : stack D) p bs h,
  snd (s_step D H R0 (SPack p bs)) = true ->
  let R1 := fst (s_step D H R0 (SPack p bs)) in
  keeps_all D H R1 p h = true ->
  exists e m,
    get (fst (run_follow D H R1 p h)) (snd (run_follow D H R1 p h)) = Some e /\
    e_val e = wrap bs /\ unwrap (e_val e) = bs /\
    e_meta e = Some m /\ fm_size m = String.length bs /\ fm_sha m = H bs.
Proof. exact bytes_preserved. Qed.
Print Assumptions C17_bytes_preserved.

Theorem C17_merge_view : forall D (R : stack D) p, get [[]; flatten R] p = get R p.
Proof. exact get_merge. Qed.
Print Assumptions C17_merge_view.

Theorem C17_move_source_gone : forall D H (R : stack D) s d,
  snd (s_step D H R (SMove s d)) = true -> get (fst (s_step D H R (SMove s d))) s = None.
Proof. exact move_source_gone. Qed.
Print Assumptions C17_move_source_gone.

(** The same guard on the overlay model of C01 ([IH5/Overlay.v], values encoded as the
    harness encodes them): the marker is refused without a state change by [m_step] and by
    the plain-tree specification; every other byte string goes down the write path, and
    distinct byte strings stay distinct overlay values. *)
Theorem C17_overlay_guard_iff : forall bs,
  Overlay.is_del_value (enc (wrap bs)) = true <-> bs = del_bytes.
Proof. exact BytesOverlay.overlay_guard_iff. Qed.
Print Assumptions C17_overlay_guard_iff.

Theorem C17_overlay_refuses_marker : forall R q k,
  Overlay.m_step R (Overlay.OData q (enc (wrap del_bytes))) = (R, false) /\
  Overlay.m_step R (Overlay.OAttrSet q k (enc (wrap del_bytes))) = (R, false) /\
  forall T, Overlay.t_step T (Overlay.OData q (enc (wrap del_bytes))) = (T, false) /\
            Overlay.t_step T (Overlay.OAttrSet q k (enc (wrap del_bytes))) = (T, false).
Proof. exact BytesOverlay.overlay_refuses_marker. Qed.
Print Assumptions C17_overlay_refuses_marker.

Theorem C17_overlay_accepts_others : forall R q bs,
  bs <> del_bytes ->
  Overlay.m_step R (Overlay.OData q (enc (wrap bs))) =
    match (if Overlay.is_node_path q then Overlay.m_set_data R q (enc (wrap bs)) else None) with
    | Some R' => (R', true)
    | None => (R, false)
    end.
Proof. exact BytesOverlay.overlay_accepts_others. Qed.
Print Assumptions C17_overlay_accepts_others.

Theorem C17_enc_wrap_inj : forall a b, enc (wrap a) = enc (wrap b) -> a = b.
Proof. exact BytesOverlay.enc_wrap_inj. Qed.
Print Assumptions C17_enc_wrap_inj.

(** The hex wire encoding used between harness and runner loses nothing. *)
Theorem C17_wire_roundtrip : forall bs, unhex (hex bs) = Some bs.
Proof. exact unhex_hex. Qed.
Print Assumptions C17_wire_roundtrip.

(** Non-vacuity: boundary-like byte strings, marker-like strings that must be accepted,
    and a history with patches, copy, move, merge and reopen. *)
Example C17_nonvacuous_wrap :
  let nul := String "000"%char "" in
  wrap "" = VEmpty /\ unwrap (wrap (nul ++ nul)) = nul ++ nul /\
  wrap ("ab" ++ nul ++ nul) = VVoid ("ab" ++ nul ++ nul) /\
  guard_value (wrap del_bytes) = false /\
  guard_value (wrap (del_bytes ++ nul)) = true /\
  guard_value (wrap (nul ++ del_bytes)) = true /\
  guard_value (wrap (del_bytes ++ del_bytes)) = true /\
  guard_value (VStr del_bytes) = true /\
  enc (wrap del_bytes) = "v:7f" /\ enc (wrap (del_bytes ++ nul)) = "v:7f00".
Proof. vm_compute. repeat split. Qed.

Example C17_nonvacuous_history :
  let H := fun bs : string => bs in
  let bs := String "000"%char "x" in
  let R1 := fst (s_step string H s_init (SPack "a" bs)) in
  let h := [(SBoundary, false); (SCopy "a" "b", true); (SBoundary, false);
            (SMove "b" "c", false); (SDel "a", false); (SPack "a" "other", false);
            (SMerge, false); (SReopen, false); (SMove "c" "d", false)] in
  snd (s_step string H s_init (SPack "a" bs)) = true /\
  keeps_all string H R1 "a" h = true /\
  snd (run_follow string H R1 "a" h) = "d" /\
  get (fst (run_follow string H R1 "a" h)) "d" = Some (mkentry (VVoid bs) (Some (mkmeta 2 bs))) /\
  get (fst (run_follow string H R1 "a" h)) "c" = None /\
  s_step string H R1 (SPack "z" del_bytes) = (R1, false).
Proof. vm_compute. repeat split. Qed.

(** The plain specification tree that the overlay refines (C01): one specification step
    keeps the value of every dataset it is not aimed at, and copy / move deliver the source
    value at the destination.  Together with C01's refinement theorem this carries
    [C17_bytes_preserved] from the flat transport model over to the overlay model. *)
From stdpp Require Import gmap.
Import IH5.Overlay.

Theorem C17_tree_step_keeps : forall (T : tree) o p e,
  p <> [] -> is_node_path p = true -> T !! p = Some e -> BytesOverlay.t_keeps p o ->
  (t_step T o).1 !! p = Some e.
Proof. exact BytesOverlay.t_step_keeps. Qed.
Print Assumptions C17_tree_step_keeps.

Theorem C17_tree_copy_value : forall (T T' : tree) s d e,
  t_copy T s d = Some T' -> T !! s = Some e -> T' !! d = Some e.
Proof. exact BytesOverlay.t_copy_value. Qed.
Print Assumptions C17_tree_copy_value.

Theorem C17_tree_move_value : forall (T T' : tree) s d e,
  t_move T s d = Some T' -> T !! s = Some e -> T' !! d = Some e /\ T' !! s = None.
Proof. exact BytesOverlay.t_move_value. Qed.
Print Assumptions C17_tree_move_value.

(** Whole histories over the overlay model itself ([IH5/BytesOverlayHist.v]): operations of
    [Overlay.v] (boundaries included) and merges ([Merge.m_merge], C05).  The node is followed
    through accepted moves and -- where the flag says so -- copies, of the node or of a group
    above it; the only excluded operation is deleting the node or a group above it. *)
From MV Require Import IH5.OverlayProofs IH5.Merge IH5.BytesOverlayHist.

(** On the plain tree of any overlay ([Sim R T], e.g. every [run_t ops]) ... *)
Theorem C17_tree_history_keeps : forall hs R T (cur : path) e,
  Sim R T -> cur <> [] -> is_node_path cur = true -> T !! cur = Some e ->
  keeps_all_t T cur hs = true ->
  (run_follow_t T cur hs).1 !! (run_follow_t T cur hs).2 = Some e.
Proof. exact tree_history_keeps. Qed.
Print Assumptions C17_tree_history_keeps.

(** ... and read through the overlay, from any reachable record. *)
Theorem C17_overlay_history_keeps : forall hs R T (cur : path) e,
  Sim R T -> cur <> [] -> is_node_path cur = true -> vget R cur = Some e ->
  keeps_all_m R cur hs = true ->
  vget (run_follow_m R cur hs).1 (run_follow_m R cur hs).2 = Some e.
Proof. exact overlay_history_keeps. Qed.
Print Assumptions C17_overlay_history_keeps.

(** Embedded bytes: after any history [pre], an accepted [create_dataset] of the wrapped bytes,
    then any history keeping the node -- the value at the node's current path is the encoding
    of exactly those bytes (and they are not the marker bytes). *)
Theorem C17_bytes_preserved_overlay :
  forall (pre : list hop) (p : path) bs (hs : list (hop * bool)),
  let R0 := run_pre pre in
  let v := enc (wrap bs) in
  (m_step R0 (OData p v)).2 = true ->
  let R1 := (m_step R0 (OData p v)).1 in
  keeps_all_m R1 p hs = true ->
  vget (run_follow_m R1 p hs).1 (run_follow_m R1 p hs).2 = Some (TData v) /\ bs <> del_bytes.
Proof. exact bytes_preserved_overlay. Qed.
Print Assumptions C17_bytes_preserved_overlay.

(** Non-vacuity: three containers, a copy that is followed, a move of the group above the
    copy, a merge, a later patch, deletion of the original. *)
Example C17_nonvacuous_overlay :
  let f := [(false, "f"); (false, "a")]%string in
  let g := [(false, "g"); (false, "b")]%string in
  let v := enc (wrap (String "000"%char "x")) in
  let R1 := (m_step (run_pre [HOp (OGroup [(false, "z")]%string); HOp OBoundary]) (OData f v)).1 in
  let hs := [(HOp OBoundary, false); (HOp (OCopy f g), true); (HOp OBoundary, false);
             (HOp (OMove [(false, "b")]%string [(false, "c")]%string), false); (HMerge, false);
             (HOp OBoundary, false); (HOp (ODel [(false, "a")]%string), false);
             (HOp (OData g v), false)] in
  v = "v:0078"%string /\
  (m_step (run_pre [HOp (OGroup [(false, "z")]%string); HOp OBoundary]) (OData f v)).2 = true /\
  keeps_all_m R1 f hs = true /\
  (run_follow_m R1 f hs).2 = [(false, "g"); (false, "c")]%string /\
  length (run_follow_m R1 f hs).1 = 2 /\
  vget (run_follow_m R1 f hs).1 (run_follow_m R1 f hs).2 = Some (TData "v:0078"%string) /\
  vget (run_follow_m R1 f hs).1 f = None.
Proof. vm_compute. repeat split. Qed.
