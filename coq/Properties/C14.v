(** Property C14 — merging partial metadata is a lossless, associative, non-mutating monoid.
    This file holds only the property theorems; each is closed by [exact] of a lemma
    proved in [Schema/PartialProofs.v] and followed by [Print Assumptions].

    Reading guide.  [merge ow a b] is [a.merge_with(b, allow_overwrite=ow)]; the result
    [None] is "raises" (the [ValueError] of a refused overwrite).  [has_ty t v] says that
    [v] is a value of the field type [t] (what the schema classes enforce on their
    fields); [empty_of ts] is the empty partial [P()] of a class with field types [ts].
    Atoms are arbitrary integers: [0], [False], [0.0] and the empty string are atoms like any
    other (the harness interns them to numbers <= 0), the empty list and set are [VList []]
    and [VSet []].  Non-mutation of the operands is not a theorem: Gallina functions cannot
    mutate; on the code it is checked by operand snapshots in harness/props/c14.py. *)
From Coq Require Import List ZArith Bool.
From MV Require Import Schema.Partial Schema.PartialProofs Schema.PartialHarvest.
Import ListNotations.
Local Open Scope Z_scope.

(** ** Monoid: identity, associativity, closure *)

(** The empty partial is a left identity ... *)
Theorem C14_identity_left : forall ow ts x,
  has_ty (TObj ts) x -> merge ow (empty_of ts) x = Some x.
Proof. exact merge_empty_l. Qed.
Print Assumptions C14_identity_left.

(** ... and a right identity ... *)
Theorem C14_identity_right : forall ow ts x,
  has_ty (TObj ts) x -> merge ow x (empty_of ts) = Some x.
Proof. exact merge_empty_r. Qed.
Print Assumptions C14_identity_right.

(** ... and is itself a partial of the class. *)
Theorem C14_empty_typed : forall ts, has_ty (TObj ts) (empty_of ts).
Proof. exact empty_has_ty. Qed.
Print Assumptions C14_empty_typed.

(** Associativity as equality of [option] results: either both groupings raise or both
    give the same value, in both overwrite modes. *)
Theorem C14_assoc : forall t ow a b c,
  has_ty t a -> has_ty t b -> has_ty t c ->
  obind (merge ow b c) (fun bc => merge ow a bc) = obind (merge ow a b) (fun ab => merge ow ab c).
Proof. exact merge_assoc. Qed.
Print Assumptions C14_assoc.

(** Closure: a successful merge of two values of a field type is a value of that type. *)
Theorem C14_closed : forall t ow a b r,
  has_ty t a -> has_ty t b -> merge ow a b = Some r -> has_ty t r.
Proof. exact merge_closed. Qed.
Print Assumptions C14_closed.

(** Folding a sequence of partials from the empty one ([PartialModel.merge], as
    [harvester.harvest] uses it) may be split anywhere: fold both halves, merge the two. *)
Theorem C14_fold_regroup : forall ow ts xs ys,
  Forall (has_ty (TObj ts)) xs -> Forall (has_ty (TObj ts)) ys ->
  merge_all ow (empty_of ts) (xs ++ ys) =
  obind (merge_all ow (empty_of ts) xs)
        (fun x => obind (merge_all ow (empty_of ts) ys) (merge ow x)).
Proof. exact merge_all_app. Qed.
Print Assumptions C14_fold_regroup.

(** ** What a merge does, field by field *)

(** Every field of the result is the field-wise merge of the operands' fields:
    a field only one side provides is taken over, otherwise the values are merged. *)
Theorem C14_fieldwise : forall ow fs gs r, merge ow (VObj fs) (VObj gs) = Some r ->
  forall i, mfield ow (nth i fs None) (nth i gs None) = Some (fld i r).
Proof. exact merge_fieldwise. Qed.
Print Assumptions C14_fieldwise.

Theorem C14_field_only_left : forall ow fs gs r i,
  nth i gs None = None -> merge ow (VObj fs) (VObj gs) = Some r -> fld i r = nth i fs None.
Proof. exact merge_field_only_l. Qed.
Print Assumptions C14_field_only_left.

Theorem C14_field_only_right : forall ow fs gs r i,
  nth i fs None = None -> merge ow (VObj fs) (VObj gs) = Some r -> fld i r = nth i gs None.
Proof. exact merge_field_only_r. Qed.
Print Assumptions C14_field_only_right.

(** Lists are concatenated in order, left operand first. *)
Theorem C14_list_concat : forall ow a b r i l m,
  fld i a = Some (VList l) -> fld i b = Some (VList m) -> merge ow a b = Some r ->
  fld i r = Some (VList (l ++ m)).
Proof. exact merge_list_concat. Qed.
Print Assumptions C14_list_concat.

(** Sets are united: the result has exactly the elements of both sides ... *)
Theorem C14_set_union : forall ow a b r i l m,
  fld i a = Some (VSet l) -> fld i b = Some (VSet m) -> merge ow a b = Some r ->
  exists u, fld i r = Some (VSet u) /\ forall z, In z u <-> In z l \/ In z m.
Proof. exact merge_set_union. Qed.
Print Assumptions C14_set_union.

(** ... and the observation of a set (sorted, duplicate-free: what the harness compares)
    depends on the elements only and is that of the union. *)
Theorem C14_set_observed : forall l1 l2, (forall x, In x l1 <-> In x l2) -> canon l1 = canon l2.
Proof. exact canon_unique. Qed.
Print Assumptions C14_set_observed.

Theorem C14_set_union_observed : forall l m x, In x (canon (l ++ m)) <-> In x l \/ In x m.
Proof. exact canon_union. Qed.
Print Assumptions C14_set_union_observed.

(** The observed result of a merge does not depend on how the operands' sets are written
    down: merging the observed operands gives the same observation (success and refusal alike). *)
Theorem C14_merge_observation : forall x ow y,
  option_map obs (merge ow x y) = option_map obs (merge ow (obs x) (obs y)).
Proof. exact obs_merge. Qed.
Print Assumptions C14_merge_observation.

Theorem C14_observation_idempotent : forall v, obs (obs v) = obs v.
Proof. exact obs_idem. Qed.
Print Assumptions C14_observation_idempotent.

(** Nested objects are merged recursively ... *)
Theorem C14_nested_rec : forall ow a b r i x y,
  fld i a = Some x -> fld i b = Some y -> merge ow a b = Some r ->
  exists z, fld i r = Some z /\ merge ow x y = Some z.
Proof. exact merge_nested_rec. Qed.
Print Assumptions C14_nested_rec.

(** ... and a refusal inside refuses the whole merge. *)
Theorem C14_nested_refusal : forall ow a b i x y,
  fld i a = Some x -> fld i b = Some y -> merge ow x y = None -> merge ow a b = None.
Proof. exact merge_nested_fail. Qed.
Print Assumptions C14_nested_refusal.

(** ** Nothing is lost *)

(** Any place (path of field positions) at which either operand provides a value is
    provided by the result, in both overwrite modes; atoms [<= 0] (the falsy ones) and
    empty collections are not special. *)
Theorem C14_no_value_dropped : forall p t ow a b r,
  has_ty t a -> has_ty t b -> merge ow a b = Some r ->
  provided p a \/ provided p b -> provided p r.
Proof. exact no_value_dropped. Qed.
Print Assumptions C14_no_value_dropped.

(** Without overwrite permission a successful merge contains both operands entirely
    (atoms unchanged, lists as segments, set elements as elements, recursively). *)
Theorem C14_lossless : forall a b r, merge false a b = Some r -> leq a r /\ leq b r.
Proof. exact merge_lossless. Qed.
Print Assumptions C14_lossless.

(** Two different provisions for one atomic place are refused without overwrite
    permission (no value is silently replaced), at any depth ... *)
Theorem C14_conflict_refused : forall p a b x y,
  at_path p a = Some (VAtom x) -> at_path p b = Some (VAtom y) -> merge false a b = None.
Proof. exact conflict_refused. Qed.
Print Assumptions C14_conflict_refused.

(** ... that is the only reason for a refusal ... *)
Theorem C14_refused_only_by_conflict : forall t a b,
  has_ty t a -> has_ty t b -> merge false a b = None ->
  exists p x y, at_path p a = Some (VAtom x) /\ at_path p b = Some (VAtom y).
Proof. exact refused_only_by_conflict. Qed.
Print Assumptions C14_refused_only_by_conflict.

(** ... and with overwrite permission nothing is refused ... *)
Theorem C14_overwrite_total : forall t a b, has_ty t a -> has_ty t b -> merge true a b <> None.
Proof. exact overwrite_total. Qed.
Print Assumptions C14_overwrite_total.

(** ... the later operand is contained in the result entirely (the later value wins). *)
Theorem C14_later_wins : forall ow a b r, merge ow a b = Some r -> leq b r.
Proof. exact later_wins. Qed.
Print Assumptions C14_later_wins.

Theorem C14_later_wins_atom : forall x y, merge true (VAtom x) (VAtom y) = Some (VAtom y).
Proof. exact later_wins_atom. Qed.
Print Assumptions C14_later_wins_atom.

(** ** Complete object -> partial -> complete *)

Theorem C14_roundtrip : forall t o, complete t o = true -> from_partial t (to_partial o) = Some o.
Proof. exact partial_roundtrip. Qed.
Print Assumptions C14_roundtrip.

(** The partial of a complete object is a partial of the class (so all laws above apply). *)
Theorem C14_complete_typed : forall t o, complete t o = true -> has_ty t (to_partial o).
Proof. exact complete_has_ty. Qed.
Print Assumptions C14_complete_typed.

(** ** The harvest pipeline

    [harvest ts rp outs] is [harvester.harvest(schema, sources, return_partial=rp)] on the
    partials [outs] the sources returned (in source order).  What it guarantees: the result is
    the fold of the outputs from the empty partial *without* overwrite permission.  (The
    docstring's "the newer value by a later harvester will overwrite an existing one" does not
    describe the code: a second value for an atomic field raises - which is the behaviour C14
    demands without overwrite permission: nothing is lost silently.) *)

(** [PartialModel.merge] of any number of arguments, computed from the first argument as the
    code does, is the fold from the empty partial. *)
Theorem C14_merge_variadic_is_fold : forall ow ts xs, Forall (has_ty (TObj ts)) xs ->
  merge_star ow (empty_of ts) xs = merge_all ow (empty_of ts) xs.
Proof. exact merge_star_fold. Qed.
Print Assumptions C14_merge_variadic_is_fold.

Theorem C14_harvest_is_fold : forall ts outs, Forall (has_ty (TObj ts)) outs ->
  harvest ts true outs = merge_all false (empty_of ts) outs.
Proof. exact harvest_is_fold. Qed.
Print Assumptions C14_harvest_is_fold.

Theorem C14_harvest_complete_is_fold : forall ts outs, Forall (has_ty (TObj ts)) outs ->
  harvest ts false outs = obind (merge_all false (empty_of ts) outs) (from_partial (TObj ts)).
Proof. exact harvest_complete_is_fold. Qed.
Print Assumptions C14_harvest_complete_is_fold.

Theorem C14_harvest_typed : forall ts outs m, Forall (has_ty (TObj ts)) outs ->
  harvest ts true outs = Some m -> has_ty (TObj ts) m.
Proof. exact harvest_typed. Qed.
Print Assumptions C14_harvest_typed.

(** Two sources providing an atomic value for the same place make the pipeline raise,
    wherever they stand among the sources and whatever the others return. *)
Theorem C14_harvest_conflict_raises : forall ts rp l1 a l2 b l3 p u v,
  at_path p a = Some (VAtom u) -> at_path p b = Some (VAtom v) ->
  harvest ts rp (l1 ++ a :: l2 ++ b :: l3) = None.
Proof. exact harvest_conflict_raises. Qed.
Print Assumptions C14_harvest_conflict_raises.

(** When it does not raise, every atomic value any source provided is in the result,
    unchanged (no source is silently overruled). *)
Theorem C14_harvest_keeps_atoms : forall ts outs m a p x,
  harvest ts true outs = Some m -> In a outs -> at_path p a = Some (VAtom x) ->
  at_path p m = Some (VAtom x).
Proof. exact harvest_keeps_atoms. Qed.
Print Assumptions C14_harvest_keeps_atoms.

(** ** ignore_invalid: the cast keeps exactly the well-typed fields *)

Theorem C14_ignore_invalid_typed : forall ts raw v, to_partial_ii ts raw = Some v -> has_ty (TObj ts) v.
Proof. exact to_partial_ii_typed. Qed.
Print Assumptions C14_ignore_invalid_typed.

Theorem C14_ignore_invalid_valid_unchanged : forall ts v, has_ty (TObj ts) v -> to_partial_ii ts v = Some v.
Proof. exact to_partial_ii_valid. Qed.
Print Assumptions C14_ignore_invalid_valid_unchanged.

Theorem C14_ignore_invalid_fieldwise : forall ts fs i, (i < length ts)%nat ->
  nth i (sanitize ts fs) None =
  match nth i fs None with
  | Some v => if has_tyb (snd (nth i ts (Opt, TAtom))) v then Some v else None
  | None => None
  end.
Proof. exact sanitize_nth. Qed.
Print Assumptions C14_ignore_invalid_fieldwise.

Theorem C14_merge_ignore_invalid_valid : forall ow ts a v,
  has_ty (TObj ts) v -> merge_ii ow ts a v = merge ow a v.
Proof. exact merge_ii_valid. Qed.
Print Assumptions C14_merge_ignore_invalid_valid.

Theorem C14_merge_ignore_invalid_closed : forall ow ts a raw r, has_ty (TObj ts) a ->
  merge_ii ow ts a raw = Some r -> has_ty (TObj ts) r.
Proof. exact merge_ii_closed. Qed.
Print Assumptions C14_merge_ignore_invalid_closed.

(** ** Lists and sets of models: elements are opaque, identified by an injective numbering *)

Theorem C14_set_union_by_element_identity : forall (E : Type) (key : E -> Z),
  (forall e1 e2, key e1 = key e2 -> e1 = e2) ->
  forall l m e, In (key e) (canon (map key l ++ map key m)) <-> In e l \/ In e m.
Proof. exact union_by_key. Qed.
Print Assumptions C14_set_union_by_element_identity.

Theorem C14_set_observed_once : forall l, NoDup (canon l).
Proof. exact canon_nodup. Qed.
Print Assumptions C14_set_observed_once.

Theorem C14_list_concat_by_element : forall (E : Type) (key : E -> Z) (l m : list E),
  map key l ++ map key m = map key (l ++ m).
Proof. exact concat_by_key. Qed.
Print Assumptions C14_list_concat_by_element.

(** ** The rule of the pinned tree ([return v_new or v_old]) is not a monoid *)

Theorem C14_pinned_identity_refuted :
  exists ts x, has_ty (TObj ts) x /\ merge_pinned false (empty_of ts) x <> Some x.
Proof. exact identity_refuted. Qed.
Print Assumptions C14_pinned_identity_refuted.

Theorem C14_pinned_drops_value :
  merge_pinned false (VObj [None; None; None]) (VObj [Some (VAtom 0); Some (VList []); Some (VSet [])])
  = Some (VObj [None; None; None]).
Proof. exact pinned_drops_value. Qed.
Print Assumptions C14_pinned_drops_value.

(** It differs from the intended rule only where the later operand provides a falsy value:
    when everything the later operand provides is truthy, both rules give the same outcome
    (which is why an example with truthy values does not notice). *)
Theorem C14_pinned_agrees_on_truthy : forall x ow y,
  all_truthy y = true -> merge_pinned ow x y = merge ow x y.
Proof. exact pinned_agrees. Qed.
Print Assumptions C14_pinned_agrees_on_truthy.

(** ** Non-vacuity *)

(** Falsy values survive a merge with the empty partial on either side, lists are
    concatenated, sets united (observed), nested objects merged, in one example. *)
Example C14_nonvacuous_merge :
  let tl := TObj [(Opt, TAtom); (Opt, TAtom)] in
  let ts := [(Opt, TAtom); (Opt, TList); (Opt, TSet); (Opt, tl); (Req, TAtom)] in
  let x := VObj [Some (VAtom 0); Some (VList []); Some (VSet []); Some (VObj [Some (VAtom (-1)); None]); None] in
  let y := VObj [None; Some (VList [3; 4]); Some (VSet [5; 2]); Some (VObj [None; Some (VAtom 7)]); Some (VAtom 9)] in
  let z := VObj [None; Some (VList [4]); Some (VSet [2; 1]); None; None] in
  has_ty (TObj ts) x /\ has_ty (TObj ts) y /\ has_ty (TObj ts) z /\
  merge false (empty_of ts) x = Some x /\ merge false x (empty_of ts) = Some x /\
  option_map obs (obind (merge false x y) (fun xy => merge false xy z)) =
    Some (VObj [Some (VAtom 0); Some (VList [3; 4; 4]); Some (VSet [1; 2; 5]);
                Some (VObj [Some (VAtom (-1)); Some (VAtom 7)]); Some (VAtom 9)]) /\
  obind (merge false y z) (fun yz => merge false x yz) = obind (merge false x y) (fun xy => merge false xy z).
Proof. vm_compute. repeat split. Qed.

(** A conflict: refused without overwrite permission (also when only one grouping meets it
    first), the later value with it. *)
Example C14_nonvacuous_conflict :
  let ts := [(Opt, TAtom); (Opt, TObj [(Opt, TAtom)])] in
  let x := VObj [Some (VAtom 1); Some (VObj [Some (VAtom 0)])] in
  let y := VObj [None; Some (VObj [Some (VAtom 2)])] in
  has_ty (TObj ts) x /\ has_ty (TObj ts) y /\
  merge false x y = None /\ merge false x x = None /\
  merge true x y = Some (VObj [Some (VAtom 1); Some (VObj [Some (VAtom 2)])]) /\
  obind (merge false y (empty_of ts)) (fun r => merge false x r) = None /\
  obind (merge false x y) (fun r => merge false r (empty_of ts)) = None.
Proof. vm_compute. repeat split. Qed.

(** Round trip with a filled default, a missing optional and a nested object; and a partial
    lacking a required field is not convertible. *)
Example C14_nonvacuous_roundtrip :
  let t := TObj [(Req, TAtom); (Opt, TAtom); (Dflt (VAtom 5), TAtom); (Opt, TObj [(Req, TAtom)])] in
  let o := VObj [Some (VAtom 0); None; Some (VAtom 5); Some (VObj [Some (VAtom 1)])] in
  complete t o = true /\ from_partial t (to_partial o) = Some o /\
  from_partial t (VObj [Some (VAtom 0); None; None; None]) =
    Some (VObj [Some (VAtom 0); None; Some (VAtom 5); None]) /\
  from_partial t (VObj [None; None; None; None]) = None.
Proof. vm_compute. repeat split. Qed.

(** The pinned rule agrees with the intended one on truthy values (which is why the
    upstream example does not notice). *)
Example C14_pinned_truthy_agrees :
  merge_pinned false (VObj [None; Some (VList [1%Z])]) (VObj [Some (VAtom 5); Some (VList [2%Z])])
  = merge false (VObj [None; Some (VList [1%Z])]) (VObj [Some (VAtom 5); Some (VList [2%Z])]).
Proof. vm_compute. reflexivity. Qed.

(** A recursive schema (one optional atom, one optional list, the schema itself) unrolled to
    depth 5: values nested four and five levels deep are merged level by level, a conflict
    at depth 4 refuses the whole merge, and regrouping does not matter. *)
Example C14_nonvacuous_deep :
  let t0 := TObj [(Opt, TAtom); (Opt, TList); (Opt, TAtom)] in
  let t1 := TObj [(Opt, TAtom); (Opt, TList); (Opt, t0)] in
  let t2 := TObj [(Opt, TAtom); (Opt, TList); (Opt, t1)] in
  let t3 := TObj [(Opt, TAtom); (Opt, TList); (Opt, t2)] in
  let t4 := TObj [(Opt, TAtom); (Opt, TList); (Opt, t3)] in
  let n a l r := VObj [a; l; r] in
  let x := n (Some (VAtom 1)) None (Some (n None None (Some (n None (Some (VList [1])) (Some (n None None
             (Some (n (Some (VAtom 0)) None None)))))))) in
  let y := n None None (Some (n (Some (VAtom 2)) None (Some (n None (Some (VList [2])) (Some (n None None
             (Some (n None (Some (VList [])) None)))))))) in
  let z := n None (Some (VList [9])) (Some (n None None (Some (n None None (Some (n (Some (VAtom 3)) None
             (Some (n None None None)))))))) in
  let w := n None None (Some (n None None (Some (n None None (Some (n None None
             (Some (n (Some (VAtom 5)) None None)))))))) in
  has_ty t4 x /\ has_ty t4 y /\ has_ty t4 z /\ has_ty t4 w /\
  obind (merge false x y) (fun xy => merge false xy z) =
    Some (n (Some (VAtom 1)) (Some (VList [9])) (Some (n (Some (VAtom 2)) None (Some (n None (Some (VList [1; 2]))
            (Some (n (Some (VAtom 3)) None (Some (n (Some (VAtom 0)) (Some (VList [])) None))))))))) /\
  obind (merge false y z) (fun yz => merge false x yz) = obind (merge false x y) (fun xy => merge false xy z) /\
  merge false x w = None /\ obind (merge false y w) (fun yw => merge false x yw) = None /\
  option_map (at_path [2; 2; 2; 2; 0]%nat) (merge true x w) = Some (Some (VAtom 5)) /\
  harvest [(Opt, TAtom); (Opt, TList); (Opt, t3)] true [x; y; z] = obind (merge false x y) (fun xy => merge false xy z) /\
  harvest [(Opt, TAtom); (Opt, TList); (Opt, t3)] true [y; x; z; w] = None.
Proof. vm_compute. repeat split. Qed.

(** ignore_invalid: a list where an atom is expected and a nested object with one bad field
    are dropped as whole fields; the rest is kept and merged. *)
Example C14_nonvacuous_ignore_invalid :
  let ts := [(Opt, TAtom); (Opt, TList); (Opt, TObj [(Opt, TAtom); (Opt, TSet)])] in
  let raw := VObj [Some (VList [1]); Some (VList [2]); Some (VObj [Some (VAtom 3); Some (VAtom 4)])] in
  to_partial_ii ts raw = Some (VObj [None; Some (VList [2]); None]) /\
  merge_ii false ts (VObj [Some (VAtom 7); Some (VList [1]); None]) raw =
    Some (VObj [Some (VAtom 7); Some (VList [1; 2]); None]).
Proof. vm_compute. repeat split. Qed.
