(** Property C10 — patches built on a stub apply to the real record with the same result.
    This file holds only the property theorems; each is closed by [exact] of a lemma proved in
    [IH5/StubProofs.v] and followed by [Print Assumptions].

    Model: [IH5/Stub.v] over the overlay model [IH5/Overlay.v] (C01) and the chain model
    [Rec/Chain.v] (C04).  [skel T] = paths (attributes are flagged path segments), node kinds;
    [stub_stack n s] = a one-container record holding [stub_of s] (a plain group at every group
    of [s], the placeholder [h5py.Empty] at every dataset and attribute); [eb_op] = the
    existence-based operations (create_group, create_dataset with a given value, delete,
    attribute set with a given value, attribute delete); [patch_on R ops] = the container
    produced by commit + create_patch + [ops] on [R]; [apply_patch R P] = [P] opened on top of
    the files of [R]; [mf_commit] / [mf_round] / [create_stub] / [stub_patch] transcribe
    [IH5MFRecord.commit_patch], [create_stub] and the patch-on-stub work flow. *)
From Coq Require Import NArith.
From stdpp Require Import gmap strings list.
From MV Require Import IH5.Overlay IH5.OverlayProofs IH5.Stub IH5.StubProofs.
From MV Require Rec.Chain.

(** The stub built from the skeleton of a record is a well-formed record that exposes exactly
    the same paths, node kinds and attribute names, and none of the data: every value in it
    is the placeholder. *)
Theorem C10_stub_skeleton : forall (n : nat) (R : stack),
  Inv R ->
  let S := stub_stack n (skel (viewmap R)) in
  Inv S /\ skel (viewmap S) = skel (viewmap R) /\
  (forall p v, viewmap S !! p = Some (TData v) -> v = placeholder) /\
  (forall p, is_Some (vget S p) <-> is_Some (vget R p)).
Proof. exact stub_skeleton_record. Qed.
Print Assumptions C10_stub_skeleton.

(** ... for any well-formed plain tree: the stub shows the blanked tree. *)
Theorem C10_stub_view : forall (n : nat) (T : tree),
  wf_tree T -> Sim (stub_stack n (skel T)) (blank T) /\ skel (blank T) = skel T.
Proof. exact stub_view_spec. Qed.
Print Assumptions C10_stub_view.

(** An existence-based operation acts on skeletons: same outcome, same resulting skeleton on
    any two trees with the same skeleton. *)
Theorem C10_existence_based : forall (Ta Tb : tree) o,
  skel Ta = skel Tb -> eb_op o ->
  skel (t_step Ta o).1 = skel (t_step Tb o).1 /\ (t_step Ta o).2 = (t_step Tb o).2.
Proof. exact t_step_skel. Qed.
Print Assumptions C10_existence_based.

(** The patch depends on the base only through the skeleton: on two records with the same
    skeleton an existence-based update produces the same patch container, and every operation
    of it succeeds or is refused alike. *)
Theorem C10_patch_on_stub : forall (R1 R2 : stack) ops,
  Inv R1 -> Inv R2 -> skel (viewmap R1) = skel (viewmap R2) -> Forall eb_op ops ->
  patch_on R1 ops = patch_on R2 ops /\
  results_from (m_boundary R1) ops = results_from (m_boundary R2) ops.
Proof. exact patch_on_skel. Qed.
Print Assumptions C10_patch_on_stub.

(** Hence the patch made on the stub, opened on top of the real record, *is* the record
    obtained by the direct update (the same containers, so the same view at every path), each
    operation had the same outcome, and the view is the plain-tree update of the real view. *)
Theorem C10_stub_patch_applies : forall (n : nat) (R : stack) ops,
  Inv R -> Forall eb_op ops ->
  let S := stub_stack n (skel (viewmap R)) in
  apply_patch R (patch_on S ops) = run_from (m_boundary R) ops /\
  results_from (m_boundary S) ops = results_from (m_boundary R) ops /\
  viewmap (apply_patch R (patch_on S ops)) = foldl (fun T o => (t_step T o).1) (viewmap R) ops.
Proof. exact stub_patch_applies. Qed.
Print Assumptions C10_stub_patch_applies.

(** The restriction to existence-based updates is needed: a copy transports stored values. *)
Theorem C10_copy_not_existence_based :
  exists R1 R2 ops, Inv R1 /\ Inv R2 /\ skel (viewmap R1) = skel (viewmap R2) /\
                    patch_on R1 ops <> patch_on R2 ops.
Proof. exact copy_depends_on_data. Qed.
Print Assumptions C10_copy_not_existence_based.

(** The user block of the patch made on the stub is accepted as the next patch of the real
    record: [c] = files of the real record in chain order (all committed), [nf] the newest,
    [m] a manifest whose user-block copy agrees with the newest user block, all identifiers in
    use below [next] (uuid1 is fresh), [H] / [Hp] arbitrary digest functions.  Whatever the
    order in which the files are listed, [IH5MFRecord] opens them as [c] followed by the patch. *)
Theorem C10_stub_patch_accepted :
  forall (H : manifest -> N) (Hp : cont -> N) (c : list Chain.file) nf m next r,
  Chain.chain_ok true false c -> Forall Chain.intact c -> c <> [] -> List.last c nf = nf ->
  ub_core (mf_ub m) = ub_core (Chain.ub nf) ->
  (forall f, In f c -> (Chain.fpid f < next)%N) ->
  Forall eb_op r.1 ->
  exists sp pf,
    stub_patch H Hp m next r = Some sp /\
    head (files_nf H Hp (r_stack sp) (r_ubs sp) (r_disk sp)) = Some pf /\
    Chain.fprev pf = Some (Chain.fpid nf) /\ Chain.fidx pf = (Chain.fidx nf + 1)%N /\
    forall fs, Permutation (c ++ [pf]) fs -> Chain.open_check true false fs = Some (c ++ [pf]).
Proof. exact stub_patch_accepted. Qed.
Print Assumptions C10_stub_patch_accepted.

(** A stub cannot be merged, alone or with patches on it; nor can any set with a stub flag. *)
Theorem C10_stub_merge_refused : forall (H : manifest -> N) (Hp : cont -> N) keep m next,
  (forall st0, create_stub_gen H Hp keep m next = Some st0 -> mf_can_merge st0 = false) /\
  (forall r sp, Forall eb_op r.1 -> stub_patch_gen H Hp keep m next r = Some sp ->
                mf_can_merge sp = false).
Proof. exact stub_merge_refused. Qed.
Print Assumptions C10_stub_merge_refused.

Theorem C10_merge_refused_any_stub : forall st u,
  u ∈ r_ubs st -> is_stub_ub u = true -> mf_can_merge st = false.
Proof. exact merge_refused_stub. Qed.
Print Assumptions C10_merge_refused_any_stub.

(** Manifest invariant over commit histories: after *every* commit (round [r] of the history
    [pre ++ r :: post]) the newest user block names the uuid and the digest of the manifest
    that lies beside the newest container, that manifest is the loaded one, it copies the
    identifying fields of the user block, its skeleton is the skeleton of the record (with
    creation indices; its kinds are [skel] of the view), and its extensions are those given to
    the commit or else those of the manifest loaded before. *)
Theorem C10_manifest_inv : forall (H : manifest -> N) (Hp : cont -> N) rs st st',
  mf_rounds H Hp rs st = Some st' ->
  forall pre r post, rs = pre ++ r :: post ->
  exists s1 s2, mf_rounds H Hp pre st = Some s1 /\ mf_round H Hp r s1 = Some s2 /\
                mf_rounds H Hp post s2 = Some st' /\
                mf_linked H s2 /\
                exists m', r_mf s2 = Some m' /\ exts_rule r.2 (r_mf s1) m'.
Proof. exact manifest_inv. Qed.
Print Assumptions C10_manifest_inv.

(** Extensions persist over any number of commits that give none. *)
Theorem C10_exts_persist : forall (H : manifest -> N) (Hp : cont -> N) opss st st' m,
  mf_rounds H Hp (map (fun ops => (ops, None)) opss) st = Some st' ->
  r_mf st = Some m -> exists m', r_mf st' = Some m' /\ mf_exts m' = mf_exts m.
Proof. exact exts_persist. Qed.
Print Assumptions C10_exts_persist.

(** ... also through a stub: the manifest of a patch made on the stub of [m] carries the
    extensions of [m] (repaired [create_stub]); the pinned [create_stub] loses them. *)
Theorem C10_stub_exts_kept : forall (H : manifest -> N) (Hp : cont -> N) m next ops sp mp,
  Forall eb_op ops -> stub_patch H Hp m next (ops, None) = Some sp -> r_mf sp = Some mp ->
  mf_exts mp = mf_exts m.
Proof. exact stub_exts_kept. Qed.
Print Assumptions C10_stub_exts_kept.

Theorem C10_stub_exts_pinned_refuted :
  exists m next ops sp mp,
    Forall eb_op ops /\ stub_patch_gen rH rHp false m next (ops, None) = Some sp /\
    r_mf sp = Some mp /\ mf_exts mp <> mf_exts m.
Proof. exact stub_exts_pinned_refuted. Qed.
Print Assumptions C10_stub_exts_pinned_refuted.

(** Whole histories.  Every history of commits from a fresh record (any operations except that
    a round contains no boundary of its own) yields a well-formed committed record: the files
    form an accepted chain, all intact, all identifiers below the counter, the manifest linked. *)
Theorem C10_history_wf : forall (H : manifest -> N) (Hp : cont -> N) rs next st,
  rs <> [] -> Forall (fun r => Forall nb_op r.1) rs ->
  mf_rounds H Hp rs (mf_new next) = Some st -> rec_wf H Hp st.
Proof. exact history_wf. Qed.
Print Assumptions C10_history_wf.

(** ... and on it the whole work flow closes: stub from the newest manifest [m], an
    existence-based update [r] made on the stub, its patch file [pf]: the stub set refuses to
    merge; [pf] listed with the real files in any order opens as the real chain followed by
    [pf]; the record so opened has exactly the containers of the record updated directly (hence
    the same view at every path), and that view is the plain-tree update of the real view. *)
Theorem C10_end_to_end : forall (H : manifest -> N) (Hp : cont -> N) rs next real m r k,
  rs <> [] -> Forall (fun r => Forall nb_op r.1) rs ->
  mf_rounds H Hp rs (mf_new next) = Some real -> r_mf real = Some m -> Forall eb_op r.1 ->
  exists sp pf g d,
    stub_patch H Hp m (r_next real) r = Some sp /\
    mf_can_merge sp = false /\
    head (files_nf H Hp (r_stack sp) (r_ubs sp) (r_disk sp)) = Some pf /\
    (forall fs, Permutation (files_of H Hp real ++ [pf]) fs ->
                Chain.open_check true false fs = Some (files_of H Hp real ++ [pf])) /\
    graft_patch real sp = Some g /\ files_of H Hp g = files_of H Hp real ++ [pf] /\
    mf_round H Hp r (with_next real k) = Some d /\
    r_stack g = r_stack d /\
    viewmap (r_stack g) = foldl (fun T o => (t_step T o).1) (viewmap (r_stack real)) r.1.
Proof. exact history_end_to_end. Qed.
Print Assumptions C10_end_to_end.

(** Observation beyond the demanded skeleton (paths, kinds, attribute names): the manifest
    written with a patch made on a stub carries the stub's patch index for the nodes the stub
    provided ([index_case]: /a created in container 0 of a two-container record, update via
    stub; first component = manifest of the stub-made patch, second = the patched real record,
    third = their kinds agree). *)
Theorem C10_stub_manifest_index_observed :
  index_case = Some (Some (KData, 1%nat), Some (KData, 0%nat), true).
Proof. exact stub_manifest_index_observed. Qed.
Print Assumptions C10_stub_manifest_index_observed.

(** The loop of [init_stub_skeleton] ([stub_build]: one pass over the skeleton entries, group ->
    create_group, dataset / attribute -> placeholder) builds exactly [stub_of]: for every
    well-formed tree whose attributes are values and every listing of its skeleton (each path
    once) in which every entry comes after its parent — the order of [visititems]. *)
Theorem C10_stub_build_eq : forall (n : nat) (T : tree) (l : list (path * kind)),
  wf_tree T -> attrs_data T -> NoDup l.*1 -> list_to_map l = skel T -> parent_first ∅ l ->
  stub_build n l = stub_stack n (skel T).
Proof. exact stub_build_eq. Qed.
Print Assumptions C10_stub_build_eq.

(** Attributes are values in every tree a history can produce ... *)
Theorem C10_attrs_are_values : forall ops, attrs_data (run_t ops).
Proof. exact attrs_data_run. Qed.
Print Assumptions C10_attrs_are_values.

(** ... so for the view of every record history the loop yields the stub the theorems above
    speak about. *)
Theorem C10_stub_build_history : forall (n : nat) ops (l : list (path * kind)),
  NoDup l.*1 -> list_to_map l = skel (viewmap (run_m ops)) -> parent_first ∅ l ->
  stub_build n l = stub_stack n (skel (viewmap (run_m ops))).
Proof. exact stub_build_history. Qed.
Print Assumptions C10_stub_build_history.

(** The stub and the patch made on it open as a set: [IH5MFRecord] accepts the stub file [sf]
    (flagged as stub, no predecessor) with the patch file [pf] in any listing order, and the
    record shows the update applied to the blanked tree ([T] = the tree whose skeleton the
    manifest holds; identifiers in use are below [next]). *)
Theorem C10_stub_set_opens : forall (H : manifest -> N) (Hp : cont -> N) T m next r,
  wf_tree T -> fst <$> mf_skel m = skel T -> (Chain.pid (mf_ub m) < next)%N -> Forall eb_op r.1 ->
  exists sp sf pf,
    stub_patch H Hp m next r = Some sp /\ files_of H Hp sp = [sf; pf] /\
    Chain.stub_marked sf = true /\ Chain.fprev sf = None /\
    Chain.fprev pf = Some (Chain.fpid sf) /\
    (forall fs, Permutation [sf; pf] fs -> Chain.open_check true false fs = Some [sf; pf]) /\
    viewmap (r_stack sp) = foldl (fun T o => (t_step T o).1) (blank T) r.1.
Proof. exact stub_set_opens. Qed.
Print Assumptions C10_stub_set_opens.

(** Refused operations (second commit without a new patch, commit with an unknown keyword or
    through a read-only handle, create_patch while a container is writable, discard with nothing
    pending) leave the manifest-carrying record unchanged — containers, user blocks, the loaded
    manifest, the manifests on disk — so the manifest invariant survives them. *)
Theorem C10_refused_ops_frame : forall (H : manifest -> N) (Hp : cont -> N) st o,
  (mf_step H Hp st o).2 = false -> (mf_step H Hp st o).1 = st.
Proof. exact refused_ops_frame. Qed.
Print Assumptions C10_refused_ops_frame.

Theorem C10_refusals : forall (H : manifest -> N) (Hp : cont -> N) st,
  (mf_step H Hp st MCommitKw).2 = false /\ (mf_step H Hp st MCommitRo).2 = false /\
  (committed st = true -> forall g, (mf_step H Hp st (MCommit g)).2 = false) /\
  (committed st = true -> (mf_step H Hp st MDiscard).2 = false) /\
  (committed st = false -> (mf_step H Hp st MCreatePatch).2 = false).
Proof. exact refusals. Qed.
Print Assumptions C10_refusals.

Theorem C10_linked_after_refused : forall (H : manifest -> N) (Hp : cont -> N) st os,
  mf_linked H st -> Forall (fun o => (mf_step H Hp st o).2 = false) os ->
  mf_linked H (foldl (fun s o => (mf_step H Hp s o).1) st os) /\
  foldl (fun s o => (mf_step H Hp s o).1) st os = st.
Proof. exact linked_after_refused. Qed.
Print Assumptions C10_linked_after_refused.

(** Non-vacuity: a two-container record, its stub, an update through the stub. *)
Local Open Scope string_scope.
Definition ex_hist : list op :=
  [ OData [(false, "x"); (false, "a")] "i:1"; OAttrSet [(false, "a")] "k" "i:5"; OBoundary;
    ODel [(false, "a")]; OData [(false, "y"); (false, "a")] "i:2" ].
Definition ex_upd : list op :=
  [ ODel [(false, "y"); (false, "a")]; OData [(false, "b")] "i:9";
    OAttrSet [(false, "a")] "k2" "i:1" ].

Example C10_witness :
  Forall eb_op ex_upd /\ Inv (run_m ex_hist) /\
  viewmap (stub_stack 1 (skel (viewmap (run_m ex_hist)))) !! [(false, "y"); (false, "a")]
    = Some (TData placeholder) /\
  patch_on (stub_stack 1 (skel (viewmap (run_m ex_hist)))) ex_upd !! [(false, "y"); (false, "a")]
    = Some RDel /\
  vget (apply_patch (run_m ex_hist)
          (patch_on (stub_stack 1 (skel (viewmap (run_m ex_hist)))) ex_upd)) [(false, "b")]
    = Some (TData "i:9").
Proof.
  split; [repeat constructor|]. split; [apply run_refines|]. vm_compute. done.
Qed.

(** Non-vacuity of [C10_stub_build_history]: a tree with a group, a dataset and attributes on
    the group and on the root, listed in [visititems] order. *)
Definition ex_ops2 : list op :=
  [ OData [(false, "y"); (false, "a")] "i:2"; OAttrSet [(false, "a")] "k" "i:5";
    OAttrSet [] "m" "i:7" ].
Definition ex_listing : list (path * kind) :=
  [ ([(true, "m")], KData); ([(false, "a")], KGroup); ([(true, "k"); (false, "a")], KData);
    ([(false, "y"); (false, "a")], KData) ].

Example C10_stub_build_witness :
  stub_build 1 ex_listing = stub_stack 1 (skel (viewmap (run_m ex_ops2))) /\
  stub_of (skel (viewmap (run_m ex_ops2))) !! [(true, "k"); (false, "a")] = Some (RData placeholder).
Proof.
  split.
  - apply C10_stub_build_history.
    + apply (bool_decide_unpack _). by vm_compute.
    + apply (bool_decide_unpack _). by vm_compute.
    + cbn. repeat split; apply (bool_decide_unpack _); by vm_compute.
  - by vm_compute.
Qed.

