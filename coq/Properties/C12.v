(** Property C12 — schema instances survive serialisation unchanged.
    This file holds only the property theorems; each is closed by [exact] of a lemma
    proved in [Schema/RoundTripProofs.v] and followed by [Print Assumptions].

    Reading: [t] is a field type or a whole schema ([TObj fields consts forbid_extra]),
    [wfb t] says the schema declarations are coherent (dumped keys pairwise distinct),
    [wtb norm t v] says [v] is a value an instance of [t] can hold, [omitsb t v] is the
    convention of the property text ("a missing optional value is expressed by
    omission").  [norm] is the custom parser of Duration / PintUnit / PintQuantity
    composed with its JSON encoder; it and the text-level codecs are premises. *)
From Coq Require Import List String Ascii ZArith Bool.
From MV Require Import Base.Sx Schema.RoundTrip Schema.RoundTripProofs Schema.RoundTripValid.
Import ListNotations.
Local Open Scope string_scope.

(** Parsing the JSON value an instance dumps gives the instance back. *)
Theorem C12_parse_dump : forall (norm : cust -> string -> option string) t,
  wfb t = true -> forall v, wtb norm t v = true -> omitsb t v = true ->
  parse norm t (dump t v) = Some v.
Proof. exact parse_dump. Qed.
Print Assumptions C12_parse_dump.

(** ... also through the three text forms: [json()], [bytes()], [yaml()] + [parse_raw]. *)
Theorem C12_raw_json_roundtrip :
  forall (norm : cust -> string -> option string) (print_json : jval -> string)
         (read_json read_yaml : string -> option jval),
  (forall j, read_json (print_json j) = Some j) ->
  forall t v, wfb t = true -> wtb norm t v = true -> omitsb t v = true ->
  parse_raw norm read_json read_yaml t (to_json print_json t v) = Some v.
Proof. exact raw_json_roundtrip. Qed.
Print Assumptions C12_raw_json_roundtrip.

Theorem C12_raw_bytes_roundtrip :
  forall (norm : cust -> string -> option string) (print_json : jval -> string)
         (read_json read_yaml : string -> option jval),
  (forall j, read_json (print_json j ++ String "010"%char EmptyString) = Some j) ->
  forall t v, wfb t = true -> wtb norm t v = true -> omitsb t v = true ->
  parse_raw norm read_json read_yaml t (to_bytes print_json t v) = Some v.
Proof. exact raw_bytes_roundtrip. Qed.
Print Assumptions C12_raw_bytes_roundtrip.

Theorem C12_raw_yaml_roundtrip :
  forall (norm : cust -> string -> option string) (read_json : string -> option jval)
         (print_yaml : jval -> string) (read_yaml : string -> option jval),
  (forall j, read_yaml (print_yaml j) = Some j) ->
  (forall j j', read_json (print_yaml j) = Some j' -> j' = j) ->
  forall t v, wfb t = true -> wtb norm t v = true -> omitsb t v = true ->
  parse_raw norm read_json read_yaml t (to_yaml print_yaml t v) = Some v.
Proof. exact raw_yaml_roundtrip. Qed.
Print Assumptions C12_raw_yaml_roundtrip.

(** The second round trip is equal to the first (instance and dump). *)
Theorem C12_second_roundtrip_stable : forall (norm : cust -> string -> option string) t v,
  wfb t = true -> wtb norm t v = true -> omitsb t v = true ->
  forall v', parse norm t (dump t v) = Some v' ->
  v' = v /\ dump t v' = dump t v /\ parse norm t (dump t v') = Some v'.
Proof. exact second_roundtrip_stable. Qed.
Print Assumptions C12_second_roundtrip_stable.

(** Declared constants are always in the output, with their value ... *)
Theorem C12_consts_forced : forall fs cs fb vs k j,
  wfb (TObj fs cs fb) = true -> In (k, j) cs ->
  exists kvs, dump (TObj fs cs fb) (VObj vs) = JObj kvs /\ In (k, j) kvs /\ lookup k kvs = Some j.
Proof. exact consts_forced. Qed.
Print Assumptions C12_consts_forced.

(** ... and ignored on input: overriding them in the input changes nothing. *)
Theorem C12_consts_ignored : forall (norm : cust -> string -> option string) fs cs fb kvs cs',
  (forall k, In k (map fst cs') -> In k (map fst cs)) ->
  parse norm (TObj fs cs fb) (JObj (upd kvs cs')) = parse norm (TObj fs cs fb) (JObj kvs).
Proof. exact consts_ignored. Qed.
Print Assumptions C12_consts_ignored.

(** The documented exception: explicit [None] where a non-[None] default is declared. *)
Theorem C12_explicit_none_default : forall (norm : cust -> string -> option string) n a t d cs fb,
  d <> VNone -> mem_str a (map fst cs) = false -> mem_str n (map fst cs) = false ->
  wtb norm (TObj [Fld n a (TOpt t) (Some d)] cs fb) (VObj [VNone]) = true /\
  omitsb (TObj [Fld n a (TOpt t) (Some d)] cs fb) (VObj [VNone]) = false /\
  parse norm (TObj [Fld n a (TOpt t) (Some d)] cs fb)
        (dump (TObj [Fld n a (TOpt t) (Some d)] cs fb) (VObj [VNone])) = Some (VObj [d]).
Proof. exact explicit_none_default. Qed.
Print Assumptions C12_explicit_none_default.

(** Custom-parser types accept what their encoder prints (idempotent normaliser). *)
Theorem C12_custom_parses_own_output : forall (norm : cust -> string -> option string),
  (forall c s s', norm c s = Some s' -> norm c s' = Some s') ->
  forall c s v, parse norm (TCus c) (JStr s) = Some v ->
  wtb norm (TCus c) v = true /\ parse norm (TCus c) (dump (TCus c) v) = Some v.
Proof. exact custom_parses_own_output. Qed.
Print Assumptions C12_custom_parses_own_output.

(** Whatever the parser returns for an atomic field type is a valid instance value
    (the premise [wtb] is met by every parser output) and is a fixed point. *)
Theorem C12_parsed_atoms_valid : forall (norm : cust -> string -> option string),
  (forall c s s', norm c s = Some s' -> norm c s' = Some s') ->
  forall t j v, atomic t = true -> parse norm t j = Some v ->
  wtb norm t v = true /\ omitsb t v = true /\ parse norm t (dump t v) = Some v.
Proof. exact parsed_atoms_valid. Qed.
Print Assumptions C12_parsed_atoms_valid.

(** Beyond atomic types: for a type whose Unions are unambiguous (members accept pairwise
    disjoint JSON constructors, recursively) and whose declared defaults are valid
    (Optional fields default to [None]), everything the parser returns is a valid
    instance in the sense of [wtb]/[omitsb] ... *)
Theorem C12_parse_valid : forall (norm : cust -> string -> option string),
  (forall c s s', norm c s = Some s' -> norm c s' = Some s') ->
  forall t, unambiguous t = true -> defaults_ok norm t = true ->
  forall j v, parse norm t j = Some v -> wtb norm t v = true /\ omitsb t v = true.
Proof. exact parse_valid. Qed.
Print Assumptions C12_parse_valid.

(** ... so its dump is a canonical form of the input (it parses to the same instance):
    normalisation through the parser is idempotent. *)
Theorem C12_parse_idempotent : forall (norm : cust -> string -> option string),
  (forall c s s', norm c s = Some s' -> norm c s' = Some s') ->
  forall t, wfb t = true -> unambiguous t = true -> defaults_ok norm t = true ->
  forall j v, parse norm t j = Some v -> parse norm t (dump t v) = Some v.
Proof. exact parse_idempotent. Qed.
Print Assumptions C12_parse_idempotent.

Theorem C12_dump_parse_dump : forall (norm : cust -> string -> option string),
  (forall c s s', norm c s = Some s' -> norm c s' = Some s') ->
  forall t, wfb t = true -> unambiguous t = true -> defaults_ok norm t = true ->
  forall j v v', parse norm t j = Some v -> parse norm t (dump t v) = Some v' ->
  v' = v /\ dump t v' = dump t v.
Proof. exact dump_parse_dump. Qed.
Print Assumptions C12_dump_parse_dump.

(** The unambiguity premise is needed: [Union[Duration, Str]] given [" PT1S "] parses to
    the stripped string, whose dump the Duration member accepts. *)
Theorem C12_ambiguous_union_refuted :
  let t := TUnion [TCus CDuration; TStr] in
  let j := JStr " PT1S " in
  unambiguous t = false /\ wfb t = true /\ defaults_ok ex_norm t = true /\
  exists v v', parse ex_norm t j = Some v /\ wtb ex_norm t v = false /\
               parse ex_norm t (dump t v) = Some v' /\ v' <> v /\
               dump t v = JStr "PT1S" /\ v = VUn 1 (VStr "PT1S") /\ v' = VUn 0 (VCus "PT1S").
Proof. exact ambiguous_union_refuted. Qed.
Print Assumptions C12_ambiguous_union_refuted.

(** Order and multiplicity of a set-typed input array are irrelevant: two arrays with the
    same members give sets with the same members, both duplicate-free. *)
Theorem C12_set_input_order_irrelevant : forall (norm : cust -> string -> option string) t xs ys a,
  (forall j, In j xs <-> In j ys) ->
  parse norm (TSet t) (JArr xs) = Some (VSet a) ->
  exists b, parse norm (TSet t) (JArr ys) = Some (VSet b) /\
            (forall x, In x a <-> In x b) /\ nodupb a = true /\ nodupb b = true.
Proof. exact set_input_order_irrelevant. Qed.
Print Assumptions C12_set_input_order_irrelevant.

(** The pinned tree (no dynamic encoders on schema classes) is refuted by a valid
    instance holding a duration: it has no serialisation, while the repaired dump
    round-trips; the two dumps agree on instances without custom-type values. *)
Theorem C12_dump_pinned_refuted : exists t v,
  wfb t = true /\ wtb ex_norm t v = true /\ omitsb t v = true /\
  dump_pinned t v = None /\ parse ex_norm t (dump t v) = Some v.
Proof. exact dump_pinned_refuted. Qed.
Print Assumptions C12_dump_pinned_refuted.

Theorem C12_dump_pinned_agrees : forall t v, has_cus v = false -> dump_pinned t v = Some (dump t v).
Proof. exact dump_pinned_agrees. Qed.
Print Assumptions C12_dump_pinned_agrees.

(** Non-vacuity: a JSON-LD schema with alias, constants, a set, a nested schema with a
    unit, a union list and a default; the premises hold and the dump is as expected. *)
Example C12_nonvacuous :
  let nm := norm_tab [("dur", ("PT3H4M1S", "PT3H4M1S")); ("unit", ("meter", "meter"))] in
  let inner := TObj [Fld "a" "a" TInt None; Fld "u" "u" (TOpt (TCus CUnit)) None] [] false in
  let s := TObj [Fld "d" "d" (TOpt (TCus CDuration)) None;
                 Fld "s" "s" (TSet TInt) (Some (VSet []));
                 Fld "id_" "@id" (TOpt TNEStr) None;
                 Fld "i" "i" (TOpt inner) None;
                 Fld "f" "f" TFloat (Some (VFloat "2.5"));
                 Fld "l" "l" (TList (TUnion [TInt; TStr])) (Some (VList []))]
                [("@context", JStr "http://ctx"); ("@type", JStr "Foo")] false in
  let v := VObj [VSome (VCus "PT3H4M1S"); VSet [VInt 1; VInt 3]; VSome (VStr "  x "); 
                 VSome (VObj [VInt 1; VSome (VCus "meter")]); VFloat "2.5";
                 VList [VUn 0 (VInt 1); VUn 1 (VStr "a")]] in
  wfb s = true /\ wtb nm s v = true /\ omitsb s v = true /\
  dump s v = JObj [("d", JStr "PT3H4M1S"); ("s", JArr [JInt 1; JInt 3]); ("@id", JStr "  x ");
                   ("i", JObj [("a", JInt 1); ("u", JStr "meter")]); ("f", JFloat "2.5");
                   ("l", JArr [JInt 1; JStr "a"]);
                   ("@context", JStr "http://ctx"); ("@type", JStr "Foo")] /\
  parse nm s (dump s v) = Some v /\
  parse nm s (JObj [("@type", JStr "Other"); ("s", JArr [JInt 3; JInt 1; JInt 3]); ("id_", JStr "y")])
    = Some (VObj [VNone; VSet [VInt 1; VInt 3]; VSome (VStr "y"); VNone; VFloat "2.5"; VList []]).
Proof. vm_compute. repeat split. Qed.

(** An untagged Union with overlapping alternatives: a duration held under
    [Union[Str, Duration]] is not a valid instance in the sense of [wtb] (its dump is
    accepted by the earlier alternative) - and indeed does not round-trip. *)
Example C12_union_first_match :
  let t := TUnion [TStr; TCus CDuration] in
  wtb ex_norm t (VUn 1 (VCus "PT1S")) = false /\
  parse ex_norm t (dump t (VUn 1 (VCus "PT1S"))) = Some (VUn 0 (VStr "PT1S")).
Proof. vm_compute. split; reflexivity. Qed.
