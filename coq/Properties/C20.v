(** Property C20 — containers are self-describing about the schemas they use.
    This file holds only the property theorems; each is closed by [exact] of a lemma proved
    in [Schema/JsonSchemaProofs.v] or [Toc/SelfDescProofs.v] and followed by
    [Print Assumptions].

    Schema half.  [t] is a field type or a whole schema of the grammar of property C12
    ([Schema/RoundTrip.v]); [export t] is the JSON Schema [MetadataSchema.schema()] emits for
    it (draft-07 fragment, [$ref]s inlined, annotations dropped); [dump t v] is what
    [bytes(obj)] stores for the instance value [v]; [jvalid] decides validity as
    [jsonschema.Draft7Validator] does.  Premises: [wfb] (dumped keys pairwise distinct),
    [okpos] ([Optional] only directly as a field type - pydantic exports [Optional[T]] as
    [T]), [wtb] ([v] is a value an instance can hold), [juniq] (set members pairwise
    different as JSON values, which follows from [wtb] when set members are plain atoms),
    and that the published [format] of [NonEmptyStr] accepts what [NonEmptyStr] accepts.
    The convention "missing = omitted" of C12 ([omitsb]) is not needed.

    Container half.  [toc] is what a container stores under
    [/metador_container/{links,schemas,packages}] plus the in-memory tables; [step] the
    operations; [Desc E st] the invariant; [env_wf E] the facts about the plugin system the
    theorems rest on (stated in [Toc/SelfDescProofs.v]). *)
From Coq Require Import List String Ascii ZArith NArith Bool.
From MV Require Import Base.Sx Schema.RoundTrip Schema.RoundTripProofs.
From MV Require Import Schema.JsonSchema Schema.JsonSchemaProofs.
From MV Require Import Toc.UserView Toc.SelfDesc Toc.SelfDescProofs.
Import ListNotations.
Local Open Scope string_scope.

(** Every stored object validates against the embedded JSON Schema of its schema
    (induction over the grammar). *)
Theorem C20_stored_validates :
  forall (norm : cust -> string -> option string) (fmt_ok pat_ok : string -> string -> bool),
  (forall s, has_nonws s = true -> fmt_ok ne_format s = true) ->
  forall (s : schema) (v : tval),
  wfb (ty_of s) = true -> okpos (ty_of s) = true ->
  wtb norm (ty_of s) v = true -> juniq (ty_of s) v = true ->
  jvalid fmt_ok pat_ok (export (ty_of s)) (dump (ty_of s) v) = true.
Proof. exact stored_object_validates. Qed.
Print Assumptions C20_stored_validates.

(** ... for every type of the grammar, not only whole schemas (nested values). *)
Theorem C20_value_validates :
  forall (norm : cust -> string -> option string) (fmt_ok pat_ok : string -> string -> bool),
  (forall s, has_nonws s = true -> fmt_ok ne_format s = true) ->
  forall t v, wfb t = true -> okpos t = true -> wtb norm t v = true -> juniq t v = true ->
  v <> VNone -> jvalid fmt_ok pat_ok (export t) (dump t v) = true.
Proof. exact stored_validates. Qed.
Print Assumptions C20_value_validates.

(** When every set holds plain atoms (int, bool, str, NonEmptyStr, Literal, custom-parser
    types) validity of the instance alone suffices. *)
Theorem C20_stored_validates_plain :
  forall (norm : cust -> string -> option string) (fmt_ok pat_ok : string -> string -> bool),
  (forall s, has_nonws s = true -> fmt_ok ne_format s = true) ->
  forall (s : schema) (v : tval),
  wfb (ty_of s) = true -> okpos (ty_of s) = true -> plainsets (ty_of s) = true ->
  wtb norm (ty_of s) v = true ->
  jvalid fmt_ok pat_ok (export (ty_of s)) (dump (ty_of s) v) = true.
Proof. exact stored_object_validates_plain. Qed.
Print Assumptions C20_stored_validates_plain.

(** Non-vacuity: a JSON-LD schema with alias, constants, a set, a nested forbid-extra
    schema, a mixed literal, a union list and a default: premises hold, the export is as
    the real exporter prints it, the stored object validates; dropping a required member,
    a duplicate set member, a wrong literal and an extra member of the nested object are
    rejected. *)
Example C20_nonvacuous :
  let nm := norm_tab [("dur", ("PT3H4M1S", "PT3H4M1S")); ("unit", ("meter", "meter"))] in
  let inner := TObj [Fld "a" "a" TInt None; Fld "u" "u" (TOpt (TCus CUnit)) None] [] true in
  let s := mkschema
             [Fld "d" "d" (TOpt (TCus CDuration)) None;
              Fld "s" "s" (TSet TInt) (Some (VSet []));
              Fld "id_" "@id" TNEStr None;
              Fld "i" "i" (TOpt inner) None;
              Fld "m" "m" (TLit [JStr "x"; JInt 5]) None;
              Fld "l" "l" (TList (TUnion [TInt; TStr])) (Some (VList []))]
             [("@context", JStr "http://ctx"); ("@type", JStr "Foo")] false in
  let v := VObj [VSome (VCus "PT3H4M1S"); VSet [VInt 1; VInt 3]; VStr "  x ";
                 VSome (VObj [VInt 1; VSome (VCus "meter")]); VLit (JInt 5);
                 VList [VUn 0 (VInt 1); VUn 1 (VStr "a")]] in
  let ok := jvalid (run_fmt true) run_pat (export (ty_of s)) in
  wfb (ty_of s) = true /\ okpos (ty_of s) = true /\ plainsets (ty_of s) = true /\
  wtb nm (ty_of s) v = true /\ juniq (ty_of s) v = true /\
  export (ty_of s) =
    JSAll [KType JTobj;
           KProps [("d", JSAll [KType JTstr]);
                   ("s", JSAll [KType JTarr; KItems (JSAll [KType JTint]); KUnique]);
                   ("@id", JSAll [KType JTstr; KFormat ne_format]);
                   ("i", JSAll [KType JTobj;
                                KProps [("a", JSAll [KType JTint]); ("u", JSAll [KType JTstr])] (JSBool false);
                                KRequired ["a"]]);
                   ("m", JSAll [KAnyOf [JSAll [KEnum [JStr "x"]; KType JTstr];
                                        JSAll [KEnum [JInt 5]; KType JTint]]]);
                   ("l", JSAll [KType JTarr;
                                KItems (JSAll [KAnyOf [JSAll [KType JTint]; JSAll [KType JTstr]]])]);
                   ("@context", JSBool true); ("@type", JSBool true)] (JSBool true);
           KRequired ["@id"; "m"];
           KConsts [("@context", JStr "http://ctx"); ("@type", JStr "Foo")]] /\
  ok (dump (ty_of s) v) = true /\
  ok (JObj [("m", JInt 5)]) = false /\
  ok (JObj [("@id", JStr "x"); ("m", JInt 5); ("s", JArr [JInt 1; JFloat "1.0"])]) = false /\
  ok (JObj [("@id", JStr "x"); ("m", JStr "y")]) = false /\
  ok (JObj [("@id", JStr "x"); ("m", JInt 5); ("i", JObj [("a", JInt 1); ("zz", JNull)])]) = false /\
  ok (JObj [("@id", JStr "  "); ("m", JInt 5)]) = false /\
  ok (JObj [("@id", JStr "x"); ("m", JFloat "5.0"); ("@type", JInt 0); ("other", JNull)]) = true.
Proof. vm_compute. repeat split. Qed.

(** The premise [okpos] is needed: pydantic exports [List[Optional[int]]] as a list of
    integers, and a [None] inside a list is stored as [null]. *)
Example C20_optional_in_list_refuted :
  let t := TList (TOpt TInt) in
  let v := VList [VSome (VInt 1); VNone] in
  okpos t = false /\ wtb (norm_tab []) t v = true /\
  dump t v = JArr [JInt 1; JNull] /\
  jvalid (run_fmt false) run_pat (export t) (dump t v) = false.
Proof. vm_compute. repeat split. Qed.

(** The premise [juniq] is needed: as typed values [1] and [1.0] are different members of a
    [Set[Union[int, float]]]; as JSON values they are equal ([uniqueItems]). *)
Example C20_numeric_set_refuted :
  let t := TSet (TUnion [TInt; TFloat]) in
  let v := VSet [VUn 0 (VInt 1); VUn 1 (VFloat "1.0")] in
  wtb (norm_tab []) t v = true /\ juniq t v = false /\
  jvalid (run_fmt false) run_pat (export t) (dump t v) = false.
Proof. vm_compute. repeat split. Qed.

(** ** Container half *)

(** After every history of attach / detach / delete / copy / move / reopen on a fresh
    container: every attached object's schema [r] has its record - the environment's JSON
    Schema and parent chain - stored and reported ([schemas[r]], [parent_path]), the
    reported provider is the environment's provider, it is stored and lists [r] among its
    plugins; records exist only for schemas in use; packages only as providers of schemas
    in use. *)
Theorem C20_described : forall E ops, env_wf E ->
  let st := run E init ops in
  (forall l, In l (links st) ->
     rep_stored st (l_schema l) = Some (mksrec (e_json E (l_schema l)) (e_parents E (l_schema l))) /\
     rep_json st (l_schema l) = Some (e_json E (l_schema l)) /\
     rep_parents st (l_schema l) = Some (e_parents E (l_schema l)) /\
     rep_provider st (l_schema l) = Some (e_provider E (l_schema l)) /\
     In (pk_id (e_provider E (l_schema l)), e_provider E (l_schema l)) (pkgs st) /\
     kmem (l_schema l) (pk_plugins (e_provider E (l_schema l))) = true) /\
  (forall r, khas r (schemas st) = true -> inuse st r) /\
  (forall p m, In (p, m) (pkgs st) -> exists l, In l (links st) /\ m = e_provider E (l_schema l)).
Proof. exact described_run. Qed.
Print Assumptions C20_described.

(** The invariant behind it is preserved by every single operation (successful or
    refused), from any state satisfying it ... *)
Theorem C20_step_preserves : forall E st o, env_wf E -> Desc E st -> Desc E (fst (step E st o)).
Proof. exact desc_step. Qed.
Print Assumptions C20_step_preserves.

(** ... and registration never fails part-way ([h5py] refusing to overwrite a package
    info, [KeyError] for a package that does not list the schema). *)
Theorem C20_never_broken : forall E ops o, env_wf E ->
  snd (step E (run E init ops) o) <> SBroken.
Proof. exact never_broken_run. Qed.
Print Assumptions C20_never_broken.

(** What a freshly opened container reports = what was stored = what the live container
    reported = the environment's values. *)
Theorem C20_reopen_reports_same : forall E ops, env_wf E ->
  let st := run E init ops in
  links (load st) = links st /\ schemas (load st) = schemas st /\ pkgs (load st) = pkgs st /\
  (forall r, khas r (schemas st) = true ->
     rep_json (load st) r = rep_json st r /\ rep_parents (load st) r = rep_parents st r /\
     rep_provider (load st) r = rep_provider st r) /\
  (forall l, In l (links (load st)) ->
     rep_json (load st) (l_schema l) = Some (e_json E (l_schema l)) /\
     rep_parents (load st) (l_schema l) = Some (e_parents E (l_schema l)) /\
     rep_provider (load st) (l_schema l) = Some (e_provider E (l_schema l))).
Proof. exact reopen_run. Qed.
Print Assumptions C20_reopen_reports_same.

(** Opening does not depend on the order in which the stored schema records are listed
    (the drivers list the [schemas] group by record name): loading any permutation of the
    records reports the same JSON Schema, parent chain, provider and packages. *)
Theorem C20_load_order_irrelevant : forall E st sch, env_wf E -> Desc E st ->
  Permutation.Permutation (schemas st) sch ->
  pkgs (load (with_schemas st sch)) = pkgs (load st) /\
  forall r, khas r (schemas st) = true ->
    rep_json (load (with_schemas st sch)) r = rep_json (load st) r /\
    rep_parents (load (with_schemas st sch)) r = rep_parents (load st) r /\
    rep_provider (load (with_schemas st sch)) r = rep_provider (load st) r.
Proof. exact load_order_irrelevant. Qed.
Print Assumptions C20_load_order_irrelevant.

(** The pinned tree: [schemas.get(ref)] is [None] even for a schema in use (the demanded
    [rep_get] is [schemas[ref]]). *)
Theorem C20_get_pinned_refuted : exists st r,
  Desc solo_env st /\ inuse st r /\ rep_get st r = Some (e_json solo_env r) /\ rep_get_pinned st r = None.
Proof. exact rep_get_pinned_refuted. Qed.
Print Assumptions C20_get_pinned_refuted.

(** The environment premises are satisfiable. *)
Theorem C20_env_wf_inhabited : env_wf solo_env.
Proof. exact solo_env_wf. Qed.
Print Assumptions C20_env_wf_inhabited.

(** Non-vacuity: two packages, a three-level chain.  Attach a leaf and a base object,
    copy the group holding the leaf, detach the original leaf, delete the copy: the
    records follow the objects; the package of the leaf goes when its last schema goes. *)
Example C20_history :
  let pa := mkpkg ("pa", "1.0.0") "u" [("base", "0.1.0"); ("mid", "0.1.0")] in
  let pb := mkpkg ("pb", "2.0.0") "u" [("leaf", "0.1.0")] in
  let E := env_of [(("base", "0.1.0"), ("Jb", [("base", "0.1.0")], pa, true));
                   (("mid", "0.1.0"), ("Jm", [("base", "0.1.0"); ("mid", "0.1.0")], pa, true));
                   (("leaf", "0.1.0"), ("Jl", [("base", "0.1.0"); ("mid", "0.1.0"); ("leaf", "0.1.0")], pb, true))] in
  let leaf := ("leaf", "0.1.0") in
  let base := ("base", "0.1.0") in
  let st1 := run E init [OAttach ["g"] leaf; OAttach [] base] in
  let st2 := run E st1 [OCopy ["g"] ["h"]; ODetach ["g"] "leaf"] in
  let st3 := run E st2 [ODelete ["h"]; OReopen] in
  map fst (schemas st1) = [leaf; base] /\ map fst (pkgs st1) = [("pb", "2.0.0"); ("pa", "1.0.0")] /\
  rep_stored st1 leaf = Some (mksrec "Jl" [base; ("mid", "0.1.0"); leaf]) /\
  rep_parents st1 leaf = Some [base; ("mid", "0.1.0"); leaf] /\
  rep_parents st1 base = Some [base] /\
  rep_provider st1 leaf = Some pb /\ rep_provider st1 base = Some pa /\
  snd (step E st1 (OAttach ["g"] leaf)) = SRefused /\
  map (fun l => (l_node l, l_schema l)) (links st2) = [([], base); (["h"], leaf)] /\
  map fst (schemas st2) = [leaf; base] /\
  rep_provider (load st2) leaf = Some pb /\ rep_parents (load st2) leaf = rep_parents st2 leaf /\
  map fst (schemas st3) = [base] /\ map fst (pkgs st3) = [("pa", "1.0.0")] /\
  rep_json st3 leaf = None /\ rep_json st3 base = Some "Jb" /\ rep_provider st3 leaf = None.
Proof. vm_compute. repeat split. Qed.
