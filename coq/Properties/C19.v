(** Property C19 — directory hashsums identify directory content.
    This file holds only the property theorems; each is closed by [exact] of a lemma
    proved in [Util/DirHashProofs.v] and followed by [Print Assumptions].

    The hash function is abstract: a streaming interface [init]/[upd]/[fin] with
    [upd (upd s x) y = upd s (x ++ y)] and [upd s [] = s] (what [hashlib] objects do), and
    the standard digest [oneshot bs = fin (upd init bs)] is assumed injective on the compared
    payloads.  These are premises of the theorems, not axioms. *)
From Coq Require Import List String Ascii NArith Bool.
From MV Require Import Base.Sx Base.Cmp Util.DirHash Util.DirHashProofs Util.DirHashChain Util.DirHashChainProofs.
Import ListNotations.
Local Open Scope string_scope.

(** Two canonical directory trees without outside links get equal hashsum trees exactly when
    they are equal: same names, same file bytes, same normalised in-directory link targets,
    same (possibly empty) sub-directories.  Any depth, any size, any block size > 0. *)
Theorem C19_hashsums_inj :
  forall (state : Type) (init : state) (upd : state -> bytes -> state) (fin : state -> digest),
    (forall s x y, upd (upd s x) y = upd s (x ++ y)%list) ->
    (forall s, upd s [] = s) ->
    (forall x y, oneshot state init upd fin x = oneshot state init upd fin y -> x = y) ->
    forall n a t1 t2,
      n > 0 -> canonb t1 = true -> canonb t2 = true ->
      no_outsideb t1 = true -> no_outsideb t2 = true ->
      (dir_hashsums state init upd fin n a t1 = dir_hashsums state init upd fin n a t2
       <-> t1 = t2).
Proof. exact hashsums_inj. Qed.
Print Assumptions C19_hashsums_inj.

(** The same for directories whose entries are listed (created) in any order: the tables,
    compared as nested dictionaries ([hsort] = canonical order), are equal exactly when the
    directories have the same content ([tsort] = canonical order). *)
Theorem C19_hashsums_identify :
  forall (state : Type) (init : state) (upd : state -> bytes -> state) (fin : state -> digest),
    (forall s x y, upd (upd s x) y = upd s (x ++ y)%list) ->
    (forall s, upd s [] = s) ->
    (forall x y, oneshot state init upd fin x = oneshot state init upd fin y -> x = y) ->
    forall n a t1 t2,
      n > 0 -> wfb t1 = true -> wfb t2 = true ->
      no_outsideb t1 = true -> no_outsideb t2 = true ->
      (option_map hsort (dir_hashsums state init upd fin n a t1) =
       option_map hsort (dir_hashsums state init upd fin n a t2)
       <-> tsort t1 = tsort t2).
Proof. exact hashsums_identify. Qed.
Print Assumptions C19_hashsums_identify.

(** Listing / creation order never matters (no premise on the hash at all). *)
Theorem C19_order_indep :
  forall (state : Type) (init : state) (upd : state -> bytes -> state) (fin : state -> digest)
         n a t1 t2,
    tsort t1 = tsort t2 ->
    option_map hsort (dir_hashsums state init upd fin n a t1) =
    option_map hsort (dir_hashsums state init upd fin n a t2).
Proof. exact hashsums_order_indep. Qed.
Print Assumptions C19_order_indep.

(** A symlink leading outside, anywhere in the tree, makes the call fail — and nothing else does. *)
Theorem C19_outside_rejected :
  forall (state : Type) (init : state) (upd : state -> bytes -> state) (fin : state -> digest)
         n a t,
    no_outsideb t = false -> dir_hashsums state init upd fin n a t = None.
Proof. exact outside_rejected. Qed.
Print Assumptions C19_outside_rejected.

Theorem C19_rejected_iff :
  forall (state : Type) (init : state) (upd : state -> bytes -> state) (fin : state -> digest)
         n a t,
    dir_hashsums state init upd fin n a t = None <-> no_outsideb t = false.
Proof. exact rejected_iff. Qed.
Print Assumptions C19_rejected_iff.

(** The read loop feeds every byte exactly once and in order, for any block size;
    every block is non-empty and at most [n] long. *)
Theorem C19_chunks_concat :
  forall (X : Type) (n : nat) (l : list X), n > 0 -> List.concat (chunks n l) = l.
Proof. exact @chunks_concat. Qed.
Print Assumptions C19_chunks_concat.

Theorem C19_chunks_blocks :
  forall (X : Type) (n : nat) (l : list X),
    Forall (fun c => c <> [] /\ List.length c <= n) (chunks n l).
Proof. exact @chunks_blocks. Qed.
Print Assumptions C19_chunks_blocks.

(** Chunked digest = one-shot digest, for any block size and for any cutting of the stream. *)
Theorem C19_chunked_eq_oneshot :
  forall (state : Type) (init : state) (upd : state -> bytes -> state) (fin : state -> digest),
    (forall s x y, upd (upd s x) y = upd s (x ++ y)%list) ->
    (forall s, upd s [] = s) ->
    forall n bs, n > 0 -> hashsum state init upd fin n bs = oneshot state init upd fin bs.
Proof. exact hashsum_oneshot. Qed.
Print Assumptions C19_chunked_eq_oneshot.

Theorem C19_any_cut :
  forall (state : Type) (init : state) (upd : state -> bytes -> state) (fin : state -> digest),
    (forall s x y, upd (upd s x) y = upd s (x ++ y)%list) ->
    (forall s, upd s [] = s) ->
    forall cs bs, List.concat cs = bs ->
                  fin (fold_left upd cs init) = oneshot state init upd fin bs.
Proof. exact any_cut_oneshot. Qed.
Print Assumptions C19_any_cut.

Theorem C19_block_indep :
  forall (state : Type) (init : state) (upd : state -> bytes -> state) (fin : state -> digest),
    (forall s x y, upd (upd s x) y = upd s (x ++ y)%list) ->
    (forall s, upd s [] = s) ->
    forall n m a t, n > 0 -> m > 0 ->
      dir_hashsums state init upd fin n a t = dir_hashsums state init upd fin m a t.
Proof. exact dir_hashsums_block_indep. Qed.
Print Assumptions C19_block_indep.

(** File entries are the standard digest of the file bytes with the algorithm prefix;
    link entries are ["symlink:"] and the normalised target. *)
Theorem C19_file_entry_standard :
  forall (state : Type) (init : state) (upd : state -> bytes -> state) (fin : state -> digest),
    (forall s x y, upd (upd s x) y = upd s (x ++ y)%list) ->
    (forall s, upd s [] = s) ->
    forall n a bs, n > 0 ->
      dir_hashsums state init upd fin n a (File bs) =
      Some (HStr (alg_name a ++ ":" ++ oneshot state init upd fin bs)).
Proof. exact file_entry_std. Qed.
Print Assumptions C19_file_entry_standard.

Theorem C19_link_entry :
  forall (state : Type) (init : state) (upd : state -> bytes -> state) (fin : state -> digest)
         n a p,
    dir_hashsums state init upd fin n a (Link (In_ p)) =
    Some (HStr ("symlink:" ++ show_path p)).
Proof. exact link_entry. Qed.
Print Assumptions C19_link_entry.

(** A qualified digest is never mistaken for a symlink entry; printed targets are unambiguous. *)
Theorem C19_prefix_distinct : forall a d x, qualified a d <> symlink_prefix ++ x.
Proof. exact prefix_distinct. Qed.
Print Assumptions C19_prefix_distinct.

Theorem C19_show_path_inj : forall p q,
  forallb valid_seg p = true -> forallb valid_seg q = true -> show_path p = show_path q -> p = q.
Proof. exact show_path_inj. Qed.
Print Assumptions C19_show_path_inj.

(** [rel_symlink]: "inside, at p" iff the normalised joined path is base ++ p; the answer
    consists of valid segments; normalised targets are left alone. *)
Theorem C19_rel_symlink_spec : forall base linkdir ab segs p,
  rel_symlink base linkdir ab segs = In_ p <->
  norm_segs [] (joined base linkdir ab segs) = (base ++ p)%list.
Proof. exact rel_symlink_in. Qed.
Print Assumptions C19_rel_symlink_spec.

Theorem C19_rel_symlink_normal : forall base linkdir p,
  forallb valid_seg base = true -> forallb valid_seg linkdir = true ->
  forallb valid_seg p = true ->
  rel_symlink base linkdir false p = In_ (linkdir ++ p).
Proof. exact rel_symlink_normal. Qed.
Print Assumptions C19_rel_symlink_normal.

Theorem C19_normalise_links_ok : forall base,
  forallb no_slash base = true ->
  forall t rme, forallb no_slash rme = true -> raw_okb t = true ->
  links_okb (normalise base rme t) = true.
Proof. exact normalise_links_ok. Qed.
Print Assumptions C19_normalise_links_ok.

(** The very function the runner executes (hash = "accumulate and print the bytes", for which
    the harness substitutes real digests) has the property without any premise. *)
Theorem C19_runner_instance : forall n a t1 t2,
  n > 0 -> canonb t1 = true -> canonb t2 = true ->
  no_outsideb t1 = true -> no_outsideb t2 = true ->
  (dir_hashsums_id n a t1 = dir_hashsums_id n a t2 <-> t1 = t2).
Proof. exact hashsums_inj_id. Qed.
Print Assumptions C19_runner_instance.

(** The pinned case split ([is_file()] asked before [is_symlink()]) breaks the property for
    every hash function: a file and a link to an equal file are confused, and an outside
    link to a regular file is accepted. *)
Theorem C19_pinned_refuted :
  forall (state : Type) (init : state) (upd : state -> bytes -> state) (fin : state -> digest)
         n a,
  exists t1 t2,
    canonb t1 = true /\ canonb t2 = true /\ no_outsideb t1 = true /\ no_outsideb t2 = true /\
    t1 <> t2 /\
    hs_pinned state init upd fin (look_in None t1) n a t1 =
    hs_pinned state init upd fin (look_in None t2) n a t2.
Proof. exact hs_pinned_refuted. Qed.
Print Assumptions C19_pinned_refuted.

Theorem C19_pinned_accepts_outside :
  forall (state : Type) (init : state) (upd : state -> bytes -> state) (fin : state -> digest)
         n a,
  exists t ext,
    no_outsideb t = false /\ hs_pinned state init upd fin (look_in ext t) n a t <> None.
Proof. exact hs_pinned_accepts_outside. Qed.
Print Assumptions C19_pinned_accepts_outside.

(** Non-vacuity: a canonical tree with nested and empty directories, files and links meets
    the premises; a one-byte edit, a retargeted link and a file replaced by a link to an
    equal file all change the result; an outside link is rejected. *)
Definition ex_tree (c : string) (tg : list string) (g : fstree) : fstree :=
  Dir [("a", File (list_ascii_of_string c));
       ("d", Dir [("e", Dir []); ("l", Link (In_ tg)); ("x", File (list_ascii_of_string "same"))]);
       ("g", g);
       ("x", File (list_ascii_of_string "same"))].

Example C19_nonvacuous :
  let t0 := ex_tree "hello" ["x"] (File (list_ascii_of_string "same")) in
  let t1 := ex_tree "hellp" ["x"] (File (list_ascii_of_string "same")) in
  let t2 := ex_tree "hello" ["d"; "x"] (File (list_ascii_of_string "same")) in
  let t3 := ex_tree "hello" ["x"] (Link (In_ ["x"])) in
  canonb t0 = true /\ canonb t1 = true /\ canonb t2 = true /\ canonb t3 = true /\
  no_outsideb t0 = true /\ no_outsideb t3 = true /\
  dir_hashsums_id 2 Sha256 t0 <> dir_hashsums_id 2 Sha256 t1 /\
  dir_hashsums_id 2 Sha256 t0 <> dir_hashsums_id 2 Sha256 t2 /\
  dir_hashsums_id 2 Sha256 t0 <> dir_hashsums_id 2 Sha256 t3 /\
  dir_hashsums_id 2 Sha256 t0 = dir_hashsums_id 64 Sha256 t0 /\
  dir_hashsums_id 2 Sha256 (ex_tree "hello" ["x"] (Link Outside)) = None.
Proof. vm_compute. repeat split; discriminate. Qed.

Example C19_nonvacuous_order :
  let t := Dir [("b", File []); ("a", Dir [("z", Link (In_ [])); ("y", Dir [])])] in
  wfb t = true /\ canonb t = false /\ canonb (tsort t) = true /\
  option_map hsort (dir_hashsums_id 64 Sha512 t) = dir_hashsums_id 64 Sha512 (tsort t).
Proof. vm_compute. repeat split. Qed.

Example C19_nonvacuous_chunks :
  chunks 4 (list_ascii_of_string "hello world") =
  map list_ascii_of_string ["hell"; "o wo"; "rld"] /\
  rel_symlink ["W"; "c"] ["sub"] false [".."; ".."; "c"; "."; "f"] = In_ ["f"] /\
  rel_symlink ["W"; "c"] ["sub"] false [".."; ".."; "o"; "f"] = Outside /\
  rel_symlink ["W"; "c"] [] true [""; "W"; "c"; "sub"; ""] = In_ ["sub"].
Proof. vm_compute. repeat split. Qed.

(** ** Symlink chains (links to links, link texts through symlinked directories, loops).
    [Util/DirHashChain.v] transcribes [posixpath._joinrealpath] as run by [Path.resolve]; the
    world is one raw tree rooted at "/", so links outside the hashed directory take part. *)

(** With chains the code identifies directories by names, file bytes, sub-directories and the
    FINAL (fully resolved) targets of their links: [final_tree] replaces every link by where
    its chain ends.  This is weaker than comparing link TEXTS: see [C19_chain_observation]. *)
Theorem C19_chain_identify :
  forall (state : Type) (init : state) (upd : state -> bytes -> state) (fin : state -> digest),
    (forall s x y, upd (upd s x) y = upd s (x ++ y)%list) ->
    (forall s, upd s [] = s) ->
    (forall x y, oneshot state init upd fin x = oneshot state init upd fin y -> x = y) ->
    forall n a w1 f1 b1 w2 f2 b2,
      n > 0 ->
      wfb (final_tree w1 f1 b1) = true -> wfb (final_tree w2 f2 b2) = true ->
      no_outsideb (final_tree w1 f1 b1) = true -> no_outsideb (final_tree w2 f2 b2) = true ->
      (option_map hsort (dir_hashsums_c state init upd fin n a w1 f1 b1) =
       option_map hsort (dir_hashsums_c state init upd fin n a w2 f2 b2)
       <-> tsort (final_tree w1 f1 b1) = tsort (final_tree w2 f2 b2)).
Proof. exact chain_identify. Qed.
Print Assumptions C19_chain_identify.

(** When the walk meets no loop, the path recorded for a link is where its chain ENDS: it is
    the resolved path and no prefix of it is a symlink (given that the link's own directory is
    physical, which [rglob] guarantees). *)
Theorem C19_chain_resolution : forall w fuel base linkdir ab segs cur p,
  physb w (rev (base ++ linkdir)%list) = true ->
  resolve_raw w fuel base linkdir ab segs = ROk cur ->
  rel_symlink_c w fuel base linkdir ab segs = In_ p ->
  rev cur = (base ++ p)%list /\ physb w cur = true.
Proof. exact rel_symlink_c_final. Qed.
Print Assumptions C19_chain_resolution.

(** Recorded targets are normalised paths also in the loop case (lexically collapsed path). *)
Theorem C19_chain_target_valid : forall w fuel base linkdir ab segs p,
  world_okb w = true -> forallb valid_seg base = true -> forallb valid_seg linkdir = true ->
  forallb no_slash segs = true ->
  rel_symlink_c w fuel base linkdir ab segs = In_ p -> forallb valid_seg p = true.
Proof. exact rel_symlink_c_valid. Qed.
Print Assumptions C19_chain_target_valid.

Theorem C19_resolve_physical : forall w fuel stk cur segs cur',
  physb w cur = true -> resolve w fuel stk cur segs = ROk cur' -> physb w cur' = true.
Proof. exact resolve_phys. Qed.
Print Assumptions C19_resolve_physical.

(** The call is rejected exactly when some link of the directory does not END below the base:
    its chain ends outside, loops with ELOOP, or (model artefact) runs out of fuel.  Hops outside
    that come back in are accepted. *)
Theorem C19_chain_rejected_iff :
  forall (state : Type) (init : state) (upd : state -> bytes -> state) (fin : state -> digest)
         n a w fuel base,
    dir_hashsums_c state init upd fin n a w fuel base = None <->
    any_link (ends_outside base) w fuel base [] (base_tree w base) = true.
Proof. exact chain_rejected_iff. Qed.
Print Assumptions C19_chain_rejected_iff.

(** Recorded targets are normalised paths (premise [links_okb] of the injectivity proof). *)
Theorem C19_chain_links_ok : forall w fuel base,
  world_okb w = true -> forallb valid_seg base = true ->
  forall t rme, forallb valid_seg rme = true -> raw_okb t = true ->
  links_okb (cnormalise w fuel base rme t) = true.
Proof. exact cnormalise_links_ok. Qed.
Print Assumptions C19_chain_links_ok.

(** Where the walk meets no symlink the extended resolution is the lexical normalisation of
    the chain-free model, so the theorems above specialise to the earlier ones. *)
Theorem C19_chain_free_agrees : forall w fuel base linkdir (ab : bool) segs,
  forallb valid_seg (base ++ linkdir)%list = true ->
  nolink_walk w (if ab then @nil string else rev (base ++ linkdir)%list) segs = true ->
  List.length segs < fuel ->
  rel_symlink_c w fuel base linkdir ab segs = rel_symlink base linkdir ab segs.
Proof. exact rel_symlink_c_agrees. Qed.
Print Assumptions C19_chain_free_agrees.

(** Worked cases (world rooted at "/", hashed directory /W/b). *)
Definition ex_world (es : list (string * rtree)) (outside : list (string * rtree)) : rtree :=
  RDir [("W", RDir (("b", RDir es) :: outside))].
Definition fileX : rtree := RFile (list_ascii_of_string "x").

(** OBSERVATION (what the code identifies): [l2 -> l1 -> f] and [l2 -> f] are different
    directories as far as link texts go, but they have the same final targets and hence the
    same hashsum tree.  "The same in-directory symlink targets" in the property statement is
    therefore to be read as "the same resolved targets". *)
Example C19_chain_observation :
  let w1 := ex_world [("f", fileX); ("l1", RLink false ["f"]); ("l2", RLink false ["l1"])] [] in
  let w2 := ex_world [("f", fileX); ("l1", RLink false ["f"]); ("l2", RLink false ["f"])] [] in
  base_tree w1 ["W"; "b"] <> base_tree w2 ["W"; "b"] /\
  final_tree w1 50 ["W"; "b"] = final_tree w2 50 ["W"; "b"] /\
  dir_hashsums_id 64 Sha256 (final_tree w1 50 ["W"; "b"]) =
  Some (HDir [("f", HStr "sha256:x"); ("l1", HStr "symlink:f"); ("l2", HStr "symlink:f")]).
Proof. vm_compute. repeat split. discriminate. Qed.

Example C19_chain_cases :
  let b := ["W"; "b"] in
  let sub := ("sub", RDir [("deep", RDir []); ("g", fileX); ("up", RLink false [".."])]) in
  (* through a symlinked directory the walk is physical, not lexical: ld -> sub/deep, ld/../g *)
  rel_symlink_c (ex_world [sub; ("ld", RLink false ["sub"; "deep"]); ("t", RLink false ["ld"; ".."; "g"])] [])
                50 b [] false ["ld"; ".."; "g"] = In_ ["sub"; "g"] /\
  rel_symlink b [] false ["ld"; ".."; "g"] = In_ ["g"] /\
  (* a chain that leaves the directory and comes back through a link lying outside *)
  rel_symlink_c (ex_world [sub] [("back", RLink false ["b"; "sub"])]) 50 b [] false [".."; "back"; "g"]
    = In_ ["sub"; "g"] /\
  (* a chain that ends outside, two hops *)
  rel_symlink_c (ex_world [sub; ("l1", RLink false [".."; "o"])] [("o", RLink true [""; "etc"])])
                50 b [] false ["l1"; "passwd"] = Outside /\
  (* loops: direct, mutual, through a parent step *)
  resolve_link (ex_world [("a", RLink false ["a"])] []) 50 b [] false ["a"] = FLoop /\
  resolve_link (ex_world [("a", RLink false ["c"]); ("c", RLink false ["a"])] []) 50 b [] false ["c"] = FLoop /\
  resolve_link (ex_world [("x", RLink false ["y"; "z"]); ("y", RLink false ["x"; ".."])] []) 50 b [] false ["y"; "z"] = FLoop /\
  (* OBSERVATION (CPython): non-strict realpath returns the unresolved path on a loop and abspath
     collapses ".." lexically; when that removes the looping link, stat sees no ELOOP, nothing
     is raised and a lexical path is recorded: a -> a/../f gives "f", a -> a/../f/zz gives "f/f/zz" *)
  resolve_raw (ex_world [("f", fileX); ("a", RLink false ["a"; ".."; "f"])] []) 50 b [] false ["a"; ".."; "f"]
    = RLoop ["W"; "b"; "a"; ".."; "f"; ".."; "f"] /\
  rel_symlink_c (ex_world [("f", fileX); ("a", RLink false ["a"; ".."; "f"])] []) 50 b [] false ["a"; ".."; "f"]
    = In_ ["f"] /\
  rel_symlink_c (ex_world [("f", fileX); ("a", RLink false ["a"; ".."; "f"; "zz"])] []) 50 b [] false ["a"; ".."; "f"; "zz"]
    = In_ ["f"; "f"; "zz"] /\
  (* ... unless the collapsed path runs into a loop again *)
  resolve_link (ex_world [("k", RLink false ["k"]); ("a", RLink false ["a"; ".."; "k"])] []) 50 b [] false ["a"; ".."; "k"]
    = FLoop /\
  (* the same link passed several times is not a loop *)
  rel_symlink_c (ex_world [sub] []) 50 b [] false ["sub"; "up"; "sub"; "up"; "sub"; "g"] = In_ ["sub"; "g"] /\
  (* a dangling end of a chain is recorded as it stands *)
  rel_symlink_c (ex_world [("l9", RLink false ["nowhere"])] []) 50 b [] false ["l9"] = In_ ["nowhere"] /\
  (* too little fuel is reported as such, never as a loop *)
  resolve_link (ex_world [sub] []) 2 b [] false ["sub"; "up"; "sub"; "g"] = FFuel.
Proof. vm_compute. repeat split. Qed.
